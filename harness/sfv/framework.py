"""The uniform check (DESIGN §2.4):
translate -> build -> audit -> correspondence + monitor -> (search) -> decide -> evidence."""
from __future__ import annotations

import contextlib
import fcntl
import hashlib
import json
import os
import random
import re
import shutil
import subprocess
import sys
import tempfile
import time
import traceback
from dataclasses import dataclass, field
from typing import Any, Callable

ROOT = os.path.dirname(os.path.dirname(os.path.dirname(os.path.abspath(__file__))))
LEAN = os.path.join(ROOT, "lean")
REPO = os.environ.get("SFV_REPO", "/repo")
EVIDENCE = os.path.join(ROOT, "evidence")
REPLAYS = os.path.join(EVIDENCE, "replays")
CORPUS = os.path.join(ROOT, "corpus")
ALLOWED_AXIOMS = {"propext", "Classical.choice", "Quot.sound"}
FORBIDDEN = re.compile(r"sorry|admit|^axiom |native_decide|bv_decide|implemented_by|unsafe |maxHeartbeats 0", re.M)

TRUSTED_COMMON = [
    "Lean 4.33.0 kernel (lake build); every property theorem's axioms are audited to be within "
    "{propext, Classical.choice, Quot.sound}; no sorry/admit/axiom/native_decide/bv_decide (grep on every run)",
    "correspondence check (harness/sfv): differential sampling of the hand-written model against the real code; "
    "it bounds model drift, it is not a proof",
    "CPython 3.12 semantics of the built-ins the modelled functions use",
]


class Inconclusive(Exception):
    """infrastructure problem (time-out, tool failure): exit 2, neither pass nor violation"""


@dataclass
class Broken:
    """a proof obligation, extractor or correspondence that no longer checks"""
    stage: str          # translate | build | audit | correspondence
    what: str           # theorem / extractor / correspondence name
    detail: str
    case: Any = None    # the disagreeing input, when stage == correspondence


@dataclass
class Failure:
    """the property itself fails on the real code at a concrete input"""
    key: str            # classification used to match known findings
    detail: str
    replay: Any


@dataclass
class Ctx:
    pid: str
    tier: str
    seed: int
    rng: random.Random
    scratch: str
    deadline: float
    mode: str = "check"            # check | search | replay
    evaluations: int = 0
    nontrivial: set = field(default_factory=set)
    samples: list = field(default_factory=list)
    histogram: dict = field(default_factory=dict)
    broken: list = field(default_factory=list)
    failures: list = field(default_factory=list)
    fail_counts: dict = field(default_factory=dict)
    model_cases: int = 0
    corpus_replayed: int = 0
    notes: list = field(default_factory=list)
    extra: dict = field(default_factory=dict)

    # ---- bookkeeping ---------------------------------------------------------------------------
    def case(self, sample: Any, nontrivial_key: Any = None, bucket: str | None = None) -> None:
        """count one explored case; `nontrivial_key` (hashable, None = trivial) identifies distinct cases"""
        self.evaluations += 1
        if nontrivial_key is not None:
            self.nontrivial.add(hashlib.sha1(repr(nontrivial_key).encode()).hexdigest()[:16])
        if bucket is not None:
            self.histogram[bucket] = self.histogram.get(bucket, 0) + 1
        if len(self.samples) < 6 or (self.evaluations % 997 == 0 and len(self.samples) < 12):
            self.samples.append(sample)

    def count(self, bucket: str, n: int = 1) -> None:
        self.histogram[bucket] = self.histogram.get(bucket, 0) + n

    def disagree(self, what: str, detail: str, case: Any) -> None:
        if len(self.broken) < 50:
            self.broken.append(Broken("correspondence", what, detail, case))

    def fail(self, key: str, detail: str, replay: Any) -> None:
        # keep at most a few witnesses per key (known findings hit on every run must never crowd out a new key)
        n = self.fail_counts.get(key, 0) + 1
        self.fail_counts[key] = n
        if n <= 8 and len(self.failures) < 4000:
            self.failures.append(Failure(key, detail, replay))

    def time_left(self) -> float:
        return self.deadline - time.time()

    def out_of_time(self) -> bool:
        return time.time() > self.deadline

    # ---- the Lean model behind the line protocol -----------------------------------------------
    def lean(self, driver: str, lines: list[str], timeout: float = 600) -> list[str]:
        """run `lake env lean --run <driver>` on the lines; one output line per input line"""
        if not lines:
            return []
        for ln in lines:
            if "\n" in ln:
                raise ValueError("newline inside a protocol line")
        inp = "\n".join(lines) + "\n"
        t0 = time.time()
        try:
            p = subprocess.run(
                ["lake", "env", "lean", "--run", driver], cwd=LEAN, input=inp, capture_output=True,
                text=True, timeout=timeout,
            )
        except subprocess.TimeoutExpired as e:
            raise Inconclusive(f"model driver {driver} timed out after {timeout}s") from e
        out = p.stdout.split("\n")
        if out and out[-1] == "":
            out.pop()
        if p.returncode != 0 or len(out) != len(lines):
            raise DriverError(
                f"driver {driver}: exit {p.returncode}, {len(out)} output lines for {len(lines)} inputs; "
                f"stderr: {p.stderr[-2000:]}"
            )
        self.model_cases += len(lines)
        self.extra["driver_s"] = round(self.extra.get("driver_s", 0) + time.time() - t0, 2)
        return out


class DriverError(Exception):
    pass


class Property:
    """Base class of a property check. Subclasses set the attributes and implement `explore`."""
    pid = ""
    title = ""
    lean_targets: list[str] = []          # lake build targets (modules)
    props_files: list[str] = []           # files whose theorems are the obligations
    drivers: list[str] = []
    translators: list[Callable[[str], tuple[str, str]]] = []
    trusted_base: list[str] = []
    assumptions: list[str] = []
    rule = ""
    quick_budget_s = 240
    thorough_budget_s = 1500
    min_nontrivial = 2

    def explore(self, ctx: Ctx) -> None:
        """Run the real code (and the model) on generated cases. ctx.mode is `check` (every run) or
        `search` (a tie is broken: look harder for an input on which the property fails)."""
        raise NotImplementedError

    def replay(self, ctx: Ctx, data: Any) -> None:
        """re-run one recorded case on the real code and on the model, printing both"""
        print(json.dumps(data, indent=1))
        print("(no property-specific replay implemented; the recorded case is printed above)")


# ------------------------------------------------------------------------------------------------
# known findings
# ------------------------------------------------------------------------------------------------
def load_known_findings(pid: str) -> tuple[dict[str, dict], list[dict]]:
    open_, fixed = {}, []
    import glob
    paths = [os.path.join(ROOT, "known_findings.jsonl")] + sorted(glob.glob(os.path.join(ROOT, "known_findings.d", "*.jsonl")))
    for path in paths:
        if not os.path.exists(path):
            continue
        for line in open(path):
            line = line.strip()
            if not line or line.startswith("#"):
                continue
            rec = json.loads(line)
            if pid not in rec.get("properties", [rec.get("property")]):
                continue
            if rec.get("status") == "fixed":
                fixed.append(rec)
            else:
                open_[rec["key"]] = rec
    return open_, fixed


# ------------------------------------------------------------------------------------------------
# Lean: translate, build, audit
# ------------------------------------------------------------------------------------------------
@contextlib.contextmanager
def lake_lock():
    os.makedirs(os.path.join(LEAN, ".lake"), exist_ok=True)
    with open(os.path.join(LEAN, ".lake", "sfv.lock"), "w") as f:
        fcntl.flock(f, fcntl.LOCK_EX)
        try:
            yield
        finally:
            fcntl.flock(f, fcntl.LOCK_UN)


def run_translators(prop: Property, broken: list[Broken]) -> list[str]:
    from sfv.translate.expr import TranslateError

    written = []
    for tr in prop.translators:
        name = f"{tr.__module__.split('.')[-1]}.{tr.__name__}"
        try:
            rel, text = tr(REPO)
        except TranslateError as e:
            broken.append(Broken("translate", name, f"extractor no longer finds the expected shape: {e}"))
            continue
        except Exception as e:  # noqa: BLE001
            broken.append(Broken("translate", name, f"extractor crashed: {e!r}"))
            continue
        path = os.path.join(LEAN, rel)
        old = open(path).read() if os.path.exists(path) else None
        if old != text:
            os.makedirs(os.path.dirname(path), exist_ok=True)
            with open(path, "w") as f:
                f.write(text)
        written.append(rel)
    return written


_ERR = re.compile(r"^error: (\S+?\.lean):(\d+):(\d+): (.*)$")


def theorem_at(path: str, line: int) -> str:
    """name of the theorem/def enclosing `line` of a Lean file"""
    name, ns = "?", ""
    try:
        for i, ln in enumerate(open(path), 1):
            if i > line:
                break
            m = re.match(r"^namespace (\S+)", ln)
            if m:
                ns = m.group(1)
            m = re.match(r"^\s*(?:private |protected )?(theorem|lemma|def|example|instance|abbrev)\s*(\S*)", ln)
            if m:
                name = f"{m.group(1)} {ns + '.' if ns and m.group(2) else ''}{m.group(2)}".strip()
    except OSError:
        pass
    return name


def lake_build(targets: list[str], broken: list[Broken], timeout: float = 1500) -> str:
    try:
        p = subprocess.run(["lake", "build", *targets], cwd=LEAN, capture_output=True, text=True, timeout=timeout)
    except subprocess.TimeoutExpired as e:
        raise Inconclusive(f"lake build timed out after {timeout}s") from e
    log = p.stdout + p.stderr
    if p.returncode != 0:
        seen = set()
        for ln in log.split("\n"):
            m = _ERR.match(ln)
            if m:
                f, line = m.group(1), int(m.group(2))
                thm = theorem_at(os.path.join(LEAN, f), line)
                if (f, thm) not in seen:
                    seen.add((f, thm))
                    broken.append(Broken("build", f"{f}: {thm}", f"line {line}: {m.group(4)}"))
        if not seen:
            broken.append(Broken("build", "lake build", log[-1500:]))
    return log


def props_theorems(rel: str) -> list[str]:
    """fully qualified names of the theorems stated in a property file"""
    ns, out = [], []
    for ln in open(os.path.join(LEAN, rel)):
        m = re.match(r"^namespace (\S+)", ln)
        if m:
            ns.append(m.group(1))
        m = re.match(r"^end (\S+)", ln)
        if m and ns and ns[-1] == m.group(1):
            ns.pop()
        m = re.match(r"^theorem (\S+)", ln)
        if m:
            out.append(".".join(ns + [m.group(1)]))
    return out


def audit(prop: Property, broken: list[Broken], scratch: str) -> dict:
    """grep for forbidden constructs and `#print axioms` on every property theorem"""
    res = {"theorems": [], "axioms": [], "examples": 0}
    # 1. grep (comments stripped)
    for base, _, files in os.walk(os.path.join(LEAN, "SFV")):
        for fn in files:
            if not fn.endswith(".lean"):
                continue
            path = os.path.join(base, fn)
            text = open(path).read()
            text = re.sub(r"/-.*?-/", "", text, flags=re.S)
            text = re.sub(r"--.*", "", text)
            m = FORBIDDEN.search(text)
            if m:
                broken.append(Broken("audit", os.path.relpath(path, LEAN), f"forbidden construct `{m.group(0)}`"))
    # 2. axioms
    thms = []
    for rel in prop.props_files:
        thms += props_theorems(rel)
        res["examples"] += len(re.findall(r"^example", open(os.path.join(LEAN, rel)).read(), flags=re.M))
    if not thms:
        broken.append(Broken("audit", "props", "no theorem found in the property files"))
        return res
    mods = sorted({rel[:-5].replace("/", ".") for rel in prop.props_files})
    src = "".join(f"import {m}\n" for m in mods) + "".join(f"#print axioms {t}\n" for t in thms)
    fn = os.path.join(scratch, "Audit.lean")
    with open(fn, "w") as f:
        f.write(src)
    p = subprocess.run(["lake", "env", "lean", fn], cwd=LEAN, capture_output=True, text=True, timeout=600)
    out = p.stdout + p.stderr
    flat = re.sub(r"\s+", " ", out)
    axioms_seen = set()
    for t in thms:
        m = re.search(re.escape(f"'{t}'") + r" (depends on axioms: \[([^\]]*)\]|does not depend on any axioms)", flat)
        if not m:
            broken.append(Broken("audit", t, f"`#print axioms` gave no answer: {out[-400:]}"))
            continue
        axs = {a.strip() for a in (m.group(2) or "").split(",") if a.strip()}
        axioms_seen |= axs
        bad = axs - ALLOWED_AXIOMS
        if bad:
            broken.append(Broken("audit", t, f"depends on non-standard axioms {sorted(bad)}"))
        else:
            res["theorems"].append(t)
    res["axioms"] = sorted(axioms_seen)
    res["all"] = thms
    return res


# ------------------------------------------------------------------------------------------------
# main flow
# ------------------------------------------------------------------------------------------------
def write_replay(pid: str, n: int, payload: dict) -> str:
    os.makedirs(REPLAYS, exist_ok=True)
    path = os.path.join(REPLAYS, f"{pid}-{n}.json")
    with open(path, "w") as f:
        json.dump(payload, f, indent=1, default=repr)
    return path


def run_check(prop: Property, tier: str, seed: int) -> int:
    t0 = time.time()
    budget = prop.quick_budget_s if tier == "quick" else prop.thorough_budget_s
    scratch = tempfile.mkdtemp(prefix=f"sfv-{prop.pid}-")
    ctx = Ctx(prop.pid, tier, seed, random.Random(seed), scratch, t0 + budget)
    broken: list[Broken] = []
    status = 2
    aud = {"theorems": [], "axioms": [], "all": [], "examples": 0}
    try:
        # old replays of this property are stale
        if os.path.isdir(REPLAYS):
            for fn in os.listdir(REPLAYS):
                if fn.startswith(prop.pid + "-"):
                    os.unlink(os.path.join(REPLAYS, fn))
        with lake_lock():
            gen = run_translators(prop, broken)
            log = lake_build(prop.lean_targets, broken)
            build_ok = not any(b.stage == "build" for b in broken)
            if build_ok:
                aud = audit(prop, broken, scratch)
                if tier == "thorough":
                    mods = sorted({rel[:-5].replace("/", ".") for rel in prop.props_files})
                    try:
                        p = subprocess.run(["lake", "env", "leanchecker", *mods], cwd=LEAN, capture_output=True,
                                           text=True, timeout=900)
                        ctx.extra["leanchecker"] = "ok" if p.returncode == 0 else "FAILED"
                        if p.returncode != 0:
                            broken.append(Broken("audit", "leanchecker", (p.stdout + p.stderr)[-800:]))
                    except subprocess.TimeoutExpired:
                        ctx.extra["leanchecker"] = "timeout (not counted)"
        ctx.extra["generated"] = gen
        ctx.extra["build_s"] = round(time.time() - t0, 1)
        # correspondence + monitor on the real code. The process works inside the scratch directory: commands the
        # real code runs through `sh -c` (e.g. witnesses of unquoted redirections) must not litter /verif.
        os.makedirs(os.path.join(scratch, "cwd"), exist_ok=True)
        os.chdir(os.path.join(scratch, "cwd"))
        try:
            prop.explore(ctx)
        except DriverError as e:
            if build_ok:
                ctx.broken.append(Broken("correspondence", "model driver", str(e)))
            else:
                ctx.notes.append("model driver unavailable (build broken); real-code monitor only")
        broken += ctx.broken
        open_findings, fixed = load_known_findings(prop.pid)
        unknown = [f for f in ctx.failures if f.key not in open_findings]
        if broken and not unknown:
            # a tie is broken: look for a concrete failing input on the real code
            ctx.mode = "search"
            ctx.deadline = max(ctx.deadline, time.time() + budget / 2)
            n0 = len(ctx.broken)
            try:
                prop.explore(ctx)
            except DriverError:
                pass
            for b in ctx.broken[n0:]:
                broken.append(b)
            unknown = [f for f in ctx.failures if f.key not in open_findings]
        known_hit = {}
        for f in ctx.failures:
            if f.key in open_findings:
                known_hit.setdefault(f.key, []).append(f)
        for key, fs in known_hit.items():
            print(f"KNOWN-FINDING: property={prop.pid} {open_findings[key]['line']} [{ctx.fail_counts.get(key, len(fs))} case(s) this run]")
        violations = 0
        if unknown:
            seen = set()
            for f in unknown:
                if f.key in seen:
                    continue
                seen.add(f.key)
                violations += 1
                path = write_replay(prop.pid, violations, {
                    "property": prop.pid, "kind": "failing-input", "key": f.key, "detail": f.detail,
                    "replay": f.replay, "seed": seed, "tier": tier,
                    "broken": [b.__dict__ for b in broken][:10]})
                print(f"VIOLATION property={prop.pid} replay={path}")
            status = 1
        elif broken:
            violations = 1
            path = write_replay(prop.pid, 1, {
                "property": prop.pid, "kind": "broken-tie",
                "no_longer_checks": [b.__dict__ for b in broken][:20],
                "searched": {"evaluations": ctx.evaluations, "mode": "search", "seed": seed},
                "note": "no input on which the property fails was found on the real code; the property is no longer "
                        "shown to hold because the listed theorem / extractor / correspondence does not check"})
            for b in broken[:8]:
                print(f"  broken[{b.stage}] {b.what}: {b.detail[:300]}")
            print(f"VIOLATION property={prop.pid} replay={path} no-failing-input-found")
            status = 1
        else:
            status = 0
        if status == 0 and len(ctx.nontrivial) < prop.min_nontrivial:
            print(f"INCONCLUSIVE property={prop.pid}: only {len(ctx.nontrivial)} distinct non-trivial cases")
            status = 2
        if status == 0 and ctx.out_of_time() and ctx.extra.get("incomplete"):
            print(f"INCONCLUSIVE property={prop.pid}: budget exhausted before the planned cases were run")
            status = 2
        obligations = len(aud.get("all", [])) or len([t for rel in prop.props_files for t in props_theorems(rel)])
        discharged = len(aud["theorems"]) if not any(b.stage in ("build", "translate") for b in broken) else 0
        evidence = {
            "property_id": prop.pid, "tier": tier, "seed": seed, "level": "proof",
            "coverage": {
                "obligations": obligations, "discharged": discharged,
                "checker_cmd": f"cd lean && lake build {' '.join(prop.lean_targets)} && #print axioms on each theorem of "
                               f"{', '.join(prop.props_files)}" + (" && lake env leanchecker" if tier == "thorough" else ""),
                "trusted_base": TRUSTED_COMMON + prop.trusted_base,
                "theorems": aud.get("all", []), "axioms": aud["axioms"], "non_vacuity_examples": aud["examples"],
                "evaluations": ctx.evaluations, "distinct_nontrivial": len(ctx.nontrivial), "rule": prop.rule,
                "samples": ctx.samples[:12] or ["(none)"],
                "correspondence": {"model_lines": ctx.model_cases, "disagreements": len([b for b in broken if b.stage == "correspondence"]),
                                   "histogram": ctx.histogram, "corpus_replayed": ctx.corpus_replayed},
                "property_failures_on_real_code": sum(ctx.fail_counts.values()) or len(ctx.failures),
                "known_findings_hit": sorted(known_hit), "fixed_findings": [r.get("line") for r in fixed],
                "broken": [f"{b.stage}: {b.what}" for b in broken][:20],
                "notes": ctx.notes, **ctx.extra,
            },
            "assumptions": prop.assumptions, "wall_s": round(time.time() - t0, 2), "violations": violations,
        }
        os.makedirs(EVIDENCE, exist_ok=True)
        with open(os.path.join(EVIDENCE, f"{prop.pid}.json"), "w") as f:
            json.dump(evidence, f, indent=1, default=repr)
        print(f"{prop.pid} {tier} seed={seed}: obligations {discharged}/{obligations}, cases {ctx.evaluations} "
              f"({len(ctx.nontrivial)} distinct non-trivial), model lines {ctx.model_cases}, "
              f"failures {len(ctx.failures)} (known {sum(len(v) for v in known_hit.values())}), "
              f"broken {len(broken)}, {time.time() - t0:.1f}s -> exit {status}")
        return status
    except Inconclusive as e:
        print(f"INCONCLUSIVE property={prop.pid}: {e}")
        return 2
    except Exception:  # noqa: BLE001
        traceback.print_exc()
        print(f"INCONCLUSIVE property={prop.pid}: harness error")
        return 2
    finally:
        os.chdir(ROOT)
        shutil.rmtree(scratch, ignore_errors=True)


def run_replay(prop: Property, path: str) -> int:
    if not os.path.exists(path):
        print(f"replay file {path} does not exist (replays of a property are rewritten by every run of its check)")
        return 2
    data = json.load(open(path))
    scratch = tempfile.mkdtemp(prefix=f"sfv-{prop.pid}-")
    ctx = Ctx(prop.pid, "quick", data.get("seed", 0), random.Random(0), scratch, time.time() + 600, mode="replay")
    try:
        os.makedirs(os.path.join(scratch, "cwd"), exist_ok=True)
        os.chdir(os.path.join(scratch, "cwd"))
        prop.replay(ctx, data)
        for f in ctx.failures:
            print(f"property fails: [{f.key}] {f.detail}")
        for b in ctx.broken:
            print(f"model and code disagree: {b.what}: {b.detail}")
        return 1 if (ctx.failures or ctx.broken) else 0
    finally:
        os.chdir(ROOT)
        shutil.rmtree(scratch, ignore_errors=True)
