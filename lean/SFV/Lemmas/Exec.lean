import SFV.Model.Exec
/-! Helper definitions and lemmas for the executor protocol (C04). -/
namespace SFV.Exec

/-! ## Definitions -/

/-- well-formed step graph: topologically ordered, outputs are steps, every step without consumer is the
    producer of a workflow output port, and there is at least one workflow output -/
structure ENet.WF (N : ENet) : Prop where
  topo   : ∀ i, i < N.n → ∀ j ∈ N.preds i, j < i
  outsLt : ∀ o ∈ N.outs, o < N.n
  reach  : ∀ i, i < N.n → i ∈ N.outs ∨ ∃ k, k < N.n ∧ i ∈ N.preds k
  outsNe : N.outs ≠ []

/-- run a list of actions; `none` as soon as one is not enabled -/
def runActs (fx : Bool) (N : ENet) : St → List Act → Option St
  | s, [] => some s
  | s, a :: as =>
    match step fx N s a with
    | none => none
    | some s' => runActs fx N s' as

/-- the state after a run from the initial state (the initial state if the run is not enabled) -/
def runD (fx : Bool) (N : ENet) (acts : List Act) : St := (runActs fx N St.init acts).getD St.init

def isStepAct : Act → Bool
  | .finish _ | .fail _ => true
  | _ => false

def NoFail (acts : List Act) : Prop := ∀ i, Act.fail i ∉ acts

/-- COMPLETED or SKIPPED -/
def Good (o : Option Status) : Prop := o = some .completed ∨ o = some .skipped

/-! ## Statuses -/

theorem bad_false_iff (x : Status) : x.bad = false ↔ x = .completed ∨ x = .skipped := by
  cases x <;> simp [Status.bad]

theorem reduce_not_bad (l : List Status) (h : ∀ x ∈ l, x.bad = false) : (reduce l).bad = false := by
  unfold reduce
  split
  · rename_i s hs
    have h1 := List.find?_some hs
    have h2 := List.mem_of_find?_eq_some hs
    rw [h _ h2] at h1; cases h1
  · split <;> rfl

theorem getStatus_not_bad (x : Status) (e : Bool) (h : x.bad = false) : (getStatus x e).bad = false := by
  cases x <;> cases e <;> simp_all [getStatus, Status.bad]

theorem mem_preds {N : ENet} {i j : Nat} : j ∈ N.preds i ↔ some j ∈ N.ins i := by
  simp [ENet.preds]

/-- a step whose producers all ended well (or are source ports) ends well when it terminates by itself -/
theorem finishStatus_not_bad (N : ENet) (s : St) (i : Nat)
    (h : ∀ j ∈ N.preds i, ∀ x, s.st j = some x → x.bad = false) : (finishStatus N s i).bad = false := by
  unfold finishStatus
  apply getStatus_not_bad
  have hr : (reduce ((N.ins i).map (fun p => match p with
      | none => Status.completed
      | some j => (s.st j).getD .completed))).bad = false := by
    apply reduce_not_bad
    intro x hx
    obtain ⟨p, hp, rfl⟩ := List.mem_map.mp hx
    cases p with
    | none => rfl
    | some j =>
      cases hj : s.st j with
      | none => simp only [hj]; rfl
      | some y => simp only [hj]; exact h j (mem_preds.mpr hp) y hj
  split
  · rfl
  · exact hr

/-! ## Fields after the state updates -/

@[simp] theorem setSt_st (s : St) (i : Nat) (x : Status) (j : Nat) :
    (s.setSt i x).st j = if j = i then some x else s.st j := rfl
@[simp] theorem setSt_pc (s : St) (i : Nat) (x : Status) : (s.setSt i x).pc = s.pc := rfl
@[simp] theorem setSt_received (s : St) (i : Nat) (x : Status) : (s.setSt i x).received = s.received := rfl
@[simp] theorem closeAll_pc (s : St) : s.closeAll.pc = .closed := rfl
@[simp] theorem closeAll_received (s : St) : s.closeAll.received = s.received := rfl
theorem closeAll_st (s : St) (j : Nat) :
    s.closeAll.st j = match s.st j with | none => some .cancelled | some x => some x := rfl
theorem closeAll_st_isSome (s : St) (j : Nat) : (s.closeAll.st j).isSome = true := by
  rw [closeAll_st]; split <;> rfl
theorem closeAll_st_of_some (s : St) (j : Nat) (x : Status) (h : s.st j = some x) : s.closeAll.st j = some x := by
  rw [closeAll_st, h]
theorem closeAll_st_of_ne_none (s : St) (j : Nat) (h : s.st j ≠ none) : s.closeAll.st j = s.st j := by
  rw [closeAll_st]; split
  · contradiction
  · rename_i x hx; exact hx.symm

/-! ## What an enabled action does -/

theorem step_finish_some {fx : Bool} {N : ENet} {s s' : St} {i : Nat} (h : step fx N s (.finish i) = some s') :
    i < N.n ∧ s.st i = none ∧ (∀ j ∈ N.preds i, (s.st j).isSome = true) ∧
      s' = s.setSt i (finishStatus N s i) := by
  simp only [step] at h
  split at h
  · rename_i hc
    cases h
    exact ⟨hc.1, hc.2.1, List.all_eq_true.mp hc.2.2, rfl⟩
  · cases h

theorem step_finish_enabled {fx : Bool} {N : ENet} {s : St} {i : Nat} (h1 : i < N.n) (h2 : s.st i = none)
    (h3 : ∀ j ∈ N.preds i, (s.st j).isSome = true) :
    step fx N s (.finish i) = some (s.setSt i (finishStatus N s i)) := by
  simp only [step]
  rw [if_pos ⟨h1, h2, List.all_eq_true.mpr h3⟩]

theorem step_fail_some {fx : Bool} {N : ENet} {s s' : St} {i : Nat} (h : step fx N s (.fail i) = some s') :
    i < N.n ∧ s.st i = none ∧ s' = s.setSt i .failed := by
  simp only [step] at h
  split at h
  · rename_i hc
    cases h
    exact ⟨hc.1, hc.2, rfl⟩
  · cases h

/-- the executor has read the (good) termination of every workflow output port -/
def covered (N : ENet) (rcv : List Nat) : Bool := (List.range N.outs.length).all (fun k' => rcv.contains k')

theorem step_read_some {fx : Bool} {N : ENet} {s s' : St} {k : Nat} (h : step fx N s (.read k) = some s') :
    s.pc = .running ∧ k ∉ s.received ∧ ∃ o x, N.outs[k]? = some o ∧ s.st o = some x ∧
      ((x.bad = true ∧ fx = true ∧ s' = ({ s with failedRead := some k } : St).closeAll) ∨
       (x.bad = true ∧ fx = false ∧ s' = { s with failedRead := some k, pc := .closed }) ∨
       (x.bad = false ∧ covered N (k :: s.received) = true ∧
          s' = ({ s with received := k :: s.received } : St).closeAll) ∨
       (x.bad = false ∧ covered N (k :: s.received) = false ∧ s' = { s with received := k :: s.received })) := by
  simp only [step] at h
  split at h
  · rename_i hc
    refine ⟨hc.1, hc.2, ?_⟩
    split at h
    · cases h
    · rename_i o ho
      split at h
      · cases h
      · rename_i x hx
        refine ⟨o, x, ho, hx, ?_⟩
        split at h
        · rename_i hb
          cases fx
          · cases h; exact Or.inr (Or.inl ⟨hb, rfl, rfl⟩)
          · cases h; exact Or.inl ⟨hb, rfl, rfl⟩
        · rename_i hb
          have hb' : x.bad = false := by cases hx' : x.bad <;> simp_all
          split at h
          · rename_i hcov
            cases h; exact Or.inr (Or.inr (Or.inl ⟨hb', hcov, rfl⟩))
          · rename_i hcov
            cases h
            refine Or.inr (Or.inr (Or.inr ⟨hb', ?_, rfl⟩))
            cases hc' : covered N (k :: s.received)
            · rfl
            · exact absurd hc' hcov
  · cases h

/-- some step `i < n` has a FAILED or CANCELLED status -/
def anyBad (N : ENet) (s : St) : Bool :=
  (List.range N.n).any (fun i => match s.st i with | some x => x.bad | none => false)

theorem anyBad_true {N : ENet} {s : St} : anyBad N s = true ↔ ∃ i x, i < N.n ∧ s.st i = some x ∧ x.bad = true := by
  unfold anyBad
  rw [List.any_eq_true]
  constructor
  · rintro ⟨i, hi, hb⟩
    cases hx : s.st i with
    | none => rw [hx] at hb; cases hb
    | some x => rw [hx] at hb; exact ⟨i, x, List.mem_range.mp hi, hx, hb⟩
  · rintro ⟨i, x, hi, hx, hb⟩
    refine ⟨i, List.mem_range.mpr hi, ?_⟩
    rw [hx]; exact hb

theorem step_final_some {fx : Bool} {N : ENet} {s s' : St} (h : step fx N s .final = some s') :
    s.pc = .closed ∧ ((anyBad N s = true ∧ s' = { s with pc := .raised }) ∨
                      (anyBad N s = false ∧ s' = { s with pc := .returned })) := by
  simp only [step] at h
  split at h
  · rename_i hc
    refine ⟨hc, ?_⟩
    split at h
    · rename_i hb
      cases h; exact Or.inl ⟨hb, rfl⟩
    · rename_i hb
      cases h
      refine Or.inr ⟨?_, rfl⟩
      cases hb' : anyBad N s
      · rfl
      · exact absurd hb' hb
  · cases h

theorem step_final_enabled {fx : Bool} {N : ENet} {s : St} (h : s.pc = .closed) :
    ∃ s', step fx N s .final = some s' := by
  simp only [step]
  rw [if_pos h]
  split <;> exact ⟨_, rfl⟩

/-! ## Runs -/

@[simp] theorem runActs_nil (fx : Bool) (N : ENet) (s : St) : runActs fx N s [] = some s := rfl

theorem runActs_cons {fx : Bool} {N : ENet} {s s'' : St} {a : Act} {as : List Act}
    (h : runActs fx N s (a :: as) = some s'') : ∃ s', step fx N s a = some s' ∧ runActs fx N s' as = some s'' := by
  simp only [runActs] at h
  split at h
  · cases h
  · rename_i s' hs; exact ⟨s', hs, h⟩

theorem runActs_append_one {fx : Bool} {N : ENet} {a : Act} {s' s'' : St} :
    ∀ {as : List Act} {s : St}, runActs fx N s as = some s' → step fx N s' a = some s'' →
      runActs fx N s (as ++ [a]) = some s''
  | [], s, h, h2 => by
    cases h
    simp only [List.nil_append, runActs, h2]
  | b :: as, s, h, h2 => by
    obtain ⟨s1, hs1, hr⟩ := runActs_cons h
    simp only [List.cons_append, runActs, hs1]
    exact runActs_append_one hr h2

/-- a property preserved by every enabled action allowed by `A` holds after every run of such actions -/
theorem runActs_inv {fx : Bool} {N : ENet} {P : St → Prop} {A : Act → Prop}
    (hstep : ∀ s a s', P s → A a → step fx N s a = some s' → P s') :
    ∀ (acts : List Act) (s s' : St), P s → (∀ a ∈ acts, A a) → runActs fx N s acts = some s' → P s'
  | [], s, s', hp, _, h => by cases h; exact hp
  | a :: as, s, s', hp, hA, h => by
    obtain ⟨s1, hs1, hr⟩ := runActs_cons h
    exact runActs_inv hstep as s1 s' (hstep s a s1 hp (hA a (List.mem_cons_self ..)) hs1)
      (fun b hb => hA b (List.mem_cons_of_mem _ hb)) hr

theorem reachable_runActs {fx : Bool} {N : ENet} {s s' : St} {acts : List Act} (hr : Reachable fx N s)
    (h : runActs fx N s acts = some s') : Reachable fx N s' :=
  runActs_inv (P := Reachable fx N) (A := fun _ => True) (fun _ _ _ hp _ hs => Reachable.step hp hs)
    acts s s' hr (fun _ _ => trivial) h

theorem reachable_iff {fx : Bool} {N : ENet} {s : St} :
    Reachable fx N s ↔ ∃ acts, runActs fx N St.init acts = some s := by
  constructor
  · intro h
    induction h with
    | init => exact ⟨[], rfl⟩
    | step _ hs ih =>
      obtain ⟨acts, ha⟩ := ih
      exact ⟨acts ++ [_], runActs_append_one ha hs⟩
  · rintro ⟨acts, h⟩
    exact reachable_runActs Reachable.init h

theorem reachable_runD {fx : Bool} {N : ENet} {acts : List Act} (h : (runActs fx N St.init acts).isSome = true) :
    Reachable fx N (runD fx N acts) := by
  unfold runD
  cases hr : runActs fx N St.init acts with
  | none => rw [hr] at h; cases h
  | some s => exact reachable_iff.mpr ⟨acts, hr⟩

/-! ## The number of steps that are not terminated -/

theorem filter_length_le (l : List Nat) (p q : Nat → Bool) (h : ∀ k ∈ l, q k = true → p k = true) :
    (l.filter q).length ≤ (l.filter p).length := by
  induction l with
  | nil => simp
  | cons a l ih =>
    have ih' := ih (fun k hk => h k (List.mem_cons_of_mem _ hk))
    have ha := h a (List.mem_cons_self ..)
    simp only [List.filter_cons]
    cases hq : q a <;> cases hp : p a <;> simp_all <;> omega

/-- switching the predicate off at one position of a duplicate-free list removes one element from the filter -/
theorem filter_length_update (l : List Nat) (p q : Nat → Bool) (i : Nat) (hnd : l.Nodup) (hi : i ∈ l)
    (hp : p i = true) (hq : q i = false) (hpq : ∀ k, k ≠ i → q k = p k) :
    (l.filter q).length + 1 = (l.filter p).length := by
  induction l with
  | nil => simp at hi
  | cons a l ih =>
    simp only [List.nodup_cons] at hnd
    simp only [List.filter_cons]
    by_cases ha : a = i
    · subst ha
      have : l.filter q = l.filter p := by
        apply List.filter_congr
        intro k hk
        exact hpq k (fun e => hnd.1 (e ▸ hk))
      simp [hp, hq, this]
    · have hi' : i ∈ l := by
        rcases List.mem_cons.mp hi with h | h
        · exact absurd h.symm ha
        · exact h
      have := ih hnd.2 hi'
      rw [hpq a ha]
      cases p a <;> simp <;> omega

theorem notDone_init (N : ENet) : notDone N St.init = N.n := by
  simp [notDone, St.init, List.filter_eq_self.mpr]

theorem notDone_setSt (N : ENet) (s : St) (i : Nat) (x : Status) (hi : i < N.n) (hn : s.st i = none) :
    notDone N (s.setSt i x) + 1 = notDone N s := by
  unfold notDone
  apply filter_length_update _ _ _ i List.nodup_range (List.mem_range.mpr hi)
  · simp [hn]
  · simp
  · intro k hk; simp [hk]

theorem notDone_le_of (N : ENet) (s s' : St) (h : ∀ i, s.st i ≠ none → s'.st i ≠ none) :
    notDone N s' ≤ notDone N s := by
  unfold notDone
  apply filter_length_le
  intro k _ hk
  cases h1 : s.st k with
  | none => rfl
  | some x =>
    have := h k (by rw [h1]; simp)
    cases h2 : s'.st k with
    | none => exact absurd h2 this
    | some y => rw [h2] at hk; cases hk

theorem notDone_closeAll (N : ENet) (s : St) : notDone N s.closeAll = 0 := by
  unfold notDone
  rw [List.length_eq_zero_iff, List.filter_eq_nil_iff]
  intro k _
  have := closeAll_st_isSome s k
  cases h : s.closeAll.st k with
  | none => rw [h] at this; cases this
  | some x => simp

theorem notDone_eq_zero {N : ENet} {s : St} (h : notDone N s = 0) : ∀ i, i < N.n → (s.st i).isSome = true := by
  unfold notDone at h
  rw [List.length_eq_zero_iff, List.filter_eq_nil_iff] at h
  intro i hi
  have := h i (List.mem_range.mpr hi)
  cases hs : s.st i with
  | none => rw [hs] at this; simp at this
  | some x => rfl

theorem step_decreases {fx : Bool} {N : ENet} {s s' : St} {a : Act} (h : step fx N s a = some s')
    (ha : isStepAct a = true) : notDone N s' + 1 = notDone N s := by
  cases a with
  | finish i =>
    obtain ⟨h1, h2, _, rfl⟩ := step_finish_some h
    exact notDone_setSt N s i _ h1 h2
  | fail i =>
    obtain ⟨h1, h2, rfl⟩ := step_fail_some h
    exact notDone_setSt N s i _ h1 h2
  | read k => cases ha
  | final => cases ha

theorem step_nonincreasing {fx : Bool} {N : ENet} {s s' : St} {a : Act} (h : step fx N s a = some s') :
    notDone N s' ≤ notDone N s := by
  cases a with
  | finish i => have := step_decreases h rfl; omega
  | fail i => have := step_decreases h rfl; omega
  | read k =>
    obtain ⟨_, _, o, x, _, _, h5⟩ := step_read_some h
    rcases h5 with ⟨_, _, rfl⟩ | ⟨_, _, rfl⟩ | ⟨_, _, rfl⟩ | ⟨_, _, rfl⟩
    · rw [notDone_closeAll]; exact Nat.zero_le _
    · exact Nat.le_refl _
    · rw [notDone_closeAll]; exact Nat.zero_le _
    · exact Nat.le_refl _
  | final =>
    obtain ⟨_, h2⟩ := step_final_some h
    rcases h2 with ⟨_, rfl⟩ | ⟨_, rfl⟩ <;> exact Nat.le_refl _

theorem run_steps_bounded {fx : Bool} {N : ENet} :
    ∀ (acts : List Act) (s s' : St), runActs fx N s acts = some s' →
      (acts.filter isStepAct).length + notDone N s' ≤ notDone N s
  | [], s, s', h => by cases h; simp
  | a :: as, s, s', h => by
    obtain ⟨s1, hs1, hr⟩ := runActs_cons h
    have ih := run_steps_bounded as s1 s' hr
    simp only [List.filter_cons]
    cases ha : isStepAct a
    · have := step_nonincreasing hs1
      simp; omega
    · have := step_decreases hs1 ha
      simp; omega

/-! ## Progress of the step network -/

theorem exists_unfinished_pred {N : ENet} {s : St} {i : Nat}
    (h : ¬ ∀ j ∈ N.preds i, (s.st j).isSome = true) : ∃ j, j ∈ N.preds i ∧ s.st j = none := by
  apply Classical.byContradiction
  intro hne
  apply h
  intro j hj
  cases hs : s.st j with
  | none => exact absurd ⟨j, hj, hs⟩ hne
  | some x => rfl

/-- below every non-terminated step there is a non-terminated step all of whose producers are terminated -/
theorem exists_enabled_finish {fx : Bool} {N : ENet} (hwf : N.WF) (s : St) :
    ∀ i, i < N.n → s.st i = none → ∃ i', i' ≤ i ∧ step fx N s (.finish i') = some (s.setSt i' (finishStatus N s i')) := by
  intro i
  induction i using Nat.strongRecOn with
  | _ i ih =>
    intro hi hn
    by_cases hall : ∀ j ∈ N.preds i, (s.st j).isSome = true
    · exact ⟨i, Nat.le_refl _, step_finish_enabled hi hn hall⟩
    · obtain ⟨j, hj, hjn⟩ := exists_unfinished_pred hall
      have hlt := hwf.topo i hi j hj
      obtain ⟨i', hle, hs⟩ := ih j hlt (Nat.lt_trans hlt hi) hjn
      exact ⟨i', by omega, hs⟩

theorem all_done_of_no_finish {fx : Bool} {N : ENet} (hwf : N.WF) (s : St)
    (h : ∀ i, step fx N s (.finish i) = none) : ∀ i, i < N.n → (s.st i).isSome = true := by
  intro i hi
  cases hs : s.st i with
  | some x => rfl
  | none =>
    obtain ⟨i', _, he⟩ := exists_enabled_finish (fx := fx) hwf s i hi hs
    rw [h i'] at he; cases he

end SFV.Exec
