import SFV.Lemmas.TfMachine
/-! # C05 (steps) — the tag-grouping loop is arrival-order independent and computes the denotation

Property theorems only. The operational model of the loop of `Transformer.run` / `ConditionalStep.run` /
`ScheduleStep.run` is `SFV/Model/TfMachine.lean` (`runRounds`, `emitted`); the denotation is `groupStep` of
`SFV/Model/Net.lean`; the invariant and its preservation lemmas are in `SFV/Lemmas/TfMachine.lean`.

Port logs `ls : List (List Tok)`: port `q` is position `q`, a log is the sequence of data tokens in ARRIVAL order.
Hypotheses used throughout (the driver checks them on every generated workflow, `wfNode` / `distinctTags`):
* `DistinctTags l` for every port: no tag arrives twice on a port;
* every port carries the same tag set (`Perm` of the tag lists). Without it the result DOES depend on the arrival
  order, see `unequal_tag_sets_order_dependent`. -/
namespace SFV.C05
open SFV.Net

/-! ## A. operational = denotational -/

/-- **The loop fires every tag exactly once and leaves nothing behind.** Whatever the arrival order on each port,
at termination `inputs_map` is empty and the fired groups are, up to order, one group per tag with the values
carried at that tag in port order. -/
theorem transformer_machine_groups (ls : List (List Tok)) (hne : ls ≠ []) (hd : ∀ l ∈ ls, DistinctTags l)
    (hsame : ∀ l ∈ ls, ∀ l' ∈ ls, (l.map (·.tag)).Perm (l'.map (·.tag))) :
    (runRounds ls).map = [] ∧
    (runRounds ls).out.Perm
      (((ls.head hne).map (·.tag)).map (fun t => (t, ls.filterMap (fun l => lookupTag l t)))) :=
  runRounds_complete hne hd hsame

/-- **The loop computes `groupStep`.** Fed with ANY arrival order on each input port, the loop of
`Transformer.run` puts on output `j` exactly the tokens of the denotation `groupStep` (up to order) and leaves no
partial group behind. -/
theorem transformer_machine_eq_den (e : Env) (ins : List Nat) (hne : ins ≠ [])
    (hd : ∀ q ∈ ins, DistinctTags (e.get q))
    (hsame : ∀ q ∈ ins, ∀ q' ∈ ins, ((e.get q).map (·.tag)).Perm ((e.get q').map (·.tag)))
    (nouts : Nat) (f : List Val → List (Option Val)) (j : Nat) (hj : j < nouts) :
    (emitted f j (runRounds (ins.map e.get))).Perm ((groupStep e ins nouts f)[j]?.getD []) ∧
    (runRounds (ins.map e.get)).map = [] :=
  emitted_perm_groupStep hne hd hsame nouts f hj

/-- the same for the three node kinds of the network model: the loop run on the logs of the node's input ports
emits on output `j` what `nodeOut` says (transformer node) -/
theorem tf_node_machine_eq_nodeOut (e : Env) (fn : Fn) (ins outs : List Nat) (hne : ins ≠ [])
    (hd : ∀ q ∈ ins, DistinctTags (e.get q))
    (hsame : ∀ q ∈ ins, ∀ q' ∈ ins, ((e.get q).map (·.tag)).Perm ((e.get q').map (·.tag)))
    (j : Nat) (hj : j < outs.length) :
    (emitted (fun vals => (applyFn fn vals).map some) j (runRounds (ins.map e.get))).Perm
      ((nodeOut e (.tf fn ins outs))[j]?.getD []) :=
  (emitted_perm_groupStep hne hd hsame outs.length _ hj).1

/-- conditional node: `_eval` = `predHolds` on the first input, `_on_true` forwards, `_on_false` drops or zeroes -/
theorem cond_node_machine_eq_nodeOut (e : Env) (m r : Nat) (zero : Bool) (ins outs : List Nat) (hne : ins ≠ [])
    (hd : ∀ q ∈ ins, DistinctTags (e.get q))
    (hsame : ∀ q ∈ ins, ∀ q' ∈ ins, ((e.get q).map (·.tag)).Perm ((e.get q').map (·.tag)))
    (j : Nat) (hj : j < outs.length) :
    (emitted (condOut m r zero) j (runRounds (ins.map e.get))).Perm
      ((nodeOut e (.cond m r zero ins outs))[j]?.getD []) :=
  (emitted_perm_groupStep hne hd hsame outs.length _ hj).1

/-- exec node (schedule / execute pipeline): one job per complete tag -/
theorem exec_node_machine_eq_nodeOut (e : Env) (k : Int) (ins : List Nat) (out : Nat) (hne : ins ≠ [])
    (hd : ∀ q ∈ ins, DistinctTags (e.get q))
    (hsame : ∀ q ∈ ins, ∀ q' ∈ ins, ((e.get q).map (·.tag)).Perm ((e.get q').map (·.tag))) :
    (emitted (fun vals => [some (.int (linFold vals + k))]) 0 (runRounds (ins.map e.get))).Perm
      ((nodeOut e (.exec k ins out))[0]?.getD []) :=
  (emitted_perm_groupStep hne hd hsame 1 _ Nat.zero_lt_one).1

/-! ## B. arrival-order independence -/

/-- **Order independence.** Two families of port logs that are port-wise permutations of each other (same tokens
on every port, any arrival order) make the loop emit the same tokens, up to order, on every output. -/
theorem transformer_order_indep (ls ls' : List (List Tok)) (hne : ls ≠ []) (hlen : ls.length = ls'.length)
    (hperm : ∀ q : Nat, (ls[q]?.getD []).Perm (ls'[q]?.getD []))
    (hd : ∀ l ∈ ls, DistinctTags l)
    (hsame : ∀ l ∈ ls, ∀ l' ∈ ls, (l.map (·.tag)).Perm (l'.map (·.tag)))
    (f : List Val → List (Option Val)) (j : Nat) :
    (emitted f j (runRounds ls)).Perm (emitted f j (runRounds ls')) :=
  (runRounds_out_perm hne hlen hperm hd hsame).filterMap _

/-- the permuted family satisfies the hypotheses too, and also ends with an empty `inputs_map` -/
theorem transformer_order_indep_no_leftover (ls ls' : List (List Tok)) (hne : ls ≠ [])
    (hlen : ls.length = ls'.length) (hperm : ∀ q : Nat, (ls[q]?.getD []).Perm (ls'[q]?.getD []))
    (hd : ∀ l ∈ ls, DistinctTags l)
    (hsame : ∀ l ∈ ls, ∀ l' ∈ ls, (l.map (·.tag)).Perm (l'.map (·.tag))) :
    (runRounds ls).map = [] ∧ (runRounds ls').map = [] := by
  have hne' : ls' ≠ [] := fun h => hne (List.length_eq_zero_iff.mp (by rw [hlen, h]; rfl))
  obtain ⟨hd', hsame'⟩ := portwise_perm_hyps hlen hperm hd hsame
  exact ⟨(runRounds_complete hne hd hsame).1, (runRounds_complete hne' hd' hsame').1⟩

/-- `ConditionalStep`: `_eval` = `predHolds m r` on the first input of the group, `_on_true` forwards the inputs,
`_on_false` drops them or forwards zeroed values -/
theorem conditional_order_indep (ls ls' : List (List Tok)) (hne : ls ≠ []) (hlen : ls.length = ls'.length)
    (hperm : ∀ q : Nat, (ls[q]?.getD []).Perm (ls'[q]?.getD []))
    (hd : ∀ l ∈ ls, DistinctTags l)
    (hsame : ∀ l ∈ ls, ∀ l' ∈ ls, (l.map (·.tag)).Perm (l'.map (·.tag)))
    (m r : Nat) (zero : Bool) (j : Nat) :
    (emitted (condOut m r zero) j (runRounds ls)).Perm (emitted (condOut m r zero) j (runRounds ls')) :=
  transformer_order_indep ls ls' hne hlen hperm hd hsame _ j

/-- `Transformer` with a pure `transform` (`apply_fn` of the generated workflows) -/
theorem transformer_fn_order_indep (ls ls' : List (List Tok)) (hne : ls ≠ []) (hlen : ls.length = ls'.length)
    (hperm : ∀ q : Nat, (ls[q]?.getD []).Perm (ls'[q]?.getD []))
    (hd : ∀ l ∈ ls, DistinctTags l)
    (hsame : ∀ l ∈ ls, ∀ l' ∈ ls, (l.map (·.tag)).Perm (l'.map (·.tag)))
    (fn : Fn) (j : Nat) :
    (emitted (fun vals => (applyFn fn vals).map some) j (runRounds ls)).Perm
      (emitted (fun vals => (applyFn fn vals).map some) j (runRounds ls')) :=
  transformer_order_indep ls ls' hne hlen hperm hd hsame _ j

/-- `ScheduleStep` (exec nodes): exactly one job per complete tag, with the same inputs, whatever the arrival
order: the tags of the jobs are exactly the tags of the first port, each once -/
theorem schedule_order_indep (ls ls' : List (List Tok)) (hne : ls ≠ []) (hlen : ls.length = ls'.length)
    (hperm : ∀ q : Nat, (ls[q]?.getD []).Perm (ls'[q]?.getD []))
    (hd : ∀ l ∈ ls, DistinctTags l)
    (hsame : ∀ l ∈ ls, ∀ l' ∈ ls, (l.map (·.tag)).Perm (l'.map (·.tag)))
    (k : Int) :
    (emitted (fun vals => [some (.int (linFold vals + k))]) 0 (runRounds ls)).Perm
      (emitted (fun vals => [some (.int (linFold vals + k))]) 0 (runRounds ls')) ∧
    ((emitted (fun vals => [some (.int (linFold vals + k))]) 0 (runRounds ls)).map (·.tag)).Perm
      ((ls.head hne).map (·.tag)) := by
  refine ⟨transformer_order_indep ls ls' hne hlen hperm hd hsame _ 0, ?_⟩
  rw [emitted_exec_tags]
  have h := ((runRounds_complete hne hd hsame).2.map (·.1))
  rw [List.map_map] at h
  exact h.trans (List.Perm.of_eq (List.map_id _))

/-! ## C. partial inputs -/

/-- **No spurious emission on partial input.** After any number `r` of iterations (no hypothesis on the tag
sets: ports may still be missing tokens, or carry different tags), no tag has been fired twice, every fired tag
is a tag of the first port, and every fired group holds the values of all the ports at that tag, in port
order: a group never fires before it is complete, and never with foreign values. -/
theorem partial_input_no_spurious_emission (ls : List (List Tok)) (hne : ls ≠ [])
    (hd : ∀ l ∈ ls, DistinctTags l) (r : Nat) (hr : r ≤ numRounds ls) :
    ((runRoundsUpTo ls r).out.map (·.1)).Nodup ∧
    (∀ g ∈ (runRoundsUpTo ls r).out, g.1 ∈ (ls.head hne).map (·.tag)) ∧
    (∀ g ∈ (runRoundsUpTo ls r).out, g.2 = ls.filterMap (fun l => lookupTag l g.1) ∧ g.2.length = ls.length) ∧
    runRounds ls = runRoundsUpTo ls (numRounds ls) := by
  have hI := roundInv_run hne hd r hr
  have hP : 0 < ls.length := List.length_pos_iff.mpr hne
  refine ⟨hI.inv.outNodup, ?_, ?_, rfl⟩
  · intro g hg
    have h0 := hI.inv.outDone g hg 0 hP
    unfold seen at h0
    rw [head_eq_portLog]
    obtain ⟨x, hx, hxt⟩ := List.mem_map.mp h0
    exact List.mem_map.mpr ⟨x, List.mem_of_mem_take hx, hxt⟩
  · intro g hg
    refine ⟨hI.inv.outVal g hg, ?_⟩
    rw [hI.inv.outVal g hg]
    exact valsOf_length_of_seen (fun q hq => hI.inv.outDone g hg q hq)

/-- the state after `r` iterations also satisfies: a tag waits in `inputs_map` iff it arrived on some port and
was not fired, and a tag that arrived on all ports has been fired (nothing complete is kept waiting) -/
theorem partial_input_complete_tags_fired (ls : List (List Tok)) (hne : ls ≠ [])
    (hd : ∀ l ∈ ls, DistinctTags l) (r : Nat) (hr : r ≤ numRounds ls) (τ : Tag) :
    ((∀ q : Nat, q < ls.length → τ ∈ ((ls[q]?.getD []).take r).map (·.tag)) → τ ∈ (runRoundsUpTo ls r).out.map (·.1)) ∧
    (τ ∈ (runRoundsUpTo ls r).map.map (·.1) ↔
      (∃ q : Nat, τ ∈ ((ls[q]?.getD []).take r).map (·.tag)) ∧ τ ∉ (runRoundsUpTo ls r).out.map (·.1)) :=
  ⟨(roundInv_run hne hd r hr).fired τ, (roundInv_run hne hd r hr).inv.keyMem τ⟩

/-! ## D. the same-tag-set hypothesis is needed -/

/-- **Negative witness.** Port 0 carries tags `[0,0]` and `[0,1]`, port 1 only `[0,0]`; both families hold the
same tokens on every port and have distinct tags. If `[0,1]` arrives first on port 0, the loop stops after one
iteration (port 1 terminates) having fired nothing; if `[0,0]` arrives first, `[0,0]` fires. So with unequal tag
sets the output depends on the arrival order. -/
theorem unequal_tag_sets_order_dependent :
    unevenA.length = unevenB.length ∧ (∀ q : Nat, (unevenA[q]?.getD []).Perm (unevenB[q]?.getD [])) ∧
    (∀ l ∈ unevenA, DistinctTags l) ∧ (∀ l ∈ unevenB, DistinctTags l) ∧
    (runRounds unevenA).out.length = 0 ∧ (runRounds unevenB).out.length = 1 ∧
    (runRounds unevenA).map.map (·.1) = [[0, 1], [0, 0]] := by
  refine ⟨rfl, ?_, ?_, ?_, by decide, by decide, by decide⟩
  · intro q
    match q with
    | 0 => exact List.Perm.swap _ _ _
    | 1 => exact List.Perm.refl _
    | _ + 2 => exact List.Perm.refl _
  · intro l hl
    simp only [unevenA, List.mem_cons, List.not_mem_nil, or_false] at hl
    rcases hl with rfl | rfl <;> simp [DistinctTags, mkTok]
  · intro l hl
    simp only [unevenB, List.mem_cons, List.not_mem_nil, or_false] at hl
    rcases hl with rfl | rfl <;> simp [DistinctTags, mkTok]

/-! ## E. concrete instances (the hypotheses are satisfiable, the statements are not vacuous) -/

/-- the hypotheses of `transformer_machine_groups` hold on a 2-port, 3-tag instance -/
example : exLogs ≠ [] ∧ (∀ l ∈ exLogs, DistinctTags l) ∧
    (∀ l ∈ exLogs, ∀ l' ∈ exLogs, (l.map (·.tag)).Perm (l'.map (·.tag))) := by
  refine ⟨by decide, ?_, ?_⟩
  · intro l hl
    simp only [exLogs, List.mem_cons, List.not_mem_nil, or_false] at hl
    rcases hl with rfl | rfl <;> simp [DistinctTags, mkTok]
  · intro l hl l' hl'
    simp only [exLogs, List.mem_cons, List.not_mem_nil, or_false] at hl hl'
    rcases hl with rfl | rfl <;> rcases hl' with rfl | rfl <;> decide

/-- the loop on that instance: firing order `[0,2]`, `[0,1]`, `[0,0]`, nothing left -/
example : (runRounds exLogs).out.map (·.1) = [[0, 2], [0, 1], [0, 0]] ∧ (runRounds exLogs).map.map (·.1) = [] := by
  decide

/-- another arrival order of the same tokens: other firing order, same set -/
example : (runRounds exLogs').out.map (·.1) = [[0, 1], [0, 0], [0, 2]] := by decide

/-- a conditional step forwarding only the groups whose first value is divisible by 3 (tag `[0,1]`, value 3), on
both outputs, for both arrival orders -/
example : (emitted (condOut 3 0 false) 1 (runRounds exLogs)).map (·.tag) = [[0, 1]] ∧
    (emitted (condOut 3 0 false) 0 (runRounds exLogs')).map (·.tag) = [[0, 1]] := by decide

/-- emitted tags for an exec node: one job per tag -/
example : (emitted (fun vals => [some (.int (linFold vals + 7))]) 0 (runRounds exLogs)).map (·.tag)
    = [[0, 2], [0, 1], [0, 0]] := by decide

/-- the denotation on the same instance lists the tags in the order of the first port -/
example : ((groupStep exEnv [0, 1] 1 (fun vals => [some (.int (linFold vals + 7))]))[0]?.getD []).map (·.tag)
    = [[0, 2], [0, 0], [0, 1]] := by decide

/-- after one iteration of the instance nothing has fired and two tags wait -/
example : (runRoundsUpTo exLogs 1).out.length = 0 ∧ (runRoundsUpTo exLogs 1).map.map (·.1) = [[0, 2], [0, 1]] := by
  decide

/-- after two iterations `[0,2]` has fired with the values of port 0 then port 1 -/
example : (runRoundsUpTo exLogs 2).out.map (·.1) = [[0, 2]] ∧
    (runRoundsUpTo exLogs 2).map.map (fun e => (e.1, e.2.map (·.1))) = [([0, 1], [1]), ([0, 0], [0])] := by
  decide

end SFV.C05
