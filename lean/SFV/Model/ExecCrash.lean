import SFV.Model.Exec
/-! # The executor protocol with escaping step exceptions and workflows without output ports (C04)

Extension of `SFV.Exec` (the `_cancel` fix is taken as given: `step true`). Two things the base model leaves out:

* `crash i`: an exception *escapes* `step.run()` (e.g. `ScatterStep.run` on a non-list token). The step's task is
  `StreamFlowExecutor._handle_exception(step.run())`, which then calls `close()` *inside that very task*: `close()`
  terminates every unterminated step with CANCELLED (the raising step included), then cancels and awaits the pending
  step tasks. With `skips = true` (the code since fix 92ab986, extracted as `Gen.closeSkipsCurrentTask`) the selection
  leaves out `asyncio.current_task()` and `close()` completes (`_closed = True`). With `skips = false` the task cancels
  and awaits itself: it never finishes (`stuck = some i`) and `_closed` is never set by it. A later `close()` coming
  from the *main* task (`_wait_outputs` reads the CANCELLED termination of an output port and calls `_cancel`) is not
  one of the step tasks, cancels the stuck task from outside and completes: `read` clears `stuck`.
* `finalNoOutputs`: a workflow without output ports: `run()` awaits `asyncio.gather(*self.executions)`, which returns
  when every step task is done (no task stuck), then checks the statuses. -/
namespace SFV.ExecCrash
open SFV.Exec

structure CSt where
  base : St
  /-- the step task that awaits its own cancellation (never finishes by itself) -/
  stuck : Option Nat

def CSt.init : CSt := { base := St.init, stuck := none }

inductive CAct where
  | base (a : Act)
  | crash (i : Nat)
  | finalNoOutputs
deriving Repr, DecidableEq

def anyBadSt (N : ENet) (s : St) : Bool :=
  (List.range N.n).any (fun i => match s.st i with | some x => x.bad | none => false)

def cstep (skips : Bool) (N : ENet) (s : CSt) : CAct → Option CSt
  | .base a =>
      match step true N s.base a with
      | none => none
      | some b =>
          -- a `close()` that ran in the main task (pc became closed) cancelled the stuck task from outside
          some { base := b, stuck := if b.pc = .running then s.stuck else none }
  | .crash i =>
      if i < N.n ∧ s.base.st i = none ∧ s.base.pc = .running ∧ s.stuck = none then
        if skips then some { s with base := s.base.closeAll }
        else some { base := { s.base.closeAll with pc := .running }, stuck := some i }
      else none
  | .finalNoOutputs =>
      if N.outs = [] ∧ s.base.pc = .running ∧ s.stuck = none ∧ (List.range N.n).all (fun i => (s.base.st i).isSome) then
        some { s with base := { s.base with pc := if anyBadSt N s.base then .raised else .returned } }
      else none

inductive Reachable (skips : Bool) (N : ENet) : CSt → Prop
  | init : Reachable skips N CSt.init
  | step {s a s'} : Reachable skips N s → cstep skips N s a = some s' → Reachable skips N s'

/-- `run()` has returned or raised -/
def CSt.final (s : CSt) : Bool := s.base.pc == .returned || s.base.pc == .raised

/-- all actions that could be enabled in a state of a net (finite: indices below the bounds) -/
def allActs (N : ENet) : List CAct :=
  (List.range N.n).map (fun i => CAct.base (.finish i)) ++ (List.range N.n).map (fun i => CAct.base (.fail i)) ++
  (List.range N.outs.length).map (fun k => CAct.base (.read k)) ++ [CAct.base .final] ++
  (List.range N.n).map CAct.crash ++ [CAct.finalNoOutputs]

/-- no action is enabled (among `allActs`; the lemmas show that no other action is ever enabled) -/
def deadlocked (skips : Bool) (N : ENet) (s : CSt) : Bool :=
  (allActs N).all (fun a => (cstep skips N s a).isNone)

def runActs (skips : Bool) (N : ENet) (s : CSt) : List CAct → Option CSt
  | [] => some s
  | a :: as => match cstep skips N s a with
    | none => none
    | some s' => runActs skips N s' as

/-- two independent steps, no workflow output port -/
def twoNoOut : ENet := { n := 2, ins := fun _ => [none], outs := [], emptyOut := fun _ => false, dataIn := fun _ => false }
/-- two independent steps, the second one feeds a workflow output port -/
def twoOneOut : ENet := { n := 2, ins := fun _ => [none], outs := [1], emptyOut := fun _ => false, dataIn := fun _ => false }

end SFV.ExecCrash
