/-! # Model of `is_available` (streamflow/core/workflow.py `Token`, streamflow/workflow/token.py `FileToken`, `ListToken`,
`ObjectToken`)

A token is a tree: plain tokens carry their persisted `recoverable` flag; a file token carries that flag and, for each of its
paths, one Boolean per PRIMARY data location registered for the path (does that copy still exist — `_is_path_available`);
lists and records (ObjectToken) carry their elements. `Cfg` = the three quantifiers the source uses (generated). -/
namespace SFV.Avail

inductive Quant | any | all
deriving DecidableEq, Repr

structure Cfg where
  copies : Quant
  list : Quant
  record : Quant
deriving DecidableEq, Repr

inductive Tok
  | plain (recoverable : Bool)
  | file (recoverable : Bool) (paths : List (List Bool))
  | list (items : List Tok)
  | record (items : List Tok)
deriving Repr

def quant : Quant → List Bool → Bool
  | .any, l => l.any id
  | .all, l => l.all id

/-- one path of a file token: no primary data location ⇒ lost; otherwise the quantifier over its copies -/
def pathOk (c : Cfg) (copies : List Bool) : Bool := !copies.isEmpty && quant c.copies copies

mutual
  def avail (c : Cfg) : Tok → Bool
    | .plain r => r
    | .file r paths => r && paths.all (pathOk c)
    | .list items => quant c.list (availL c items)
    | .record items => quant c.record (availL c items)
  def availL (c : Cfg) : List Tok → List Bool
    | [] => []
    | t :: ts => avail c t :: availL c ts
end

mutual
  /-- the specification: every leaf is recoverable and every path of every file has at least one surviving copy -/
  def Good : Tok → Prop
    | .plain r => r = true
    | .file r paths => r = true ∧ ∀ copies, copies ∈ paths → ∃ b, b ∈ copies ∧ b = true
    | .list items => GoodL items
    | .record items => GoodL items
  def GoodL : List Tok → Prop
    | [] => True
    | t :: ts => Good t ∧ GoodL ts
end

/-- the quantifiers of the repository (checked against the generated `SFV.Gen.availCfg`) -/
def codeCfg : Cfg := ⟨.any, .all, .all⟩

end SFV.Avail
