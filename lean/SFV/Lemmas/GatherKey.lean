import SFV.Lemmas.Gather
/-! The gather machine seen from one key: a single-key machine (`kstep`), the proof that any arrival order of
    `n` elements and one size token `n` emits exactly once (the sorted elements), and the projection lemma
    `view (run …) k = krun (proj k …)` that lifts it to several concurrent keys. -/
namespace SFV.Gather
open SFV

/-! ### the single-key machine -/

inductive KEv (V : Type) where
  | elem (t : Tok V)
  | size (n : Nat)

structure KSt (V : Type) where
  toks : List (Tok V) := []
  size : Option Nat := none
  outs : List (List (Tok V)) := []

def kstep {V} (s : KSt V) : KEv V → KSt V
  | .elem t =>
      let toks := s.toks ++ [t]
      if elemEmits toks.length s.size then { s with toks := toks, outs := s.outs ++ [sortToks toks] }
      else { s with toks := toks }
  | .size n =>
      if Gen.gatherSizeEmits s.toks.length n then { s with size := some n, outs := s.outs ++ [sortToks s.toks] }
      else { s with size := some n }

def nS {V} : List (KEv V) → Nat
  | [] => 0
  | .elem _ :: r => nS r
  | .size _ :: r => nS r + 1

def elemsOf {V} : List (KEv V) → List (Tok V)
  | [] => []
  | .elem t :: r => t :: elemsOf r
  | .size _ :: r => elemsOf r

theorem nil_of_counts {V} (r : List (KEv V)) (h1 : nS r = 0) (h2 : (elemsOf r).length = 0) : r = [] := by
  cases r with
  | nil => rfl
  | cons e r' => cases e <;> simp [nS, elemsOf] at h1 h2

theorem nS_append {V} (a b : List (KEv V)) : nS (a ++ b) = nS a + nS b := by
  induction a with
  | nil => simp [nS]
  | cons e a ih => cases e <;> simp [nS, ih]; omega

theorem elemsOf_append {V} (a b : List (KEv V)) : elemsOf (a ++ b) = elemsOf a ++ elemsOf b := by
  induction a with
  | nil => simp [elemsOf]
  | cons e a ih => cases e <;> simp [elemsOf, ih]

theorem elemsOf_map_elem {V} (ts : List (Tok V)) : elemsOf (ts.map KEv.elem) = ts := by
  induction ts with
  | nil => rfl
  | cons t ts ih => simp [elemsOf, ih]

theorem nS_map_elem {V} (ts : List (Tok V)) : nS (ts.map KEv.elem) = 0 := by
  induction ts with
  | nil => rfl
  | cons t ts ih => simp [nS, ih]

theorem nS_perm {V} {a b : List (KEv V)} (h : a.Perm b) : nS a = nS b := by
  induction h with
  | nil => rfl
  | cons x _ ih => cases x <;> simp [nS, ih]
  | swap x y l => cases x <;> cases y <;> simp [nS]
  | trans _ _ ih1 ih2 => exact ih1.trans ih2

theorem elemsOf_perm {V} {a b : List (KEv V)} (h : a.Perm b) : (elemsOf a).Perm (elemsOf b) := by
  induction h with
  | nil => exact List.Perm.refl _
  | cons x _ ih => cases x <;> simp [elemsOf, ih]
  | swap x y l => cases x <;> cases y <;> simp [elemsOf, List.Perm.swap]
  | trans _ _ ih1 ih2 => exact ih1.trans ih2

/-- `A` = size not yet seen, exactly one size event pending; `B` = size seen, some element still pending -/
def Pending {V} (n : Nat) (s : KSt V) (r : List (KEv V)) : Prop :=
  s.outs = [] ∧ (∀ m, KEv.size m ∈ r → m = n) ∧ s.toks.length + (elemsOf r).length = n ∧
  ((s.size = none ∧ nS r = 1) ∨ (s.size = some n ∧ nS r = 0 ∧ 0 < (elemsOf r).length))

theorem krun_aux {V} (n : Nat) (r : List (KEv V)) : ∀ (s : KSt V), Pending n s r →
    (r.foldl kstep s).outs = [sortToks (s.toks ++ elemsOf r)] := by
  induction r with
  | nil =>
    intro s ⟨_, _, _, h⟩
    rcases h with ⟨_, h⟩ | ⟨_, _, h⟩ <;> simp [nS, elemsOf] at h
  | cons e r' ih =>
    intro s ⟨hout, hsz, hlen, hcase⟩
    have hsz' : ∀ m, KEv.size m ∈ r' → m = n := fun m hm => hsz m (List.mem_cons_of_mem _ hm)
    cases e with
    | elem t =>
      simp only [elemsOf, List.length_cons] at hlen
      rcases hcase with ⟨hnone, hS⟩ | ⟨hsome, hS, _⟩
      · have hno : elemEmits (s.toks.length + 1) s.size = false := by
          rw [hnone]; cases h : elemEmits (s.toks.length + 1) none
          · rfl
          · exact absurd ((elemEmits_iff _ _).mp h) (by simp)
        have : kstep s (.elem t) = { s with toks := s.toks ++ [t] } := by simp [kstep, hno]
        simp only [List.foldl_cons, this]
        rw [ih]
        · simp [elemsOf]
        · refine ⟨hout, hsz', ?_, Or.inl ⟨hnone, by simpa [nS] using hS⟩⟩
          simp; omega
      · by_cases hfull : s.toks.length + 1 = n
        · have hE : (elemsOf r').length = 0 := by omega
          have hr' : r' = [] := nil_of_counts r' (by simpa [nS] using hS) hE
          subst hr'
          have hyes : elemEmits (s.toks.length + 1) s.size = true :=
            (elemEmits_iff _ _).mpr (by rw [hsome, hfull])
          simp [kstep, hyes, hout, elemsOf]
        · have hno : elemEmits (s.toks.length + 1) s.size = false := by
            cases h : elemEmits (s.toks.length + 1) s.size
            · rfl
            · have := (elemEmits_iff _ _).mp h
              rw [hsome] at this; simp at this; omega
          have : kstep s (.elem t) = { s with toks := s.toks ++ [t] } := by simp [kstep, hno]
          simp only [List.foldl_cons, this]
          rw [ih]
          · simp [elemsOf]
          · refine ⟨hout, hsz', ?_, Or.inr ⟨hsome, by simpa [nS] using hS, ?_⟩⟩
            · simp; omega
            · omega
    | size m =>
      have hm : m = n := hsz m (List.mem_cons_self ..)
      subst hm
      simp only [elemsOf] at hlen
      rcases hcase with ⟨hnone, hS⟩ | ⟨_, hS, _⟩
      · simp only [nS] at hS
        by_cases hfull : s.toks.length = m
        · have hE : (elemsOf r').length = 0 := by omega
          have hr' : r' = [] := nil_of_counts r' (by omega) hE
          subst hr'
          have hyes : Gen.gatherSizeEmits s.toks.length m = true := (sizeEmits_iff _ _).mpr hfull
          simp [kstep, hyes, hout, elemsOf]
        · have hno : Gen.gatherSizeEmits s.toks.length m = false := by
            cases h : Gen.gatherSizeEmits s.toks.length m
            · rfl
            · exact absurd ((sizeEmits_iff _ _).mp h) hfull
          have : kstep s (.size m) = { s with size := some m } := by simp [kstep, hno]
          simp only [List.foldl_cons, this]
          rw [ih]
          · simp [elemsOf]
          · refine ⟨hout, hsz', by simpa using hlen, Or.inr ⟨rfl, by omega, by omega⟩⟩
      · simp [nS] at hS

/-- Any event list with exactly one size event carrying the number of element events produces exactly one
    output: the sorted collected elements (any arrival order, any `n` including 0). -/
theorem kgather_once {V} (es : List (KEv V)) (n : Nat)
    (h1 : nS es = 1) (h2 : (elemsOf es).length = n) (h3 : ∀ m, KEv.size m ∈ es → m = n) :
    (es.foldl kstep {}).outs = [sortToks (elemsOf es)] := by
  have := krun_aux n es {} ⟨rfl, h3, by simpa using h2, Or.inl ⟨rfl, h1⟩⟩
  simpa using this

/-- the same for a permutation of `ts` + one size token, against a strictly sorted `ts` -/
theorem kgather_perm {V} (ts : List (Tok V)) (hs : StrictSorted ts) (kes : List (KEv V))
    (hp : kes.Perm (ts.map KEv.elem ++ [KEv.size ts.length])) :
    (kes.foldl kstep {}).outs = [ts] := by
  have h1 : nS kes = 1 := by rw [nS_perm hp, nS_append, nS_map_elem]; rfl
  have h2 : (elemsOf kes).Perm ts := by
    have := elemsOf_perm hp
    rwa [elemsOf_append, elemsOf_map_elem, show elemsOf [KEv.size (V := V) ts.length] = [] from rfl,
      List.append_nil] at this
  have h3 : ∀ m, KEv.size m ∈ kes → m = ts.length := by
    intro m hm
    have := hp.subset hm
    simp at this
    exact this
  rw [kgather_once kes ts.length h1 h2.length_eq h3, sortToks_perm_sorted h2 hs]

/-- no events for a key: nothing is emitted -/
theorem kgather_nil {V} : (([] : List (KEv V)).foldl kstep {}).outs = [] := rfl

end SFV.Gather
