import SFV.Lemmas.LoopRun
import SFV.Lemmas.LoopNum
/-! # C06 — loops emit the last / all iteration values in iteration order, for any count

Property theorems only; the development is in `SFV/Lemmas/Loop*.lean`, the model in `SFV/Model/Loop.lean`.
Numbering constants, the emission test and its default, `size_map[prefix] = int(last)` and the sort keys of the two
CWL `_process_output` come from `SFV/Gen/LoopGuards.lean`, regenerated from the source on every run.

A loop instance is a pair `(p, vals)`: the tag `p` of its external inputs (a scatter element `0.i`, or `0`) and the
values its `vals.length` iterations produced. At the loop output step the instance shows up as the body outputs
`p.j ↦ vals[j]` and one `IterationTerminationToken` tagged `p.n` with `n = vals.length` (`instEvents`). -/
namespace SFV.C06
open SFV SFV.Loop

/-- **numbering.** For any set `P` of loop instances none of which is the parent tag of another, and any
    interleaving `arr` of their arrivals at the loop combinator that is causal (an instance starts once, with its
    external inputs tagged `p`; its later arrivals are back edges), the inputs of the `k`-th body execution of
    instance `p` are tagged `p.k` — whatever the other instances do in between and whatever tags the back-edge
    tokens carry. -/
theorem loop_numbering (P : List Tag) (hsep : ∀ p ∈ P, p.dropLast ∉ P) (arr : List Arr) (hc : Causal P [] arr) (p : Tag) :
    outsOf p (fun _ => none) arr = (List.range (arr.filter (fun a => a.1 = p)).length).map (fun k => p ++ [k]) := by
  have := numbering_aux P hsep p arr [] (fun _ => none) (by simp) (by simp) hc
  simpa [nextIdx] using this

/-- non-vacuity: two scatter instances `0.9`, `0.10` interleaved, the second iterating 3 times -/
example : Causal [[0, 9], [0, 10]] [] [([0, 10], none), ([0, 9], none), ([0, 10], some 0), ([0, 10], some 1), ([0, 9], some 0)] := by
  simp [Causal]
example : ∀ p ∈ [[0, 9], [0, 10]], p.dropLast ∉ [[0, 9], [0, 10]] := by decide

/-- **numbering resumes after `LoopCombinator.restore`.** Restored on `(p, p.k)` (recovery re-runs instance `p` from the iteration
    after `k`), the combinator numbers the next back-edge arrival of `p` — whatever tag `p.x` it carries — `p.(k'+1)` where
    `k' = max(previous counter, k)`; in particular `p.(k+1)` on a fresh combinator. Other instances are not affected. -/
theorem restore_resumes (m : Counters) (p : Tag) (k x : Nat) :
    (number (restoreCounters m [(p, p ++ [k])]) (p ++ [x])).2 = p ++ [max ((m p).getD k) k + 1] ∧
    (∀ q, q ≠ p → restoreCounters m [(p, p ++ [k])] q = m q) := by
  constructor
  · simp [number, restoreCounters, setKey, Gen.loopRestore, Gen.loopIncr]
  · intro q hq
    simp [restoreCounters, setKey, hq]

/-- non-vacuity: resumed at iteration 10, the next iterations are 11 and 12 -/
example : numberEvs (fun _ => none) [.restore [([0, 3], [0, 3, 10])], .arrive [0, 3, 10], .arrive [0, 3, 11]] = [[0, 3, 11], [0, 3, 12]] := by
  decide

/-- **loop output, any arrival order, any number of instances, any iteration counts.** If the step receives, in
    any order `es`, the tokens of the loop instances `insts` (distinct non-empty tags; any counts `n ≥ 0`) and then
    the port's termination token, it emits exactly one output per instance — `all`: the list `p.0 … p.(n-1)` in
    index order (`[]` for `n = 0`), `last`: the value of iteration `n-1` (`None` for `n = 0`) — tagged `p`, in some
    order, and then terminates. Numeric order for `n ≥ 10` is part of the statement (`iterToks`). -/
theorem loop_output_any_order {V} (m : Method) (insts : List (Tag × List V))
    (hnd : (insts.map (·.1)).Nodup) (hne : ∀ i ∈ insts, i.1 ≠ [])
    (es : List (Ev V)) (hperm : es.Perm (insts.flatMap instEvents)) (st : Status) :
    (run m (es ++ [.term st])).out.Perm (insts.map (expected m)) ∧
    (run m (es ++ [.term st])).terminated = some (getStatus (reduce2 .skipped st) insts.isEmpty) :=
  loop_output_insts m insts hnd hne es hperm st

/-- what `expected` is: all → list of `p.j ↦ vals[j]` in index order; last → the last value, `none` for 0 iterations -/
theorem expected_spec {V} (p : Tag) (vals : List V) :
    expected .all (p, vals) = .list p (iterToks p 0 vals) ∧ expected .last (p, vals) = .single p vals.getLast? ∧
    (iterToks p 0 vals).length = vals.length ∧
    (∀ t ∈ iterToks p 0 vals, ∃ j, t.tag = p ++ [j]) := by
  refine ⟨rfl, rfl, iterToks_length p 0 vals, ?_⟩
  intro t ht
  obtain ⟨j, _, h⟩ := mem_iterToks ht
  exact ⟨j, h⟩

/-- one instance, stated directly (the form of DESIGN §4): every permutation of `{p.0 … p.(n-1)} ∪ {iterTerm p.n}` -/
theorem loop_output_single {V} (m : Method) (p : Tag) (hp : p ≠ []) (vals : List V) (es : List (Ev V))
    (hperm : es.Perm ((iterToks p 0 vals).map Ev.data ++ [Ev.iterTerm (p ++ [vals.length])])) (st : Status) :
    (run m (es ++ [.term st])).out = [expected m (p, vals)] := by
  have := loop_output_insts m [(p, vals)] (by simp) (by simpa using hp) es (by simpa [instEvents] using hperm) st
  exact List.perm_singleton.mp (by simpa using this.1)

/-- **no early termination.** The step leaves its loop only on the port's termination token: after any sequence
    of body outputs and iteration terminations it is still running. Since the port is FIFO and the termination
    token is the last thing put on it (C03), every complete instance has emitted before (previous theorem). -/
theorem loop_output_no_early_termination {V} (m : Method) (es : List (Ev V)) (hd : ∀ e ∈ es, IsData e) :
    (run m es).terminated = none :=
  no_exit_before_term m es hd

/-- **every instance's iteration termination is produced, once, with the right count.** The closed loop of one
    instance (combinator numbering → loop-when → body → back edge) whose condition first fails at iteration index `n`
    sends to the loop output step exactly the body outputs `p.0 … p.(n-1)` and one `IterationTerminationToken(p.n)` —
    the premise `instEvents` of `loop_output_any_order` (with `n = 0`: only `p.0`'s termination). -/
theorem loop_term_emitted {V} (cond : Tag → Bool) (body : Tag → V) (p : Tag) (n : Nat)
    (htrue : ∀ k, k < n → cond (p ++ [k]) = true) (hfalse : cond (p ++ [n]) = false)
    (m : Counters) (hm : m p.dropLast = none) (fuel : Nat) (hf : n < fuel) :
    cycle cond body fuel m p = instEvents (p, (List.range n).map (fun k => body (p ++ [k]))) := by
  rw [cycle_eq cond body p n htrue hfalse m hm fuel hf]
  simp [instEvents]

/-- **provenance recorded by the loop output step.** Whenever a body output or an iteration termination makes the step emit for
    an instance, the inputs recorded for the emitted token (`input_token_ids`) are exactly the body outputs collected for that
    instance — the tokens of which the output is `_process_output` (compared with the database by the K-check). -/
theorem loop_output_provenance {V} (m : Method) (s : St V) (e : Ev V) (hq : s.terminated = none ∧ s.termKeys = [])
    (hd : match e with | .term _ => False | _ => True) :
    ∀ p ∈ provOfStep m s e, processOutput m p.1 p.2 ∈ (step m s e).out :=
  fun p hp => (provOfStep_data m s e hq (by cases e <;> first | exact hd | trivial) p hp).1

/-- non-vacuity: the iteration termination `0.1.2` arriving last completes instance `0.1`, whose provenance is its two body outputs -/
example : (runProv .all ({} : St Nat) [.data ⟨[0, 1, 1], 5⟩, .data ⟨[0, 1, 0], 3⟩, .iterTerm [0, 1, 2]]).map (fun p => (p.1, p.2.length)) =
    [([0, 1], 2)] := by decide

/-- **the combinator step keeps reading while an instance iterates.** Once the first token of instance `p` has put
    `p` on the port's checklist, the step keeps creating `get` tasks for the port — even after the port's
    termination token (status COMPLETED; the step's `failed` flag not set) — until `IterationTerminationToken(p)` arrives. -/
theorem loop_combinator_step_waits (s : CSt) (es : List CEv) (p : Tag) (hp : p ∈ s.checklist) (hr : s.reading = true)
    (hf : s.failed = false) (hes : ∀ e ∈ es, e.benign p) :
    p ∈ (es.foldl cstep s).checklist ∧ (es.foldl cstep s).reading = true := by
  induction es generalizing s with
  | nil => exact ⟨hp, hr⟩
  | cons e es ih =>
    have h := cstep_keeps s e p hp hr hf (hes e (by simp))
    exact ih (cstep s e) h.1 h.2.1 h.2.2 (fun x hx => hes x (List.mem_cons_of_mem _ hx))

/-- **the loop combinator step as a whole (one port).** As long as the port is read, the tokens the step puts on its output port
    are the combinator's numbering of the data tokens received, in order — iteration terminations and the port's termination
    token add nothing. Together with `loop_numbering` this ties the numbering to the real step (its output port), not only to
    the combinator object. -/
theorem loop_combinator_step_outputs (es : List CEv) (s : LCSt) (h : Reads s es) :
    (es.foldl lcstep s).out = s.out ++ numberFrom s.cnt (dataTags es) :=
  lcrun_out es s h

/-- non-vacuity: instance `0.0` starts, its termination token overtakes the back edges, two back edges, then the iteration
    termination: the port is read throughout, three numbered tokens come out, the step terminates COMPLETED -/
example : Reads {} [.data [0, 0], .term .completed, .data [0, 0, 0], .data [0, 0, 1], .iterTerm [0, 0]] ∧
    (lcrun [.data [0, 0], .term .completed, .data [0, 0, 0], .data [0, 0, 1], .iterTerm [0, 0]]).out = [[0, 0, 0], [0, 0, 1], [0, 0, 2]] ∧
    (lcrun [.data [0, 0], .term .completed, .data [0, 0, 0], .data [0, 0, 1], .iterTerm [0, 0]]).terminated = some .completed := by
  refine ⟨?_, by decide, by decide⟩
  simp only [Reads]
  refine ⟨by decide, by decide, by decide, by decide, by decide, trivial⟩

/-- the first token of an instance enters the checklist (unless its parent tag is already there: a back edge) -/
theorem checklist_enters (s : CSt) (p : Tag) (hr : s.reading = true) (h : p.dropLast ∉ s.checklist) :
    p ∈ (cstep s (.data p)).checklist := by
  unfold cstep
  simp only [hr, Bool.not_true, Bool.false_eq_true, if_false]
  by_cases hp : p ∈ s.checklist
  · simp [cpre, Gen.loopChecklistAdds, h, hp]
  · simp [cpre, Gen.loopChecklistAdds, h, hp]

/-- and the step stops reading a port exactly when its termination token was taken and nothing is left on the checklist -/
theorem checklist_stops (s : CSt) (st : Status) (hr : s.reading = true) (hc : s.checklist = []) :
    (cstep s (.term st)).reading = false := by
  unfold cstep
  simp [cpre, hr, hc, Gen.loopKeepsReading]

/-- since fix 4e89c00: after its own FAILED / CANCELLED termination token the port is not read again, whatever is on the checklist
    (no further combination can be produced) -/
theorem checklist_stops_on_failure (s : CSt) (st : Status) (hr : s.reading = true) (hst : st = .failed ∨ st = .cancelled) :
    (cstep s (.term st)).reading = false := by
  unfold cstep
  rcases hst with rfl | rfl <;> simp [cpre, hr, Gen.loopKeepsReading, Gen.loopFails]

/-- non-vacuity: 12 iterations arriving in reverse order, iteration termination first -/
example (evs : List (Ev Nat))
    (hevs : evs = (iterToks [0, 3] 0 (List.range 12)).map Ev.data ++ [Ev.iterTerm ([0, 3] ++ [(List.range 12).length])]) :
    (run .all (evs.reverse ++ [.term .completed])).out = [.list [0, 3] (iterToks [0, 3] 0 (List.range 12))] :=
  loop_output_single .all [0, 3] (by decide) (List.range 12) evs.reverse (hevs ▸ List.reverse_perm _) .completed

/-- zero iterations: `[]` and `None` -/
example : expected .all (([0, 1] : Tag), ([] : List Nat)) = .list [0, 1] [] ∧ expected .last (([0, 1] : Tag), ([] : List Nat)) = .single [0, 1] none :=
  ⟨rfl, rfl⟩

end SFV.C06
