import SFV.Lemmas.ProvGraph
import SFV.Lemmas.ProvFuel
import SFV.Lemmas.Avail
import SFV.Gen.AvailGuards
import SFV.Gen.ProvGuards
/-! # C18 — recovery re-runs only failed jobs and producers of lost data

Theorems about the model of `ProvenanceGraph.build_graph` (`SFV/Model/ProvGraph.lean`): the set of tokens the recovery
workflow regenerates. `stop t` = the token's data is available or it is the job token of a job that is already being
recovered. Quantified over every provenance relation `deps` (no acyclicity needed for the partial-correctness statements; fuel
sufficiency needs tokens `< N` and no self-dependency), every
availability map and every list of input tokens. What is abstracted: tokens are ids; `is_available` is a flag (the
real one looks at the data manager and the file system — exercised by the recovery runs of the correspondence check);
the mapping from tokens to the steps/jobs that are re-executed (`GraphMapper.get_step_ids`) is checked end to end on
real runs only. -/
namespace SFV.C18
open SFV SFV.Prov

/-- **build_graph = backward closure**: when `build_graph` returns, its node set is exactly the least set containing
    the failed job's inputs and closed under "not available ⇒ all dependees" -/
theorem build_graph_closure (inp : In) (inputs : List Nat) (fuel : Nat) (s : BSt)
    (h : buildGraph inp fuel inputs = .ok s) (n : Nat) : n ∈ s.nodes ↔ Reach inp inputs n := by
  obtain ⟨⟨h1, h2, h3, h4, h5, h6, h7⟩, hq⟩ := inv_bfs fuel (inv_start inp inputs) h
  constructor
  · exact h1 n
  · intro hr
    induction hr with
    | input ht => exact h6 _ ht
    | @dep t p _ hstop hp ih =>
      have hinfo : t ∈ s.info := by
        rcases h4 t ih with h | h
        · exact h
        · rw [hq] at h; cases h
      rcases h5 t hinfo with h | ⟨_, h⟩
      · rw [hstop] at h; cases h
      · exact (h p hp).1

/-- **re-executed ⇒ ancestor of a failed job's input through unavailable tokens only**: every edge of the graph goes from
    a dependee to a token that is reachable and not available; so a job whose outputs stayed available contributes no
    predecessor — nothing upstream of an available token is selected through it -/
theorem reexecuted_are_ancestors (inp : In) (inputs : List Nat) (fuel : Nat) (s : BSt)
    (h : buildGraph inp fuel inputs = .ok s) (p t : Nat) (he : (p, t) ∈ s.edges) :
    Reach inp inputs t ∧ inp.stop t = false ∧ p ∈ inp.deps t :=
  (inv_bfs fuel (inv_start inp inputs) h).1.2.1 p t he

/-- **sources are available**: a node of the result without incoming edge is available (or the job token of a job being
    recovered); every other node has *all* its dependees in the graph, each with its edge -/
theorem sources_available (inp : In) (inputs : List Nat) (fuel : Nat) (s : BSt)
    (h : buildGraph inp fuel inputs = .ok s) (t : Nat) (ht : t ∈ s.nodes) :
    inp.stop t = true ∨ (inp.deps t ≠ [] ∧ ∀ p, p ∈ inp.deps t → p ∈ s.nodes ∧ (p, t) ∈ s.edges) := by
  obtain ⟨⟨h1, h2, h3, h4, h5, h6, h7⟩, hq⟩ := inv_bfs fuel (inv_start inp inputs) h
  have hinfo : t ∈ s.info := by
    rcases h4 t ht with h | h
    · exact h
    · rw [hq] at h; cases h
  exact h5 t hinfo

/-- **soft failure ⇒ only the failed job**: if every input token of the failed job is available the graph is exactly
    the inputs, with no edge — nothing else is re-executed -/
theorem soft_failure_only_self (inp : In) (inputs : List Nat) (fuel : Nat) (s : BSt)
    (hav : ∀ i, i ∈ inputs → inp.stop i = true) (h : buildGraph inp fuel inputs = .ok s) :
    (∀ n, n ∈ s.nodes ↔ n ∈ inputs) ∧ s.edges = [] := by
  have hclos := build_graph_closure inp inputs fuel s h
  have hreach : ∀ n, Reach inp inputs n → n ∈ inputs := by
    intro n hr
    induction hr with
    | input ht => exact ht
    | dep _ hstop _ ih => rw [hav _ ih] at hstop; cases hstop
  refine ⟨fun n => ⟨fun hn => hreach n ((hclos n).mp hn), fun hn => (hclos n).mpr (Reach.input hn)⟩, ?_⟩
  cases he : s.edges with
  | nil => rfl
  | cons e es =>
    obtain ⟨p, t⟩ := e
    have := reexecuted_are_ancestors inp inputs fuel s h p t (by rw [he]; simp)
    have ht := hreach t this.1
    rw [hav t ht] at this
    cases this.2.1

/-- an iteration of the loop raises (`FailureHandlingException`) exactly when the popped token is neither available
    nor has dependees -/
theorem build_graph_raises_iff_no_previous (inp : In) (s : BSt) (t : Nat) (q : List Nat) :
    visit inp s t q = none ↔ (inp.stop t = false ∧ inp.deps t = []) := by
  unfold visit
  cases hs : inp.stop t <;> cases hd : inp.deps t <;> simp

/-- **fuel sufficiency** (the model's loop bound is not a restriction): for a provenance relation over tokens `< N` without
    self-dependencies (every DAG) and duplicate-free inputs, `N` iterations suffice — `build_graph` either returns a graph or
    raises for a lost token without dependees; each token is popped at most once (`Lemmas/ProvFuel.lean`) -/
theorem build_graph_fuel_sufficient (inp : In) (N : Nat) (inputs : List Nat) (hb : Bounded inp N) (hi : Irrefl inp)
    (hn : inputs.Nodup) (hlt : ∀ i, i ∈ inputs → i < N) :
    (∃ s, buildGraph inp N inputs = .ok s) ∨ (∃ t, buildGraph inp N inputs = .noPrev t) := by
  have hf : FInv N (start inputs) :=
    { infoNodup := by simp [start], queueNodup := by simpa [start] using hn, disjoint := by simp [start],
      infoLt := by simp [start], queueLt := by simpa [start] using hlt }
  have := bfs_fuel hb hi N (start inputs) hf (by simp [start])
  unfold buildGraph
  cases hres : bfs inp N (start inputs) with
  | ok s => exact Or.inl ⟨s, rfl⟩
  | noPrev t => exact Or.inr ⟨t, rfl⟩
  | outOfFuel => exact absurd hres this

/-- with enough fuel the answer does not depend on the fuel: together with `build_graph_closure` the result on a DAG is THE
    backward closure — stated as: any two successful runs have the same node membership -/
theorem build_graph_nodes_fuel_independent (inp : In) (inputs : List Nat) (f1 f2 : Nat) (s1 s2 : BSt)
    (h1 : buildGraph inp f1 inputs = .ok s1) (h2 : buildGraph inp f2 inputs = .ok s2) (n : Nat) :
    n ∈ s1.nodes ↔ n ∈ s2.nodes := by
  rw [build_graph_closure inp inputs f1 s1 h1, build_graph_closure inp inputs f2 s2 h2]

/-- without the hypothesis: a token that depends on itself is enqueued again and again — two iterations do not suffice for
    two tokens -/
theorem self_dependency_needs_more_fuel :
    (match buildGraph ⟨fun t => if t = 1 then [1, 0] else [], fun t => t == 0⟩ 2 [1] with
      | .outOfFuel => true | _ => false) = true := by decide

/-- non-vacuity of `build_graph_fuel_sufficient`: the diamond below with exactly `N = 5` iterations -/
example : (match buildGraph ⟨fun t => match t with | 4 => [2, 3] | 2 => [1] | 3 => [0] | 1 => [0] | _ => [],
                             fun t => t == 1 || t == 3 || t == 0⟩ 5 [4] with
    | .ok s => s.nodes == [4, 2, 3, 1] | _ => false) = true := by decide

/-- **T** (statement-level tie of the hand-written model to the source): every statement of `build_graph` that `Model/ProvGraph.lean`
    transcribes is found in the source as the model has it — frontier = deque of the inputs which are nodes from the start, FIFO pop,
    stop at the job token of a job being recovered and at available tokens, dependees from the provenance table, edge dependee → token,
    enqueue unless visited (`info_tokens`) or already in the frontier, raise when a lost token has no dependees, a token becomes
    "visited" only at the end of its own iteration (why `Irrefl` is needed for fuel sufficiency) -/
theorem gen_build_graph_shape :
    Gen.provShape = ⟨true, true, true, true, true, true, true, true, true, true, true, true⟩ := rfl

/-! ## what "available" means (model `SFV/Model/Avail.lean`, quantifiers generated from the source) -/

/-- **T**: `FileToken.is_available` asks for SOME surviving copy of each path, `ListToken` / `ObjectToken` for EVERY element -/
theorem gen_avail_quantifiers : Gen.availCfg = Avail.codeCfg := rfl

/-- **available ⇔ nothing is lost**: with the repository's quantifiers a token (plain, file, list or record, nested at will) is
    available iff every leaf is recoverable and every path of every file in it has at least one surviving primary copy -/
theorem available_iff_every_leaf_survives (t : Avail.Tok) : Avail.avail Gen.availCfg t = true ↔ Avail.Good t := by
  rw [gen_avail_quantifiers]; exact Avail.avail_iff t

/-- the two models together: run `build_graph` with `stop` = "another recovery re-runs this job" or "available" (availability
    model, generated quantifiers): every token of the result either is being recovered / has all its data, or all its dependees
    are in the result with their edges -/
theorem graph_nodes_survive_or_are_regenerated (tok : Nat → Avail.Tok) (recovering : Nat → Bool) (deps : Nat → List Nat)
    (inputs : List Nat) (fuel : Nat) (s : BSt)
    (h : buildGraph ⟨deps, fun t => recovering t || Avail.avail Gen.availCfg (tok t)⟩ fuel inputs = .ok s) (t : Nat) (ht : t ∈ s.nodes) :
    (recovering t = true ∨ Avail.Good (tok t)) ∨ (deps t ≠ [] ∧ ∀ p, p ∈ deps t → p ∈ s.nodes ∧ (p, t) ∈ s.edges) := by
  rcases sources_available _ inputs fuel s h t ht with h1 | h1
  · left
    simp only [Bool.or_eq_true] at h1
    exact h1.imp id (available_iff_every_leaf_survives (tok t)).mp
  · exact Or.inr h1

/-- each quantifier matters (the two classes of edits seen in the seeded changes): with `all` over the copies a surviving replica
    is ignored (the producer is re-run although its data exists); with `any` over the fields of a record a partial loss is missed
    (the producer is NOT re-run although part of its output is gone) -/
theorem wrong_quantifiers_false :
    (Avail.avail Avail.codeCfg (.file true [[false, true]]) = true ∧ Avail.avail ⟨.all, .all, .all⟩ (.file true [[false, true]]) = false) ∧
    (Avail.avail Avail.codeCfg (.record [.file true [[true]], .file true [[false]]]) = false ∧
     Avail.avail ⟨.any, .all, .any⟩ (.record [.file true [[true]], .file true [[false]]]) = true) := by decide

/-- non-vacuity: a record holding a list of two replicated files and a plain value, one copy of each file lost: available -/
example : Avail.avail Gen.availCfg (.record [.list [.file true [[true, false]], .file true [[false, true]]], .plain true]) = true := by
  decide

/-! ### non-vacuity: a diamond with one lost branch -/

/-- tokens 1 ← 2, 3 ← 4: `4` (input of the failed job) is lost, so are `2`; `3` and `1` are available:
    the graph is 4, 2, 3, 1 with the edges 2→4, 3→4, 1→2; nothing above the available `3` is added -/
def exDeps : Nat → List Nat
  | 4 => [2, 3] | 2 => [1] | 3 => [0] | 1 => [0] | _ => []
def exStop : Nat → Bool
  | 1 => true | 3 => true | 0 => true | _ => false

example : (match buildGraph ⟨exDeps, exStop⟩ 10 [4] with
    | .ok s => s.nodes == [4, 2, 3, 1] && s.edges == [(2, 4), (3, 4), (1, 2)]
    | _ => false) = true := by decide

end SFV.C18
