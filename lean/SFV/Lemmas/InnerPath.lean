import SFV.Model.InnerPath
namespace SFV.InnerPath

theorem firstMatch_longest : ∀ (ms : List Mount) (p : Path) (m : Mount), Desc ms → firstMatch ms p = some m →
    m ∈ ms ∧ m.key.isPrefixOf p = true ∧ ∀ m' ∈ ms, m'.key.isPrefixOf p = true → m'.key.length ≤ m.key.length := by
  intro ms
  induction ms with
  | nil => intro p m _ h; simp [firstMatch] at h
  | cons a ms ih =>
    intro p m hd h
    have hd' := List.pairwise_cons.mp hd
    simp only [firstMatch] at h
    by_cases ha : a.key.isPrefixOf p = true
    · simp only [ha, if_true, Option.some.injEq] at h
      subst h
      refine ⟨List.mem_cons_self, ha, ?_⟩
      intro m' hm' hp'
      rcases List.mem_cons.mp hm' with rfl | hm'
      · exact Nat.le_refl _
      · apply Classical.byContradiction
        intro hlt
        have hlt' : a.key.length < m'.key.length := by omega
        have h1 := List.isPrefixOf_iff_prefix.mp ha
        have h2 := List.isPrefixOf_iff_prefix.mp hp'
        have h3 : a.key <+: m'.key := List.prefix_of_prefix_length_le h1 h2 (by omega)
        exact hd'.1 m' hm' ⟨List.isPrefixOf_iff_prefix.mpr h3, hlt'⟩
    · simp only [ha] at h
      obtain ⟨h1, h2, h3⟩ := ih p m hd'.2 (by simpa using h)
      refine ⟨List.mem_cons_of_mem _ h1, h2, ?_⟩
      intro m' hm' hp'
      rcases List.mem_cons.mp hm' with rfl | hm'
      · exact absurd hp' ha
      · exact h3 m' hm' hp'

theorem mem_insertBy (le : Mount → Mount → Bool) (a x : Mount) : ∀ (l : List Mount), x ∈ insertBy le a l ↔ x = a ∨ x ∈ l := by
  intro l
  induction l with
  | nil => simp [insertBy]
  | cons b bs ih =>
    simp only [insertBy]
    split
    · simp
    · simp only [List.mem_cons, ih]
      constructor
      · rintro (h | h | h)
        · exact Or.inr (Or.inl h)
        · exact Or.inl h
        · exact Or.inr (Or.inr h)
      · rintro (h | h | h)
        · exact Or.inr (Or.inl h)
        · exact Or.inl h
        · exact Or.inr (Or.inr h)

theorem mem_sortBy (le : Mount → Mount → Bool) (x : Mount) : ∀ (l : List Mount), x ∈ sortBy le l ↔ x ∈ l := by
  intro l
  induction l with
  | nil => simp [sortBy]
  | cons a as ih => simp [sortBy, mem_insertBy, ih]

end SFV.InnerPath
