"""Mini translator: Python `ast` expressions -> Lean 4 expressions over Int / Bool / enums.

Only the shapes the extractors need are supported; anything else raises TranslateError, which the
check treats as a *broken tie* (the theorem is no longer about what the code says)."""
from __future__ import annotations

import ast


class TranslateError(Exception):
    pass


_CMP = {ast.Eq: "==", ast.NotEq: "!=", ast.Lt: "<", ast.LtE: "<=", ast.Gt: ">", ast.GtE: ">="}
_BIN = {ast.Add: "+", ast.Sub: "-", ast.Mult: "*"}


def parse_function(path: str, name: str, cls: str | None = None) -> ast.FunctionDef | ast.AsyncFunctionDef:
    with open(path) as f:
        tree = ast.parse(f.read(), filename=path)
    scope = tree.body
    if cls is not None:
        for node in tree.body:
            if isinstance(node, ast.ClassDef) and node.name == cls:
                scope = node.body
                break
        else:
            raise TranslateError(f"class {cls} not found in {path}")
    for node in scope:
        if isinstance(node, (ast.FunctionDef, ast.AsyncFunctionDef)) and node.name == name:
            return node
    raise TranslateError(f"function {name} not found in {path}")


class ExprTranslator:
    """names: python source text of a sub-expression (via ast.unparse) -> lean identifier.
    enums: python enum class name -> lean prefix (members become `.lowercase`)."""

    def __init__(self, names: dict[str, str], enums: dict[str, str] | None = None, numeric: str = "Int"):
        self.names = names
        self.enums = enums or {}
        self.numeric = numeric

    def tr(self, node: ast.AST) -> str:
        src = ast.unparse(node)
        if src in self.names:
            return self.names[src]
        if isinstance(node, ast.NamedExpr):  # (res := e)
            return self.tr(node.value)
        if isinstance(node, ast.Constant):
            if isinstance(node.value, bool):
                return "true" if node.value else "false"
            if isinstance(node.value, int):
                return f"({node.value} : {self.numeric})" if node.value < 0 else str(node.value)
            if node.value is None:
                return "none"
            raise TranslateError(f"unsupported constant {node.value!r}")
        if isinstance(node, ast.Attribute) and isinstance(node.value, ast.Name) and node.value.id in self.enums:
            return f"{self.enums[node.value.id]}.{node.attr.lower()}"
        if isinstance(node, ast.BinOp) and type(node.op) in _BIN:
            return f"({self.tr(node.left)} {_BIN[type(node.op)]} {self.tr(node.right)})"
        if isinstance(node, ast.UnaryOp) and isinstance(node.op, ast.Not):
            return f"(!{self.tr(node.operand)})"
        if isinstance(node, ast.UnaryOp) and isinstance(node.op, ast.USub):
            return f"(-{self.tr(node.operand)})"
        if isinstance(node, ast.BoolOp):
            op = "&&" if isinstance(node.op, ast.And) else "||"
            return "(" + f" {op} ".join(self.tr(v) for v in node.values) + ")"
        if isinstance(node, ast.Compare):
            parts = []
            left = node.left
            for op, right in zip(node.ops, node.comparators):
                if type(op) in _CMP:
                    parts.append(f"decide ({self.tr(left)} {_CMP[type(op)]} {self.tr(right)})"
                                 if type(op) not in (ast.Eq, ast.NotEq)
                                 else f"({self.tr(left)} {_CMP[type(op)]} {self.tr(right)})")
                elif isinstance(op, (ast.In, ast.NotIn)) and isinstance(right, (ast.Tuple, ast.List, ast.Set)):
                    alts = " || ".join(f"({self.tr(left)} == {self.tr(e)})" for e in right.elts) or "false"
                    parts.append(f"({alts})" if isinstance(op, ast.In) else f"(!({alts}))")
                elif isinstance(op, (ast.Is, ast.IsNot)) and isinstance(right, ast.Constant) and right.value is None:
                    parts.append(f"({self.tr(left)}).isNone" if isinstance(op, ast.Is) else f"({self.tr(left)}).isSome")
                else:
                    raise TranslateError(f"unsupported comparison in `{src}`")
                left = right
            return parts[0] if len(parts) == 1 else "(" + " && ".join(parts) + ")"
        if isinstance(node, ast.IfExp):
            return f"(if {self.tr(node.test)} then {self.tr(node.body)} else {self.tr(node.orelse)})"
        raise TranslateError(f"unsupported expression `{src}`")


def find_nodes(root: ast.AST, kind, pred=lambda n: True):
    return [n for n in ast.walk(root) if isinstance(n, kind) and pred(n)]
