import SFV.Model.Locks
import SFV.Lemmas.Claims
import SFV.Lemmas.ClaimStatus
/-! # C19 — concurrent recoveries share work and never deadlock

Two protocol models of `RollbackFailureManager._recover` / `_synchronize_workflows`: ordered acquisition of the
per-request locks (`SFV/Model/Locks.lean`) and check-then-claim under the lock (`SFV/Model/Claims.lean`). Proved for any
number of concurrent recoveries and every interleaving. Abstracted (runtime layers, exercised by the real concurrent
runs of the correspondence check): the recovery workflows themselves, delivery of the regenerated tokens to attached
recoveries through `InterWorkflowPort` boundary rules, termination of each recovery executor. -/
namespace SFV.C19
open SFV

/-- **ordered lock acquisition never deadlocks**: if every recovery holds a prefix of its strictly increasing lock list and
    some recovery is not finished, some recovery can move (release everything, or acquire a free lock) -/
theorem ordered_locks_no_deadlock (s : Locks.St) (hwf : Locks.WF s) (hlive : ∃ p ∈ s.procs, ¬ p.done) :
    ∃ p ∈ s.procs, Locks.canMove s p :=
  Locks.no_deadlock s hwf hlive

/-- without the common order two recoveries can block each other: `p` holds 1 and wants 0, `q` holds 0 and wants 1 —
    nobody can move (the well-formedness hypothesis `Sorted` is what excludes it) -/
theorem unordered_locks_can_deadlock :
    ∃ s : Locks.St, (∃ p ∈ s.procs, ¬ p.done) ∧ ¬ ∃ p ∈ s.procs, Locks.canMove s p := by
  refine ⟨⟨[⟨[1, 0], 1, false⟩, ⟨[0, 1], 1, false⟩]⟩, ⟨_, List.mem_cons_self .., by simp⟩, ?_⟩
  rintro ⟨p, hp, hnd, hmv⟩
  simp only [List.mem_cons, List.mem_nil_iff, or_false] at hp
  rcases hp with rfl | rfl
  · rcases hmv with h | ⟨l, hl, hfree⟩
    · simp at h
    · simp at hl; subst hl
      exact hfree ⟨[0, 1], 1, false⟩ (by simp) ⟨by simp, by simp⟩
  · rcases hmv with h | ⟨l, hl, hfree⟩
    · simp at h
    · simp at hl; subst hl
      exact hfree ⟨[1, 0], 1, false⟩ (by simp) ⟨by simp, by simp⟩

/-- **claim at most once per loss**: with the per-request lock, in every reachable state each producer has been claimed
    (its version incremented, its re-execution started) at most once since it last finished — the other recoveries that
    need it see it recovering and attach -/
theorem claim_at_most_once_per_loss {s : Claims.St} (h : Claims.Reachable ⟨true⟩ s) (j : Nat) : s.claims j ≤ 1 := by
  have : Claims.ClaimInv s := by
    induction h with
    | init => exact ⟨by intro j; simp [Claims.init], by intro j _; rfl, by intro p j h; cases h⟩
    | step _ hs ih => exact Claims.claimInv_step ih hs
  exact this.1 j

/-- without the lock the check and the claim of two recoveries interleave and the producer is claimed twice -/
theorem claim_twice_without_lock :
    ∃ s, Claims.Reachable ⟨false⟩ s ∧ s.claims 7 = 2 ∧ s.total 7 = 2 := by
  have hrun : ∀ (as : List Claims.Act) (s s' : Claims.St), Claims.Reachable ⟨false⟩ s → Claims.runActs ⟨false⟩ s as = some s' →
      Claims.Reachable ⟨false⟩ s' := by
    intro as; induction as with
    | nil => intro s s' h e; simp [Claims.runActs] at e; exact e ▸ h
    | cons a as ih =>
      intro s s' h e; simp only [Claims.runActs] at e
      split at e
      · rename_i s1 hs1; exact ih s1 s' (Claims.Reachable.step h hs1) e
      · cases e
  refine ⟨(Claims.runActs ⟨false⟩ Claims.init [.check 1 7, .check 2 7, .claim 1, .claim 2]).get (by decide),
          hrun _ _ _ Claims.Reachable.init (Option.some_get _).symm, ?_, ?_⟩ <;> decide

/-- non-vacuity: two recoveries need producer 7; the first claims it, the second attaches; after it finished and was
    lost again a third recovery claims it once more (total 2, once per epoch) -/
example : (match Claims.runActs ⟨true⟩ Claims.init
      [.acquire 1 7, .check 1 7, .claim 1, .release 1 7, .acquire 2 7, .check 2 7, .release 2 7, .finish 7,
       .acquire 3 7, .check 3 7, .claim 3, .release 3 7] with
    | some s => s.claims 7 == 1 && s.total 7 == 2 | none => false) = true := by decide

/-! ## the status test of `is_recovering` (generated: `SFV.Gen.recoveringStatuses`) -/

/-- **T**: every status a job has between a claim and the end of its re-execution (ROLLBACK set by `_update_request`, FIREABLE by
    the scheduler, RUNNING by the ExecuteStep) is recognised by the repository's `is_recovering` -/
theorem gen_is_recovering_covers_reexecution :
    ∀ st, ClaimStatus.reexecuting st = true → Gen.isRecovering st = true := by
  intro st; cases st <;> decide

/-- **T**: a job that is not being re-executed (completed, failed, cancelled, skipped, or in RECOVERY = its own failure is being
    handled and nobody rolled it back yet) is not reported as recovering — otherwise a recovery would attach to a re-execution
    that nobody performs -/
theorem gen_is_recovering_rejects_settled :
    Gen.isRecovering .COMPLETED = false ∧ Gen.isRecovering .FAILED = false ∧ Gen.isRecovering .CANCELLED = false ∧
    Gen.isRecovering .SKIPPED = false ∧ Gen.isRecovering .RECOVERY = false := by decide

/-- **claim at most once per loss, with the repository's status test**: in the status-refined protocol (claim → ROLLBACK →
    FIREABLE → RUNNING → COMPLETED or failed) run with the GENERATED `is_recovering`, every producer is claimed at most once
    between two ends of its execution, in every interleaving of any number of recoveries -/
theorem claim_at_most_once_while_reexecuting {s : ClaimStatus.St} (h : ClaimStatus.Reachable Gen.isRecovering s) (j : Nat) :
    s.claims j ≤ 1 := by
  have : ClaimStatus.Inv s := by
    induction h with
    | init => exact ClaimStatus.inv_init
    | step _ hs ih => exact ClaimStatus.inv_step gen_is_recovering_covers_reexecution ih hs
  exact this.1 j

/-- each of the three statuses is necessary: a status test that misses one status of the re-execution (and, like the real one,
    does not report completed jobs) lets a second recovery claim the producer while the first claim's re-execution is in that
    status — two re-executions for one loss -/
theorem unrecognised_status_claims_twice (seen : Gen.JobStatus → Bool) (st : Gen.JobStatus)
    (hst : ClaimStatus.reexecuting st = true) (hmiss : seen st = false) (hc : seen .COMPLETED = false) :
    ∃ s, ClaimStatus.Reachable seen s ∧ s.status 7 = .ROLLBACK ∧ s.claims 7 = 2 := by
  have wit : ∀ as : List ClaimStatus.Act,
      (∃ s', ClaimStatus.runActs seen ClaimStatus.init as = some s' ∧ s'.status 7 = .ROLLBACK ∧ s'.claims 7 = 2) →
      ∃ s, ClaimStatus.Reachable seen s ∧ s.status 7 = .ROLLBACK ∧ s.claims 7 = 2 := by
    rintro as ⟨s', hr, hp⟩
    exact ⟨s', ClaimStatus.reachable_runActs as _ _ ClaimStatus.Reachable.init hr, hp⟩
  cases st <;> simp [ClaimStatus.reexecuting] at hst
  · -- FIREABLE
    apply wit [.acquire 1 7, .check 1 7, .claim 1, .release 1 7, .schedule 7, .acquire 2 7, .check 2 7, .claim 2]
    simp [ClaimStatus.runActs, ClaimStatus.step, ClaimStatus.init, hc, hmiss]
  · -- RUNNING
    apply wit [.acquire 1 7, .check 1 7, .claim 1, .release 1 7, .schedule 7, .start 7, .acquire 2 7, .check 2 7, .claim 2]
    simp [ClaimStatus.runActs, ClaimStatus.step, ClaimStatus.init, hc, hmiss]
  · -- ROLLBACK
    apply wit [.acquire 1 7, .check 1 7, .claim 1, .release 1 7, .acquire 2 7, .check 2 7, .claim 2]
    simp [ClaimStatus.runActs, ClaimStatus.step, ClaimStatus.init, hc, hmiss]

/-- non-vacuity (status model, generated test): the second recovery arrives while the producer's re-execution is RUNNING and
    attaches; after it completed and was lost again a third recovery claims it (total 2, one per epoch) -/
example : (match ClaimStatus.runActs Gen.isRecovering ClaimStatus.init
      [.acquire 1 7, .check 1 7, .claim 1, .release 1 7, .schedule 7, .start 7, .acquire 2 7, .check 2 7, .release 2 7,
       .finish 7 true, .acquire 3 7, .check 3 7, .claim 3, .release 3 7] with
    | some s => s.claims 7 == 1 && s.total 7 == 2 | none => false) = true := by decide

end SFV.C19
