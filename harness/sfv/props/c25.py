"""C25 — commands run exactly once with verbatim arguments, environment and output."""
from __future__ import annotations

import asyncio
import codecs
import json
import os
import re
import shlex
import subprocess
import sys

from streamflow.core import utils as sfu
from streamflow.core.exception import WorkflowExecutionException
from streamflow.deployment import shell as sfshell
from streamflow.deployment.connector.local import LocalConnector
from streamflow.deployment.template import CommandTemplateMap

from sfv.framework import Ctx, Property
from sfv.rt.hexs import hx, unhx
from sfv.rt.shfake import in_scratch_cwd, Hang, MiniConnector, mini_location, run_watchdog
from sfv.translate import cmdtmpl

PY = sys.executable
MARKER_RE = re.compile(r"SF_CMD_END_[0-9a-f]{8}-[0-9a-f]{4}-[0-9a-f]{4}-[0-9a-f]{4}-[0-9a-f]{12}")

# boundary strings: every class of character the shell treats specially
CORPUS = [
    "plain", "a b", " lead", "trail ", "$HOME", "${HOME}", "$(id)", "`id`", "a'b", 'a"b', "q\"uote", "back\\slash", "end\\",
    "semi;colon", "amp&er", "pipe|d", "re>dir", "st*r", "que?", "br[a]", "~", "#hash", "a#b", "new\nline", "tab\there",
    "é ü", "日本", "😀", "-dash", "--", "=", "a=b", "$", "$ x", "5$", "!", "{a,b}", "(p)", "'", '"', "''", "\\", "$$", "%s",
    "\n", " ", "a\\nb", "x'\"'\"'y", "\"; echo INJECTED; \"", "'; echo INJECTED; '",
]
ALPHABET = list("abcXYZ019 _-./=:,@%+") + list("'\"\\$`;&|<>()*?[]~#!{}\n\t") + ["é", "日", "😀", "$HOME", "`id`", "$(id)", "\\n"]
KEYS = ["K", "SFV_VAR", "A1", "x_y", "PATH_LIKE", "K2"]

OBSERVER = r'''
import json, os, sys
cnt = sys.argv[1]
with open(cnt, "a") as f:
    f.write("x\n")
res = {"cwd": os.getcwd(), "vars": {k: os.environ.get(k) for k in sys.argv[2:]}}
sys.stdout.write(json.dumps(res).encode().hex())
'''


def rand_string(rng, maxlen=12) -> str:
    if rng.random() < 0.45:
        return rng.choice(CORPUS)
    return "".join(rng.choice(ALPHABET) for _ in range(rng.randint(0, maxlen)))


def tame_string(rng) -> str:
    return "".join(rng.choice("abcXYZ019_-.") for _ in range(rng.randint(1, 8)))


def dir_name(rng, nasty: bool) -> str:
    for _ in range(20):
        s = rand_string(rng) if nasty else tame_string(rng)
        s = s.replace("/", "_").replace("\x00", "")
        if s and s not in (".", "..") and len(s.encode()) < 200:
            return s
    return "d"


def parse_lex(line: str):
    """driver `lex` output -> ("ok", [("w", text, exp) | ("o", text)]) | (kind, None)"""
    parts = line.split(" ")
    if parts[0] != "ok":
        return parts[0], None
    items = []
    for p in parts[1:]:
        f = p.split(":")
        items.append(("w", unhx(f[1]), f[2] == "1") if f[0] == "w" else ("o", unhx(f[1])))
    return "ok", items


class C25(Property):
    pid = "C25"
    title = "Commands run exactly once with verbatim arguments, environment and output"
    lean_targets = ["SFV.Model.Proto", "SFV.Props.C25"]
    props_files = ["SFV/Props/C25.lean"]
    drivers = ["Drivers/C25.lean"]
    translators = [cmdtmpl.generate]
    quick_budget_s = 900
    thorough_budget_s = 3600
    rule = ("(1) render: random workdir/environment/command through the real _build_shell_command, create_command and "
            "CommandTemplateMap.get_command vs the Lean renderers assembled from the generated template pieces; (2) lexer: random "
            "lines over quotes, backslash, $, backtick, operators, blanks, unicode read by the Lean sh lexer and by /bin/sh (argv printed "
            "NUL-separated); (3) exec: an observer program reports cwd / variables / a counter file when run through MiniConnector "
            "(persistent sh), LocalConnector and a queue-manager script, with boundary + random directories and values; (4) framing: the real "
            "BaseShell._read_with_output on random outputs cut by random chunkings (incl. inside UTF-8 sequences and inside the marker) vs "
            "the Lean read loop; (5) policy: command sequences with an injected shell-side timeout on a persistent-sh connector vs the Lean "
            "run policy. Non-trivial = distinct (kind, arguments) containing at least one shell-special character or more than one chunk.")
    trusted_base = [
        "translator harness/sfv/translate/cmdtmpl.py (python ast -> SFV/Gen/CmdTemplates.lean); the generated pieces are compared with the "
        "strings the real functions return on every run",
        "modelled, not verified: POSIX sh word splitting/quoting as implemented in SFV/Model/Sh.lean (compared with /bin/sh = dash on every "
        "run), `cd`/`export` semantics, str.find/str.strip, codecs incremental UTF-8 decoding (done by CPython before the model sees the "
        "chunks), uuid4 freshness of the end marker",
        "the fakes: MiniConnector (BaseConnector with the three abstract methods filled in), the observer program, the chunking reader",
    ]
    technique = ("Lean 4 theorems about shlex.quote + a POSIX sh lexer, the end-marker framing loop over arbitrary chunkings, and the "
                 "shell/subprocess run policy; ast translator of the command templates; differential correspondence with the real code and /bin/sh")
    level_text = ("grade B: unbounded theorems (env_workdir_verbatim_shell for all strings, framing_exact for every chunking, shell_equiv_fresh and "
                  "exactly_once_partial for every history without shell failures; the full statements for create_command / get_command / timeouts are "
                  "proved false on witnesses and recorded as known findings) over a model of the renderers, the reader loop and the run policy; the real "
                  "shell, pipes and process execution are exercised by the correspondence check only")
    level_note = ("Lean kernel, axioms within {propext, Classical.choice, Quot.sound}; trusts the cmdtmpl extractor and the sh lexer model, both "
                  "compared with the real code / dash on every run")
    assumptions = ["environment variable names are identifiers (non-empty, [A-Za-z0-9_], no '=')",
                   "the end marker (uuid4) does not occur in the command's output; marker and exit status contain no newline",
                   "`complete output` is compared after str.strip(), as both execution paths strip",
                   "command output is valid UTF-8 when the two execution paths are compared (witness otherwise)"]

    # ------------------------------------------------------------------------------------------------------------
    def _setup(self, ctx: Ctx):
        import logging
        logging.getLogger("streamflow").setLevel(logging.ERROR)
        self.obs = os.path.join(ctx.scratch, "observer.py")
        with open(self.obs, "w") as f:
            f.write(OBSERVER)
        self.nfile = 0
        self.gen = getattr(self, "gen", 0) + 1

    def _counter(self, ctx: Ctx) -> str:
        self.nfile += 1
        return os.path.join(ctx.scratch, f"cnt{self.gen}_{self.nfile}")

    # ---- (1) rendering --------------------------------------------------------------------------------------------
    def render_cases(self, ctx: Ctx, n: int):
        rng = ctx.rng
        lines, expect, meta = [], [], []
        for i in range(n):
            wd = None if rng.random() < 0.2 else rand_string(rng)
            env = {rng.choice(KEYS): rand_string(rng) for _ in range(rng.choice([0, 1, 1, 2, 3]))}
            cmd = [rng.choice(["echo", "true", "ls -l", "printf '%s' x"]), tame_string(rng)]
            marker = "SF_CMD_END_" + tame_string(rng)
            kv = " ".join(f"{hx(k)} {hx(v)}" for k, v in env.items())
            sample = {"op": "render", "workdir": wd, "env": env, "cmd": cmd}
            ctx.case(sample, ("render", wd, tuple(env.items())), "render")
            real = sfshell._build_shell_command(marker, cmd, "X", ["sh"], environment=env or None, workdir=wd)
            lines.append(f"bsc {hx(marker)} {hx(wd) if wd else '~'} {hx(' '.join(cmd))} {kv}".strip())
            expect.append(hx(real))
            meta.append(("_build_shell_command", sample))
            if wd != "":  # create_command tests `workdir is not None`
                real = sfu.create_command("X", cmd, env if (env or rng.random() < 0.5) else None, wd)
                lines.append(f"cc {hx(wd) if wd is not None else '~'} {hx(' '.join(cmd))} {kv}".strip())
                expect.append(hx(real))
                meta.append(("create_command", sample))
            if wd is not None and wd != "":
                # the job script of QueueManagerConnector.run with the connector's own default template
                from streamflow.deployment.connector import queue_manager as _qm
                import ast as _ast, inspect as _inspect
                if not hasattr(self, "_qm_default"):
                    tree = _ast.parse(_inspect.getsource(_qm))
                    self._qm_default = [k.value.value for n in _ast.walk(tree) if isinstance(n, _ast.Call) and _ast.unparse(n.func).endswith("CommandTemplateMap")
                                        for k in n.keywords if k.arg == "default" and isinstance(k.value, _ast.Constant)][0]
                cstr = sfu.create_command("QueueManagerConnector", cmd, environment=env, workdir=wd)
                script = CommandTemplateMap(default=self._qm_default).get_command(command=cstr, environment=env, workdir=wd)
                lines.append(f"qms {hx(wd)} {hx(' '.join(cmd))} {kv}".strip())
                expect.append(hx(script))
                meta.append(("queue-manager default job script", sample))
            tm = CommandTemplateMap(default="{{streamflow_environment}}|{{streamflow_workdir}}|{{streamflow_command}}")
            real = tm.get_command(command="C", environment=env, workdir="W")
            lines.append(f"gc {kv}".strip())
            expect.append(hx(real[: -len("|W|C")]))
            meta.append(("get_command", sample))
            if not real.endswith("|W|C"):
                ctx.disagree("get_command passes workdir/command through", f"rendered {real!r}", sample)
        return lines, expect, meta

    # ---- (2) lexer vs /bin/sh --------------------------------------------------------------------------------------
    def lexer_cases(self, ctx: Ctx, n: int):
        rng = ctx.rng
        empty = os.path.join(ctx.scratch, "emptydir")
        os.makedirs(empty, exist_ok=True)
        cases = [" ".join(shlex.quote(c) for c in CORPUS[:25]), "a 'b c' \"d e\" f\\ g", "x=\"1 2\" 'y'\"z\"", "a\\\nb", "'unterminated",
                 "\"unterminated", "tail\\", "a # comment 'x", "a#b", "'' \"\" x", "a\\'b", "\"a\\\"b\\$c\\`d\\\\e\\zf\"", "$ x", "\"5$\"", "a$"]
        for _ in range(n):
            k = rng.random()
            if k < 0.4:
                cases.append(" ".join(shlex.quote(rand_string(rng)) for _ in range(rng.randint(1, 4))))
            elif k < 0.6:
                cases.append(" ".join('"' + rand_string(rng) + '"' for _ in range(rng.randint(1, 3))))
            else:
                cases.append("".join(rng.choice(list("ab ") + list("'\"\\$ #=~") + ["\n", "\t", "é", "'", "\""]) for _ in range(rng.randint(1, 10))))
        out = ctx.lean("Drivers/C25.lean", [f"lex {hx(c)}" for c in cases])
        for c, o in zip(cases, out):
            kind, items = parse_lex(o)
            sample = {"op": "lex", "line": c, "model": o}
            ctx.case(sample, ("lex", c), f"lex:{kind}")
            script = "set -- S " + c + "\nprintf '%s\\0' \"$@\"\n"
            try:
                p = subprocess.run(["sh", "-c", script], cwd=empty, capture_output=True, timeout=20, env={"PATH": os.environ["PATH"]})
            except subprocess.TimeoutExpired:
                ctx.disagree("sh lexer vs /bin/sh", f"/bin/sh hung on {c!r}", sample)
                continue
            if kind == "unterminated":
                if c.endswith("\\"):
                    ctx.count("lex:not-compared(trailing backslash joins the harness's next line)")
                elif p.returncode == 0:
                    ctx.disagree("sh lexer vs /bin/sh", f"model: unterminated, /bin/sh accepted {c!r} -> {p.stdout!r}", sample)
                continue
            if kind != "ok" or any(it[0] == "o" for it in items) or any(it[2] for it in items):
                ctx.count("lex:not-compared(expansion/operator)")
                continue
            argv = p.stdout.decode("utf-8", "surrogateescape").split("\0")[:-1] if p.stdout else []
            if p.returncode != 0 or argv != ["S"] + [it[1] for it in items]:
                ctx.disagree("sh lexer vs /bin/sh", f"line {c!r}: model words {[it[1] for it in items]!r}, /bin/sh rc={p.returncode} argv {argv!r}", sample)

    # ---- (3) execution ---------------------------------------------------------------------------------------------
    def exec_case(self, ctx: Ctx, kind: str, wdname: str, env: dict, verdicts: dict | None = None) -> dict:
        """run the observer through one execution path; returns the observation"""
        root = os.path.join(ctx.scratch, "wd")
        os.makedirs(root, exist_ok=True)
        wd = os.path.join(root, wdname)
        os.makedirs(wd, exist_ok=True)
        cnt = self._counter(ctx)
        command = [PY, self.obs, cnt] + list(env)
        res = {"kind": kind, "workdir": wd, "env": env}

        async def go():
            if kind == "shell":
                conn = MiniConnector()
                try:
                    return await conn.run(mini_location(conn), command, environment=env, workdir=wd, capture_output=True, timeout=90)
                finally:
                    await conn.undeploy(False)
            if kind == "local":
                conn = LocalConnector("local", ctx.scratch)
                loc = mini_location(MiniConnector())
                return await conn.run(loc, command, environment=env, workdir=wd, capture_output=True, timeout=90)
            if kind in ("qm", "qmd"):
                # what QueueManagerConnector.run submits: create_command, then the service template (`qm`) or the built-in one (`qmd`)
                cstr = sfu.create_command("QueueManagerConnector", command, environment=env, workdir=wd)
                tm = CommandTemplateMap(default="#!/bin/sh\n\n{{streamflow_command}}",
                                        template_map={"svc": "#!/bin/sh\n{{streamflow_environment}}\n{{streamflow_command}}\n"})
                script = tm.get_command(command=cstr, template="svc" if kind == "qm" else None, environment=env, workdir=wd)
                path = os.path.join(ctx.scratch, f"job{self.gen}_{self.nfile}.sh")
                with open(path, "w") as f:
                    f.write(script)
                proc = await asyncio.create_subprocess_exec("sh", path, stdout=asyncio.subprocess.PIPE, stderr=asyncio.subprocess.STDOUT,
                                                            stdin=asyncio.subprocess.DEVNULL)
                out, _ = await asyncio.wait_for(proc.communicate(), 90)
                return out.decode("utf-8", "replace").strip(), proc.returncode
            raise ValueError(kind)

        try:
            out, status = run_watchdog(go, 120)
            res["status"] = status
            res["raw"] = out[-300:]
        except Hang as e:
            res["hang"] = str(e)
            out, status = "", None
        except Exception as e:  # noqa: BLE001
            res["exception"] = repr(e)[:300]
            out, status = "", None
        res["execs"] = sum(1 for _ in open(cnt)) if os.path.exists(cnt) else 0
        obs = None
        m = re.search(r"([0-9a-f]{2})+$", out or "")
        if m:
            try:
                obs = json.loads(bytes.fromhex(m.group(0)).decode())
            except Exception:  # noqa: BLE001
                obs = None
        res["observed"] = obs
        res["verbatim"] = bool(obs is not None and status == 0 and obs["cwd"] == os.path.realpath(wd) and obs["vars"] == env
                               and (out or "") == m.group(0))
        return res

    def judge_exec(self, ctx: Ctx, res: dict, model: dict) -> None:
        """monitor (property on the real run) + correspondence (model's claim of verbatim-ness)"""
        kind, env, wd = res["kind"], res["env"], res["workdir"]
        replay = {"op": "exec", "kind": kind, "workdir_name": os.path.basename(wd), "env": env}
        mv = model["verbatim"]
        if res.get("hang"):
            ctx.fail(f"{kind}:hang", f"{kind} path did not return: {res['hang']} (workdir {wd!r}, env {env!r})", replay)
            return
        if not res["verbatim"]:
            if kind == "shell":
                key = "shell:_build_shell_command:not-verbatim"
            elif not model["cd"]:
                key = f"{kind}:create_command:cd-workdir-unquoted"
            elif not model["export"]:
                key = f"{kind}:create_command:export-dq-value-unquoted"
            elif kind == "qm" and not model["gc_export"]:
                key = "qm:get_command:export-dq-value-unquoted"
            else:
                key = f"{kind}:not-verbatim-although-model-says-verbatim"
            ctx.fail(key, f"{kind}: workdir {wd!r} env {env!r}: status {res.get('status')}, observed {res['observed']!r}, "
                          f"exception {res.get('exception')}, output tail {res.get('raw', '')[-120:]!r}", replay)
            if mv:
                ctx.disagree(f"model says the {kind} rendering is verbatim", f"real run is not: {res}", replay)
        if res["execs"] != 1 and res["verbatim"]:
            ctx.fail(f"{kind}:executed-{res['execs']}-times", f"observer ran {res['execs']} times for one run() ({wd!r}, {env!r})", replay)

    def model_verdicts(self, ctx: Ctx, cases: list[tuple[str, str, dict]]) -> list[dict]:
        """per case: is each rendered piece verbatim according to the Lean model"""
        lines = []
        for kind, wd, env in cases:
            lines.append(f"verbatim cc_cd {hx(wd)}")
            lines.append(f"verbatim bsc_cd {hx(wd)}")
            for k, v in env.items():
                lines.append(f"verbatim cc_export {hx(k)} {hx(v)}")
                lines.append(f"verbatim gc_export {hx(k)} {hx(v)}")
                lines.append(f"verbatim bsc_export {hx(k)} {hx(v)}")
        out = iter(ctx.lean("Drivers/C25.lean", lines))
        res = []
        for kind, wd, env in cases:
            cd = next(out).startswith("true")
            bcd = next(out).startswith("true")
            ex, gc, bex = True, True, True
            for _ in env:
                ex &= next(out).startswith("true")
                gc &= next(out).startswith("true")
                bex &= next(out).startswith("true")
            v = {"cd": cd, "export": ex, "gc_export": gc, "bsc": bcd and bex}
            v["verbatim"] = v["bsc"] if kind == "shell" else (cd and ex and (gc or kind != "qm"))
            res.append(v)
        return res

    def exec_cases(self, ctx: Ctx, n: int):
        rng = ctx.rng
        plan = []
        # boundary corpus first: one nasty thing at a time, on each path
        corpus = ["a b", "$HOME", "`id`", 'q"uote', "a'b", "back\\slash", "new\nline", "st*r", "semi;colon", "日本 😀"]
        for s in (corpus if ctx.tier == "thorough" or ctx.mode == "search" else corpus[:6]):
            for kind in ("shell", "local", "qm", "qmd"):
                plan.append((kind, dir_name(rng, False), {"K": s}))
            plan.append(("shell", s.replace("/", "_"), {"K": "v"}))
            plan.append(("local", s.replace("/", "_"), {"K": "v"}))
        for _ in range(n):
            kind = rng.choice(["shell", "shell", "local", "qm", "qmd"])
            nasty_wd = rng.random() < 0.5
            env = {rng.choice(KEYS): (rand_string(rng) if rng.random() < 0.7 else tame_string(rng)) for _ in range(rng.choice([0, 1, 2, 3]))}
            plan.append((kind, dir_name(rng, nasty_wd), env))
        cases = [(k, os.path.join(ctx.scratch, "wd", w), e) for k, w, e in plan]
        verdicts = self.model_verdicts(ctx, cases)
        for (kind, wdname, env), mv in zip(plan, verdicts):
            if ctx.out_of_time():
                ctx.extra["incomplete"] = True
                break
            res = self.exec_case(ctx, kind, wdname, env)
            special = any(c in (wdname + "".join(env.values())) for c in " '\"\\$`;&|<>*?[]~#\n")
            ctx.case({"op": "exec", "kind": kind, "workdir": wdname, "env": env, "real_verbatim": res["verbatim"], "model_verbatim": mv["verbatim"]},
                     ("exec", kind, wdname, tuple(env.items())) if special else None, f"exec:{kind}:{'verbatim' if res['verbatim'] else 'NOT-verbatim'}")
            if not mv["verbatim"] and res["verbatim"]:
                ctx.count(f"exec:{kind}:model-conservative")
            self.judge_exec(ctx, res, mv)

    # ---- (4) framing ------------------------------------------------------------------------------------------------
    def framing_case(self, out: bytes, marker: str, rc: int, cuts: list[int], bufsize: int = 1 << 16, trailing: bytes = b""):
        data = out + marker.encode() + b":" + str(rc).encode() + b"\n" + trailing
        chunks, pos = [], 0
        for c in cuts:
            if pos >= len(data):
                break
            chunks.append(data[pos:pos + c])
            pos += c
        if pos < len(data):
            chunks.append(data[pos:])

        class Reader:
            def __init__(self):
                self.i = 0

            async def read(self, n):
                if self.i >= len(chunks):
                    return b""
                ch = chunks[self.i]
                self.i += 1
                return ch

        class Sh(sfshell.BaseShell):
            async def _close(self):
                pass

        async def go():
            sh = Sh(["sh"], bufsize)
            sh._reader = Reader()
            try:
                return await sh._read_with_output(marker, 5), sh._reader.i
            except WorkflowExecutionException as e:
                return ("exc", str(e)), sh._reader.i

        real, used = run_watchdog(go, 120)
        dec = codecs.getincrementaldecoder("utf-8")(errors="replace")
        dchunks = [dec.decode(c, final=False) for c in chunks]
        return real, used, chunks, dchunks

    def framing_cases(self, ctx: Ctx, n: int):
        rng = ctx.rng
        lines, expect, meta = [], [], []
        outs = [b"", b"abc", b"abc\n", b"no newline at end", b"  padded \n\n", "é日本😀".encode(), b"SF_CMD_END_", b"x:1\n", b"\n\n", b"\xff\xfe bad utf8",
                b"a" * 5000, "😀".encode() * 700]
        for i in range(n):
            out = outs[i] if i < len(outs) else bytes(rng.choice([rng.randrange(32, 127), 10, 32, 0xc3, 0xa9, 0xe6, 0x97, 0xa5, rng.randrange(256)])
                                                       for _ in range(rng.choice([0, 1, 5, 40, 300, 3000])))
            marker = "SF_CMD_END_" + sfu.random_name()
            if marker.encode() in out:
                continue
            rc = rng.choice([0, 1, 2, 127, 255, rng.randrange(256)])
            total = len(out) + len(marker) + 6
            style = rng.random()
            if style < 0.25:
                cuts = [1] * min(total, 400)
            elif style < 0.5:
                cuts = [rng.randint(1, 7) for _ in range(total)]
            elif style < 0.7:
                cuts = [max(1, len(out) + rng.randint(-3, len(marker) + 3))]
            elif style < 0.85:
                cuts = [rng.randint(1, max(1, total)) for _ in range(4)]
            else:
                cuts = []
            real, used, chunks, dchunks = self.framing_case(out, marker, rc, cuts)
            want = (out.decode("utf-8", "replace").strip(), rc)
            sample = {"op": "framing", "out_hex": out.hex(), "marker": marker, "rc": rc, "cuts": cuts[:50], "nchunks": len(chunks)}
            ctx.case(sample if len(out) < 200 else {**sample, "out_hex": out[:40].hex() + "…"}, ("framing", out, tuple(cuts[:50])) if len(chunks) > 1 else None,
                     f"framing:{'many' if len(chunks) > 1 else 'one'}-chunk")
            if real != want or used != len(chunks):
                ctx.fail("framing:wrong-result", f"_read_with_output gave {str(real)[:200]!r} after {used}/{len(chunks)} chunks, expected {str(want)[:200]!r}",
                         {"op": "framing", "out_hex": out.hex(), "marker": marker, "rc": rc, "cuts": cuts})
            if len(out) <= 6000:
                lines.append(f"read {hx(marker)} " + " ".join(hx(c) for c in dchunks if c != ""))
                # empty decoded chunks (a chunk that ends inside a UTF-8 sequence) add nothing to `output`
                expect.append(f"some {hx(real[0])} {hx(str(real[1]))} {len(chunks) - used}" if real[0] != "exc" else "none")
                meta.append(("_read_with_output", sample))
        # strip model
        for s in ["", " ", "\n a \t", "\x1c\x1fx\x85\xa0", "\u2003x\u3000", "\u200bx", "a\x0b\x0c", "\ufeffx"] + [rand_string(rng) for _ in range(40)]:
            lines.append(f"strip {hx(s)}")
            expect.append(hx(s.strip()))
            meta.append(("str.strip", s))
        return lines, expect, meta

    # ---- (5) run policy -----------------------------------------------------------------------------------------------
    def policy_case(self, ctx: Ctx, seq: list[dict]) -> dict:
        """seq: [{"text": str, "timeout": bool}] on one persistent-sh connector; a timed-out command blocks in the shell until released"""
        base = os.path.join(ctx.scratch, "pol" + os.path.basename(self._counter(ctx)))
        os.makedirs(base, exist_ok=True)
        go_file = os.path.join(base, "GO")
        results, counts = [], []

        async def run_all():
            conn = MiniConnector()
            loc = mini_location(conn)
            try:
                for i, c in enumerate(seq):
                    cnt = os.path.join(base, f"c{i}")
                    script = os.path.join(base, f"s{i}.sh")
                    with open(script, "w") as f:
                        f.write(f"echo x >> {shlex.quote(cnt)}\n")
                        if c["timeout"]:
                            f.write(f"if [ \"$(wc -l < {shlex.quote(cnt)})\" -le 1 ]; then while [ ! -e {shlex.quote(go_file)} ]; do sleep 0.05; done; fi\n")
                        f.write(f"printf '%s' {shlex.quote(c['text'])}\nexit {c.get('rc', 0)}\n")
                    try:
                        r = await conn.run(loc, ["sh", script], capture_output=True, timeout=6.0 if c["timeout"] else 30)
                    except Exception as e:  # noqa: BLE001
                        r = ("exc:" + type(e).__name__, None)
                    results.append(r)
                    if c["timeout"]:
                        # release the first execution, still blocked in the shell (the file stays: under load the shell-side
                        # polling loop may need longer than any fixed delay to see it)
                        open(go_file, "w").close()
                        await asyncio.sleep(0.3)
                await asyncio.sleep(0.2)
                for i in range(len(seq)):
                    cnt = os.path.join(base, f"c{i}")
                    counts.append(sum(1 for _ in open(cnt)) if os.path.exists(cnt) else 0)
            finally:
                await conn.undeploy(False)

        try:
            run_watchdog(run_all, 300)
        except Hang as e:
            return {"hang": str(e), "results": results, "counts": counts}
        return {"results": results, "counts": counts}

    def policy_cases(self, ctx: Ctx, n_plain: int, n_timeout: int):
        rng = ctx.rng
        lines, expect, meta = [], [], []
        plans = []
        for _ in range(n_plain):
            plans.append([{"text": rng.choice(["", "one", "no-nl", "two\nlines\n", " padded ", "é😀", "x" * rng.randint(1, 3000)]), "timeout": False,
                           "rc": rng.choice([0, 0, 1, 3, 255])} for _ in range(rng.randint(1, 5))])
        for j in range(n_timeout):
            k = rng.randint(0, 2)
            seq = [{"text": f"pre{i}\n", "timeout": False, "rc": 0} for i in range(k)]
            seq += [{"text": "LATE\n", "timeout": True, "rc": 0}, {"text": "SECOND\n", "timeout": False, "rc": rng.choice([0, 2])}]
            if rng.random() < 0.5:
                seq.append({"text": "THIRD", "timeout": False, "rc": 0})
            plans.append(seq)
        for seq in plans:
            if ctx.out_of_time():
                ctx.extra["incomplete"] = True
                break
            obs = self.policy_case(ctx, seq)
            has_to = any(c["timeout"] for c in seq)
            sample = {"op": "policy", "seq": [{**c, "text": c["text"][:40]} for c in seq], "observed": {"counts": obs.get("counts"),
                      "results": [(MARKER_RE.sub("M", str(r[0]))[:80], r[1]) for r in obs.get("results", [])]}}
            ctx.case(sample, ("policy", json.dumps(seq)) if len(seq) > 1 else None, "policy:with-timeout" if has_to else "policy:plain")
            replay = {"op": "policy", "seq": seq}
            if obs.get("hang"):
                ctx.fail("policy:hang", f"sequence did not finish: {obs['hang']}", replay)
                continue
            if any(str(r[0]) == "exc:TimeoutError" for r in obs["results"]):
                # the fallback subprocess itself exceeded the (generous) timeout: the machine is overloaded, nothing can be concluded
                ctx.count("policy:not-judged(fallback subprocess slower than the timeout)")
                continue
            fresh = [(c["text"].strip(), c.get("rc", 0)) for c in seq]
            # monitor: exactly once, and equal to fresh processes
            for i, c in enumerate(seq):
                if obs["counts"][i] != 1:
                    key = "BaseConnector.run:shell-timeout-fallback-runs-command-twice" if c["timeout"] else f"policy:executed-{obs['counts'][i]}-times-without-timeout"
                    ctx.fail(key, f"command {i} of {sample['seq']} executed {obs['counts'][i]} times", replay)
                if tuple(obs["results"][i]) != fresh[i]:
                    after_to = any(d["timeout"] for d in seq[:i])
                    key = "BaseConnector.run:stale-output-after-shell-timeout" if after_to else "policy:result-differs-from-fresh-process"
                    ctx.fail(key, f"command {i}: run() returned {str(obs['results'][i])[:160]!r}, a fresh process gives {str(fresh[i])[:80]!r}", replay)
            # model: same history, markers canonicalised
            cm = []
            for i, c in enumerate(seq):
                cm.append(f"{hx(c['text'])}:{hx(str(c.get('rc', 0)))}:{hx('M%d' % i)}:{'t' if c['timeout'] else 'k-'}")
            lines.append("runall " + " ".join(cm))
            markers: dict[str, str] = {}

            def canon(s):
                def rep(m):
                    # markers appear in command order
                    return markers.setdefault(m.group(0), "?")
                return MARKER_RE.sub(rep, s)
            # stale markers are those of timed-out commands, in order
            to_idx = [i for i, c in enumerate(seq) if c["timeout"]]
            texts = []
            for r in obs["results"]:
                s = str(r[0])
                for m in MARKER_RE.findall(s):
                    if m not in markers and to_idx:
                        markers[m] = "M%d" % to_idx[len(markers)] if len(markers) < len(to_idx) else "?"
                texts.append(canon(s))
            expect.append(f"execs {','.join(map(str, obs['counts']))} pipe - results " +
                          " ".join(f"{hx(t)}/{hx(str(r[1]))}" for t, r in zip(texts, obs["results"])))
            meta.append(("BaseConnector.run history", sample))
        return lines, expect, meta

    # ---- (3b) redirections, runs without captured output, concurrent runs on one shell -----------------------------------------
    def redirect_cases(self, ctx: Ctx, names: list[str]) -> None:
        """LocalConnector.run with stdin / stdout / stderr given as file names (rendered by create_command as ` < f`, ` > f`, ` 2>f`)"""
        for i, nm in enumerate(names):
            if ctx.out_of_time():
                ctx.extra["incomplete"] = True
                break
            self.nfile += 1
            base = os.path.join(ctx.scratch, f"redir{self.gen}_{self.nfile}")
            os.makedirs(base)
            fin, fout, ferr = (os.path.join(base, pre + nm) for pre in ("in", "out", "err"))
            payload = f"payload {i} é\nsecond line"
            with open(fin, "w") as f:
                f.write(payload)
            script = os.path.join(base, "s.sh")
            with open(script, "w") as f:
                f.write("cat\necho ERR >&2\nexit 3\n")
            same = i % 3 == 2   # stderr into the same file as stdout

            async def go():
                conn = LocalConnector("local", ctx.scratch)
                return await conn.run(mini_location(MiniConnector()), ["sh", script], stdin=fin, stdout=fout, stderr=fout if same else ferr, timeout=60)
            sample = {"op": "redirect", "name": nm, "stderr_same_file": same}
            ctx.case(sample, ("redirect", nm, same), "redirect:stdin+stdout+stderr")
            replay = {"op": "redirect", "name": nm, "same": same}
            try:
                run_watchdog(go, 90)
            except Hang as e:
                ctx.fail("local:create_command:redirection:hang", f"file names *{nm!r}: {e}", replay)
                continue
            except Exception as e:  # noqa: BLE001
                ctx.fail("local:create_command:redirection-not-verbatim", f"file names *{nm!r}: {type(e).__name__}: {e}", replay)
                continue
            got_out = open(fout).read() if os.path.isfile(fout) else None
            got_err = got_out if same else (open(ferr).read() if os.path.isfile(ferr) else None)
            want_out = payload + ("ERR\n" if same else "")
            if got_out != want_out or (not same and got_err != "ERR\n") or sorted(os.listdir(base)) != sorted(
                    {"s.sh", os.path.basename(fin), os.path.basename(fout)} | ({os.path.basename(ferr)} if not same else set())):
                ctx.fail("local:create_command:redirection-not-verbatim",
                         f"file names in/out/err + {nm!r}: stdout file {got_out!r}, stderr file {got_err!r}, directory {sorted(os.listdir(base))}", replay)

    def shell_discipline_cases(self, ctx: Ctx, n: int) -> None:
        rng = ctx.rng
        for i in range(n):
            if ctx.out_of_time():
                ctx.extra["incomplete"] = True
                break
            noise = "".join(rng.choice("abc \nxyz") for _ in range(rng.choice([0, 5, 3000])))
            outs = [f"out-{k}-" + str(k) * rng.choice([1, 50, 2000]) for k in range(6)]
            cnt = self._counter(ctx)

            async def go():
                conn = MiniConnector()
                loc = mini_location(conn)
                try:
                    # (a) a run without captured output must consume its own output: the next command sees only its own
                    r0 = await conn.run(loc, ["printf", "'%s'", shlex.quote(noise), ";", "echo", "x", ">>", shlex.quote(cnt)], capture_output=False, timeout=60)
                    r1 = await conn.run(loc, ["printf", "'%s'", "AFTER"], capture_output=True, timeout=60)
                    # (b) concurrent runs on the same persistent shell: each gets its own output and status
                    rs = await asyncio.gather(*(conn.run(loc, ["printf", "'%s'", shlex.quote(o), ";", "(exit", f"{k})"], capture_output=True, timeout=60)
                                                for k, o in enumerate(outs)))
                    return r0, r1, rs
                finally:
                    await conn.undeploy(False)
            sample = {"op": "shell-discipline", "noise": len(noise), "sizes": [len(o) for o in outs]}
            ctx.case(sample, ("discipline", noise[:20], tuple(len(o) for o in outs)), "shell:no-capture-then-capture+concurrent")
            replay = {"op": "shell-discipline", "noise": noise, "outs": outs}
            try:
                r0, r1, rs = run_watchdog(go, 200)
            except Hang as e:
                ctx.fail("shell:discipline:hang", str(e), replay)
                continue
            except Exception as e:  # noqa: BLE001
                ctx.fail("shell:concurrent-runs:mixed-output-or-status", f"runs on one persistent shell raised {type(e).__name__}: {str(e)[:200]}", replay)
                continue
            execs = sum(1 for _ in open(cnt)) if os.path.exists(cnt) else 0
            if r0 is not None or tuple(r1) != ("AFTER", 0) or execs != 1:
                ctx.fail("shell:run-without-capture:leaves-output-or-runs-not-once",
                         f"run(capture_output=False) returned {r0!r}, executed {execs} times; the next command returned {str(r1)[:120]!r} instead of ('AFTER', 0)", replay)
            bad = [(k, str(r)[:80]) for k, (o, r) in enumerate(zip(outs, rs)) if tuple(r) != (o.strip(), k)]
            if bad:
                ctx.fail("shell:concurrent-runs:mixed-output-or-status", f"concurrent run() calls on one shell: wrong results {bad[:3]}", replay)

    # ---- (6a) large outputs through the process-per-command paths ------------------------------------------------------
    def large_output_case(self, ctx: Ctx, path: str, size: int, rc: int, newline: bool, bound: float = 45.0) -> dict:
        """`path` = local (LocalConnector.run) | direct (BaseConnector.run with a job name: create_command + run_in_subprocess)"""
        self.nfile += 1
        f = os.path.join(ctx.scratch, f"big{self.gen}_{self.nfile}.txt")
        line = b"0123456789abcdefghijklmnopqrstuvwxyzABCDEFGHIJKLMNOPQRSTUVWXYZ-+\n"
        data = (line * (size // len(line) + 1))[:size]
        data = data[:-1] + (b"\n" if newline else b"#")
        with open(f, "wb") as fh:
            fh.write(data)
        script = f[:-4] + ".sh"
        with open(script, "w") as fh:
            fh.write(f"cat {shlex.quote(f)}\nexit {rc}\n")

        async def go():
            if path == "local":
                conn = LocalConnector("local", ctx.scratch)
                return await conn.run(mini_location(MiniConnector()), ["sh", script], capture_output=True, timeout=bound)
            conn = MiniConnector()
            try:
                return await conn.run(mini_location(conn), ["sh", script], capture_output=True, timeout=bound, job_name="direct")
            finally:
                await conn.undeploy(False)
        res = {"path": path, "size": size, "rc": rc, "newline": newline}
        try:
            out, status = run_watchdog(go, bound + 30)
            res.update(status=status, returned=len(out), complete=(out == data.decode().strip()))
        except Hang as e:
            res.update(hang=str(e))
        except asyncio.TimeoutError:
            res.update(hang=f"TimeoutError after {bound}s (the command itself takes milliseconds)")
        except Exception as e:  # noqa: BLE001
            res.update(exception=f"{type(e).__name__}: {str(e)[:120]}")
        return res

    def large_output_cases(self, ctx: Ctx, plan: list[tuple]) -> None:
        for path, size, rc, newline in plan:
            if ctx.out_of_time():
                ctx.extra["incomplete"] = True
                break
            res = self.large_output_case(ctx, path, size, rc, newline)
            ctx.case({"op": "large-output", **res}, ("large-output", path, size, rc, newline), f"large-output:{path}:{size >> 10}KiB")
            replay = {"op": "large-output", "path": path, "size": size, "rc": rc, "newline": newline}
            if res.get("hang"):
                ctx.fail(f"large-output:{path}:command-does-not-return-its-complete-output",
                         f"{path} path, output of {size} bytes (exit {rc}, {'with' if newline else 'no'} trailing newline): run() does not return: {res['hang']}", replay)
            elif res.get("exception") or not res.get("complete") or res.get("status") != rc:
                ctx.fail(f"large-output:{path}:incomplete-output-or-wrong-status",
                         f"{path} path, output of {size} bytes (exit {rc}): {res}", replay)

    # ---- (6) output equivalence: persistent shell vs fresh process ------------------------------------------------------
    def output_cases(self, ctx: Ctx, n: int):
        rng = ctx.rng
        for i in range(n):
            if ctx.out_of_time():
                ctx.extra["incomplete"] = True
                break
            size = rng.choice([0, 1, 10, 1000, 70000]) if ctx.tier == "quick" else rng.choice([0, 1, 1000, 70000, 1 << 20])
            kindb = rng.random()
            if kindb < 0.6:
                data = "".join(rng.choice(["a", "é", "日", "😀", " ", "\n", "\t", "'", "\"", "$", "\\"]) for _ in range(min(size, 4000))).encode()
                data = (data * (size // max(1, len(data)) + 1))[:size] if size else b""
                # do not cut inside a character
                data = data.decode("utf-8", "ignore").encode()
                valid = True
            else:
                data = bytes(rng.randrange(256) for _ in range(min(size, 5000)))
                valid = False
                try:
                    data.decode()
                    valid = True
                except UnicodeDecodeError:
                    pass
            rc = rng.choice([0, 0, 1, 2, 126, 255])
            f = os.path.join(ctx.scratch, f"out{self.gen}_{i}.bin")
            with open(f, "wb") as fh:
                fh.write(data)
            script = os.path.join(ctx.scratch, f"out{self.gen}_{i}.sh")
            with open(script, "w") as fh:
                fh.write(f"cat {shlex.quote(f)}\nexit {rc}\n")

            async def go():
                conn = MiniConnector()
                loc = mini_location(conn)
                try:
                    a = await conn.run(loc, ["sh", script], capture_output=True, timeout=120)
                    try:
                        b = await conn.run(loc, ["sh", script], capture_output=True, timeout=120, job_name="fresh")
                    except UnicodeDecodeError as e:
                        b = ("exc:UnicodeDecodeError", None)
                    return a, b
                finally:
                    await conn.undeploy(False)
            sample = {"op": "output", "size": len(data), "valid_utf8": valid, "rc": rc, "head_hex": data[:24].hex()}
            ctx.case(sample, ("output", data[:64], len(data), rc) if len(data) > 1 else None, f"output:{'utf8' if valid else 'binary'}")
            replay = {"op": "output", "data_hex": data.hex() if len(data) <= 4096 else None, "size": len(data), "rc": rc}
            try:
                a, b = run_watchdog(go, 300)
            except Hang as e:
                ctx.fail("output:hang", f"{sample}: {e}", replay)
                continue
            want = (data.decode("utf-8", "replace").strip(), rc)
            if tuple(a) != want:
                ctx.fail("output:shell-path-incomplete", f"{sample}: persistent shell returned {len(a[0])} chars rc {a[1]}, expected {len(want[0])} chars rc {rc}", replay)
            if tuple(b) != tuple(a):
                if not valid and b[0] == "exc:UnicodeDecodeError":
                    ctx.fail("equiv:invalid-utf8-output:shell-replaces-subprocess-raises",
                             f"{sample}: shell path returns U+FFFD replacements, run_in_subprocess raises UnicodeDecodeError", replay)
                else:
                    ctx.fail("equiv:shell-differs-from-fresh-process", f"{sample}: shell {str(a)[:80]!r} vs fresh {str(b)[:80]!r}", replay)

    # ------------------------------------------------------------------------------------------------------------
    @in_scratch_cwd
    def explore(self, ctx: Ctx) -> None:
        from sfv.rt.shfake import limit_failures
        limit_failures(ctx)
        self._setup(ctx)
        big = ctx.tier == "thorough" or ctx.mode == "search"
        lines, expect, meta = self.render_cases(ctx, 1000 if big else 300)
        l2, e2, m2 = self.framing_cases(ctx, 400 if big else 90)
        lines, expect, meta = lines + l2, expect + e2, meta + m2
        self.lexer_cases(ctx, 800 if big else 250)
        self.exec_cases(ctx, 120 if big else 16)
        l3, e3, m3 = self.policy_cases(ctx, 12 if big else 3, 4 if big else 2)
        lines, expect, meta = lines + l3, expect + e3, meta + m3
        self.output_cases(ctx, 40 if big else 6)
        rnames = ["plain", " file", "o$HOME", 'q"uote', "semi;colon", "it's", "st*r", "back\\slash"]
        self.redirect_cases(ctx, rnames if big else rnames[:5])
        self.shell_discipline_cases(ctx, 8 if big else 2)
        plan = [("local", 256 << 10, 3, False), ("direct", 256 << 10, 0, True), ("local", 1 << 20, 0, True), ("direct", 1 << 20, 7, False)]
        if big:
            plan += [(p, sz, rc, nl) for p in ("local", "direct") for sz, rc, nl in ((128 << 10, 1, True), (192 << 10, 0, False), (200 << 10, 0, True), (4 << 20, 2, False))]
        self.large_output_cases(ctx, plan)
        got = ctx.lean("Drivers/C25.lean", lines)
        for g, e, m in zip(got, expect, meta):
            if g != e:
                ctx.disagree(f"model vs {m[0]}", f"{m[0]}: code {e[:300]!r}, Lean model {g[:300]!r}", m[1])

    @in_scratch_cwd
    def replay(self, ctx: Ctx, data) -> None:
        self._setup(ctx)
        r = data.get("replay") or {}
        if r.get("op") == "exec":
            cases = [(r["kind"], os.path.join(ctx.scratch, "wd", r["workdir_name"]), r["env"])]
            mv = self.model_verdicts(ctx, cases)[0]
            res = self.exec_case(ctx, r["kind"], r["workdir_name"], r["env"])
            print("real :", json.dumps({k: res[k] for k in ("status", "observed", "verbatim", "execs") if k in res}, ensure_ascii=False))
            print("model:", mv)
            self.judge_exec(ctx, res, mv)
        elif r.get("op") == "framing":
            real, used, chunks, dchunks = self.framing_case(bytes.fromhex(r["out_hex"]), r["marker"], r["rc"], r["cuts"])
            print("real :", real, "chunks used", used, "of", len(chunks))
            print("model:", ctx.lean("Drivers/C25.lean", [f"read {hx(r['marker'])} " + " ".join(hx(c) for c in dchunks if c != "")])[0])
            want = (bytes.fromhex(r["out_hex"]).decode("utf-8", "replace").strip(), r["rc"])
            if real != want:
                ctx.fail("framing:wrong-result", f"got {real!r}, expected {want!r}", r)
        elif r.get("op") == "large-output":
            res = self.large_output_case(ctx, r["path"], r["size"], r["rc"], r["newline"])
            print("real :", res)
            if res.get("hang") or res.get("exception") or not res.get("complete") or res.get("status") != r["rc"]:
                ctx.fail("large-output", f"run() does not return the complete output and status: {res}", r)
        elif r.get("op") == "policy":
            obs = self.policy_case(ctx, r["seq"])
            print("real :", obs)
            fresh = [(c["text"].strip(), c.get("rc", 0)) for c in r["seq"]]
            print("fresh:", fresh)
            if obs.get("hang") or obs["counts"] != [1] * len(r["seq"]) or [tuple(x) for x in obs["results"]] != fresh:
                ctx.fail("policy", "history is not equivalent to fresh processes / exactly once", r)
        else:
            super().replay(ctx, data)


PROPERTY = C25()
