import SFV.Lemmas.Queue
/-! Preservation of the invariants by every action (one lemma per action). -/
namespace SFV.Queue
attribute [local grind] setPc

theorem Pc.facts_of_finished {p : Pc} (h : p.finished = true) :
    p.waiting = false ∧ p ≠ .needClear ∧ p ≠ .query ∧ p ≠ .answered ∧ p ≠ .idle ∧ p ≠ .poll ∧ p ≠ .failed := by
  cases p <;> simp_all [Pc.finished, Pc.waiting]

/-- changing the program counter of a run that already left the loop to another such state -/
theorem inv_setPc_finished {s : St} {j : Nat} {p : Pc} (hI : Inv s) (hold : (s.pc j).finished = true)
    (hp : p.finished = true) (hgo : ∀ o, p = .gotOut o → o = some (s.res j).1)
    (hdo : ∀ o c, p = .done o c → o = some (s.res j).1 ∧ c = some (s.res j).2) :
    Inv { s with pc := setPc s j p } := by
  obtain ⟨h0, h1, h2, h3, h4, h5, h6, h7, h8, h9, h10, h11, h12⟩ := hI
  have fo := Pc.facts_of_finished hold
  have fn := Pc.facts_of_finished hp
  have hw := h0 j
  refine ⟨?_, ?_, ?_, ?_, ?_, ?_, ?_, ?_, ?_, ?_, ?_, ?_, ?_⟩ <;> grind

theorem inv_submit {cfg : Cfg} {s s' : St} {j} (hI : Inv s) (hs : step cfg s (.submit j) = some s') : Inv s' := by
  obtain ⟨h0, h1, h2, h3, h4, h5, h6, h7, h8, h9, h10, h11, h12⟩ := hI
  simp only [step] at hs
  split at hs
  · cases hs; refine ⟨?_, ?_, ?_, ?_, ?_, ?_, ?_, ?_, ?_, ?_, ?_, ?_, ?_⟩ <;> grind [Pc.waiting, Pc.finished]
  · cases hs

theorem inv_clear {cfg : Cfg} (hc : cfg.clearsCache = true) {s s' : St} {j} (hI : Inv s)
    (hs : step cfg s (.clear j) = some s') : Inv s' := by
  obtain ⟨h0, h1, h2, h3, h4, h5, h6, h7, h8, h9, h10, h11, h12⟩ := hI
  simp only [step, hc] at hs
  split at hs
  · cases hs; refine ⟨?_, ?_, ?_, ?_, ?_, ?_, ?_, ?_, ?_, ?_, ?_, ?_, ?_⟩ <;> grind [Pc.waiting, Pc.finished]
  · cases hs

theorem inv_pollMiss {cfg : Cfg} {s s' : St} {j} (hI : Inv s) (hs : step cfg s (.pollMiss j) = some s') : Inv s' := by
  obtain ⟨h0, h1, h2, h3, h4, h5, h6, h7, h8, h9, h10, h11, h12⟩ := hI
  simp only [step] at hs
  split at hs
  · cases hs; refine ⟨?_, ?_, ?_, ?_, ?_, ?_, ?_, ?_, ?_, ?_, ?_, ?_, ?_⟩ <;> grind [Pc.waiting, Pc.finished]
  · cases hs

theorem inv_answer {cfg : Cfg} {s s' : St} {j} (hI : Inv s) (hs : step cfg s (.answer j) = some s') : Inv s' := by
  obtain ⟨h0, h1, h2, h3, h4, h5, h6, h7, h8, h9, h10, h11, h12⟩ := hI
  simp only [step] at hs
  split at hs
  · cases hs; refine ⟨?_, ?_, ?_, ?_, ?_, ?_, ?_, ?_, ?_, ?_, ?_, ?_, ?_⟩ <;> grind [Pc.waiting, Pc.finished]
  · cases hs

theorem inv_fetchOut {cfg : Cfg} {s s' : St} {j} (hI : Inv s) (hs : step cfg s (.fetchOut j) = some s') : Inv s' := by
  simp only [step] at hs
  split at hs
  · rename_i hp
    cases hs
    have hfin : (s.pc j).finished = true := by rw [hp]; rfl
    have hq := hI.2.2.2.2.2.1 j hfin
    exact inv_setPc_finished hI hfin rfl (by intro o ho; cases ho; simp [scontrol, hq]) (by intro o c ho; cases ho)
  · cases hs

theorem inv_fetchRc {cfg : Cfg} {s s' : St} {j} (hI : Inv s) (hs : step cfg s (.fetchRc j) = some s') : Inv s' := by
  simp only [step] at hs
  split at hs
  · rename_i x o hp
    cases hs
    have hfin : (s.pc j).finished = true := by rw [hp]; rfl
    have hq := hI.2.2.2.2.2.1 j hfin
    have ho := hI.2.2.2.2.2.2.2.2.1 j o hp
    exact inv_setPc_finished hI hfin rfl (by intro o ho; cases ho)
      (by intro o' c h'; cases h'; exact ⟨ho, by simp [scontrol, hq]⟩)
  · cases hs

theorem inv_leave {cfg : Cfg} {s s' : St} {j} (hI : Inv s) (hs : step cfg s (.leave j) = some s') : Inv s' := by
  obtain ⟨h0, h1, h2, h3, h4, h5, h6, h7, h8, h9, h10, h11, h12⟩ := hI
  simp only [step] at hs
  split at hs
  · cases hs; refine ⟨?_, ?_, ?_, ?_, ?_, ?_, ?_, ?_, ?_, ?_, ?_, ?_, ?_⟩ <;> grind
  · cases hs

theorem inv_expire {cfg : Cfg} {s s' : St} (hI : Inv s) (hs : step cfg s .expire = some s') : Inv s' := by
  obtain ⟨h0, h1, h2, h3, h4, h5, h6, h7, h8, h9, h10, h11, h12⟩ := hI
  simp only [step] at hs
  cases hs; refine ⟨?_, ?_, ?_, ?_, ?_, ?_, ?_, ?_, ?_, ?_, ?_, ?_, ?_⟩ <;> grind

theorem inv_undeployStart {cfg : Cfg} {s s' : St} (hI : Inv s) (hs : step cfg s .undeployStart = some s') : Inv s' := by
  simp only [step] at hs
  split at hs
  · split at hs
    · cases hs; exact hI
    · split at hs <;> (cases hs; exact hI)
  · cases hs

theorem inv_scancel {cfg : Cfg} {s s' : St} (hI : Inv s) (hs : step cfg s .scancel = some s') : Inv s' := by
  obtain ⟨h0, h1, h2, h3, h4, h5, h6, h7, h8, h9, h10, h11, h12⟩ := hI
  simp only [step] at hs
  split at hs
  · cases hs; refine ⟨?_, ?_, ?_, ?_, ?_, ?_, ?_, ?_, ?_, ?_, ?_, ?_, ?_⟩ <;> grind
  · cases hs

theorem inv_undeployEnd {cfg : Cfg} {s s' : St} (hI : Inv s) (hs : step cfg s .undeployEnd = some s') : Inv s' := by
  obtain ⟨h0, h1, h2, h3, h4, h5, h6, h7, h8, h9, h10, h11, h12⟩ := hI
  simp only [step] at hs
  split at hs
  · cases hs; refine ⟨?_, ?_, ?_, ?_, ?_, ?_, ?_, ?_, ?_, ?_, ?_, ?_, ?_⟩ <;> grind
  · cases hs

theorem inv_step {cfg : Cfg} (hc : cfg.clearsCache = true) {s a s'} (hI : Inv s)
    (hs : step cfg s a = some s') : Inv s' := by
  cases a with
  | pollHit j =>
    simp only [step] at hs
    split at hs
    · rename_i hg
      split at hs
      · rename_i r q hcache; cases hs; exact inv_afterPoll_hit hI hg.1 hg.2 hcache
      · cases hs
    · cases hs
  | pollStore j =>
    simp only [step] at hs
    split at hs
    · rename_i hg; cases hs; exact inv_afterPoll_store hI hg
    · cases hs
  | submit j => exact inv_submit hI hs
  | clear j => exact inv_clear hc hI hs
  | pollMiss j => exact inv_pollMiss hI hs
  | answer j => exact inv_answer hI hs
  | fetchOut j => exact inv_fetchOut hI hs
  | fetchRc j => exact inv_fetchRc hI hs
  | leave j => exact inv_leave hI hs
  | expire => exact inv_expire hI hs
  | undeployStart => exact inv_undeployStart hI hs
  | scancel => exact inv_scancel hI hs
  | undeployEnd => exact inv_undeployEnd hI hs

theorem inv_reachable {cfg : Cfg} (hc : cfg.clearsCache = true) {res s} (h : Reachable cfg res s) : Inv s := by
  induction h with
  | init => exact inv_init res
  | step _ hs ih => exact inv_step hc ih hs

theorem uinv_afterPoll {s : St} {j : Nat} {r : List Nat} (hU : UInv s) (hI : Inv s) (hw : (s.pc j).waiting = true) :
    UInv (afterPoll s j r) := by
  obtain ⟨u0, u1, u2, u3⟩ := hU
  unfold afterPoll
  split
  · refine ⟨?_, ?_, ?_, ?_⟩ <;> grind [Pc.waiting]
  · split
    · refine ⟨?_, ?_, ?_, ?_⟩ <;> grind [Pc.waiting]
    · refine ⟨?_, ?_, ?_, ?_⟩ <;> grind [Pc.waiting]

theorem uinv_step {cfg : Cfg} {s a s'} (hI : Inv s) (hU : UInv s) (hs : step cfg s a = some s') : UInv s' := by
  obtain ⟨h0, h1, h2, h3, h4, h5, h6, h7, h8, h9, h10, h11, h12⟩ := hI
  cases a with
  | pollHit j =>
    simp only [step] at hs
    split at hs
    · rename_i hg
      split at hs
      · cases hs
        exact uinv_afterPoll hU ⟨h0, h1, h2, h3, h4, h5, h6, h7, h8, h9, h10, h11, h12⟩ (by rw [hg.1]; rfl)
      · cases hs
    · cases hs
  | pollStore j =>
    simp only [step] at hs
    split at hs
    · rename_i hg; cases hs
      obtain ⟨u0, u1, u2, u3⟩ := hU
      have hw : (s.pc j).waiting = true := by rw [hg]; rfl
      unfold afterPoll
      split
      · refine ⟨?_, ?_, ?_, ?_⟩ <;> grind [Pc.waiting]
      · split
        · refine ⟨?_, ?_, ?_, ?_⟩ <;> grind [Pc.waiting]
        · refine ⟨?_, ?_, ?_, ?_⟩ <;> grind [Pc.waiting]
    · cases hs
  | submit j =>
    obtain ⟨u0, u1, u2, u3⟩ := hU
    simp only [step] at hs
    split at hs
    · cases hs; refine ⟨?_, ?_, ?_, ?_⟩ <;> grind [Pc.waiting]
    · cases hs
  | clear j =>
    obtain ⟨u0, u1, u2, u3⟩ := hU
    simp only [step] at hs
    split at hs
    · cases hs; refine ⟨?_, ?_, ?_, ?_⟩ <;> grind [Pc.waiting]
    · cases hs
  | pollMiss j =>
    obtain ⟨u0, u1, u2, u3⟩ := hU
    simp only [step] at hs
    split at hs
    · cases hs; refine ⟨?_, ?_, ?_, ?_⟩ <;> grind [Pc.waiting]
    · cases hs
  | answer j =>
    obtain ⟨u0, u1, u2, u3⟩ := hU
    simp only [step] at hs
    split at hs
    · cases hs; refine ⟨?_, ?_, ?_, ?_⟩ <;> grind [Pc.waiting]
    · cases hs
  | fetchOut j =>
    obtain ⟨u0, u1, u2, u3⟩ := hU
    simp only [step] at hs
    split at hs
    · cases hs; refine ⟨?_, ?_, ?_, ?_⟩ <;> grind [Pc.waiting]
    · cases hs
  | fetchRc j =>
    obtain ⟨u0, u1, u2, u3⟩ := hU
    simp only [step] at hs
    split at hs
    · cases hs; refine ⟨?_, ?_, ?_, ?_⟩ <;> grind [Pc.waiting]
    · cases hs
  | leave j =>
    obtain ⟨u0, u1, u2, u3⟩ := hU
    simp only [step] at hs
    split at hs
    · cases hs; refine ⟨?_, ?_, ?_, ?_⟩ <;> grind
    · cases hs
  | expire =>
    simp only [step] at hs
    cases hs; exact hU
  | undeployStart =>
    obtain ⟨u0, u1, u2, u3⟩ := hU
    simp only [step] at hs
    split at hs
    · split at hs
      · cases hs; refine ⟨?_, ?_, ?_, ?_⟩ <;> grind
      · split at hs <;> (cases hs; refine ⟨?_, ?_, ?_, ?_⟩ <;> grind)
    · cases hs
  | scancel =>
    obtain ⟨u0, u1, u2, u3⟩ := hU
    simp only [step] at hs
    split at hs
    · cases hs; refine ⟨?_, ?_, ?_, ?_⟩ <;> grind
    · cases hs
  | undeployEnd =>
    obtain ⟨u0, u1, u2, u3⟩ := hU
    simp only [step] at hs
    split at hs
    · cases hs; refine ⟨?_, ?_, ?_, ?_⟩ <;> grind
    · cases hs

theorem uinv_reachable {cfg : Cfg} (hc : cfg.clearsCache = true) {res s} (h : Reachable cfg res s) : UInv s := by
  induction h with
  | init => exact uinv_init res
  | step hr hs ih => exact uinv_step (inv_reachable hc hr) ih hs

/-- `res` is never changed -/
theorem res_step {cfg : Cfg} {s a s'} (hs : step cfg s a = some s') : s'.res = s.res := by
  cases a <;> simp only [step] at hs <;> (repeat' split at hs) <;>
    (cases hs <;> first | rfl | (unfold afterPoll; (repeat' split) <;> rfl))

theorem res_reachable {cfg : Cfg} {res s} (h : Reachable cfg res s) : s.res = res := by
  induction h with
  | init => rfl
  | step _ hs ih => rw [res_step hs, ih]

end SFV.Queue
