/-! # Lock acquisition of concurrent recoveries (`RollbackFailureManager._recover`, failure_manager.py)

`for request in sorted(retry_requests, key=id): await exit_stack.enter_async_context(request.lock)`: every recovery
acquires the locks of the requests it touches in one global total order (here: `Nat` order of the lock ids) and holds a
prefix of its list; when it holds all of them it synchronises (check / claim each request) and releases. From the round-0
pilot `tools/pilots/Locks.lean`. -/
namespace SFV.Locks


structure Proc where
  need : List Nat          -- strictly increasing
  got  : Nat               -- how many of them are held
  done : Bool

structure St where
  procs : List Proc        -- indexed by position

def Proc.waitsFor (p : Proc) : Option Nat := if p.done then none else p.need[p.got]?
def Proc.holds (p : Proc) (l : Nat) : Prop := ¬ p.done ∧ l ∈ p.need.take p.got

/-- lock `l` is free when nobody holds it -/
def free (s : St) (l : Nat) : Prop := ∀ p ∈ s.procs, ¬ p.holds l

/-- process `p` can move: either it holds everything (and releases), or its next lock is free -/
def canMove (s : St) (p : Proc) : Prop :=
  ¬ p.done ∧ (p.got = p.need.length ∨ ∃ l, p.need[p.got]? = some l ∧ free s l)

def Sorted (l : List Nat) : Prop := l.Pairwise (· < ·)

def WF (s : St) : Prop := ∀ p ∈ s.procs, Sorted p.need ∧ p.got ≤ p.need.length

theorem exists_max (l : List Proc) (f : Proc → Nat) (h : l ≠ []) : ∃ p ∈ l, ∀ q ∈ l, f q ≤ f p := by
  induction l with
  | nil => exact absurd rfl h
  | cons a t ih =>
    by_cases ht : t = []
    · subst ht; exact ⟨a, by simp, by simp⟩
    · obtain ⟨p, hp, hmax⟩ := ih ht
      by_cases hap : f p ≤ f a
      · exact ⟨a, by simp, by
          intro q hq
          rcases List.mem_cons.mp hq with rfl | hq
          · exact Nat.le_refl _
          · exact Nat.le_trans (hmax q hq) hap⟩
      · exact ⟨p, List.mem_cons_of_mem _ hp, by
          intro q hq
          rcases List.mem_cons.mp hq with rfl | hq
          · omega
          · exact hmax q hq⟩

/-- in a sorted list, everything in `take k` is below the element at index `k` -/
theorem take_lt_get {l : List Nat} (hs : Sorted l) {k x y : Nat} (hx : x ∈ l.take k) (hy : l[k]? = some y) : x < y := by
  induction l generalizing k with
  | nil => simp at hx
  | cons a t ih =>
    cases k with
    | zero => simp at hx
    | succ k =>
      simp only [List.take_succ_cons, List.mem_cons] at hx
      simp only [List.getElem?_cons_succ] at hy
      have hs' := List.pairwise_cons.mp hs
      rcases hx with rfl | hx
      · exact hs'.1 y (List.mem_of_getElem? hy)
      · exact ih hs'.2 hx hy

theorem no_deadlock (s : St) (hwf : WF s) (hlive : ∃ p ∈ s.procs, ¬ p.done) : ∃ p ∈ s.procs, canMove s p := by
  -- measure: 0 for finished processes, (awaited lock + 1) for waiting ones; a process holding all
  -- its locks can move at once
  by_cases hcrit : ∃ p ∈ s.procs, ¬ p.done ∧ p.got = p.need.length
  · obtain ⟨p, hp, hnd, hall⟩ := hcrit
    exact ⟨p, hp, hnd, Or.inl hall⟩
  · let f : Proc → Nat := fun p => match p.waitsFor with | some l => l + 1 | none => 0
    have hne : s.procs ≠ [] := by
      obtain ⟨p, hp, _⟩ := hlive; exact List.ne_nil_of_mem hp
    obtain ⟨pm, hpm, hmax⟩ := exists_max s.procs f hne
    -- the maximal one is alive and waiting
    obtain ⟨p0, hp0, hnd0⟩ := hlive
    have hlt0 : p0.got < p0.need.length := by
      have := (hwf p0 hp0).2
      have hne' : p0.got ≠ p0.need.length := fun h => hcrit ⟨p0, hp0, hnd0, h⟩
      omega
    have hf0 : 0 < f p0 := by
      simp only [f, Proc.waitsFor, hnd0, Bool.false_eq_true, if_false]
      rw [List.getElem?_eq_getElem hlt0]; simp
    have hfm : 0 < f pm := Nat.lt_of_lt_of_le hf0 (hmax p0 hp0)
    -- unpack pm
    have hndm : ¬ pm.done := by
      intro h; simp [f, Proc.waitsFor, h] at hfm
    obtain ⟨lm, hlm⟩ : ∃ l, pm.need[pm.got]? = some l := by
      cases h : pm.need[pm.got]? with
      | none => simp [f, Proc.waitsFor, hndm, h] at hfm
      | some l => exact ⟨l, rfl⟩
    have hfm' : f pm = lm + 1 := by simp [f, Proc.waitsFor, hndm, hlm]
    refine ⟨pm, hpm, hndm, Or.inr ⟨lm, hlm, ?_⟩⟩
    -- if somebody held lm, it would be waiting for something bigger
    intro q hq ⟨hndq, hheld⟩
    have hltq : q.got < q.need.length := by
      have := (hwf q hq).2
      have hne' : q.got ≠ q.need.length := fun h => hcrit ⟨q, hq, hndq, h⟩
      omega
    have hgq : q.need[q.got]? = some (q.need[q.got]) := List.getElem?_eq_getElem hltq
    have hlt : lm < q.need[q.got] := take_lt_get (hwf q hq).1 hheld hgq
    have hfq : f q = q.need[q.got] + 1 := by simp [f, Proc.waitsFor, hndq, hgq]
    have := hmax q hq
    omega

end SFV.Locks
