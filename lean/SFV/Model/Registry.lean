/-! `_RemotePathMapper` / `DefaultDataManager` of `streamflow/data/manager.py`, as written: a trie of nodes (identified by
    their path = `Path(p).parts`), per node and location the list of `DataLocation` *objects* (`locations`) and the set of
    paths believed valid (`valid_paths`), and a heap of `DataLocation` objects whose `data_type` is mutated in place.
    A location `L` stands for the pair (deployment, location name). Core Lean only. -/
namespace SFV.Registry

abbrev Path := List String

/-- a `DataLocation` object; `valid = false` is `DataType.INVALID` -/
structure Obj where
  loc : Nat
  path : Path
  valid : Bool
deriving DecidableEq, Repr

structure St where
  heap : List Obj
  /-- existing non-root trie nodes -/
  nodes : List Path
  /-- `node.locations[dep][name]`: object ids, in append order -/
  locs : Path → Nat → List Nat
  /-- `node.valid_paths[dep][name]` -/
  vpaths : Path → Nat → List Path

def St.init : St := ⟨[], [], fun _ _ => [], fun _ _ => []⟩

def upd {α} (f : Path → Nat → List α) (p : Path) (l : Nat) (v : List α) : Path → Nat → List α :=
  fun p' l' => if p' = p ∧ l' = l then v else f p' l'

/-- all non-empty prefixes, shortest first -/
def prefixes : Path → List Path
  | [] => []
  | x :: r => [x] :: (prefixes r).map (x :: ·)

def objLoc (s : St) (o : Nat) : Nat := (s.heap[o]?.map (·.loc)).getD 0
def objPath (s : St) (o : Nat) : Path := (s.heap[o]?.map (·.path)).getD []
def objValid (s : St) (o : Nat) : Bool := (s.heap[o]?.map (·.valid)).getD false

/-- the registry without its `valid_paths` cache: is a valid object with path `p` stored at the node `np` for `l`? -/
def specValid (s : St) (np : Path) (l : Nat) (p : Path) : Bool :=
  (s.locs np l).any (fun o => objValid s o && objPath s o == p)

/-- `set.add` -/
def setAddP (vp : List Path) (p : Path) : List Path := if p ∈ vp then vp else vp ++ [p]

/-- the bottom-up loop of `put`: `nps` are the node paths still to process (deepest first); at the node `path` itself the
    given object is stored, at an ancestor a new PRIMARY object for that ancestor; the loop stops at the first node that
    lists the path in `valid_paths` **and** still stores a valid object with that path (fix 5f6015f) -/
def putLoop (l : Nat) (o : Nat) (path : Path) : List Path → St → St
  | [], s => s
  | np :: rest, s =>
      let opath := if np = path then objPath s o else np
      if opath ∈ s.vpaths np l ∧ specValid s np l opath = true then s              -- `break`
      else
        let (s1, oid) := if np = path then (s, o)
                         else ({ s with heap := s.heap ++ [⟨l, np, true⟩] }, s.heap.length)
        putLoop l o path rest
          { s1 with locs := upd s1.locs np l (s1.locs np l ++ [oid]), vpaths := upd s1.vpaths np l (setAddP (s1.vpaths np l) opath) }

/-- `put(path, data_location, recursive)`: create the nodes, then the bottom-up loop -/
def put (s : St) (path : Path) (o : Nat) (recursive : Bool) : St :=
  let s1 := { s with nodes := s.nodes ++ prefixes path }
  putLoop (objLoc s o) o path (if recursive then (prefixes path).reverse else [path]) s1

/-- `register_path(location, path)` without wrapped locations: a new PRIMARY object, `put(…, recursive=True)` -/
def register (s : St) (l : Nat) (path : Path) : St × Nat :=
  (put { s with heap := s.heap ++ [⟨l, path, true⟩] } path s.heap.length true, s.heap.length)

/-- `path_mapper.get(path)`: every object stored at the node, whatever its location or validity (by object id) -/
def entriesAt (s : St) (path : Path) : List Nat :=
  (List.range s.heap.length).filter (fun o => o ∈ s.locs path (objLoc s o))

/-- the loop of `register_relation(src, dst)` over the snapshot `get(path=src.path)` -/
def relateLoop (dst : Nat) : List Nat → St → St
  | [], s => s
  | d :: ds, s => relateLoop dst ds (put (put s (objPath s d) dst false) (objPath s dst) d false)

def relate (s : St) (src dst : Nat) : St := relateLoop dst (entriesAt s (objPath s src)) s

inductive Res where
  | ok (s : St)
  | keyError

/-- `data_loc.data_type = INVALID; valid_paths.discard(data_loc.path)` for every object of the node for `l`
    (an assignment that changes nothing leaves the state as it is) -/
def markLoop (p : Path) (l : Nat) : List Nat → St → St
  | [], s => s
  | o :: os, s =>
      if objValid s o = false ∧ objPath s o ∉ s.vpaths p l then markLoop p l os s
      else
        markLoop p l os
          { s with heap := s.heap.modify o (fun x => { x with valid := false }),
                   vpaths := upd s.vpaths p l ((s.vpaths p l).filter (· ≠ objPath s o)) }

/-- `node.children.values()` -/
def children (s : St) (p : Path) : List Path :=
  (s.nodes.filter (fun q => q.length = p.length + 1 ∧ p.isPrefixOf q)).eraseDups

/-- `_invalidate_node(location, node)` (fix 5f6015f): mark the node, then walk the child *nodes*. The recursion follows the
    tree; `depth` is the number of levels still to descend (the tree is finite: `invalidate` passes its height) -/
def invNode : Nat → St → Nat → Path → St
  | 0, s, l, p => markLoop p l (s.locs p l) s
  | depth + 1, s, l, p =>
      (children s p).foldl (fun s c => invNode depth s l c) (markLoop p l (s.locs p l) s)

/-- length of the longest node path -/
def height (s : St) : Nat := s.nodes.foldl (fun m q => max m q.length) 0

/-- `invalidate_location(location, path)`: `KeyError` when the node does not exist -/
def invalidate (s : St) (l : Nat) (p : Path) : Res :=
  if p ≠ [] ∧ p ∉ s.nodes then .keyError else .ok (invNode (height s) s l p)

/-- `get_data_locations(path, deployment, location_name)`: the valid objects stored at the node for `l` -/
def getLocs (s : St) (path : Path) (l : Nat) : List Nat := (s.locs path l).filter (objValid s)

end SFV.Registry
