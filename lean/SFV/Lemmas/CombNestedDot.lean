import SFV.Lemmas.CombNestedCart
/-! Nested shape `dot[dot[p0 … p(Pi-1)], plain ports …]`. The inner dot product yields its schemas in dict order, so
    the elements the outer combinator is fed are compared with the specification after sorting the entries of
    every element by port (`canonEv`). -/
namespace SFV.Comb
open SFV

theorem inj_of_nodup_map {α β : Type} {f : α → β} : ∀ {l : List α}, (l.map f).Nodup → ∀ {a b : α}, a ∈ l → b ∈ l →
    f a = f b → a = b := by
  intro l
  induction l with
  | nil => intro _ a b ha; cases ha
  | cons x r ih =>
    intro h a b ha hb hab
    simp only [List.map_cons, List.nodup_cons] at h
    rcases List.mem_cons.mp ha with rfl | ha' <;> rcases List.mem_cons.mp hb with rfl | hb'
    · rfl
    · exact absurd (List.mem_map.mpr ⟨b, hb', hab.symm⟩) h.1
    · exact absurd (List.mem_map.mpr ⟨a, ha', hab⟩) h.1
    · exact ih h.2 ha' hb' hab

/-! ### `normEmit` (stable sort by port) -/

theorem flatMap_single {β : Type} (M k : Nat) (hk : k < M) (y : β) :
    (List.range M).flatMap (fun q => if k = q then [y] else []) = [y] := by
  induction M with
  | zero => omega
  | succ M ih =>
    rw [List.range_succ, List.flatMap_append]
    by_cases h : k < M
    · rw [ih h]
      have : ¬ k = M := by omega
      simp [this]
    · have hkM : k = M := by omega
      have : (List.range M).flatMap (fun q => if k = q then [y] else []) = [] := by
        apply List.flatMap_eq_nil_iff.mpr
        intro q hq
        have := List.mem_range.mp hq
        have : ¬ k = q := by omega
        simp [this]
      rw [this]
      simp [hkM]

theorem normEmit_perm (M : Nat) : ∀ (e : Emit), (∀ y ∈ e, y.1 < M) → (normEmit M e).Perm e := by
  intro e
  induction e with
  | nil =>
    intro _
    have : normEmit M [] = [] := by
      unfold normEmit
      apply List.flatMap_eq_nil_iff.mpr
      intro q _; rfl
    rw [this]
  | cons y r ih =>
    intro h
    have hy : y.1 < M := h y (by simp)
    have hsplit : normEmit M (y :: r) =
        (List.range M).flatMap (fun q => (if y.1 = q then [y] else []) ++ r.filter (fun x => x.1 = q)) := by
      unfold normEmit
      apply flatMap_congr'
      intro q _
      rw [List.filter_cons]
      by_cases hq : y.1 = q <;> simp [hq]
    rw [hsplit]
    refine (flatMap_append_perm' _ _ _).trans ?_
    rw [flatMap_single M y.1 hy y]
    exact List.Perm.cons _ (ih (fun z hz => h z (List.mem_cons_of_mem _ hz)))

theorem normEmit_pairwise (M : Nat) (e : Emit) : (normEmit M e).Pairwise (fun a b => a.1 ≤ b.1) := by
  unfold normEmit
  apply List.pairwise_flatMap.mpr
  constructor
  · intro q _
    apply List.pairwise_filter.mpr
    apply List.pairwise_of_forall
    intro a b ha hb
    simp only [decide_eq_true_eq] at ha hb
    omega
  · refine List.pairwise_lt_range.imp ?_
    intro q q' hlt x hx y hy
    simp only [List.mem_filter, decide_eq_true_eq] at hx hy
    omega

/-- a list sorted by port with distinct ports is the normal form of every permutation of it -/
theorem normEmit_eq_of_sorted {M : Nat} {s t : Emit} (hst : s.Perm t) (hM : ∀ y ∈ s, y.1 < M)
    (hnd : (t.map (·.1)).Nodup) (hsorted : t.Pairwise (fun a b => a.1 ≤ b.1)) : normEmit M s = t := by
  have hp : (normEmit M s).Perm t := (normEmit_perm M s hM).trans hst
  refine List.Perm.eq_of_pairwise (le := fun a b => a.1 ≤ b.1) ?_ (normEmit_pairwise M s) hsorted hp
  intro a b ha hb h1 h2
  have ha' : a ∈ t := hp.subset ha
  have hab : a.1 = b.1 := by omega
  exact inj_of_nodup_map hnd ha' hb hab

/-! ### the nested shape -/

def nestItemsD (Pi : Nat) (plains : List Nat) : List Item := nestItemsAt .dot Pi [] plains

theorem shape_firstD (Pi : Nat) (plains : List Nat) : Shape (nestItemsD Pi plains) 0 .dot Pi plains := by
  have := shape_at .dot Pi [] plains
  simpa [nestItemsD] using this

theorem derived_splitD {items : List Item} {i0 Pi : Nat} {plains : List Nat} (hs : Shape items i0 .dot Pi plains) :
    ∀ (es : List Ev) (inn : List (Nat × TV)),
    (runWith (dotAdd Pi) (es.filter (isInner Pi)) ((inn.lookup i0).getD []) []).err = none →
    (derived items es inn).Perm
      ((runWith (dotAdd Pi) (es.filter (isInner Pi)) ((inn.lookup i0).getD []) []).out.map (mkI i0)
        ++ (es.filter (fun e => !isInner Pi e)).map (plainEv items)) := by
  intro es
  induction es with
  | nil => intro inn _; simp [derived, runWith]
  | cons ev es ih =>
    obtain ⟨p, t⟩ := ev
    intro inn herr
    simp only [derived, hs.sub]
    by_cases hp : p < Pi
    · have hf1 : ((p, t) :: es).filter (isInner Pi) = (p, t) :: es.filter (isInner Pi) := by
        simp [List.filter_cons, isInner, hp]
      have hf2 : ((p, t) :: es).filter (fun e => !isInner Pi e) = es.filter (fun e => !isInner Pi e) := by
        simp [List.filter_cons, isInner, hp]
      rw [hf1] at herr ⊢
      rw [hf2]
      simp only [hp, if_true, innerAdd, List.length_range]
      simp only [runWith] at herr ⊢
      generalize hr : dotAdd Pi ((inn.lookup i0).getD []) p (Elem.ofTok p t) = r at herr ⊢
      cases hre : r.err with
      | some x => rw [hre] at herr; simp at herr
      | none =>
        rw [hre] at herr
        simp only at herr ⊢
        rw [runWith_shift] at herr
        simp only at herr
        have hl : ((setI inn i0 r.tv).lookup i0).getD [] = r.tv := by rw [lookup_setI]; rfl
        have := ih (setI inn i0 r.tv) (by rw [hl]; exact herr)
        rw [hl] at this
        rw [runWith_shift]
        simp only [List.nil_append, List.map_append, List.append_assoc]
        exact (List.perm_append_left_iff _).mpr this
    · have hf1 : ((p, t) :: es).filter (isInner Pi) = es.filter (isInner Pi) := by
        simp [List.filter_cons, isInner, hp]
      have hf2 : ((p, t) :: es).filter (fun e => !isInner Pi e) = (p, t) :: es.filter (fun e => !isInner Pi e) := by
        simp [List.filter_cons, isInner, hp]
      rw [hf1] at herr ⊢
      rw [hf2]
      simp only [hp, if_false, List.map_cons]
      refine (List.Perm.cons _ (ih inn herr)).trans ?_
      exact List.perm_middle.symm

theorem innerOK_dot {items : List Item} {i0 Pi : Nat} {plains : List Nat} (hs : Shape items i0 .dot Pi plains) :
    ∀ (es : List Ev) (inn : List (Nat × TV)),
    (runWith (dotAdd Pi) (es.filter (isInner Pi)) ((inn.lookup i0).getD []) []).err = none →
    InnerOK items es inn := by
  intro es
  induction es with
  | nil => intro inn _; trivial
  | cons ev es ih =>
    obtain ⟨p, t⟩ := ev
    intro inn herr
    simp only [InnerOK, hs.sub]
    by_cases hp : p < Pi
    · have hf1 : ((p, t) :: es).filter (isInner Pi) = (p, t) :: es.filter (isInner Pi) := by
        simp [List.filter_cons, isInner, hp]
      rw [hf1] at herr
      simp only [hp, if_true, innerAdd, List.length_range]
      simp only [runWith] at herr
      generalize hr : dotAdd Pi ((inn.lookup i0).getD []) p (Elem.ofTok p t) = r at herr ⊢
      cases hre : r.err with
      | some x => rw [hre] at herr; simp at herr
      | none =>
        rw [hre] at herr
        simp only at herr
        rw [runWith_shift] at herr
        simp only at herr
        have hl : ((setI inn i0 r.tv).lookup i0).getD [] = r.tv := by rw [lookup_setI]; rfl
        exact ⟨rfl, ih (setI inn i0 r.tv) (by rw [hl]; exact herr)⟩
    · have hf1 : ((p, t) :: es).filter (isInner Pi) = es.filter (isInner Pi) := by
        simp [List.filter_cons, isInner, hp]
      rw [hf1] at herr
      simp only [hp, if_false]
      exact ih inn herr

theorem runWith_eq_runWithE (add : TV → Nat → Elem → Res) : ∀ (es : List Ev) (tv : TV) (out : List Emit),
    runWith add es tv out = runWithE add (es.map liftEv) tv out := by
  intro es
  induction es with
  | nil => intro tv out; rfl
  | cons ev es ih =>
    obtain ⟨p, t⟩ := ev
    intro tv out
    simp only [runWith, List.map_cons, liftEv, runWithE]
    cases h : (add tv p (Elem.ofTok p t)).err with
    | some x => rfl
    | none => simp only [ih]

/-- an element with its entries sorted by port (ports below `M`) -/
def canonEv (M : Nat) (x : CF.Ev) : CF.Ev := (x.1, ⟨x.2.tag, normEmit M x.2.toks⟩)

/-- a specified inner emission as the outer combinator should file it -/
def innerEv (i0 : Nat) (x : Tag × List Elem) : CF.Ev := (i0, ⟨x.1, renderCF x.1 x.2⟩)

def derivedSpecD (items : List Item) (i0 Pi : Nat) (S : List Ev) : List CF.Ev :=
  (specE Pi ((S.filter (isInner Pi)).map liftEv)).map (innerEv i0) ++
    (S.filter (fun e => !isInner Pi e)).map (plainEv items)

structure WFNestD (Pi M : Nat) (plains : List Nat) (S : List Ev) : Prop where
  pos : 0 < Pi
  bound : Pi ≤ M ∧ ∀ e ∈ S, e.1 < M
  inner : WFDot Pi (S.filter (isInner Pi))
  rooted : Rooted S
  nodup : S.Nodup
  plainPorts : ∀ e ∈ S, ¬ e.1 < Pi → e.1 ∈ plains
  plainsNodup : plains.Nodup
  anti : ∀ e ∈ S, ∀ e' ∈ S, ¬ e.1 < Pi → e.1 = e'.1 → e.2.tag <+: e'.2.tag → e = e'

theorem EmRel.map_eq {α : Type} {out : List Emit} {N : List (Tag × List Elem)} (h : EmRel out N)
    (F : Emit → α) (G : Tag × List Elem → α)
    (hFG : ∀ s x, x ∈ N → s.Perm (renderCF x.1 x.2) → F s = G x) : out.map F = N.map G := by
  induction h with
  | nil => rfl
  | @cons e x es xs hp _ ih =>
    simp only [List.map_cons]
    rw [hFG e x (by simp) hp, ih (fun s y hy hs => hFG s y (List.mem_cons_of_mem _ hy) hs)]

theorem EmRel.mem_left {out : List Emit} {N : List (Tag × List Elem)} (h : EmRel out N) {s : Emit} (hs : s ∈ out) :
    ∃ x ∈ N, s.Perm (renderCF x.1 x.2) := by
  induction h with
  | nil => cases hs
  | cons hp _ ih =>
    rcases List.mem_cons.mp hs with rfl | hs'
    · exact ⟨_, by simp, hp⟩
    · obtain ⟨x, hx, hxp⟩ := ih hs'
      exact ⟨x, List.mem_cons_of_mem _ hx, hxp⟩

theorem specPick_some {S : List Ev} {κ : Tag} {q : Nat} {y : Nat × Tok} (h : specPick S κ q = some y) :
    y.1 = q ∧ y.2.tag = κ := by
  unfold specPick at h
  cases hf : S.find? (fun e => decide (e.1 = q ∧ e.2.tag <+: κ)) with
  | none => rw [hf] at h; simp at h
  | some e =>
    rw [hf] at h
    simp only [Option.map_some, Option.some.injEq] at h
    have := List.find?_some hf
    simp only [decide_eq_true_eq] at this
    subst h
    exact ⟨this.1, rfl⟩

/-- what a specified inner emission of the dot product looks like -/
theorem inner_member_facts {Pi : Nat} (hPi : 0 < Pi) {S : List Ev} (h : WFDot Pi S) {x : Tag × List Elem}
    (hx : x ∈ specE Pi (S.map liftEv)) :
    x.1.head? = some 0 ∧ renderCF x.1 x.2 ≠ [] ∧ (∀ y ∈ renderCF x.1 x.2, y.2.tag = x.1 ∧ y.1 < Pi) ∧
    ((renderCF x.1 x.2).map (·.1)).Nodup ∧ (renderCF x.1 x.2).Pairwise (fun a b => a.1 ≤ b.1) ∧
    (∃ e ∈ S, e.2.tag = x.1) ∧ CF.complete Pi (S.map liftEv) x.1 := by
  have hr := h.2.2.1
  simp only [specE, List.mem_map, List.mem_filter, mem_dedup] at hx
  obtain ⟨κ, ⟨hκ, hc⟩, rfl⟩ := hx
  obtain ⟨e', ⟨ev, hev, rfl⟩, hte⟩ := hκ
  have hκroot : κ.head? = some 0 := by rw [← hte]; exact hr ev hev
  have hcomp := completeB_iff.mp hc
  simp only
  rw [render_picks hr κ]
  have hmem : ∀ y ∈ (List.range Pi).filterMap (specPick S κ), ∃ q, q < Pi ∧ specPick S κ q = some y := by
    intro y hy
    obtain ⟨q, hq, hqy⟩ := List.mem_filterMap.mp hy
    exact ⟨q, List.mem_range.mp hq, hqy⟩
  have hlt : ((List.range Pi).filterMap (specPick S κ)).Pairwise (fun a b => a.1 < b.1) := by
    refine List.Pairwise.filterMap _ ?_ List.pairwise_lt_range
    intro q q' hqq y hy y' hy'
    rw [(specPick_some hy).1, (specPick_some hy').1]
    exact hqq
  refine ⟨hκroot, ?_, ?_, ?_, hlt.imp (fun h => Nat.le_of_lt h), ⟨ev, hev, hte⟩, hcomp⟩
  · -- port 0 contributes
    obtain ⟨e0, he0, h01, h02⟩ := hcomp 0 hPi
    obtain ⟨ev0, hev0, rfl⟩ := List.mem_map.mp he0
    have hpre : ev0.2.tag <+: κ := (pre_iff_prefix_of_ne (rooted_ne hr hev0)).mp h02
    intro hnil
    have h0 : specPick S κ 0 = none := by
      have := List.filterMap_eq_nil_iff.mp hnil 0 (List.mem_range.mpr hPi)
      exact this
    unfold specPick at h0
    cases hf : S.find? (fun e => decide (e.1 = 0 ∧ e.2.tag <+: κ)) with
    | none =>
      have := List.find?_eq_none.mp hf ev0 hev0
      simp only [decide_eq_true_eq, not_and] at this
      exact this h01 hpre
    | some e => rw [hf] at h0; simp at h0
  · intro y hy
    obtain ⟨q, hq, hqy⟩ := hmem y hy
    obtain ⟨h1, h2⟩ := specPick_some hqy
    exact ⟨h2, h1 ▸ hq⟩
  · apply List.pairwise_map.mpr
    exact hlt.imp (fun h => Nat.ne_of_lt h)

theorem WF_of_map {P : Nat} {D : List CF.Ev} (g : CF.Ev → CF.Ev)
    (hg : ∀ x, (g x).1 = x.1 ∧ (g x).2.tag = x.2.tag) (h : CF.WF P (D.map g)) : CF.WF P D := by
  obtain ⟨hnd, hp, ha⟩ := h
  refine ⟨CF.nodup_of_map g hnd, ?_, ?_⟩
  · intro x hx
    have := hp (g x) (List.mem_map.mpr ⟨x, hx, rfl⟩)
    rwa [(hg x).1] at this
  · intro x hx x' hx' hi hpre
    have := ha (g x) (List.mem_map.mpr ⟨x, hx, rfl⟩) (g x') (List.mem_map.mpr ⟨x', hx', rfl⟩)
      (by rw [(hg x).1, (hg x').1]; exact hi) (by rw [(hg x).2, (hg x').2]; exact hpre)
    exact inj_of_nodup_map hnd hx hx' this

theorem derivedSpecD_wf_ok {Pi M : Nat} {plains : List Nat} {S : List Ev} (h : WFNestD Pi M plains S)
    {items : List Item} {i0 : Nat} (hs : Shape items i0 .dot Pi plains) :
    CF.WF items.length (derivedSpecD items i0 Pi S) ∧ ∀ x ∈ derivedSpecD items i0 Pi S, ElemOK x.2 := by
  have hplain : ∀ e ∈ S.filter (fun e => !isInner Pi e), e ∈ S ∧ ¬ e.1 < Pi ∧ e.1 ∈ plains := by
    intro e he
    obtain ⟨h1, h2⟩ := List.mem_filter.mp he
    have : ¬ e.1 < Pi := by simpa [isInner] using h2
    exact ⟨h1, this, h.plainPorts e h1 this⟩
  have hRwf := wf_of_WFDot h.inner
  have hspecNd : ((specE Pi ((S.filter (isInner Pi)).map liftEv)).map (·.1)).Nodup := by
    simp only [specE, List.map_map, Function.comp_def, List.map_id']
    exact (nodup_dedup _).filter _
  constructor
  · refine ⟨?_, ?_, ?_⟩
    · apply List.nodup_append.mpr
      refine ⟨?_, ?_, ?_⟩
      · apply List.pairwise_map.mpr
        have := List.pairwise_map.mp hspecNd
        refine this.imp ?_
        intro a b hne e
        apply hne
        simp only [innerEv, Prod.mk.injEq, Elem.mk.injEq, true_and] at e
        exact e.1
      · refine List.Pairwise.map _ ?_ (h.nodup.filter _)
        intro a b hne e
        apply hne
        simp only [plainEv, Elem.ofTok, Prod.mk.injEq, Elem.mk.injEq, List.cons.injEq, and_true] at e
        obtain ⟨a1, a2⟩ := a
        obtain ⟨b1, b2⟩ := b
        simp only at e
        rw [e.2.2.1, e.2.2.2]
      · intro a ha b hb hab
        obtain ⟨x, _, rfl⟩ := List.mem_map.mp ha
        obtain ⟨e, he, rfl⟩ := List.mem_map.mp hb
        obtain ⟨j, hj, hj1, _⟩ := hs.port e.1 (hplain e he).2.2
        have := congrArg Prod.fst hab
        simp only [innerEv, plainEv, hj, Option.getD_some] at this
        exact hj1 this.symm
    · intro x hx
      rcases List.mem_append.mp hx with hx | hx
      · obtain ⟨y, _, rfl⟩ := List.mem_map.mp hx
        exact hs.pos
      · obtain ⟨e, he, rfl⟩ := List.mem_map.mp hx
        obtain ⟨j, hj, _, hj2⟩ := hs.port e.1 (hplain e he).2.2
        simp only [plainEv, hj, Option.getD_some]
        exact hj2
    · intro x hx x' hx' hitem hpre
      rcases List.mem_append.mp hx with hx | hx <;> rcases List.mem_append.mp hx' with hx' | hx'
      · -- two specified inner emissions: complete received tags form an antichain
        obtain ⟨y, hy, rfl⟩ := List.mem_map.mp hx
        obtain ⟨y', hy', rfl⟩ := List.mem_map.mp hx'
        obtain ⟨_, _, _, _, _, _, hcomp⟩ := inner_member_facts h.pos h.inner hy
        obtain ⟨_, _, _, _, _, ⟨ev', hev', hte'⟩, _⟩ := inner_member_facts h.pos h.inner hy'
        have hpre' : CF.pre y.1 y'.1 := hpre
        have hp' : ev'.1 < Pi := h.inner.2.1 ev' hev'
        obtain ⟨e0, he0, h01, h02⟩ := hcomp ev'.1 hp'
        have he' : liftEv ev' ∈ (S.filter (isInner Pi)).map liftEv := List.mem_map.mpr ⟨ev', hev', rfl⟩
        have h03 : CF.pre e0.2.tag (liftEv ev').2.tag := by
          have : (liftEv ev').2.tag = y'.1 := hte'
          rw [this]; exact CF.pre_trans h02 hpre'
        have heq := hRwf.2.2 e0 he0 (liftEv ev') he' h01 h03
        have : y'.1 = y.1 := by
          apply CF.pre_antisymm _ hpre'
          have : e0.2.tag = y'.1 := by rw [heq]; exact hte'
          rw [← this]; exact h02
        have hyy : y = y' := inj_of_nodup_map hspecNd hy hy' this.symm
        rw [hyy]
      · obtain ⟨y, _, rfl⟩ := List.mem_map.mp hx
        obtain ⟨e, he, rfl⟩ := List.mem_map.mp hx'
        obtain ⟨j, hj, hj1, _⟩ := hs.port e.1 (hplain e he).2.2
        simp only [innerEv, plainEv, hj, Option.getD_some] at hitem
        exact absurd hitem.symm hj1
      · obtain ⟨e, he, rfl⟩ := List.mem_map.mp hx
        obtain ⟨y, _, rfl⟩ := List.mem_map.mp hx'
        obtain ⟨j, hj, hj1, _⟩ := hs.port e.1 (hplain e he).2.2
        simp only [innerEv, plainEv, hj, Option.getD_some] at hitem
        exact absurd hitem hj1
      · obtain ⟨e, he, rfl⟩ := List.mem_map.mp hx
        obtain ⟨e', he', rfl⟩ := List.mem_map.mp hx'
        obtain ⟨heS, hni, hpl⟩ := hplain e he
        obtain ⟨heS', _, hpl'⟩ := hplain e' he'
        obtain ⟨j, hj, _, _⟩ := hs.port e.1 hpl
        obtain ⟨j', hj', _, _⟩ := hs.port e'.1 hpl'
        simp only [plainEv, hj, hj', Option.getD_some] at hitem
        subst hitem
        have hport : e.1 = e'.1 := findPort_inj_gen _ _ _ _ _ hj hj'
        have hpre' : e.2.tag <+: e'.2.tag := by
          have := (CF.pre_iff.mp hpre).1
          simpa [plainEv, Elem.ofTok] using this
        rw [h.anti e heS e' heS' hni hport hpre']
  · intro x hx
    rcases List.mem_append.mp hx with hx | hx
    · obtain ⟨y, hy, rfl⟩ := List.mem_map.mp hx
      obtain ⟨f1, f2, f3, _, _, _, _⟩ := inner_member_facts h.pos h.inner hy
      exact ⟨f1, f2, fun z hz => (f3 z hz).1⟩
    · obtain ⟨e, he, rfl⟩ := List.mem_map.mp hx
      have heS := (List.mem_filter.mp he).1
      refine ⟨h.rooted e heS, by simp [plainEv, Elem.ofTok], ?_⟩
      intro y hy
      simp only [plainEv, Elem.ofTok, List.mem_singleton] at hy
      rw [hy]; rfl

/-! ### the specification commutes with tag-preserving maps of the elements -/

theorem pick_map (gE : Elem → Elem) (hg : ∀ e, (gE e).tag = e.tag) (D : List CF.Ev) (κ : Tag) (q : Nat) :
    CF.pick (D.map (fun x => (x.1, gE x.2))) κ q = (CF.pick D κ q).map gE := by
  unfold CF.pick
  rw [List.find?_map, Option.map_map, Option.map_map]
  have : ((fun e : CF.Ev => decide (e.1 = q ∧ CF.pre e.2.tag κ)) ∘ fun x : CF.Ev => (x.1, gE x.2))
      = (fun e : CF.Ev => decide (e.1 = q ∧ CF.pre e.2.tag κ)) := by
    funext x
    simp only [Function.comp, hg]
  rw [this]
  rfl

theorem specE_map {P : Nat} (gE : Elem → Elem) (hg : ∀ e, (gE e).tag = e.tag) (D : List CF.Ev) :
    specE P (D.map (fun x => (x.1, gE x.2))) = (specE P D).map (fun x => (x.1, x.2.map gE)) := by
  unfold specE
  have htags : (D.map (fun x : CF.Ev => (x.1, gE x.2))).map (fun x => x.2.tag) = D.map (fun x => x.2.tag) := by
    rw [List.map_map]
    apply List.map_congr_left
    intro x _
    simp only [Function.comp, hg]
  have hcomp : completeB P (D.map (fun x : CF.Ev => (x.1, gE x.2))) = completeB P D := by
    funext κ
    unfold completeB
    apply List.all_congr rfl
    intro q
    rw [List.any_map]
    apply List.any_congr rfl
    intro x
    simp only [Function.comp, hg]
  rw [htags, hcomp, List.map_map]
  apply List.map_congr_left
  intro κ _
  simp only [Function.comp, CF.picks, Prod.mk.injEq, true_and]
  rw [List.map_filterMap]
  apply CF.filterMap_congr'
  intro q _
  exact pick_map gE hg D κ q

theorem specE_perm {P : Nat} {R R' : List CF.Ev} (hp : R'.Perm R) (hwf : CF.WF P R) :
    (specE P R').Perm (specE P R) :=
  ((CF_out_perm_specE (CF.WF_perm P hp hwf)).symm.trans (CF.out_perm P R R' hp hwf)).trans (CF_out_perm_specE hwf)

theorem mem_picks {P : Nat} {D : List CF.Ev} {κ : Tag} {e : Elem} (h : e ∈ CF.picks P D κ) : ∃ x ∈ D, x.2 = e := by
  unfold CF.picks at h
  obtain ⟨q, _, hq⟩ := List.mem_filterMap.mp h
  unfold CF.pick at hq
  cases hf : D.find? (fun e => decide (e.1 = q ∧ CF.pre e.2.tag κ)) with
  | none => rw [hf] at hq; simp at hq
  | some x =>
    rw [hf] at hq
    simp only [Option.map_some, Option.some.injEq] at hq
    exact ⟨x, List.mem_of_find?_eq_some hf, hq⟩

theorem renderCF_map_perm (κ : Tag) (gE : Elem → Elem) : ∀ (l : List Elem), (∀ e ∈ l, (gE e).toks.Perm e.toks) →
    (renderCF κ (l.map gE)).Perm (renderCF κ l) := by
  intro l h
  unfold renderCF retagAll schemaOf
  apply List.Perm.map
  rw [List.flatMap_map]
  exact flatMap_perm_pointwise h

theorem EmRel.canon {out : List Emit} {N : List (Tag × List Elem)} (h : EmRel out N) (gE : Elem → Elem)
    (hg : ∀ x ∈ N, ∀ e ∈ x.2, (gE e).toks.Perm e.toks) : EmRel out (N.map (fun x => (x.1, x.2.map gE))) := by
  induction h with
  | nil => exact EmRel.nil
  | @cons e x es xs hp _ ih =>
    simp only [List.map_cons]
    refine EmRel.cons ?_ (ih (fun y hy => hg y (List.mem_cons_of_mem _ hy)))
    exact hp.trans (renderCF_map_perm x.1 gE x.2 (hg x (by simp))).symm

theorem elemOK_lift {S : List Ev} (hr : Rooted S) {e : Ev} (he : e ∈ S) : ElemOK (liftEv e).2 := by
  refine ⟨hr e he, by simp [liftEv, Elem.ofTok], ?_⟩
  intro y hy
  simp only [liftEv, Elem.ofTok, List.mem_singleton] at hy
  rw [hy]; rfl

theorem canonEv_plain {M : Nat} (items : List Item) {e : Ev} (he : e.1 < M) :
    canonEv M (plainEv items e) = plainEv items e := by
  unfold canonEv plainEv
  have : normEmit M [(e.1, e.2)] = [(e.1, e.2)] :=
    normEmit_eq_of_sorted (List.Perm.refl _) (by simpa using he) (by simp) (by simp)
  simp [Elem.ofTok, this]

/-- **nested `dot[…, dot[p0 … p(Pi-1)], …]`, any arrival order.** The nested run raises nothing and emits, schema by
    schema up to the order of the entries, exactly one combination per complete tag of the specified element
    stream `derivedSpecD` (a function of the input stream only: the specified emissions of the inner dot product,
    entries in port order, and the tokens of the plain ports). -/
theorem nested_dot_any_order {Pi M : Nat} {plains : List Nat} {items : List Item} {i0 : Nat}
    (hs : Shape items i0 .dot Pi plains) (S es : List Ev) (h : WFNestD Pi M plains S) (hp : es.Perm S) :
    (runNested items es).err = none ∧
    ∃ N, EmRel (runNested items es).out N ∧ N.Perm (specE items.length (derivedSpecD items i0 Pi S)) := by
  have hin : (es.filter (isInner Pi)).Perm (S.filter (isInner Pi)) := hp.filter _
  have hwfI := WFDot_perm hin h.inner
  have hRwf := wf_of_WFDot hwfI
  have hRwfS := wf_of_WFDot h.inner
  -- the inner run
  obtain ⟨herr0, hrel0⟩ := runWithE_sim (P := Pi) ((es.filter (isInner Pi)).map liftEv) [] CF.init [] []
    (by simpa using hRwf)
    (by
      intro x hx
      simp only [List.nil_append] at hx
      obtain ⟨e, he, rfl⟩ := List.mem_map.mp hx
      exact elemOK_lift hwfI.2.2.1 he)
    (CF.inv_init Pi) (valid_nil Pi) rfl rfl EmRel.nil
  rw [← runWith_eq_runWithE] at herr0 hrel0
  have hN0 : (((es.filter (isInner Pi)).map liftEv).foldl (CF.step Pi) CF.init).out.Perm
      (specE Pi ((S.filter (isInner Pi)).map liftEv)) :=
    (CF.out_perm Pi _ _ (hin.map liftEv) hRwfS).trans (CF_out_perm_specE hRwfS)
  generalize hN0def : (((es.filter (isInner Pi)).map liftEv).foldl (CF.step Pi) CF.init).out = N0 at hrel0 hN0
  generalize hout0 : (runWith (dotAdd Pi) (es.filter (isInner Pi)) [] []).out = out0 at hrel0
  -- every actual inner emission against its specified emission
  have hpair : ∀ s x, x ∈ N0 → s.Perm (renderCF x.1 x.2) →
      schemaTag s = x.1 ∧ normEmit M s = renderCF x.1 x.2 ∧ s ≠ [] ∧ (∀ y ∈ s, y.2.tag = x.1) ∧
      x.1.head? = some 0 := by
    intro s x hx hs
    obtain ⟨f1, f2, f3, f4, f5, _, _⟩ := inner_member_facts h.pos h.inner (hN0.subset hx)
    have hsne : s ≠ [] := by
      intro h0; rw [h0] at hs
      exact f2 (List.nil_perm.mp hs)
    have hst : ∀ y ∈ s, y.2.tag = x.1 := fun y hy => (f3 y (hs.subset hy)).1
    refine ⟨schemaTag_uniform hsne f1 hst, ?_, hsne, hst, f1⟩
    exact normEmit_eq_of_sorted hs (fun y hy => Nat.lt_of_lt_of_le (f3 y (hs.subset hy)).2 h.bound.1) f4 f5
  -- the derived stream
  have hsplit := derived_splitD hs es [] (by simpa using herr0)
  simp only [List.lookup, Option.getD_none] at hsplit
  rw [hout0] at hsplit
  have hcanA : (out0.map (mkI i0)).map (canonEv M) = N0.map (innerEv i0) := by
    rw [List.map_map]
    apply hrel0.map_eq
    intro s x hx hs
    obtain ⟨h1, h2, _, _, _⟩ := hpair s x hx hs
    simp only [Function.comp, canonEv, mkI, innerEv, h1, h2]
  have hcanB : ((es.filter (fun e => !isInner Pi e)).map (plainEv items)).map (canonEv M)
      = (es.filter (fun e => !isInner Pi e)).map (plainEv items) := by
    rw [List.map_map]
    apply List.map_congr_left
    intro e he
    exact canonEv_plain _ (h.bound.2 e (hp.subset (List.mem_filter.mp he).1))
  have hD : ((derived items es []).map (canonEv M)).Perm (derivedSpecD items i0 Pi S) := by
    refine (hsplit.map (canonEv M)).trans ?_
    rw [List.map_append, hcanA, hcanB]
    unfold derivedSpecD
    exact (hN0.map (innerEv i0)).append ((hp.filter _).map _)
  obtain ⟨hwfS, _⟩ := derivedSpecD_wf_ok h hs
  have hwfD : CF.WF items.length (derived items es []) :=
    WF_of_map (canonEv M) (fun x => ⟨rfl, rfl⟩) (CF.WF_perm _ hD hwfS)
  have hokD : ∀ x ∈ derived items es [], ElemOK x.2 := by
    intro x hx
    rcases List.mem_append.mp (hsplit.subset hx) with hx | hx
    · obtain ⟨s, hs, rfl⟩ := List.mem_map.mp hx
      obtain ⟨x0, hx0, hsx⟩ := hrel0.mem_left hs
      obtain ⟨h1, _, h3, h4, h5⟩ := hpair s x0 hx0 hsx
      refine ⟨?_, h3, ?_⟩
      · show (schemaTag s).head? = some 0
        rw [h1]; exact h5
      · intro y hy
        show y.2.tag = schemaTag s
        rw [h1]; exact h4 y hy
    · obtain ⟨e, he, rfl⟩ := List.mem_map.mp hx
      have heS := hp.subset (List.mem_filter.mp he).1
      refine ⟨h.rooted e heS, by simp [plainEv, Elem.ofTok], ?_⟩
      intro y hy
      simp only [plainEv, Elem.ofTok, List.mem_singleton] at hy
      rw [hy]; rfl
  obtain ⟨hE, N, hN1, hN2⟩ := dotElems_any_order _ _ hwfD hokD (List.Perm.refl _)
  -- the ports of every element the outer combinator is fed are below `M`
  have hportsD : ∀ x ∈ derived items es [], ∀ y ∈ x.2.toks, y.1 < M := by
    intro x hx y hy
    rcases List.mem_append.mp (hsplit.subset hx) with hx | hx
    · obtain ⟨s, hs', rfl⟩ := List.mem_map.mp hx
      obtain ⟨x0, hx0, hsx⟩ := hrel0.mem_left hs'
      obtain ⟨_, _, f3, _, _, _, _⟩ := inner_member_facts h.pos h.inner (hN0.subset hx0)
      exact Nat.lt_of_lt_of_le (f3 y (hsx.subset hy)).2 h.bound.1
    · obtain ⟨e, he, rfl⟩ := List.mem_map.mp hx
      simp only [plainEv, Elem.ofTok, List.mem_singleton] at hy
      rw [hy]
      exact h.bound.2 e (hp.subset (List.mem_filter.mp he).1)
  -- sort the entries of the picked elements by port
  let gE : Elem → Elem := fun e => ⟨e.tag, normEmit M e.toks⟩
  have hgperm : ∀ x ∈ N, ∀ e ∈ x.2, (gE e).toks.Perm e.toks := by
    intro x hx e he
    have hx' := hN2.subset hx
    simp only [specE, List.mem_map] at hx'
    obtain ⟨κ, _, rfl⟩ := hx'
    obtain ⟨d, hd, rfl⟩ := mem_picks he
    exact normEmit_perm M _ (hportsD d hd)
  have hcanon : (derived items es []).map (canonEv M) = (derived items es []).map (fun x => (x.1, gE x.2)) := rfl
  refine ⟨?_, N.map (fun x => (x.1, x.2.map gE)), ?_, ?_⟩
  · rw [runNested_err _ _ (innerOK_dot hs es [] (by simpa using herr0))]
    exact hE
  · rw [runNested_out]
    exact hN1.canon gE hgperm
  · refine (hN2.map _).trans ?_
    rw [← specE_map gE (fun _ => rfl), ← hcanon]
    exact specE_perm hD hwfS

end SFV.Comb
