import SFV.Lemmas.Deploy
/-! Invariants about lazy deployments (`FutureConnector`) of the single-name deployment protocol. -/
namespace SFV.Deploy

attribute [local grind] Obj.active Obj.live Obj.absent Fut.absent

macro "sg" : tactic => `(tactic| first | (simp; done) | (simp; grind) | grind)

/-- a request is waiting inside the (repaired) `FutureConnector.undeploy` of future `f` -/
def Pc.uWaitsFut (c : Pc) (f : Nat) : Prop := (∃ e, c = .uFWait f e) ∨ (∃ e, c = .uFWoken f e)

def InvF (s : St) : Prop :=
  -- F0: an object created by a FutureConnector exists only once that future is `deploying`
  (∀ o f, (s.objs o).fut = some f → (s.futs f).deploying = true) ∧
  -- F1: one object per FutureConnector
  (∀ o o' f, (s.objs o).fut = some f → (s.objs o').fut = some f → o = o') ∧
  -- freshness
  (∀ k, s.nFut ≤ k → s.futs k = Fut.absent) ∧
  -- G1: the objects of the future in `deployments_map` have not been undeployed
  (∀ f o, s.depmap = some (.future f) → (s.objs o).fut = some f → (s.objs o).und = .none) ∧
  -- G2: same for a future some undeploy request is waiting for; it is no longer in the map; one such request
  (∀ p f e o, (s.pc p = .uFWait f e ∨ s.pc p = .uFWoken f e) → (s.objs o).fut = some f → (s.objs o).und = .none) ∧
  (∀ p f e, (s.pc p = .uFWait f e ∨ s.pc p = .uFWoken f e) → s.depmap ≠ some (.future f) ∧ (s.futs f).deploying = true) ∧
  (∀ p q f e e', (s.pc p = .uFWait f e ∨ s.pc p = .uFWoken f e) → (s.pc q = .uFWait f e' ∨ s.pc q = .uFWoken f e') → p = q) ∧
  (∀ f, s.depmap = some (.future f) → f < s.nFut)

theorem init_pc (lazy kinds p) : (∃ k, (init lazy kinds).pc p = .idle k) ∨ (init lazy kinds).pc p = .none := by
  simp only [init]; cases kinds p <;> simp

theorem invF_init (lazy kinds) : InvF (init lazy kinds) := by
  refine ⟨?_, ?_, ?_, ?_, ?_, ?_, ?_, ?_⟩
  all_goals try (simp [init, Obj.absent, Fut.absent]; done)
  all_goals (intro p; intros; rcases init_pc lazy kinds p with ⟨k, hk⟩ | hk <;> simp_all)


theorem invF_setPc {s : St} {p c} (h : InvF s) (hc : ∀ f e, c ≠ Pc.uFWait f e := by intros; simp)
    (hc2 : ∀ f e, c ≠ Pc.uFWoken f e := by intros; simp) : InvF (setPc s p c) := by
  obtain ⟨f0, f1, f2, g1, g2, g3, g4, g5⟩ := h
  refine ⟨?_, ?_, ?_, ?_, ?_, ?_, ?_, ?_⟩ <;> sg

theorem invF_setEvent {s : St} {e} (h : InvF s) : InvF (setEvent s e) := by
  obtain ⟨f0, f1, f2, g1, g2, g3, g4, g5⟩ := h
  refine ⟨?_, ?_, ?_, ?_, ?_, ?_, ?_, ?_⟩ <;> sg

theorem invF_wakeFut {s : St} {f} (h : InvF s) : InvF (wakeFut s f) := by
  obtain ⟨f0, f1, f2, g1, g2, g3, g4, g5⟩ := h
  refine ⟨?_, ?_, ?_, ?_, ?_, ?_, ?_, ?_⟩ <;> sg

theorem invF_finishDeploy {s : St} {p} (h : InvF s) : InvF (finishDeploy s p) := by
  obtain ⟨f0, f1, f2, g1, g2, g3, g4, g5⟩ := h
  unfold finishDeploy
  split <;> (refine ⟨?_, ?_, ?_, ?_, ?_, ?_, ?_, ?_⟩ <;> sg)

theorem invF_register {s : St} {p} (h : InvF s) : InvF (register s p) := by
  obtain ⟨f0, f1, f2, g1, g2, g3, g4, g5⟩ := h
  unfold register
  split
  · apply invF_finishDeploy
    apply invF_setEvent
    refine ⟨?_, ?_, ?_, ?_, ?_, ?_, ?_, ?_⟩ <;> sg
  · refine ⟨?_, ?_, ?_, ?_, ?_, ?_, ?_, ?_⟩ <;> sg

theorem invF_afterWait {s : St} {p} (h : InvF s) : InvF (afterWait s p) := by
  unfold afterWait
  split
  · exact invF_setPc h
  · split
    · exact invF_finishDeploy h
    · exact invF_register h

theorem invF_loopHead {s : St} {p} (h : InvF s) : InvF (loopHead s p) := by
  unfold loopHead
  split
  · exact invF_register h
  · split
    · exact invF_setPc h
    · split
      · exact invF_afterWait h
      · exact invF_setPc h

theorem invF_uBody {cfg : Cfg} {s : St} {p} (hE : InvE s) (h : InvF s) : InvF (uBody cfg s p) := by
  have h' := h
  obtain ⟨f0, f1, f2, g1, g2, g3, g4, g5⟩ := h
  obtain ⟨h1, h2, h3, h3', ⟨h4, h4b⟩, h5, h6, h7, h8, h9, h10, h11, h12, h13, h14⟩ := hE
  unfold uBody
  split
  · rename_i x dm e hdg hdm hev
    split
    · rename_i o
      have hl := h1 o hdm
      unfold callUndeploy
      refine ⟨?_, ?_, ?_, ?_, ?_, ?_, ?_, ?_⟩ <;> sg
    · rename_i f
      split
      · rename_i o hconn
        have ho := h14 f o hconn
        unfold callUndeploy
        refine ⟨?_, ?_, ?_, ?_, ?_, ?_, ?_, ?_⟩ <;> sg
      · split <;> (refine ⟨?_, ?_, ?_, ?_, ?_, ?_, ?_, ?_⟩ <;> sg)
  · refine invF_setPc ?_
    refine ⟨?_, ?_, ?_, ?_, ?_, ?_, ?_, ?_⟩ <;> sg
  · exact invF_setPc h'

theorem invF_useStart {s : St} {p} (hE : InvE s) (h : InvF s) : InvF (useStart s p) := by
  have h' := h
  obtain ⟨f0, f1, f2, g1, g2, g3, g4, g5⟩ := h
  obtain ⟨h1, h2, h3, h3', ⟨h4, h4b⟩, h5, h6, h7, h8, h9, h10, h11, h12, h13, h14⟩ := hE
  unfold useStart
  split
  · exact invF_setPc h'
  · exact invF_setPc h'
  · rename_i f hdm
    simp only []
    split
    · exact invF_setPc h'
    · split
      · refine ⟨?_, ?_, ?_, ?_, ?_, ?_, ?_, ?_⟩ <;> sg
      · split <;> exact invF_setPc h'

theorem invF_step {cfg : Cfg} {s a s'} (hE : InvE s) (h : InvF s) (hs : step cfg s a = some s') : InvF s' := by
  have h' := h
  have hE' := hE
  obtain ⟨f0, f1, f2, g1, g2, g3, g4, g5⟩ := h
  obtain ⟨h1, h2, h3, h3', ⟨h4, h4b⟩, h5, h6, h7, h8, h9, h10, h11, h12, h13, h14⟩ := hE
  cases a with
  | start p =>
    simp only [step] at hs
    (repeat' split at hs) <;> first
      | (cases hs; done)
      | (cases hs; first | exact invF_loopHead h' | exact invF_uBody hE' h' | exact invF_setPc h' | exact invF_useStart hE' h')
  | wake p =>
    simp only [step] at hs
    split at hs
    · cases hs; exact invF_afterWait h'
    · cases hs; exact invF_uBody hE' h'
    · split at hs <;> (cases hs; exact invF_setPc h')
    · rename_i f e hpc
      split at hs
      · rename_i o hconn
        have ho := h14 f o hconn
        have g3' := g3 p f e (Or.inr hpc)
        have g2' := g2 p f e o (Or.inr hpc) ho.1
        have g4' := fun q e' hq => g4 p q f e e' (Or.inr hpc) hq
        cases hs
        unfold callUndeploy
        refine ⟨?_, ?_, ?_, ?_, ?_, ?_, ?_, ?_⟩ <;> sg
      · split at hs
        · cases hs
          refine ⟨?_, ?_, ?_, ?_, ?_, ?_, ?_, ?_⟩ <;> sg
        · cases hs
    · cases hs
  | connOk p =>
    simp only [step] at hs
    split at hs
    · split at hs
      · cases hs
        refine invF_finishDeploy (invF_setEvent ?_)
        refine ⟨?_, ?_, ?_, ?_, ?_, ?_, ?_, ?_⟩ <;> sg
      · cases hs
    · split at hs
      · cases hs
        refine invF_setPc (invF_setEvent ?_)
        refine ⟨?_, ?_, ?_, ?_, ?_, ?_, ?_, ?_⟩ <;> sg
      · cases hs
    · rename_i f o hpc
      have hp := h13 p f o hpc
      cases hs
      refine invF_setPc (invF_wakeFut ?_)
      refine ⟨?_, ?_, ?_, ?_, ?_, ?_, ?_, ?_⟩ <;> sg
    · cases hs
  | connFail p =>
    simp only [step] at hs
    split at hs
    · split at hs
      · split at hs
        · cases hs
          refine invF_setPc ?_
          refine ⟨?_, ?_, ?_, ?_, ?_, ?_, ?_, ?_⟩ <;> sg
        · cases hs
          refine invF_setPc (invF_setEvent ?_)
          refine ⟨?_, ?_, ?_, ?_, ?_, ?_, ?_, ?_⟩ <;> sg
      · cases hs
    · rename_i f o hpc
      have hp := h13 p f o hpc
      cases hs
      refine invF_setPc (invF_wakeFut ?_)
      refine ⟨?_, ?_, ?_, ?_, ?_, ?_, ?_, ?_⟩ <;> sg
    · cases hs

theorem invF_reachable {cfg lazy kinds s} (h : Reachable cfg lazy kinds s) : InvF s := by
  induction h with
  | init => exact invF_init lazy kinds
  | step hr hs ih => exact invF_step (invE_reachable hr) ih hs

end SFV.Deploy
