import SFV.Lemmas.CombCart
import SFV.Lemmas.CombDotSpec
/-! Cartesian product: the run invariant and the specification. -/
namespace SFV.Comb
open SFV

/-- all rendered configurations of all cells -/
def totalL {β : Type} (F : Cfg → Option β) (tv : TV) : List β := tv.flatMap (fun x => rcfgs F x.2)

theorem tcell_cons (k' : Tag) (c : Cell) (r : TV) (k : Tag) :
    tcell ((k', c) :: r) k = if k = k' then c else tcell r k := by
  unfold tcell
  by_cases h : k = k'
  · subst h; simp [List.lookup]
  · have hb : (k == k') = false := by simpa using h
    simp [List.lookup, hb, h]

theorem totalL_tvUpd {β : Type} (F : Cfg → Option β) (f : Cell → Cell) (κ0 : Tag) (c0 : Cell) (X : List β)
    (hnil : rcfgs F [] = [])
    (h : (rcfgs F (f c0)).Perm (rcfgs F c0 ++ X)) :
    ∀ tv : TV, tcell tv κ0 = c0 → (totalL F (tvUpd f tv κ0)).Perm (totalL F tv ++ X) := by
  intro tv
  induction tv with
  | nil =>
    intro hc
    have : c0 = [] := by rw [← hc]; rfl
    subst this
    simp only [tvUpd, totalL, List.flatMap_cons, List.flatMap_nil, List.append_nil, List.nil_append]
    rw [hnil] at h
    simpa using h
  | cons x r ih =>
    obtain ⟨k', c⟩ := x
    intro hc
    rw [tcell_cons] at hc
    simp only [tvUpd]
    by_cases hk : k' = κ0
    · subst hk
      simp only [if_true] at hc ⊢
      subst hc
      simp only [totalL, List.flatMap_cons]
      refine (List.Perm.append h (List.Perm.refl _)).trans ?_
      simp only [List.append_assoc]
      exact (List.perm_append_left_iff _).mpr List.perm_append_comm
    · have hk' : ¬ κ0 = k' := fun e => hk e.symm
      simp only [hk, hk', if_false] at hc ⊢
      simp only [totalL, List.flatMap_cons, List.append_assoc]
      exact (List.perm_append_left_iff _).mpr (ih hc)

theorem rcfgs_addToPort {P : Nat} {c : Cell} (hc : CellOK P c) {p : Nat} (hp : p < P) (e : Elem) :
    (rcfgs (cartSchema (List.range P)) (addToPort c p e)).Perm
      (rcfgs (cartSchema (List.range P)) c ++
        rcfgs (cartSchema (List.range P)) (cartArgs (addToPort c p e) p e)) := by
  by_cases hm : p ∈ ckeys c
  · exact rcfgs_addToPort_mem hc.1 hm e _
  · have h1 : rcfgs (cartSchema (List.range P)) c = [] :=
      rcfgs_nil_of_missing (List.mem_range.mpr hp) hm
    have h2 : cartArgs (addToPort c p e) p e = addToPort c p e := by
      rw [addToPort_of_not_mem hm]
      unfold cartArgs
      rw [List.map_append]
      have := cartArgs_of_not_mem hm e
      unfold cartArgs at this
      rw [this]
      simp
    rw [h1, h2]
    exact List.Perm.refl _

theorem rcfgs_nil_cell {P : Nat} (hP : 0 < P) : rcfgs (cartSchema (List.range P)) [] = [] :=
  rcfgs_nil_of_missing (q := 0) (List.mem_range.mpr hP) (by simp)

theorem flat_tvUpd {P : Nat} {f : Cell → Cell} (hf : ∀ c, FlatCell c → FlatCell (f c)) {tv : TV}
    (hv : Valid P tv) (hv' : Valid P (tvUpd f tv k)) (h : FlatTV tv) : FlatTV (tvUpd f tv k) := by
  rintro ⟨κ, c⟩ hx
  have := (mem_tv_iff hv'.1).mp hx
  rw [lookup_tvUpd] at this
  split at this
  · cases this; exact hf _ (flat_tcell hv h k)
  · exact h (κ, c) ((mem_tv_iff hv.1).mpr this)

/-- well-formed stream of a flat cartesian product of depth `depth` over ports `0 … P-1`: no repeated event,
    ports in range, all tags of the same length `L`, per port distinct tags -/
def WFCart (depth P L : Nat) (S : List Ev) : Prop :=
  0 < depth ∧ 0 < P ∧ S.Nodup ∧ (∀ e ∈ S, e.1 < P) ∧ (∀ e ∈ S, e.2.tag.length = L) ∧
  (∀ e ∈ S, ∀ e' ∈ S, e.1 = e'.1 → e.2.tag = e'.2.tag → e = e')

/-- the received tokens of port `q` filed under key `κ`, in the order of `R` -/
def bucket (depth : Nat) (R : List Ev) (κ : Tag) (q : Nat) : List Elem :=
  (R.filter (fun e => e.1 = q ∧ cartKey depth e.2.tag = κ)).map (fun e => Elem.ofTok e.1 e.2)

structure InvCart (depth P L : Nat) (R : List Ev) (tv : TV) (out : List Emit) : Prop where
  valid : Valid P tv
  flat : FlatTV tv
  keysLen : ∀ κ ∈ tkeys tv, κ.length = L - depth
  cells : ∀ κ q, sem tv κ q = bucket depth R κ q
  keysIff : ∀ κ, κ ∈ tkeys tv ↔ ∃ e ∈ R, cartKey depth e.2.tag = κ
  outs : out.Perm ((totalL (cartSchema (List.range P)) tv).map cartEmit)

theorem cartKey_length (depth : Nat) (t : Tag) : (cartKey depth t).length = t.length - depth := by
  simp [cartKey, Gen.cartKey, List.length_take]

theorem WFCart_append_left {depth P L : Nat} {A B : List Ev} (h : WFCart depth P L (A ++ B)) : WFCart depth P L A := by
  obtain ⟨h1, h2, h3, h4, h5, h6⟩ := h
  exact ⟨h1, h2, (List.nodup_append.mp h3).1, fun e he => h4 e (List.mem_append_left _ he),
    fun e he => h5 e (List.mem_append_left _ he),
    fun e he e' he' => h6 e (List.mem_append_left _ he) e' (List.mem_append_left _ he')⟩

/-- one arrival keeps the invariant: "emitted so far = all configurations of all cells" -/
theorem invCart_step {depth P L : Nat} {R : List Ev} {tv : TV} {out : List Emit} (p : Nat) (t : Tok)
    (hwf : WFCart depth P L (R ++ [(p, t)])) (hI : InvCart depth P L R tv out) :
    (cartAdd depth (List.range P) tv p (Elem.ofTok p t)).err = none ∧
    InvCart depth P L (R ++ [(p, t)]) (cartAdd depth (List.range P) tv p (Elem.ofTok p t)).tv
      (out ++ (cartAdd depth (List.range P) tv p (Elem.ofTok p t)).out) := by
  obtain ⟨hd, hP, hnd, hports, hlen, hdist⟩ := hwf
  have hp : p < P := hports (p, t) (by simp)
  have htl : t.tag.length = L := hlen (p, t) (by simp)
  have hnotin : (p, t) ∉ R := by
    have := List.nodup_append.mp hnd
    intro h
    exact this.2.2 _ h _ (by simp) rfl
  have hkl : ∀ κ ∈ tkeys tv, κ.length = (cartKey depth t.tag).length := by
    intro κ hκ; rw [hI.keysLen κ hκ, cartKey_length, htl]
  have hnew : ∀ x ∈ sem tv (cartKey depth t.tag) p, x.tag ≠ t.tag := by
    intro x hx
    rw [hI.cells] at hx
    simp only [bucket, List.mem_map, List.mem_filter, decide_eq_true_eq] at hx
    obtain ⟨e', ⟨he', h1, _⟩, rfl⟩ := hx
    intro htag
    have : e' = (p, t) := hdist e' (List.mem_append_left _ he') (p, t) (by simp) h1 htag
    exact hnotin (this ▸ he')
  rw [cartAdd_spec hI.valid hI.flat p hp t hkl hnew]
  refine ⟨rfl, ?_⟩
  have hv' : Valid P (tvUpd (fun c => addToPort c p (Elem.ofTok p t)) tv (cartKey depth t.tag)) :=
    valid_tvUpd (fun c hc => cellOK_addToPort hc hp _) hI.valid _
  constructor
  · exact hv'
  · exact flat_tvUpd (fun c hc => flat_addToPort hc p t) hI.valid hv' hI.flat
  · intro κ hκ
    simp only at hκ
    rw [tkeys_tvUpd] at hκ
    split at hκ
    · exact hI.keysLen κ hκ
    · rcases List.mem_append.mp hκ with h | h
      · exact hI.keysLen κ h
      · simp only [List.mem_singleton] at h
        rw [h, cartKey_length, htl]
  · intro κ q
    simp only
    rw [sem_tvUpd_add, hI.cells]
    unfold bucket
    rw [List.filter_append, List.map_append]
    by_cases hc : κ = cartKey depth t.tag ∧ q = p
    · obtain ⟨h1, h2⟩ := hc
      subst h1 h2
      simp
    · rw [if_neg hc]
      have : [(p, t)].filter (fun e => decide (e.1 = q ∧ cartKey depth e.2.tag = κ)) = [] := by
        simp only [List.filter_cons, List.filter_nil]
        rw [if_neg]
        simp only [decide_eq_true_eq]
        exact fun h => hc ⟨h.2.symm, h.1.symm⟩
      rw [this]; simp
  · intro κ
    simp only
    rw [tkeys_tvUpd]
    constructor
    · intro h
      have h' : κ ∈ tkeys tv ∨ κ = cartKey depth t.tag := by
        split at h
        · exact Or.inl h
        · rcases List.mem_append.mp h with h | h
          · exact Or.inl h
          · exact Or.inr (by simpa using h)
      rcases h' with h' | h'
      · obtain ⟨e, he, hk⟩ := (hI.keysIff κ).mp h'
        exact ⟨e, List.mem_append_left _ he, hk⟩
      · exact ⟨(p, t), by simp, h'.symm⟩
    · rintro ⟨e, he, hk⟩
      rcases List.mem_append.mp he with he | he
      · have := (hI.keysIff κ).mpr ⟨e, he, hk⟩
        split
        · exact this
        · exact List.mem_append_left _ this
      · simp only [List.mem_singleton] at he
        subst he
        simp only at hk
        subst hk
        split
        · assumption
        · simp
  · simp only
    have hU := rcfgs_addToPort (valid_tcell hI.valid (cartKey depth t.tag)) hp (Elem.ofTok p t)
    have hT := totalL_tvUpd (cartSchema (List.range P)) (fun c => addToPort c p (Elem.ofTok p t))
      (cartKey depth t.tag) (tcell tv (cartKey depth t.tag)) _ (rcfgs_nil_cell hP) hU tv rfl
    refine (List.Perm.append hI.outs (List.Perm.refl _)).trans ?_
    rw [← List.map_append]
    exact (hT.map cartEmit).symm

theorem invCart_init (depth P L : Nat) : InvCart depth P L [] [] [] := by
  constructor
  · exact valid_nil P
  · intro x hx; cases hx
  · intro κ hκ; simp [tkeys] at hκ
  · intro κ q; rfl
  · intro κ; simp [tkeys]
  · exact List.Perm.refl _

theorem runCart_inv {depth P L : Nat} : ∀ (es R : List Ev) (tv : TV) (out : List Emit),
    WFCart depth P L (R ++ es) → InvCart depth P L R tv out →
    (runWith (cartAdd depth (List.range P)) es tv out).err = none ∧
    InvCart depth P L (R ++ es) (runWith (cartAdd depth (List.range P)) es tv out).tv
      (runWith (cartAdd depth (List.range P)) es tv out).out := by
  intro es
  induction es with
  | nil => intro R tv out _ hI; simpa [runWith] using hI
  | cons e es ih =>
    obtain ⟨p, t⟩ := e
    intro R tv out hwf hI
    have hR : R ++ (p, t) :: es = (R ++ [(p, t)]) ++ es := by simp
    have hwf1 : WFCart depth P L (R ++ [(p, t)]) := WFCart_append_left (hR ▸ hwf)
    obtain ⟨e1, hI1⟩ := invCart_step p t hwf1 hI
    simp only [runWith, e1]
    have := ih (R ++ [(p, t)]) _ _ (hR ▸ hwf) hI1
    rw [hR]
    exact this

/-! ### from the final state to the specification -/

def single {α : Type} : List α → Option α
  | [x] => some x
  | _ => none

theorem single_perm {α : Type} {l l' : List α} (h : l.Perm l') : single l = single l' := by
  match l, l', h with
  | [], l', h => rw [List.nil_perm.mp h]
  | [x], l', h => rw [List.singleton_perm.mp h]
  | x :: y :: r, l', h =>
    have hl := h.length_eq
    match l', hl with
    | [], hl => simp at hl
    | [_], hl => simp at hl
    | _ :: _ :: _, _ => rfl

/-- `cartSchema` with "the unique entry of item `k`" instead of "the first entry": insensitive to the order of
    the configuration, equal to `cartSchema` on configurations without repeated items -/
def cartSchemaU (items : List Nat) (cfg : Cfg) : Option (List (Nat × Tok)) :=
  items.mapM (fun k => (single (cfg.filter (fun x => x.1 = k))).bind (fun x => x.2.toks.head?))

theorem pinv_cartSchemaU (items : List Nat) : PInv (cartSchemaU items) := by
  intro a b hab
  unfold cartSchemaU
  have : (fun k => (single (a.filter (fun x => x.1 = k))).bind (fun x => x.2.toks.head?))
      = (fun k => (single (b.filter (fun x => x.1 = k))).bind (fun x => x.2.toks.head?)) := by
    funext k
    rw [single_perm (hab.filter _)]
  rw [this]

theorem lookup_eq_single {β : Type} (l : List (Nat × β)) (hnd : (l.map (·.1)).Nodup) (k : Nat) :
    l.lookup k = (single (l.filter (fun x => x.1 = k))).map (·.2) := by
  induction l with
  | nil => rfl
  | cons x r ih =>
    obtain ⟨q, v⟩ := x
    simp only [List.map_cons, List.nodup_cons] at hnd
    by_cases hk : k = q
    · subst hk
      have : r.filter (fun x => x.1 = k) = [] := by
        apply List.filter_eq_nil_iff.mpr
        intro y hy
        simp only [decide_eq_true_eq]
        exact fun e => hnd.1 (e ▸ List.mem_map.mpr ⟨y, hy, rfl⟩)
      simp [List.lookup, List.filter_cons, this, single]
    · have hb : (k == q) = false := by simpa using hk
      have hq : ¬ q = k := fun e => hk e.symm
      simp only [List.lookup, hb, List.filter_cons, hq, decide_false, Bool.false_eq_true, if_false]
      exact ih hnd.2

theorem cartSchema_eq_U (items : List Nat) {cfg : Cfg} (hnd : (cfg.map (·.1)).Nodup) :
    cartSchema items cfg = cartSchemaU items cfg := by
  unfold cartSchema cartSchemaU
  have : (fun k => (cfg.lookup k).bind (fun e => e.toks.head?))
      = (fun k => (single (cfg.filter (fun x => x.1 = k))).bind (fun x => x.2.toks.head?)) := by
    funext k
    rw [lookup_eq_single cfg hnd k]
    cases single (cfg.filter (fun x => x.1 = k)) <;> rfl
  rw [this]

theorem rcfgs_eq_U (items : List Nat) {l : List (Nat × List Elem)} (hnd : (l.map (·.1)).Nodup) :
    rcfgs (cartSchema items) l = rcfgs (cartSchemaU items) l := by
  unfold rcfgs
  apply CF.filterMap_congr'
  intro cfg hcfg
  exact cartSchema_eq_U items (by rw [keys_of_mem_cartConfigs hcfg]; exact hnd)

theorem cartConfigs_empty_factor {l : List (Nat × List Elem)} {k : Nat} (h : (k, []) ∈ l) : cartConfigs l = [] := by
  induction l with
  | nil => cases h
  | cons x r ih =>
    obtain ⟨q, vs⟩ := x
    rcases List.mem_cons.mp h with h | h
    · cases h; simp [cartConfigs]
    · simp [cartConfigs, ih h]

theorem cell_eq_map {c : Cell} (hnd : (ckeys c).Nodup) : c = (ckeys c).map (fun q => (q, cget c q)) := by
  induction c with
  | nil => rfl
  | cons x r ih =>
    obtain ⟨p, d⟩ := x
    simp only [ckeys, List.map_cons, List.nodup_cons] at hnd
    have ih' := ih hnd.2
    show (p, d) :: r = (p, cget ((p, d) :: r) p) :: (ckeys r).map (fun q => (q, cget ((p, d) :: r) q))
    rw [cget_cons, if_pos rfl]
    congr 1
    have : (ckeys r).map (fun q => (q, cget ((p, d) :: r) q)) = (ckeys r).map (fun q => (q, cget r q)) := by
      apply List.map_congr_left
      intro q hq
      have hne : q ≠ p := fun e => hnd.1 (e ▸ hq)
      rw [cget_cons, if_neg hne]
    rw [this]
    exact ih'

/-- the composite tags, written independently of the generated slices: every member keeps its own tag without
    the last component, followed by the last components of all members -/
def specRetag (s : List (Nat × Tok)) : Emit :=
  s.map (fun x => (x.1, { x.2 with tag := x.2.tag.dropLast ++ s.filterMap (fun y => y.2.tag.getLast?) }))

/-- the key of a tag: the tag without its last `depth` components -/
def specKey (depth : Nat) (t : Tag) : Tag := t.take (t.length - depth)

/-- the canonical cell of key `κ`: ports in increasing order, the received tokens of the key in stream order -/
def canonCell (depth P : Nat) (S : List Ev) (κ : Tag) : Cell :=
  (List.range P).map (fun q => (q, bucket depth S κ q))

/-- **specification of the cartesian product**: for every key (tag without its last `depth` components) the
    full cross product over the ports of the received tokens with that key, every member retagged with its own
    tag minus the last component followed by the last components of all members -/
def specCart (depth P : Nat) (S : List Ev) : List Emit :=
  ((dedup (S.map (fun e => specKey depth e.2.tag))).flatMap
    (fun κ => rcfgs (cartSchema (List.range P)) (canonCell depth P S κ))).map specRetag

theorem cartEmit_eq_specRetag : cartEmit = specRetag := by
  funext s
  simp only [cartEmit, specRetag, Gen.cartSuffixOf, Gen.cartRetagKeep, List.dropLast_eq_take]

theorem cartKey_eq_specKey (depth : Nat) (t : Tag) : cartKey depth t = specKey depth t := by
  simp [cartKey, Gen.cartKey, specKey]

theorem totalL_eq {β : Type} (F : Cfg → Option β) {tv : TV} (hnd : (tkeys tv).Nodup) :
    totalL F tv = (tkeys tv).flatMap (fun κ => rcfgs F (tcell tv κ)) := by
  induction tv with
  | nil => rfl
  | cons x r ih =>
    obtain ⟨k, c⟩ := x
    simp only [tkeys, List.map_cons, List.nodup_cons] at hnd
    simp only [totalL, tkeys, List.map_cons, List.flatMap_cons, tcell_cons, if_true]
    congr 1
    have := ih hnd.2
    simp only [totalL, tkeys] at this
    rw [this]
    apply flatMap_congr'
    intro κ hκ
    have : κ ≠ k := fun e => hnd.1 (e ▸ hκ)
    rw [if_neg this]

theorem bucket_perm {depth : Nat} {es S : List Ev} (h : es.Perm S) (κ : Tag) (q : Nat) :
    (bucket depth es κ q).Perm (bucket depth S κ q) := (h.filter _).map _

theorem rcfgs_cell_canon {depth P : Nat} {es S : List Ev} (hp : es.Perm S) {c : Cell} (hc : CellOK P c)
    (κ : Tag) (hcells : ∀ q, cget c q = bucket depth es κ q) :
    (rcfgs (cartSchema (List.range P)) c).Perm (rcfgs (cartSchema (List.range P)) (canonCell depth P S κ)) := by
  by_cases hall : ∀ q, q < P → q ∈ ckeys c
  · have hperm : (ckeys c).Perm (List.range P) :=
      (List.perm_ext_iff_of_nodup hc.1 List.nodup_range).mpr (fun q =>
        ⟨fun h => List.mem_range.mpr (hc.2 q h), fun h => hall q (List.mem_range.mp h)⟩)
    have h1 : c.Perm ((List.range P).map (fun q => (q, cget c q))) := by
      have := hperm.map (fun q => (q, cget c q))
      rwa [← cell_eq_map hc.1] at this
    have hk1 : (((List.range P).map (fun q => (q, cget c q))).map (·.1)).Nodup := by
      simp only [List.map_map, Function.comp_def, List.map_id']
      exact List.nodup_range
    rw [rcfgs_eq_U _ hc.1]
    refine (rcfgs_perm h1 _ (pinv_cartSchemaU _)).trans ?_
    rw [← rcfgs_eq_U _ hk1]
    have := rcfgs_factor_perm ((List.range P).map (fun q => (q, cget c q))) (bucket depth S κ)
      (fun x hx => by
        obtain ⟨q, _, rfl⟩ := List.mem_map.mp hx
        simp only
        rw [hcells]; exact bucket_perm hp κ q) (cartSchema (List.range P))
    refine this.trans (List.Perm.of_eq ?_)
    simp only [canonCell, List.map_map, Function.comp_def]
  · have : ∃ q, q < P ∧ q ∉ ckeys c := by
      apply Decidable.by_contra
      intro hn
      exact hall (fun q hq => Decidable.by_contra (fun h => hn ⟨q, hq, h⟩))
    obtain ⟨q, hq, hqn⟩ := this
    rw [rcfgs_nil_of_missing (List.mem_range.mpr hq) hqn]
    have hb : bucket depth S κ q = [] := by
      have := bucket_perm hp κ q (depth := depth)
      rw [← hcells, cget_of_not_mem hqn] at this
      exact (List.nil_perm.mp this)
    have : (q, []) ∈ canonCell depth P S κ := by
      simp only [canonCell, List.mem_map, List.mem_range]
      exact ⟨q, hq, by rw [hb]⟩
    simp [rcfgs, cartConfigs_empty_factor this]

/-- **cartesian product, any arrival order**: every arrival order of a well-formed stream makes the
    loop-faithful `CartesianProductCombinator` model emit, without raising, exactly the specified schemas -/
theorem runCart_any_order {depth P L : Nat} (S es : List Ev) (h : WFCart depth P L S) (hp : es.Perm S) :
    (runCart depth P es).err = none ∧ (runCart depth P es).out.Perm (specCart depth P S) := by
  have hes : WFCart depth P L es := by
    obtain ⟨h1, h2, h3, h4, h5, h6⟩ := h
    exact ⟨h1, h2, hp.nodup_iff.mpr h3, fun e he => h4 e (hp.subset he), fun e he => h5 e (hp.subset he),
      fun e he e' he' => h6 e (hp.subset he) e' (hp.subset he')⟩
  obtain ⟨herr, hI⟩ := runCart_inv (depth := depth) (P := P) (L := L) es [] [] []
    (by simpa using hes) (invCart_init depth P L)
  simp only [List.nil_append] at hI
  refine ⟨herr, ?_⟩
  unfold runCart
  unfold specCart
  rw [← cartEmit_eq_specRetag]
  have hkk : (fun e : Ev => specKey depth e.2.tag) = (fun e : Ev => cartKey depth e.2.tag) := by
    funext e; exact (cartKey_eq_specKey depth e.2.tag).symm
  rw [hkk]
  refine hI.outs.trans (List.Perm.map _ ?_)
  rw [totalL_eq _ hI.valid.1]
  have hkeys : (tkeys (runWith (cartAdd depth (List.range P)) es [] []).tv).Perm
      (dedup (S.map (fun e => cartKey depth e.2.tag))) := by
    apply (List.perm_ext_iff_of_nodup hI.valid.1 (nodup_dedup _)).mpr
    intro κ
    rw [hI.keysIff κ, mem_dedup, List.mem_map]
    constructor
    · rintro ⟨e, he, hk⟩; exact ⟨e, hp.subset he, hk⟩
    · rintro ⟨e, he, hk⟩; exact ⟨e, hp.symm.subset he, hk⟩
  refine (flatMap_perm_pointwise (fun κ _ => ?_)).trans (hkeys.flatMap_right _)
  exact rcfgs_cell_canon hp (valid_tcell hI.valid κ) κ (fun q => hI.cells κ q)

end SFV.Comb
