import SFV.Model.Tag
import SFV.Model.Proto
open SFV SFV.Proto

def handle : List String → String
  | ["cmp", a, b] =>
      match parseTag a, parseTag b with
      | some x, some y => toString (compareTags x y)
      | _, _ => "bad-op"
  | "gettag" :: ts =>
      match ts.mapM parseTag with
      | some l => renderTag (getTag l)
      | none => "bad-op"
  | "sort" :: ts =>
      match ts.mapM parseTag with
      | some l => " ".intercalate ((sortTags l).map renderTag)
      | none => "bad-op"
  | ["strlen", a] =>
      match parseTag a with
      | some x => toString (strLen x)
      | none => "bad-op"
  | ["parent", h] =>
      match stringOfHex h with
      | some s => hexOfString (String.ofList (ppParent s.toList))
      | none => "bad-op"
  | ["name", h] =>
      match stringOfHex h with
      | some s => hexOfString (String.ofList (ppName s.toList))
      | none => "bad-op"
  | ["join", a, b] =>
      match stringOfHex a, stringOfHex b with
      | some x, some y => hexOfString (String.ofList (posixJoin x.toList y.toList))
      | _, _ => "bad-op"
  | _ => "bad-op"

def main : IO Unit := runPure handle
