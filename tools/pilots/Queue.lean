-- PILOT (round 0): Queue.lean (QueueManagerConnector.run polling protocol; 3 s)
/-! Pilot: QueueManagerConnector.run polling protocol as a transition system.
    Jobs are Nat ids. The external queue only ever loses jobs. -/
namespace PilotQ

inductive Pc | idle | needClear | poll | done
deriving DecidableEq, Repr

structure St where
  queue     : List Nat            -- jobs still in the batch queue (external truth)
  submitted : List Nat            -- every id ever submitted
  scheduled : List Nat            -- _scheduled_jobs keys
  cache     : Option (List Nat × List Nat)   -- (running ids returned, ids that were queried)
  pc        : Nat → Pc

inductive Act
  | submit (j : Nat)      -- sbatch returns id j and `_scheduled_jobs[j] = loc` (no await in between)
  | clear (j : Nat)       -- async with lock: cache.clear()
  | poll (j : Nat)        -- async with lock: running = _get_running_jobs(); test membership
  | leave (j : Nat)       -- the batch system finishes job j
  | expire                -- TTL expiry of the cache cell

def init : St := { queue := [], submitted := [], scheduled := [], cache := none, pc := fun _ => .idle }

def step (s : St) : Act → Option St
  | .submit j =>
      if s.pc j = .idle ∧ j ∉ s.submitted then
        some { s with queue := j :: s.queue, submitted := j :: s.submitted,
                      scheduled := j :: s.scheduled,
                      pc := fun k => if k = j then .needClear else s.pc k }
      else none
  | .clear j =>
      if s.pc j = .needClear then
        some { s with cache := none, pc := fun k => if k = j then .poll else s.pc k }
      else none
  | .poll j =>
      if s.pc j = .poll then
        let (res, cache') := match s.cache with
          | some (r, q) => (r, some (r, q))
          | none =>
              let r := s.scheduled.filter (· ∈ s.queue)     -- accurate for the ids listed
              (r, some (r, s.scheduled))
        if j ∈ res then some { s with cache := cache' }
        else some { s with cache := cache', scheduled := s.scheduled.erase j,
                           pc := fun k => if k = j then .done else s.pc k }
      else none
  | .leave j => some { s with queue := s.queue.erase j }
  | .expire => some { s with cache := none }

inductive Reachable : St → Prop
  | init : Reachable init
  | step {s a s'} : Reachable s → step s a = some s' → Reachable s'

/-- Inductive invariant. -/
def Inv (s : St) : Prop :=
  -- everybody polling is registered
  (∀ j, s.pc j = .poll → j ∈ s.scheduled) ∧ (∀ j, s.pc j = .needClear → j ∈ s.scheduled) ∧
  -- a cached answer covers everybody polling, and is right about absent ids
  (∀ r q, s.cache = some (r, q) →
      (∀ j, s.pc j = .poll → j ∈ q) ∧ (∀ j, j ∈ q → j ∉ r → j ∉ s.queue)) ∧
  -- finished runs really left the queue
  (∀ j, s.pc j = .done → j ∉ s.queue) ∧
  -- queue only contains submitted ids, idle ids are not submitted
  (∀ j, j ∈ s.queue → j ∈ s.submitted) ∧ (∀ j, j ∈ s.submitted → s.pc j ≠ .idle) ∧
  (∀ j, j ∈ s.scheduled → j ∈ s.submitted) ∧
  (∀ r q, s.cache = some (r, q) → ∀ j, j ∈ q → j ∈ s.submitted)

theorem inv_init : Inv init := by
  simp [Inv, init]

theorem inv_step {s a s'} (hI : Inv s) (hs : step s a = some s') : Inv s' := by
  obtain ⟨h1, h1', h2, h3, h4, h5, h6, h7⟩ := hI
  cases a with
  | submit j =>
    simp only [step] at hs
    split at hs
    · rename_i hc
      obtain ⟨hidle, hnew⟩ := hc
      cases hs
      refine ⟨?_, ?_, ?_, ?_, ?_, ?_, ?_, ?_⟩ <;> grind
    · cases hs
  | clear j =>
    simp only [step] at hs
    split at hs
    · cases hs
      refine ⟨?_, ?_, ?_, ?_, ?_, ?_, ?_, ?_⟩ <;> grind
    · cases hs
  | poll j =>
    simp only [step] at hs
    split at hs
    · rename_i hp
      cases hc : s.cache with
      | none =>
        simp only [hc] at hs
        split at hs
        · cases hs
          refine ⟨?_, ?_, ?_, ?_, ?_, ?_, ?_, ?_⟩ <;> grind
        · cases hs
          refine ⟨?_, ?_, ?_, ?_, ?_, ?_, ?_, ?_⟩ <;> grind [List.mem_of_mem_erase]
      | some rq =>
        obtain ⟨r, q⟩ := rq
        simp only [hc] at hs
        split at hs
        · cases hs
          refine ⟨?_, ?_, ?_, ?_, ?_, ?_, ?_, ?_⟩ <;> grind
        · cases hs
          refine ⟨?_, ?_, ?_, ?_, ?_, ?_, ?_, ?_⟩ <;> grind [List.mem_of_mem_erase]
    · cases hs
  | leave j =>
    simp only [step] at hs
    cases hs
    refine ⟨?_, ?_, ?_, ?_, ?_, ?_, ?_, ?_⟩ <;> grind [List.mem_of_mem_erase]
  | expire =>
    simp only [step] at hs
    cases hs
    refine ⟨?_, ?_, ?_, ?_, ?_, ?_, ?_, ?_⟩ <;> grind

theorem inv_reachable {s} (h : Reachable s) : Inv s := by
  induction h with
  | init => exact inv_init
  | step _ hs ih => exact inv_step ih hs

/-- A `run` call reports its job finished only after the job left the queue. -/
theorem finished_only_after_left {s} (h : Reachable s) (j : Nat) (hd : s.pc j = .done) : j ∉ s.queue :=
  (inv_reachable h).2.2.2.1 j hd

end PilotQ
#print axioms PilotQ.finished_only_after_left
