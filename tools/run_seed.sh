#!/bin/bash
# tools/run_seed.sh <seed-dir> <Cnn> [tier]   — apply seeded/<id>/patch.diff to a scratch worktree of /repo, run the check, undo.
# Uses SFV_REPO (a detached worktree) so that /repo itself is never modified while other work is going on.
set -u
seed="$1"; pid="$2"; tier="${3:-quick}"
wt="${SFV_SEED_WT:-/tmp/sfv-seed-wt-run}"
[ -d "$wt" ] || git -C /repo worktree add -q --detach "$wt" HEAD   # scratch worktree, removed again at the end
here="$(cd "$(dirname "${BASH_SOURCE[0]}")/.." && pwd)"
git -C "$wt" checkout -q -- . && git -C "$wt" clean -fdq
git -C "$wt" checkout -q --detach "$(git -C /repo rev-parse HEAD)"
git -C "$wt" apply "$seed/patch.diff" || { echo "patch does not apply"; exit 3; }
cd "$here" && SFV_REPO="$wt" timeout 3000 ./check "$pid" --tier "$tier"; rc=$?
git -C "$wt" checkout -q -- . && git -C "$wt" clean -fdq
# restore generated Lean files to the clean tree's version
git -C "$here" checkout -q -- lean/SFV/Gen
echo "seed $seed on $pid -> exit $rc"
[ -n "${SFV_SEED_KEEP_WT:-}" ] || git -C /repo worktree remove --force "$wt" 2>/dev/null
exit $rc
