"""Controlled asyncio event loop: an interleaving is a replayable function of one PRNG seed.

* every iteration of the loop runs the handles that are ready *in a PRNG-chosen order* (handles that became
  ready in the same iteration are concurrent: asyncio promises nothing about their relative order beyond
  FIFO of call_soon, and StreamFlow's properties quantify over all task interleavings);
* optional virtual clock: when nothing is ready and only timers are pending the clock jumps to the next
  timer (use only for code that does no real I/O — aiosqlite, subprocesses and threads need real time).
"""
from __future__ import annotations

import asyncio
import heapq
import random
import time


class ControlledLoop(asyncio.SelectorEventLoop):
    def __init__(self, rng: random.Random | None = None, virtual_time: bool = False, shuffle: bool = True):
        super().__init__()
        self._sfv_rng = rng or random.Random(0)
        self._sfv_virtual = virtual_time
        self._sfv_shuffle = shuffle
        self._sfv_now = 0.0
        self.sfv_iterations = 0
        self.sfv_reorders = 0

    def time(self) -> float:
        if self._sfv_virtual:
            return self._sfv_now
        return super().time()

    def _run_once(self) -> None:
        self.sfv_iterations += 1
        if self._sfv_virtual and not self._ready and self._scheduled:
            while self._scheduled and self._scheduled[0]._cancelled:
                h = heapq.heappop(self._scheduled)
                h._scheduled = False
                self._timer_cancelled_count = max(0, self._timer_cancelled_count - 1)
            if self._scheduled and self._scheduled[0]._when > self._sfv_now:
                self._sfv_now = self._scheduled[0]._when
        if self._sfv_shuffle and len(self._ready) > 1:
            # thread-safe: other threads (aiosqlite's worker, executors) append to `_ready` through
            # call_soon_threadsafe at any moment; deque.popleft/extendleft are atomic and leave concurrent
            # appends at the right end (a snapshot + clear() + extend() would drop them => fake hangs)
            n = len(self._ready)
            items = [self._ready.popleft() for _ in range(n)]
            self._sfv_rng.shuffle(items)
            self._ready.extendleft(reversed(items))
            self.sfv_reorders += 1
        super()._run_once()


def run_controlled(coro_fn, seed: int, timeout: float | None = 60.0, virtual_time: bool = False, shuffle: bool = True):
    """run `await coro_fn()` to completion under a ControlledLoop seeded with `seed`.
    Raises TimeoutError when the wall-clock (or virtual) bound is exceeded — a *result*, see DESIGN §2.3."""
    loop = ControlledLoop(random.Random(seed), virtual_time=virtual_time, shuffle=shuffle)
    try:
        asyncio.set_event_loop(loop)

        async def main():
            if timeout is None:
                return await coro_fn()
            return await asyncio.wait_for(coro_fn(), timeout)

        return loop.run_until_complete(main())
    finally:
        try:
            pending = [t for t in asyncio.all_tasks(loop) if not t.done()]
            for t in pending:
                t.cancel()
            if pending:
                loop.run_until_complete(asyncio.gather(*pending, return_exceptions=True))
            loop.run_until_complete(loop.shutdown_asyncgens())
        except Exception:  # noqa: BLE001
            pass
        asyncio.set_event_loop(None)
        loop.close()
