import SFV.Model.JsDeps
import SFV.Model.Proto
open SFV SFV.Proto SFV.JsDeps

/-- prefix (Polish) encoding of a `Js` tree; strings are hex -/
def parseJs : Nat → List String → Option (Js × List String)
  | 0, _ => none
  | fuel + 1, toks =>
    let rec params (n : Nat) (ts : List String) (acc : List String) : Option (List String × List String) :=
      match n, ts with
      | 0, ts => some (acc.reverse, ts)
      | n + 1, h :: ts => match stringOfHex h with
          | some p => params n ts (p :: acc)
          | none => none
      | _, [] => none
    match toks with
    | "n" :: v :: r => v.toNat?.map (fun n => (Js.num n, r))
    | "s" :: h :: r => (stringOfHex h).map (fun s => (Js.str s, r))
    | "i" :: h :: r => (stringOfHex h).map (fun s => (Js.ident s, r))
    | "dot" :: r => do
        let (e, r1) ← parseJs fuel r
        match r1 with
        | h :: r2 => (stringOfHex h).map (fun k => (Js.dot e k, r2))
        | [] => none
    | "idx" :: r => do
        let (e, r1) ← parseJs fuel r
        let (i, r2) ← parseJs fuel r1
        pure (Js.idx e i, r2)
    | "par" :: r => do
        let (e, r1) ← parseJs fuel r
        pure (Js.paren e, r1)
    | "asg" :: h :: r => do
        let x ← stringOfHex h
        let (e, r1) ← parseJs fuel r
        pure (Js.assign x e, r1)
    | "bin" :: r => do
        let (a, r1) ← parseJs fuel r
        let (b, r2) ← parseJs fuel r1
        pure (Js.bin a b, r2)
    | "cond" :: r => do
        let (c, r1) ← parseJs fuel r
        let (a, r2) ← parseJs fuel r1
        let (b, r3) ← parseJs fuel r2
        pure (Js.cond c a b, r3)
    | "call" :: r => do
        let (f, r1) ← parseJs fuel r
        let (a, r2) ← parseJs fuel r1
        pure (Js.call f a, r2)
    | "fx" :: n :: r => do
        let k ← n.toNat?
        let (ps, r1) ← params k r []
        let (b, r2) ← parseJs fuel r1
        pure (Js.fexpr ps b, r2)
    | "skip" :: r => some (Js.skip, r)
    | "seq" :: r => do
        let (a, r1) ← parseJs fuel r
        let (b, r2) ← parseJs fuel r1
        pure (Js.seq a b, r2)
    | "vd" :: h :: r => (stringOfHex h).map (fun x => (Js.varDecl x, r))
    | "vi" :: h :: r => do
        let x ← stringOfHex h
        let (e, r1) ← parseJs fuel r
        pure (Js.varInit x e, r1)
    | "ret" :: r => do
        let (e, r1) ← parseJs fuel r
        pure (Js.ret e, r1)
    | "ite" :: r => do
        let (c, r1) ← parseJs fuel r
        let (a, r2) ← parseJs fuel r1
        let (b, r3) ← parseJs fuel r2
        pure (Js.ite c a b, r3)
    | "loop" :: h :: n :: r => do
        let i ← stringOfHex h
        let m ← n.toNat?
        let (b, r1) ← parseJs fuel r
        pure (Js.loop i 0 m b, r1)
    | "fd" :: h :: n :: r => do
        let f ← stringOfHex h
        let k ← n.toNat?
        let (ps, r1) ← params k r []
        let (b, r2) ← parseJs fuel r1
        pure (Js.fdecl f ps b, r2)
    | _ => none

def hexList (l : List String) : String :=
  if l.isEmpty then "_" else ",".intercalate (l.map hexOfString)

def parseSegs : List String → Option (List Seg)
  | [] => some []
  | "d" :: h :: r => do
      let k ← stringOfHex h
      let rest ← parseSegs r
      pure (Seg.dot k :: rest)
  | "k" :: h :: r => do
      let k ← stringOfHex h
      let rest ← parseSegs r
      pure (Seg.key k :: rest)
  | "x" :: n :: r => do
      let v ← n.toNat?
      let rest ← parseSegs r
      pure (Seg.index v :: rest)
  | _ => none

def splitBar : List String → List String → List (List String) → List (List String)
  | [], cur, acc => (cur.reverse :: acc).reverse
  | t :: r, cur, acc => if t == "|" then splitBar r [] (cur.reverse :: acc) else splitBar r (t :: cur) acc

def handle : List String → String
  | "js" :: toks =>
      match parseJs (toks.length + 1) toks with
      | some (prog, []) =>
          let l := match resolve prog with
            | .ok d => "ok:" ++ hexList d
            | .error .attributeError => "err:AttributeError"
            | .error .keyError => "err:KeyError"
          let e := match run 4000 prog with
            | some rs => "reads:" ++ hexList rs
            | none => "fail"
          l ++ " " ++ e ++ " " ++ (if Frag.handled prog then "h1" else "h0")
      | _ => "bad-op"
  | "interp" :: ck :: rest =>
      -- parts separated by `|`: `R first segs…` or `J js-tokens…`
      let groups := (splitBar rest [] []).filter (fun g => !g.isEmpty)
      let parts : Option (List Part) := groups.mapM (fun g => match g with
        | "R" :: f :: segs => do
            let first ← stringOfHex f
            let ss ← parseSegs segs
            pure (Part.ref first ss)
        | "J" :: toks => match parseJs (toks.length + 1) toks with
            | some (prog, []) => some (Part.js prog)
            | _ => none
        | _ => none)
      match stringOfHex ck, parts with
      | some c, some ps =>
          let l := match interpDeps c ps with
            | .ok d => "ok:" ++ hexList d.eraseDups
            | .error .attributeError => "err:AttributeError"
            | .error .keyError => "err:KeyError"
          let e := match interpReads 4000 ps with
            | some rs => "reads:" ++ hexList rs.eraseDups
            | none => "fail"
          let h := ps.all (fun p => match p with | .js prog => Frag.handled prog | .ref _ _ => true)
          l ++ " " ++ e ++ " " ++ (if h then "h1" else "h0")
      | _, _ => "bad-op"
  | "pref" :: ck :: first :: segs =>
      match stringOfHex ck, stringOfHex first, parseSegs segs with
      | some c, some f, some ss => "ok:" ++ hexList (paramDeps c f ss)
      | _, _, _ => "bad-op"
  | _ => "bad-op"

def main : IO Unit := runPure handle
