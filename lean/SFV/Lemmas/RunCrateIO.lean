import SFV.Lemmas.RunCrate
/-! C34: every value of the run handed to the manager is represented and linked (`io_values_represented`). -/
namespace SFV.RunCrate

theorem dictSet_absent (l : List (String × β)) (k : String) (v : β) (h : k ∉ l.map (·.1)) :
    dictSet l k v = l ++ [(k, v)] := by
  induction l with
  | nil => rfl
  | cons p r ih =>
    obtain ⟨k', v'⟩ := p
    simp only [List.map_cons, List.mem_cons, not_or] at h
    simp only [dictSet]
    rw [if_neg (fun e => h.1 e.symm), ih h.2]
    rfl

theorem step_addRef_graph (c : Crate) (o t : String) :
    (step c (.addRef o t)).graph = c.graph.map (fun p => if p.1 = o then (p.1, { p.2 with refs := p.2.refs ++ [t] }) else p) := rfl

theorem keys_addRef (c : Crate) (o t : String) : keys (step c (.addRef o t)) = keys c := by
  simp only [keys, step_addRef_graph, List.map_map]
  apply List.map_congr_left
  intro p _
  simp only [Function.comp]
  split <;> rfl

/-- what later registrations may do to an earlier state: entities other than the action and the root dataset stay as
they are, the action keeps its links, no key disappears -/
structure Ext (action : String) (c c' : Crate) : Prop where
  keep : ∀ p, p ∈ c.graph → p.1 ≠ action → p.1 ≠ "./" → p ∈ c'.graph
  link : ∀ r, (∃ a, a ∈ c.graph ∧ a.1 = action ∧ r ∈ a.2.refs) → ∃ a, a ∈ c'.graph ∧ a.1 = action ∧ r ∈ a.2.refs
  keys : ∀ k, k ∈ keys c → k ∈ keys c'

theorem Ext.refl (action : String) (c : Crate) : Ext action c c := ⟨fun _ h _ _ => h, fun _ h => h, fun _ h => h⟩

theorem Ext.trans {action : String} {a b c : Crate} (h1 : Ext action a b) (h2 : Ext action b c) : Ext action a c :=
  ⟨fun p hp ha hr => h2.keep p (h1.keep p hp ha hr) ha hr, fun r h => h2.link r (h1.link r h), fun k h => h2.keys k (h1.keys k h)⟩

theorem ext_put_new (action : String) (c : Crate) (e : Entity) (h : e.id ∉ keys c) : Ext action c (step c (.put e)) := by
  have hg : (step c (.put e)).graph = c.graph ++ [(e.id, e)] := dictSet_absent _ _ _ h
  refine ⟨?_, ?_, ?_⟩
  · intro p hp _ _; rw [hg]; exact List.mem_append_left _ hp
  · rintro r ⟨a, ha, h1, h2⟩; exact ⟨a, by rw [hg]; exact List.mem_append_left _ ha, h1, h2⟩
  · intro k hk; simp only [keys, hg, List.map_append]; exact List.mem_append_left _ hk

theorem ext_putNew (action : String) (c : Crate) (e : Entity) : Ext action c (putNew c e) := by
  unfold putNew
  split
  · exact Ext.refl _ _
  · rename_i h
    exact ext_put_new action c e (by simpa [keys] using h)

theorem ext_addRef (action : String) (c : Crate) (o t : String) (ho : o = action ∨ o = "./") :
    Ext action c (step c (.addRef o t)) := by
  refine ⟨?_, ?_, ?_⟩
  · intro p hp ha hr
    rw [step_addRef_graph]
    refine List.mem_map.mpr ⟨p, hp, ?_⟩
    have : p.1 ≠ o := by rcases ho with rfl | rfl <;> assumption
    simp [this]
  · rintro r ⟨a, ha, h1, h2⟩
    rw [step_addRef_graph]
    by_cases hao : a.1 = o
    · exact ⟨(a.1, { a.2 with refs := a.2.refs ++ [t] }), List.mem_map.mpr ⟨a, ha, by simp [hao]⟩, h1, by simp [h2]⟩
    · exact ⟨a, List.mem_map.mpr ⟨a, ha, by simp [hao]⟩, h1, h2⟩
  · intro k hk; rw [keys_addRef]; exact hk

theorem ext_mapFile (action : String) (c : Crate) (s d : String) : Ext action c (step c (.mapFile s d)) :=
  ⟨fun _ h _ _ => h, fun _ h => h, fun _ h => h⟩

theorem ext_registerFile (action : String) (c : Crate) (sha path : String) : Ext action c (registerFile c sha path) := by
  unfold registerFile
  simp only
  split
  · exact ext_mapFile action c path sha
  · rename_i h
    refine (ext_mapFile action c path sha).trans ((ext_put_new action _ { id := sha, isFile := true } ?_).trans
      (ext_addRef action _ "./" sha (Or.inr rfl)))
    simpa [keys] using h

theorem ext_linkAction (action : String) (c : Crate) (id : String) : Ext action c (linkAction c action id) := by
  unfold linkAction
  split
  · exact Ext.refl _ _
  · exact ext_addRef action c action id (Or.inl rfl)

theorem ext_registerLeafFiles (action : String) : ∀ (items : List Leaf) (c : Crate), Ext action c (registerLeafFiles c items)
  | [], c => Ext.refl _ _
  | .file sha path :: r, c => (ext_registerFile action c sha path).trans (ext_registerLeafFiles action r _)
  | .null :: r, c => ext_registerLeafFiles action r c
  | .scalar _ :: r, c => ext_registerLeafFiles action r c

theorem ext_registerValue (action fresh name : String) (c : Crate) (t : TokVal) :
    Ext action c (registerValue c action fresh name t) := by
  cases t with
  | leaf l =>
    cases l with
    | null => exact Ext.refl _ _
    | scalar s => exact (ext_putNew action c _).trans (ext_linkAction action _ fresh)
    | file sha path => exact (ext_registerFile action c sha path).trans (ext_linkAction action _ sha)
  | list items =>
    exact ((ext_registerLeafFiles action items c).trans (ext_putNew action _ _)).trans (ext_linkAction action _ fresh)

theorem ext_registerAll (action : String) : ∀ (toks : List (String × String × TokVal)) (c : Crate),
    Ext action c (registerAll c action toks)
  | [], c => Ext.refl _ _
  | (f, n, t) :: r, c => (ext_registerValue action f n c t).trans (ext_registerAll action r _)

/-- the action ends up linked to `id` -/
theorem linkAction_links (c : Crate) (action id : String) (h : action ∈ keys c) :
    ∃ a, a ∈ (linkAction c action id).graph ∧ a.1 = action ∧ id ∈ a.2.refs := by
  unfold linkAction
  split
  · rename_i hany
    simp only [List.any_eq_true, Bool.and_eq_true, beq_iff_eq] at hany
    obtain ⟨a, ha, h1, h2⟩ := hany
    exact ⟨a, ha, h1, by simpa using h2⟩
  · simp only [keys, List.mem_map] at h
    obtain ⟨a, ha, h1⟩ := h
    rw [step_addRef_graph]
    exact ⟨(a.1, { a.2 with refs := a.2.refs ++ [id] }), List.mem_map.mpr ⟨a, ha, by simp [h1]⟩, h1, by simp⟩

theorem putNew_mem (c : Crate) (e : Entity) (h : e.id ∉ keys c) : (e.id, e) ∈ (putNew c e).graph := by
  unfold putNew
  have : (c.graph.map (·.1)).contains e.id = false := by simpa [keys] using h
  simp only [this, Bool.false_eq_true, if_false]
  have hg : (step c (.put e)).graph = c.graph ++ [(e.id, e)] := dictSet_absent _ _ _ h
  rw [hg]; simp

/-- shas of the File tokens inside a value -/
def leafShas : List Leaf → List String
  | [] => []
  | .file sha _ :: r => sha :: leafShas r
  | _ :: r => leafShas r

def tokShas : TokVal → List String
  | .leaf l => leafShas [l]
  | .list items => leafShas items

/-- identifiers that are File checksums hold File entities stored under that checksum -/
def FilesOk (S : List String) (c : Crate) : Prop := ∀ p, p ∈ c.graph → p.1 ∈ S → p.2.id = p.1 ∧ p.2.isFile = true

theorem filesOk_addRef (S : List String) (c : Crate) (o t : String) (h : FilesOk S c) : FilesOk S (step c (.addRef o t)) := by
  intro p hp hS
  rw [step_addRef_graph] at hp
  obtain ⟨q, hq, rfl⟩ := List.mem_map.mp hp
  split at hS
  · rename_i ho
    have := h q hq (by simpa using hS)
    simp only [ho, if_true]; rw [← ho]; exact this
  · rename_i ho
    simp only [ho, if_false]; exact h q hq hS

theorem filesOk_put_new (S : List String) (c : Crate) (e : Entity) (hk : e.id ∉ keys c) (h : FilesOk S c)
    (he : e.id ∈ S → e.isFile = true) : FilesOk S (step c (.put e)) := by
  have hg : (step c (.put e)).graph = c.graph ++ [(e.id, e)] := dictSet_absent _ _ _ hk
  intro p hp hS
  rw [hg] at hp
  rcases List.mem_append.mp hp with hp | hp
  · exact h p hp hS
  · simp only [List.mem_singleton] at hp; subst hp; exact ⟨rfl, he hS⟩

theorem registerFile_spec (S : List String) (c : Crate) (sha path : String) (hS : sha ∈ S) (hroot : sha ≠ "./")
    (h : FilesOk S c) :
    FilesOk S (registerFile c sha path) ∧ (∃ p, p ∈ (registerFile c sha path).graph ∧ p.1 = sha ∧ p.2.id = sha ∧ p.2.isFile = true) ∧
    (∀ k, k ∈ keys (registerFile c sha path) → k ∈ keys c ∨ k = sha) := by
  unfold registerFile
  simp only
  split
  · rename_i hc
    have hk : sha ∈ keys c := by simpa [keys, step] using hc
    simp only [keys, List.mem_map] at hk
    obtain ⟨p, hp, hp1⟩ := hk
    have := h p hp (hp1 ▸ hS)
    exact ⟨h, ⟨p, hp, hp1, by rw [this.1, hp1], this.2⟩, fun k hk => Or.inl hk⟩
  · rename_i hc
    have hk : sha ∉ keys (step c (.mapFile path sha)) := by simpa [keys] using hc
    have h1 : FilesOk S (step c (.mapFile path sha)) := h
    have h2 := filesOk_put_new S _ { id := sha, isFile := true } hk h1 (fun _ => rfl)
    refine ⟨filesOk_addRef S _ _ _ h2, ?_, ?_⟩
    · have hg : (step (step c (.mapFile path sha)) (.put { id := sha, isFile := true })).graph =
          (step c (.mapFile path sha)).graph ++ [(sha, { id := sha, isFile := true })] := dictSet_absent _ _ _ hk
      refine ⟨(sha, { id := sha, isFile := true }), ?_, rfl, rfl, rfl⟩
      rw [step_addRef_graph]
      refine List.mem_map.mpr ⟨(sha, { id := sha, isFile := true }), by rw [hg]; simp, ?_⟩
      simp [hroot]
    · intro k hk'
      rw [keys_addRef] at hk'
      have hg : (step (step c (.mapFile path sha)) (.put { id := sha, isFile := true })).graph =
          (step c (.mapFile path sha)).graph ++ [(sha, { id := sha, isFile := true })] := dictSet_absent _ _ _ hk
      simp only [keys, hg, List.map_append, List.mem_append, List.map_cons, List.map_nil, List.mem_singleton] at hk'
      rcases hk' with hk' | hk'
      · exact Or.inl hk'
      · exact Or.inr hk'

theorem putNew_absent (c : Crate) (e : Entity) (h : e.id ∉ keys c) : putNew c e = step c (.put e) := by
  unfold putNew
  have : (c.graph.map (·.1)).contains e.id = false := by simpa [keys] using h
  rw [this]; rfl

theorem keys_put_new (c : Crate) (e : Entity) (h : e.id ∉ keys c) : keys (step c (.put e)) = keys c ++ [e.id] := by
  have hg : (step c (.put e)).graph = c.graph ++ [(e.id, e)] := dictSet_absent _ _ _ h
  simp [keys, hg]

theorem keys_linkAction (c : Crate) (action id : String) : keys (linkAction c action id) = keys c := by
  unfold linkAction
  split
  · rfl
  · exact keys_addRef c action id

theorem filesOk_linkAction (S : List String) (c : Crate) (action id : String) (h : FilesOk S c) :
    FilesOk S (linkAction c action id) := by
  unfold linkAction
  split
  · exact h
  · exact filesOk_addRef S c action id h

theorem registerLeafFiles_spec (S : List String) (hroot : "./" ∉ S) : ∀ (items : List Leaf) (c : Crate),
    (∀ s, s ∈ leafShas items → s ∈ S) → FilesOk S c →
    FilesOk S (registerLeafFiles c items) ∧ (∀ k, k ∈ keys (registerLeafFiles c items) → k ∈ keys c ∨ k ∈ S)
  | [], c, _, h => ⟨h, fun k hk => Or.inl hk⟩
  | .null :: r, c, hs, h => registerLeafFiles_spec S hroot r c (by simpa [leafShas] using hs) h
  | .scalar _ :: r, c, hs, h => registerLeafFiles_spec S hroot r c (by simpa [leafShas] using hs) h
  | .file sha path :: r, c, hs, h => by
    have hsS : sha ∈ S := hs sha (by simp [leafShas])
    obtain ⟨h1, _, h3⟩ := registerFile_spec S c sha path hsS (fun e => hroot (e ▸ hsS)) h
    obtain ⟨h4, h5⟩ := registerLeafFiles_spec S hroot r (registerFile c sha path)
      (fun s hs' => hs s (by simp [leafShas, hs'])) h1
    refine ⟨h4, ?_⟩
    intro k hk
    rcases h5 k hk with hk | hk
    · rcases h3 k hk with hk | rfl
      · exact Or.inl hk
      · exact Or.inr hsS
    · exact Or.inr hk

/-- one value: it is represented, linked from the action, and the invariants carry on -/
theorem registerValue_spec (S : List String) (action f n : String) (t : TokVal) (c : Crate)
    (hact : action ∈ keys c) (haS : action ∉ S) (hroot : "./" ∉ S) (hfiles : FilesOk S c)
    (hsh : ∀ s, s ∈ tokShas t → s ∈ S) (hfk : f ∉ keys c) (hfS : f ∉ S) (hfa : f ≠ action) (hfr : f ≠ "./") :
    FilesOk S (registerValue c action f n t) ∧
    (∀ k, k ∈ keys (registerValue c action f n t) → k ∈ keys c ∨ k = f ∨ k ∈ S) ∧
    (t ≠ .leaf .null → ∃ p, p ∈ (registerValue c action f n t).graph ∧ p.1 = repId f t ∧ Represents p.2 n t ∧
      ∃ a, a ∈ (registerValue c action f n t).graph ∧ a.1 = action ∧ repId f t ∈ a.2.refs) := by
  cases t with
  | leaf l =>
    cases l with
    | null => exact ⟨hfiles, fun k hk => Or.inl hk, fun h => absurd rfl h⟩
    | scalar s =>
      simp only [registerValue]
      have hmem := putNew_mem c { id := f, name := n, values := [s] } hfk
      have hext := ext_putNew action c { id := f, name := n, values := [s] }
      refine ⟨filesOk_linkAction S _ action f ?_, ?_, fun _ => ?_⟩
      · rw [putNew_absent c _ hfk]; exact filesOk_put_new S c _ hfk hfiles (fun h => absurd h hfS)
      · intro k hk
        rw [keys_linkAction, putNew_absent c _ hfk, keys_put_new c _ hfk] at hk
        rcases List.mem_append.mp hk with hk | hk
        · exact Or.inl hk
        · exact Or.inr (Or.inl (by simpa using hk))
      · refine ⟨(f, { id := f, name := n, values := [s] }), ?_, rfl, ⟨rfl, rfl⟩, ?_⟩
        · exact (ext_linkAction action _ f).keep _ hmem hfa hfr
        · exact linkAction_links _ action f (hext.keys action hact)
    | file sha path =>
      simp only [registerValue]
      have hsS : sha ∈ S := hsh sha (by simp [tokShas, leafShas])
      obtain ⟨h1, ⟨p, hp, hp1, hp2, hp3⟩, h3⟩ := registerFile_spec S c sha path hsS (fun e => hroot (e ▸ hsS)) hfiles
      refine ⟨filesOk_linkAction S _ action sha h1, ?_, fun _ => ?_⟩
      · intro k hk
        rw [keys_linkAction] at hk
        rcases h3 k hk with hk | rfl
        · exact Or.inl hk
        · exact Or.inr (Or.inr hsS)
      · refine ⟨p, ?_, hp1, ⟨hp2, hp3⟩, ?_⟩
        · exact (ext_linkAction action _ sha).keep p hp (fun e => haS (e ▸ hp1 ▸ hsS)) (fun e => hroot (e ▸ hp1 ▸ hsS))
        · exact linkAction_links _ action sha ((ext_registerFile action c sha path).keys action hact)
  | list items =>
    simp only [registerValue]
    obtain ⟨h1, h2⟩ := registerLeafFiles_spec S hroot items c (by simpa [tokShas] using hsh) hfiles
    have hfk1 : f ∉ keys (registerLeafFiles c items) := by
      intro hk
      rcases h2 f hk with hk | hk
      · exact hfk hk
      · exact hfS hk
    have hmem := putNew_mem _ { id := f, name := n, values := items.filterMap leafValue } hfk1
    refine ⟨filesOk_linkAction S _ action f ?_, ?_, fun _ => ?_⟩
    · rw [putNew_absent _ _ hfk1]; exact filesOk_put_new S _ _ hfk1 h1 (fun h => absurd h hfS)
    · intro k hk
      rw [keys_linkAction, putNew_absent _ _ hfk1, keys_put_new _ _ hfk1] at hk
      rcases List.mem_append.mp hk with hk | hk
      · rcases h2 k hk with hk | hk
        · exact Or.inl hk
        · exact Or.inr (Or.inr hk)
      · exact Or.inr (Or.inl (by simpa using hk))
    · refine ⟨(f, { id := f, name := n, values := items.filterMap leafValue }), ?_, rfl, ⟨rfl, rfl⟩, ?_⟩
      · exact (ext_linkAction action _ f).keep _ hmem hfa hfr
      · exact linkAction_links _ action f
          ((ext_putNew action _ _).keys action ((ext_registerLeafFiles action items c).keys action hact))

end SFV.RunCrate
