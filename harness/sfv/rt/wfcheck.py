"""Shared by the C04 / C05 / C07 checks: protocol rendering of generated workflows (sfv.rt.wfgen) for
Drivers/Net.lean, canonical rendering of real runs, provenance extraction, and the run campaign."""
from __future__ import annotations

import json
import os
import shutil
import tempfile
from typing import Any

from sfv.rt import wfgen


# ---- spec -> driver words ------------------------------------------------------------------------
def val_str(v) -> str:
    return json.dumps(v, separators=(",", ":"))


def _ports(ps) -> str:
    return ",".join(map(str, ps)) or "-"


def spec_words(spec: dict) -> str:
    w = [f"n={spec['nports']}"]
    for s in spec["sources"]:
        w.append(f"s:{s['port']}:{val_str(s['value'])}")
    for p in spec.get("closed", []):
        w.append(f"c:{p}")
    for n in spec["nodes"]:
        k = n["kind"]
        if k == "tf":
            w.append(f"tf:{n['fn']}:{n.get('k', 0)}:{_ports(n['ins'])}/{_ports(n['outs'])}")
        elif k == "cond":
            w.append(f"cond:{n['m']}:{n['r']}:{'z' if n['mode'] == 'zero' else 'd'}:{_ports(n['ins'])}/{_ports(n['outs'])}")
        elif k == "exec":
            w.append(f"exec:{n.get('k', 0)}:{_ports(n['ins'])}/{_ports(n['outs'])}")
        elif k == "loop":
            w.append(f"tf:loop:{n['k']}:{_ports(n['ins'])}/{_ports(n['outs'])}")
        elif k == "scatter":
            w.append(f"scatter:{n['ins'][0]}:{n['outs'][0]}:{n['outs'][1]}")
        elif k == "gather":
            w.append(f"gather:{n['ins'][0]}:{n['ins'][1]}:{n['outs'][0]}:{n.get('depth', 1)}")
        elif k == "dot":
            w.append(f"dot:{_ports(n['ins'])}/{_ports(n['outs'])}")
        elif k == "cart":
            w.append(f"cart:{n['ins'][0]}:{n['ins'][1]}:{n['outs'][0]}:{n['outs'][1]}")
        else:
            raise ValueError(k)
    return " ".join(w)


def render_ports(ports: dict, nports: int) -> str:
    """same format as the `den` answer of Drivers/Net.lean (without the wf prefix)"""
    out = []
    for p in range(nports):
        m = ports.get(str(p), ports.get(p, {}))
        if not m:
            out.append(f"{p}=-")
        else:
            keys = sorted(m, key=lambda t: (len(wfgen.tag_key(t)), wfgen.tag_key(t)))
            out.append(f"{p}=" + ";".join(f"{t}={val_str(m[t])}" for t in keys))
    return " | ".join(out)


def split_den_answer(line: str) -> tuple[str, str]:
    head, _, rest = line.partition(" | ")
    return head, rest


# ---- provenance ----------------------------------------------------------------------------------
def py_prov(spec: dict) -> set[str]:
    """the edges the property statement demands (tokens identified by port:tag), written from the statement and
    from what each step class consumes for an emission; exec pipelines excluded (internal ports)"""
    den = wfgen.py_den(spec)
    edges = set()

    def e(a, ta, b, tb):
        edges.add(f"{a}:{ta}>{b}:{tb}")

    for n in spec["nodes"]:
        k = n["kind"]
        if k in ("tf", "cond"):
            for o in n["outs"]:
                for tag in den[o]:
                    for q in n["ins"]:
                        e(q, tag, o, tag)
        elif k == "scatter":
            inp, (out, size) = n["ins"][0], n["outs"]
            for tag in den[out]:
                e(inp, tag.rsplit(".", 1)[0], out, tag)
            for tag in den[size]:
                e(inp, tag, size, tag)
        elif k == "gather":
            inp, size, out, d = n["ins"][0], n["ins"][1], n["outs"][0], n.get("depth", 1)
            for key in den[out]:
                e(size, key, out, key)
                for tag in den[inp]:
                    if ".".join(tag.split(".")[:-d]) == key:
                        e(inp, tag, out, key)
        elif k == "dot":
            for kappa in den[n["outs"][0]]:
                srcs = []
                for q in n["ins"]:
                    c = [t for t in den[q] if wfgen.tag_key(kappa)[: len(wfgen.tag_key(t))] == wfgen.tag_key(t)]
                    srcs.append((q, c[0]))
                for o in n["outs"]:
                    for q, t in srcs:
                        e(q, t, o, kappa)
        elif k == "cart":
            a, b = n["ins"]
            for ta in den[a]:
                for tb in den[b]:
                    if ta.split(".")[:-1] == tb.split(".")[:-1]:
                        kappa = ta + "." + tb.split(".")[-1]
                        for o in n["outs"]:
                            e(a, ta, o, kappa)
                            e(b, tb, o, kappa)
    return edges


def real_prov(spec: dict, res: dict) -> dict:
    """provenance of a real run in terms of (spec port index, tag); generic table checks"""
    pid2idx = {pid: int(i) for i, pid in res["port_ids"].items() if pid is not None}
    tok = {t[0]: t for t in res["db"]["tokens"]}          # id -> [id, port_id, tag, type]
    exec_outs = {n["outs"][0] for n in spec["nodes"] if n["kind"] in ("exec", "loop")}
    problems, edges, skipped = [], set(), 0
    for a, b in res["db"]["provenance"]:
        if a not in tok or b not in tok:
            problems.append(("dangling", f"provenance row ({a},{b}) refers to a token id that is not in the token table"))
            continue
        if not a < b:
            problems.append(("order", f"provenance row ({a},{b}): dependee id is not smaller than depender id"))
        pa, pb = pid2idx.get(tok[a][1]), pid2idx.get(tok[b][1])
        if pa is None or pb is None or pb in exec_outs:
            skipped += 1      # internal ports of job pipelines (schedule / transfer / job tokens)
            continue
        edges.add(f"{pa}:{tok[a][2]}>{pb}:{tok[b][2]}")
    # acyclicity (independent of the id order)
    succ: dict[int, list[int]] = {}
    for a, b in res["db"]["provenance"]:
        succ.setdefault(a, []).append(b)
    color: dict[int, int] = {}
    for root in list(succ):
        if color.get(root):
            continue
        stack = [(root, iter(succ.get(root, [])))]
        color[root] = 1
        while stack:
            node, it = stack[-1]
            nxt = next(it, None)
            if nxt is None:
                color[node] = 2
                stack.pop()
            elif color.get(nxt) == 1:
                problems.append(("cycle", f"provenance cycle through token {nxt}"))
                stack.clear()
            elif not color.get(nxt):
                color[nxt] = 1
                stack.append((nxt, iter(succ.get(nxt, []))))
    # completeness: every data token on every port has a row
    ids = set(tok)
    for p, m in res["token_ids"].items():
        for tag, tid in m.items():
            if tid is None or tid not in ids:
                problems.append(("unpersisted", f"data token {tag} on port {p} has no row in the token table (id {tid})"))
    return {"edges": edges, "problems": problems, "skipped": skipped}


def render_edges(edges) -> str:
    return ",".join(sorted(edges)) or "-"


def opaque_out_ports(spec: dict) -> set[int]:
    """output ports of nodes whose internal ports are not part of the spec (job pipelines, loop sub-networks)"""
    return {n["outs"][0] for n in spec["nodes"] if n["kind"] in ("exec", "loop")}


def drop_opaque(spec: dict, edges) -> set[str]:
    bad = opaque_out_ports(spec)
    return {e for e in edges if int(e.split(">")[1].split(":")[0]) not in bad}


# ---- running -------------------------------------------------------------------------------------
def _child(conn, spec, seed, wd, timeout, shuffle):
    try:
        conn.send(wfgen.run_spec(spec, seed=seed, workdir=wd, timeout=timeout, shuffle=shuffle))
    except BaseException as e:  # noqa: BLE001
        conn.send({"seed": seed, "outcome": {"kind": "harness-error", "detail": f"{type(e).__name__}: {e}"}})
    finally:
        conn.close()
        os._exit(0)       # do not run the parent's atexit handlers / do not wait for stray threads


def run_isolated(spec: dict, seed: int, wd: str, timeout: float, shuffle: bool) -> dict:
    """`wfgen.run_spec` in a forked child with a hard wall-clock bound. The implementation's own hangs are detected
    inside run_spec (watchdog on executor.run()); the hard bound only protects the check against a harness / cleanup
    hang (stray database thread, event-loop shutdown): such a run is reported as a harness error, never as a pass."""
    import multiprocessing as mp

    ctx = mp.get_context("fork")
    parent, child = ctx.Pipe(duplex=False)
    proc = ctx.Process(target=_child, args=(child, spec, seed, wd, timeout, shuffle), daemon=True)
    proc.start()
    child.close()
    hard = timeout * 2 + 90
    try:
        if parent.poll(hard):
            res = parent.recv()
        else:
            res = {"seed": seed, "outcome": {"kind": "harness-error", "detail": f"run_spec did not come back within {hard:.0f}s (killed)"}}
    except (EOFError, OSError) as e:
        res = {"seed": seed, "outcome": {"kind": "harness-error", "detail": f"worker died: {e!r}"}}
    finally:
        if proc.is_alive():
            proc.kill()
        proc.join(5)
        parent.close()
    return res



def _run_plan(spec: dict, plan, scratch: str, timeout: float, confirm_hangs: bool, stop_on_hang: bool) -> list[dict]:
    out = []
    for seed, shuffle in plan:
        wd = tempfile.mkdtemp(prefix="wf-", dir=scratch)
        try:
            res = wfgen.run_spec(spec, seed=seed, workdir=wd, timeout=timeout, shuffle=shuffle)
            if res["outcome"]["kind"] == "hang" and confirm_hangs and not res.get("known_deadlock_state"):
                # a genuine deadlock reproduces under the same schedule; a slow machine does not: run again, twice the window
                shutil.rmtree(wd, ignore_errors=True)
                os.makedirs(wd, exist_ok=True)
                res2 = wfgen.run_spec(spec, seed=seed, workdir=wd, timeout=timeout * 2, shuffle=shuffle)
                if res2["outcome"]["kind"] != "hang":
                    res2["retried_after_timeout"] = True
                res = res2
        except BaseException as e:  # noqa: BLE001
            res = {"seed": seed, "outcome": {"kind": "harness-error", "detail": f"{type(e).__name__}: {e}"}}
        finally:
            shutil.rmtree(wd, ignore_errors=True)
        res["shuffle"] = shuffle
        out.append(res)
        if stop_on_hang and res["outcome"]["kind"] == "hang":
            break
    return out


def _child_plan(conn, spec, plan, scratch, timeout, confirm_hangs, stop_on_hang, dump_path=None, dump_after=None):
    try:
        if dump_path:
            import faulthandler
            faulthandler.dump_traceback_later(dump_after, file=open(dump_path, "w"), exit=False)   # where a harness hang sits
        conn.send(_run_plan(spec, plan, scratch, timeout, confirm_hangs, stop_on_hang))
    except BaseException as e:  # noqa: BLE001
        conn.send([{"seed": plan[0][0] if plan else 0, "shuffle": False,
                    "outcome": {"kind": "harness-error", "detail": f"{type(e).__name__}: {e}"}}])
    finally:
        conn.close()
        os._exit(0)


def run_many(jobs: list[dict], scratch: str, timeout: float = 30.0, plain_first: bool = True, stop_on_hang: bool = False,
             workers: int | None = None) -> list[list[dict]]:
    """jobs = [{"spec": ..., "seeds": [...], "confirm_hangs": bool}]: every job's runs (default asyncio order first, then
    the PRNG schedules) happen in ONE forked child; up to `workers` children run at the same time. Every child has a hard
    wall-clock bound: the implementation's own hangs are detected inside `run_spec` (watchdog on executor.run()); the hard
    bound only protects the check against a harness / event-loop-shutdown hang, which is reported as a harness error for
    the runs that did not come back — never as a pass, never as a violation."""
    import multiprocessing as mp
    from multiprocessing.connection import wait as mp_wait
    import time

    workers = workers or max(1, min(6, (os.cpu_count() or 4) // 3))
    ctx = mp.get_context("fork")
    results: list = [None] * len(jobs)
    todo = list(range(len(jobs)))[::-1]
    active: dict = {}          # conn -> (idx, proc, plan, dump_path, deadline)

    def failed(plan, detail):
        return [{"seed": sd, "shuffle": sh, "outcome": {"kind": "harness-error", "detail": detail}} for sd, sh in plan]

    def finish(conn, out):
        idx, proc, plan, dump_path, _ = active.pop(conn)
        results[idx] = out
        if proc.is_alive():
            proc.kill()
        proc.join(5)
        conn.close()
        try:
            os.unlink(dump_path)
        except OSError:
            pass

    while todo or active:
        while todo and len(active) < workers:
            idx = todo.pop()
            job = jobs[idx]
            plan = ([(0, False)] if plain_first else []) + [(sd, True) for sd in job["seeds"]]
            if not plan:
                results[idx] = []
                continue
            # only a safety net against a hang of the harness itself: every run may legitimately take a hang window
            # (timeout x load factor) plus the confirmation run (twice that)
            hard = wfgen.load_factor() * len(plan) * (3 * timeout + 10) + 60
            dump_path = os.path.join(scratch, f"stuck-{os.getpid()}-{idx}-{time.time_ns()}.txt")
            parent, child = ctx.Pipe(duplex=False)
            proc = ctx.Process(target=_child_plan, daemon=True,
                               args=(child, job["spec"], plan, scratch, timeout, job.get("confirm_hangs", True), stop_on_hang,
                                     dump_path, hard - 20))
            proc.start()
            child.close()
            active[parent] = (idx, proc, plan, dump_path, time.time() + hard)
        if not active:
            break
        for conn in mp_wait(list(active), timeout=0.5):
            plan = active[conn][2]
            try:
                out = conn.recv()
            except (EOFError, OSError) as e:
                out = failed(plan, f"worker died: {e!r}")
            finish(conn, out)
        now = time.time()
        for conn in [c for c, v in active.items() if now > v[4]]:
            _, _, plan, dump_path, _ = active[conn]
            where = ""
            try:
                where = " | stacks: " + open(dump_path).read()[-1200:].replace("\n", " / ")
            except OSError:
                pass
            finish(conn, failed(plan, f"the runs of this workflow did not come back within the hard bound (killed){where}"))
    return results


def run_schedules(spec: dict, seeds: list[int], scratch: str, timeout: float = 30.0, plain_first: bool = True,
                  confirm_hangs: bool = True, stop_on_hang: bool = False) -> list[dict]:
    """the spec under each PRNG schedule (plus, first, the default asyncio order); see `run_many`"""
    return run_many([{"spec": spec, "seeds": seeds, "confirm_hangs": confirm_hangs}], scratch, timeout=timeout,
                    plain_first=plain_first, stop_on_hang=stop_on_hang, workers=1)[0]


def spec_bucket(spec: dict) -> str:
    kinds = sorted({n["kind"] for n in spec["nodes"]})
    return "+".join(kinds) or "empty"
