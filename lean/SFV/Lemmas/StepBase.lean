import SFV.Model.StepBase
/-! The status logic assembled from the extracted arms, spelled out as a table (kept out of the model so that the model and
    its driver still build when the source changes). -/
namespace SFV

/-- what the source says, spelled out (checked by the kernel against the generated definitions) -/
theorem reduce2_table : ∀ a b : Status, reduce2 a b =
    (if a = .failed then .failed else if a = .cancelled then .cancelled
     else if b = .failed then .failed else if b = .cancelled then .cancelled
     else if a = .recovered ∨ b = .recovered then .recovered
     else if a = .skipped ∧ b = .skipped then .skipped else .completed) := by
  intro a b; cases a <;> cases b <;> decide

theorem getStatus_table : ∀ (s : Status) (e : Bool), getStatus s e =
    (if s = .failed then s else if s = .recovered then .completed else if e then .skipped else s) := by
  intro s e; cases s <;> cases e <;> decide

end SFV
