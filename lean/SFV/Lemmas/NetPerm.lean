import SFV.Lemmas.NetDefs
/-! # Order independence of `nodeOut` (C05)

`nodeOut_perm : NodeOutPermStmt`: when every input port of a node holds the same tokens up to order (and the tags on
every input port are distinct; for dot nodes additionally a prefix antichain), every output port receives the same
tokens up to order. One lemma per helper function of the model, then the assembly by node kind. -/
namespace SFV.Net

/-! ## generic list facts -/

/-- `find?` does not depend on the order when all elements satisfying the predicate are equal -/
theorem find?_perm_of_unique {α : Type} {p : α → Bool} {l1 l2 : List α} (h : l1.Perm l2)
    (huniq : ∀ a ∈ l1, ∀ b ∈ l1, p a = true → p b = true → a = b) : l1.find? p = l2.find? p := by
  cases h1 : l1.find? p with
  | none =>
    rw [List.find?_eq_none] at h1
    symm
    rw [List.find?_eq_none]
    intro x hx
    exact h1 x (h.mem_iff.mpr hx)
  | some a =>
    have ha : a ∈ l1 := List.mem_of_find?_eq_some h1
    have hpa : p a = true := List.find?_some h1
    cases h2 : l2.find? p with
    | none =>
      rw [List.find?_eq_none] at h2
      exact absurd hpa (h2 a (h.mem_iff.mp ha))
    | some b =>
      have hb : b ∈ l1 := h.mem_iff.mpr (List.mem_of_find?_eq_some h2)
      have hpb : p b = true := List.find?_some h2
      rw [huniq a ha b hb hpa hpb]

theorem mapM_option_congr {α β : Type} {f g : α → Option β} :
    ∀ (l : List α), (∀ q ∈ l, f q = g q) → l.mapM f = l.mapM g
  | [], _ => rfl
  | q :: r, h => by
    rw [List.mapM_cons, List.mapM_cons, h q List.mem_cons_self,
      mapM_option_congr r (fun x hx => h x (List.mem_cons_of_mem q hx))]

/-- index-wise permutation of two `(List.range n).map` tables -/
theorem rangeMap_perm {α : Type} {n : Nat} {F G : Nat → List α} (h : ∀ j, j < n → (F j).Perm (G j)) (j : Nat) :
    (((List.range n).map F)[j]?.getD []).Perm (((List.range n).map G)[j]?.getD []) := by
  rw [List.getElem?_map, List.getElem?_map]
  by_cases hj : j < n
  · rw [List.getElem?_range hj]
    exact h j hj
  · rw [List.getElem?_eq_none (by rw [List.length_range]; omega)]
    exact List.Perm.refl _

theorem flatMap_perm_left {α β : Type} {f g : α → List β} :
    ∀ (l : List α), (∀ a ∈ l, (f a).Perm (g a)) → (l.flatMap f).Perm (l.flatMap g)
  | [], _ => List.Perm.refl _
  | a :: r, h => by
    rw [List.flatMap_cons, List.flatMap_cons]
    exact (h a List.mem_cons_self).append (flatMap_perm_left r (fun x hx => h x (List.mem_cons_of_mem a hx)))

/-! ## distinct tags -/

theorem DistinctTags.perm {l1 l2 : List Tok} (d : DistinctTags l1) (h : l1.Perm l2) : DistinctTags l2 :=
  List.Pairwise.perm d h (fun hne => Ne.symm hne)

theorem Antichain.perm {l1 l2 : List Tok} (a : Antichain l1) (h : l1.Perm l2) : Antichain l2 :=
  fun x hx y hy => a x (h.mem_iff.mpr hx) y (h.mem_iff.mpr hy)

theorem DistinctTags.eq_of_tag_eq : ∀ {l : List Tok}, DistinctTags l → ∀ {a b : Tok}, a ∈ l → b ∈ l →
    a.tag = b.tag → a = b
  | [], _, _, _, ha, _, _ => nomatch ha
  | x :: r, d, a, b, ha, hb, hab => by
    have hd := List.pairwise_cons.mp d
    rcases List.mem_cons.mp ha with rfl | ha'
    · rcases List.mem_cons.mp hb with rfl | hb'
      · rfl
      · exact absurd hab (hd.1 b hb')
    · rcases List.mem_cons.mp hb with rfl | hb'
      · exact absurd hab.symm (hd.1 a ha')
      · exact DistinctTags.eq_of_tag_eq (l := r) hd.2 ha' hb' hab

theorem DistinctTags.filter {l : List Tok} (d : DistinctTags l) (p : Tok → Bool) : DistinctTags (l.filter p) :=
  List.Pairwise.filter p d

/-! ## grouping steps: tf, cond, exec -/

theorem lookupTag_perm {l1 l2 : List Tok} (h : l1.Perm l2) (d : DistinctTags l1) (t : Tag) :
    lookupTag l1 t = lookupTag l2 t := by
  unfold lookupTag
  rw [find?_perm_of_unique h]
  intro a ha b hb hpa hpb
  have h1 : a.tag = t := eq_of_beq hpa
  have h2 : b.tag = t := eq_of_beq hpb
  exact d.eq_of_tag_eq ha hb (h1.trans h2.symm)

theorem groupAt_perm {e1 e2 : Env} {ins : List Nat} (h : EnvPermOn ins e1 e2)
    (d : ∀ q ∈ ins, DistinctTags (e1.get q)) (t : Tag) : groupAt e1 ins t = groupAt e2 ins t := by
  unfold groupAt
  exact mapM_option_congr ins (fun q hq => lookupTag_perm (h q hq) (d q hq) t)

theorem commonTags_perm {e1 e2 : Env} {ins : List Nat} (h : EnvPermOn ins e1 e2)
    (d : ∀ q ∈ ins, DistinctTags (e1.get q)) : (commonTags e1 ins).Perm (commonTags e2 ins) := by
  cases ins with
  | nil => exact List.Perm.refl _
  | cons q r =>
    have hf : (fun t => (groupAt e1 (q :: r) t).isSome) = (fun t => (groupAt e2 (q :: r) t).isSome) :=
      funext (fun t => by rw [groupAt_perm h d t])
    show (((e1.get q).map (·.tag)).filter _).Perm (((e2.get q).map (·.tag)).filter _)
    rw [hf]
    exact ((h q List.mem_cons_self).map _).filter _

theorem groupStep_perm {e1 e2 : Env} {ins : List Nat} (h : EnvPermOn ins e1 e2)
    (d : ∀ q ∈ ins, DistinctTags (e1.get q)) (nouts : Nat) (f : List Val → List (Option Val)) (j : Nat) :
    ((groupStep e1 ins nouts f)[j]?.getD []).Perm ((groupStep e2 ins nouts f)[j]?.getD []) := by
  unfold groupStep
  apply rangeMap_perm
  intro j _
  have hg : groupAt e1 ins = groupAt e2 ins := funext (groupAt_perm h d)
  rw [hg]
  exact (commonTags_perm h d).filterMap _

/-! ## scatter -/

theorem scatterOut_perm {l1 l2 : List Tok} (h : l1.Perm l2) : (scatterOut l1).Perm (scatterOut l2) :=
  h.flatMap_right _

theorem scatterSize_perm {l1 l2 : List Tok} (h : l1.Perm l2) : (scatterSize l1).Perm (scatterSize l2) :=
  h.filterMap _

/-! ## cartesian product -/

theorem cartPairs_perm {γ : Type} (p : Tok → Tok → Bool) (g : Tok → Tok → γ) {a1 a2 b1 b2 : List Tok}
    (ha : a1.Perm a2) (hb : b1.Perm b2) :
    (a1.flatMap (fun ta => (b1.filter (fun tb => p ta tb)).map (fun tb => g ta tb))).Perm
      (a2.flatMap (fun ta => (b2.filter (fun tb => p ta tb)).map (fun tb => g ta tb))) :=
  (flatMap_perm_left a1 (fun _ _ => ((hb.filter _).map _))).trans (ha.flatMap_right _)

theorem cartOut_perm {a1 a2 b1 b2 : List Tok} (ha : a1.Perm a2) (hb : b1.Perm b2) :
    (cartOut a1 b1).1.Perm (cartOut a2 b2).1 ∧ (cartOut a1 b1).2.Perm (cartOut a2 b2).2 := by
  unfold cartOut
  exact ⟨(cartPairs_perm _ _ ha hb).map _, (cartPairs_perm _ _ ha hb).map _⟩

/-- index-wise permutation of two two-element tables -/
theorem pair_perm {α : Type} {x1 x2 y1 y2 : List α} (hx : x1.Perm x2) (hy : y1.Perm y2) (j : Nat) :
    (([x1, y1] : List (List α))[j]?.getD []).Perm (([x2, y2] : List (List α))[j]?.getD []) := by
  match j with
  | 0 => exact hx
  | 1 => exact hy
  | _ + 2 => exact List.Perm.refl _

/-! ## dedup -/

theorem dedup_aux (l : List Tag) : ∀ (acc : List Tag), acc.Nodup →
    (l.foldl (fun acc t => if acc.contains t then acc else acc ++ [t]) acc).Nodup ∧
    ∀ t, t ∈ l.foldl (fun acc t => if acc.contains t then acc else acc ++ [t]) acc ↔ t ∈ acc ∨ t ∈ l := by
  induction l with
  | nil =>
    intro acc h
    exact ⟨h, fun t => by simp only [List.foldl_nil, List.not_mem_nil, or_false]⟩
  | cons x r ih =>
    intro acc h
    rw [List.foldl_cons]
    by_cases hc : acc.contains x = true
    · rw [if_pos hc]
      have hx : x ∈ acc := List.contains_iff_mem.mp hc
      obtain ⟨h1, h2⟩ := ih acc h
      refine ⟨h1, fun t => ?_⟩
      rw [h2 t, List.mem_cons]
      constructor
      · rintro (h | h)
        · exact Or.inl h
        · exact Or.inr (Or.inr h)
      · rintro (h | h | h)
        · exact Or.inl h
        · exact Or.inl (h ▸ hx)
        · exact Or.inr h
    · rw [if_neg hc]
      have hx : x ∉ acc := fun hm => hc (List.contains_iff_mem.mpr hm)
      have hn : (acc ++ [x]).Nodup := by
        rw [List.nodup_append]
        refine ⟨h, List.pairwise_singleton _ x, ?_⟩
        intro a ha b hb hab
        rw [List.mem_singleton] at hb
        exact hx (hb ▸ hab ▸ ha)
      obtain ⟨h1, h2⟩ := ih (acc ++ [x]) hn
      refine ⟨h1, fun t => ?_⟩
      rw [h2 t, List.mem_cons, List.mem_append, List.mem_singleton, or_assoc]

theorem nodup_dedup (l : List Tag) : (dedup l).Nodup := (dedup_aux l [] List.nodup_nil).1

theorem mem_dedup {l : List Tag} {t : Tag} : t ∈ dedup l ↔ t ∈ l := by
  unfold dedup
  rw [(dedup_aux l [] List.nodup_nil).2 t]
  simp only [List.not_mem_nil, false_or]

theorem dedup_perm_of_mem {l1 l2 : List Tag} (h : ∀ t, t ∈ l1 ↔ t ∈ l2) : (dedup l1).Perm (dedup l2) := by
  rw [List.perm_ext_iff_of_nodup (nodup_dedup l1) (nodup_dedup l2)]
  intro t
  rw [mem_dedup, mem_dedup, h t]

/-! ## the tag order -/

theorem lexLe_total : ∀ (a b : List Nat), lexLe a b = true ∨ lexLe b a = true
  | [], _ => Or.inl (by simp only [lexLe])
  | _ :: _, [] => Or.inr (by simp only [lexLe])
  | x :: xs, y :: ys => by
    simp only [lexLe, Bool.or_eq_true, Bool.and_eq_true, decide_eq_true_eq, beq_iff_eq]
    rcases Nat.lt_trichotomy x y with h | h | h
    · exact Or.inl (Or.inl h)
    · rcases lexLe_total xs ys with h' | h'
      · exact Or.inl (Or.inr ⟨h, h'⟩)
      · exact Or.inr (Or.inr ⟨h.symm, h'⟩)
    · exact Or.inr (Or.inl h)

theorem lexLe_trans : ∀ (a b c : List Nat), lexLe a b = true → lexLe b c = true → lexLe a c = true
  | [], _, _, _, _ => by simp only [lexLe]
  | _ :: _, [], _, h, _ => by simp only [lexLe] at h; exact absurd h (by decide)
  | _ :: _, _ :: _, [], _, h => by simp only [lexLe] at h; exact absurd h (by decide)
  | x :: xs, y :: ys, z :: zs, h1, h2 => by
    simp only [lexLe, Bool.or_eq_true, Bool.and_eq_true, decide_eq_true_eq, beq_iff_eq] at h1 h2 ⊢
    rcases h1 with h1 | ⟨h1, h1'⟩ <;> rcases h2 with h2 | ⟨h2, h2'⟩
    · exact Or.inl (by omega)
    · exact Or.inl (by omega)
    · exact Or.inl (by omega)
    · exact Or.inr ⟨by omega, lexLe_trans xs ys zs h1' h2'⟩

theorem lexLe_antisymm : ∀ (a b : List Nat), lexLe a b = true → lexLe b a = true → a = b
  | [], [], _, _ => rfl
  | [], _ :: _, _, h => by simp only [lexLe] at h; exact absurd h (by decide)
  | _ :: _, [], h, _ => by simp only [lexLe] at h; exact absurd h (by decide)
  | x :: xs, y :: ys, h1, h2 => by
    simp only [lexLe, Bool.or_eq_true, Bool.and_eq_true, decide_eq_true_eq, beq_iff_eq] at h1 h2
    rcases h1 with h1 | ⟨h1, h1'⟩ <;> rcases h2 with h2 | ⟨h2, h2'⟩
    · omega
    · omega
    · omega
    · rw [h1, lexLe_antisymm xs ys h1' h2']

theorem tagLe_trans (a b c : Tag) (h1 : tagLe a b = true) (h2 : tagLe b c = true) : tagLe a c = true := by
  unfold tagLe at h1 h2 ⊢
  simp only [Bool.or_eq_true, Bool.and_eq_true, decide_eq_true_eq, beq_iff_eq] at h1 h2 ⊢
  rcases h1 with h1 | ⟨h1, h1'⟩ <;> rcases h2 with h2 | ⟨h2, h2'⟩
  · exact Or.inl (by omega)
  · exact Or.inl (by omega)
  · exact Or.inl (by omega)
  · exact Or.inr ⟨by omega, lexLe_trans a b c h1' h2'⟩

theorem tagLe_total (a b : Tag) : (tagLe a b || tagLe b a) = true := by
  unfold tagLe
  simp only [Bool.or_eq_true, Bool.and_eq_true, decide_eq_true_eq, beq_iff_eq]
  rcases Nat.lt_trichotomy a.length b.length with h | h | h
  · exact Or.inl (Or.inl h)
  · rcases lexLe_total a b with h' | h'
    · exact Or.inl (Or.inr ⟨h, h'⟩)
    · exact Or.inr (Or.inr ⟨h.symm, h'⟩)
  · exact Or.inr (Or.inl h)

theorem tagLe_antisymm (a b : Tag) (h1 : tagLe a b = true) (h2 : tagLe b a = true) : a = b := by
  unfold tagLe at h1 h2
  simp only [Bool.or_eq_true, Bool.and_eq_true, decide_eq_true_eq, beq_iff_eq] at h1 h2
  rcases h1 with h1 | ⟨h1, h1'⟩ <;> rcases h2 with h2 | ⟨h2, h2'⟩
  · omega
  · omega
  · omega
  · exact lexLe_antisymm a b h1' h2'

/-! ## gather -/

/-- sorting the selected tokens by tag gives the same list whatever the order they arrived in -/
theorem sortFilter_perm {l1 l2 : List Tok} (h : l1.Perm l2) (d : DistinctTags l1) (p : Tok → Bool) :
    (l1.filter p).mergeSort (fun a b => tagLe a.tag b.tag) =
      (l2.filter p).mergeSort (fun a b => tagLe a.tag b.tag) := by
  apply List.Perm.eq_of_pairwise (le := fun a b => tagLe a.tag b.tag = true)
  · intro a b ha hb hab hba
    have ht : a.tag = b.tag := tagLe_antisymm _ _ hab hba
    have ha' : a ∈ l1 := (List.mem_filter.mp (List.mem_mergeSort.mp ha)).1
    have hb' : b ∈ l1 := h.mem_iff.mpr (List.mem_filter.mp (List.mem_mergeSort.mp hb)).1
    exact d.eq_of_tag_eq ha' hb' ht
  · exact List.pairwise_mergeSort (fun a b c => tagLe_trans a.tag b.tag c.tag) (fun a b => tagLe_total a.tag b.tag) _
  · exact List.pairwise_mergeSort (fun a b c => tagLe_trans a.tag b.tag c.tag) (fun a b => tagLe_total a.tag b.tag) _
  · exact (List.mergeSort_perm _ _).trans ((h.filter p).trans (List.mergeSort_perm _ _).symm)

/-- the list gathered for key `k` -/
def gatherElem (inp : List Tok) (d : Nat) (k : Tag) : Tok :=
  { tag := k
    val := .list (((inp.filter (fun t => d < t.tag.length && gatherKey d t.tag == k)).mergeSort
      (fun a b => tagLe a.tag b.tag)).map (·.val)) }

theorem gatherOut_eq (inp size : List Tok) (d : Nat) :
    gatherOut inp size d =
      (dedup (size.map (·.tag) ++ (inp.filter (fun t => d < t.tag.length)).map (fun t => gatherKey d t.tag))).map
        (gatherElem inp d) := rfl

theorem gatherOut_perm {i1 i2 s1 s2 : List Tok} (hi : i1.Perm i2) (hs : s1.Perm s2) (di : DistinctTags i1)
    (d : Nat) : (gatherOut i1 s1 d).Perm (gatherOut i2 s2 d) := by
  rw [gatherOut_eq, gatherOut_eq]
  have hg : gatherElem i1 d = gatherElem i2 d := funext (fun k => by
    unfold gatherElem
    rw [sortFilter_perm hi di])
  rw [hg]
  apply List.Perm.map
  apply dedup_perm_of_mem
  intro t
  exact ((hs.map _).append ((hi.filter _).map _)).mem_iff

/-! ## dot product -/

theorem pickPre_perm {l1 l2 : List Tok} (h : l1.Perm l2) (d : DistinctTags l1) (a : Antichain l1) (k : Tag) :
    pickPre l1 k = pickPre l2 k := by
  unfold pickPre
  rw [find?_perm_of_unique h]
  intro x hx y hy hpx hpy
  have h1 : x.tag <+: k := List.isPrefixOf_iff_prefix.mp hpx
  have h2 : y.tag <+: k := List.isPrefixOf_iff_prefix.mp hpy
  rcases List.prefix_or_prefix_of_prefix h1 h2 with hxy | hyx
  · exact d.eq_of_tag_eq hx hy (a x hx y hy hxy)
  · exact d.eq_of_tag_eq hx hy (a y hy x hx hyx).symm

/-- the combination fired for the received tag `k` (none unless every port holds a token above `k`) -/
def dotFire (e : Env) (ins : List Nat) (k : Tag) : Option (Tag × List Val) :=
  (ins.mapM (fun q => pickPre (e.get q) k)).map (fun vals => (k, vals))

theorem dotOut_eq (e : Env) (ins : List Nat) :
    dotOut e ins = (List.range ins.length).map (fun j =>
      ((dedup (ins.flatMap (fun q => (e.get q).map (·.tag)))).filterMap (dotFire e ins)).filterMap
        (fun (k, vals) => vals[j]?.map (fun v => ({ tag := k, val := v } : Tok)))) := rfl

theorem dotFire_perm {e1 e2 : Env} {ins : List Nat} (h : EnvPermOn ins e1 e2)
    (d : ∀ q ∈ ins, DistinctTags (e1.get q)) (a : ∀ q ∈ ins, Antichain (e1.get q)) :
    dotFire e1 ins = dotFire e2 ins := by
  funext k
  unfold dotFire
  rw [mapM_option_congr ins (fun q hq => pickPre_perm (h q hq) (d q hq) (a q hq) k)]

theorem dotTags_perm {e1 e2 : Env} {ins : List Nat} (h : EnvPermOn ins e1 e2) :
    (dedup (ins.flatMap (fun q => (e1.get q).map (·.tag)))).Perm
      (dedup (ins.flatMap (fun q => (e2.get q).map (·.tag)))) := by
  apply dedup_perm_of_mem
  intro t
  exact (flatMap_perm_left ins (fun q hq => (h q hq).map _)).mem_iff

theorem dotOut_perm {e1 e2 : Env} {ins : List Nat} (h : EnvPermOn ins e1 e2)
    (d : ∀ q ∈ ins, DistinctTags (e1.get q)) (a : ∀ q ∈ ins, Antichain (e1.get q)) (j : Nat) :
    ((dotOut e1 ins)[j]?.getD []).Perm ((dotOut e2 ins)[j]?.getD []) := by
  rw [dotOut_eq, dotOut_eq, dotFire_perm h d a]
  apply rangeMap_perm
  intro j _
  exact ((dotTags_perm h).filterMap _).filterMap _

/-! ## assembly -/

/-- index-wise permutation of two one-element tables -/
theorem single_perm {α : Type} {x1 x2 : List α} (hx : x1.Perm x2) (j : Nat) :
    (([x1] : List (List α))[j]?.getD []).Perm (([x2] : List (List α))[j]?.getD []) := by
  match j with
  | 0 => exact hx
  | _ + 1 => exact List.Perm.refl _

/-- **Order independence of a node's semantic function.** -/
theorem nodeOut_perm : NodeOutPermStmt := by
  intro n e1 e2 h ok j
  cases n with
  | tf fn ins outs => exact groupStep_perm h ok.distinct _ _ j
  | cond m r zero ins outs => exact groupStep_perm h ok.distinct _ _ j
  | exec k ins out => exact groupStep_perm h ok.distinct _ _ j
  | scatter inp out size =>
    have hp : (e1.get inp).Perm (e2.get inp) := h inp List.mem_cons_self
    exact pair_perm (scatterOut_perm hp) (scatterSize_perm hp) j
  | gather inp size out d =>
    have hi : (e1.get inp).Perm (e2.get inp) := h inp List.mem_cons_self
    have hs : (e1.get size).Perm (e2.get size) := h size (List.mem_cons_of_mem _ List.mem_cons_self)
    exact single_perm (gatherOut_perm hi hs (ok.distinct inp List.mem_cons_self) d) j
  | dot ins outs => exact dotOut_perm h ok.distinct (ok.antichain rfl) j
  | cart a b oa ob =>
    have ha : (e1.get a).Perm (e2.get a) := h a List.mem_cons_self
    have hb : (e1.get b).Perm (e2.get b) := h b (List.mem_cons_of_mem _ List.mem_cons_self)
    exact pair_perm (cartOut_perm ha hb).1 (cartOut_perm ha hb).2 j

/-! ## the hypotheses are satisfiable on a non-trivial input (dot node, first port permuted) -/

section NonVacuous

private def exA : Env :=
  ⟨fun q => if q = 0 then [⟨[0, 1], .int 5⟩, ⟨[0, 0], .int 7⟩] else if q = 1 then [⟨[0], .int 2⟩] else []⟩
private def exB : Env :=
  ⟨fun q => if q = 0 then [⟨[0, 0], .int 7⟩, ⟨[0, 1], .int 5⟩] else if q = 1 then [⟨[0], .int 2⟩] else []⟩

private theorem exPerm : EnvPermOn (Node.dot [0, 1] [2, 3]).ins exA exB := by
  intro q hq
  simp only [Node.ins, List.mem_cons, List.not_mem_nil, or_false] at hq
  rcases hq with rfl | rfl
  · exact List.Perm.swap _ _ _
  · exact List.Perm.refl _

private theorem exOk : NodeInputsOk exA (Node.dot [0, 1] [2, 3]) := by
  constructor
  · intro q hq
    simp only [Node.ins, List.mem_cons, List.not_mem_nil, or_false] at hq
    rcases hq with rfl | rfl <;> simp [DistinctTags, exA]
  · intro _ q hq
    simp only [Node.ins, List.mem_cons, List.not_mem_nil, or_false] at hq
    rcases hq with rfl | rfl <;> simp [Antichain, exA]

example (j : Nat) : ((nodeOut exA (Node.dot [0, 1] [2, 3]))[j]?.getD []).Perm
    ((nodeOut exB (Node.dot [0, 1] [2, 3]))[j]?.getD []) := nodeOut_perm _ _ _ exPerm exOk j

end NonVacuous

end SFV.Net
