#!/bin/bash
# usage: try_edit.sh Cnn <file relative to repo> <python-regex> <replacement>   (applies to /work/a1/repo_m, runs check, reverts)
pid=$1; f=$2; pat=$3; rep=$4
cd /work/a1/repo_m && git checkout -q -- . 
/venv/bin/python - "$f" "$pat" "$rep" <<'PY'
import re,sys
f,pat,rep=sys.argv[1:4]
s=open(f).read()
n=len(re.findall(pat,s,flags=re.S))
if n!=1:
    print("PATTERN MATCHES",n,"TIMES"); sys.exit(3)
open(f,"w").write(re.sub(pat,rep,s,count=1,flags=re.S))
PY
[ $? -eq 0 ] || exit 3
git -C /work/a1/repo_m diff --stat | tail -1
cd /work/a1/verif && SFV_REPO=/work/a1/repo_m timeout 900 ./check $pid 2>&1 | grep -v '^  broken' | tail -4
echo "exit=$?"
ls evidence/replays/ 2>/dev/null | grep $pid | head -3
/venv/bin/python - $pid <<'PY'
import json,sys,glob
for p in sorted(glob.glob(f"/work/a1/verif/evidence/replays/{sys.argv[1]}-*.json"))[:2]:
    d=json.load(open(p)); print(p.split('/')[-1], d.get("kind"), d.get("key"), (d.get("detail") or "")[:200]); 
    for b in (d.get("broken") or d.get("no_longer_checks") or [])[:3]: print("   broken:", b["stage"], b["what"][:80], b["detail"][:160].replace("\n"," "))
PY
git -C /work/a1/repo_m checkout -q -- .
