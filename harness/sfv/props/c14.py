"""C14 — hardware arithmetic is consistent (streamflow/core/scheduling.py: Hardware, Storage, _reduce_storages)."""
from __future__ import annotations

import os
from fractions import Fraction

from streamflow.core.scheduling import Hardware, Storage

from sfv.framework import Ctx, Property
from sfv.rt.hwenc import Names, enc_hw, enc_storage, exc_kind, rat, totals
from sfv.translate import schedguards

MOUNTS = [os.sep, "/tmp", "/data"]
ALIAS = ["tmpdir", "outdir", "k0", "k1", "/tmp", os.sep, "/data"]
PATHS = ["/tmp/a", "/tmp/b", "/data/x", "/w/in", "/w/out", "/tmp", "/"]
DECIMALS = [0.1, 0.2, 0.3, 0.7, 1.1, 2.675, 0.05, 1e-3, 3.3, 0.6, 0.15, 1.9, 4.35, 0.01, 1.005]


def _dy(rng, small=False) -> float:
    """dyadic rational k/1024 as a float; float + and - are exact on the sums the operators build"""
    r = rng.random()
    if small or r < 0.55:
        return rng.randint(0, 16) / 4
    if r < 0.8:
        return rng.randint(0, 4096) / 1024
    return rng.randrange(0, 2 ** 30) / 1024


def _gen_hw(rng, value, n_mounts, aliasing, with_paths=True) -> Hardware:
    mounts = MOUNTS[:n_mounts]
    n = rng.choice([0, 1, 1, 2, 2, 3, 4])
    storage = {}
    for _ in range(n):
        mp = rng.choice(mounts)
        key = rng.choice(ALIAS) if aliasing else mp
        paths = set(rng.sample(PATHS, rng.randint(0, 2))) if with_paths and rng.random() < 0.6 else None
        bind = rng.choice(["/host/a", "/host/b"]) if rng.random() < 0.25 else None
        storage[key] = Storage(mp, value(), paths, bind)
    return Hardware(value(), value(), storage)


def _gen_aliased(rng, value, n_mounts) -> Hardware:
    """a NON-normalised operand: every mount point carries 2..3 storages under different keys"""
    storage = {}
    for mi, mp in enumerate(MOUNTS[:n_mounts]):
        for k in range(rng.randint(2, 3)):
            paths = set(rng.sample(PATHS, rng.randint(0, 1))) or None
            storage[f"m{mi}k{k}"] = Storage(mp, value(), paths, None)
    return Hardware(value(), value(), storage)


def _derive(rng, cap: Hardware, value) -> Hardware:
    """a requirement close to `cap`: same mounts (possibly one more / fewer), sizes equal or off by one unit"""
    tot = totals(cap)
    storage = {}
    for i, (mp, t) in enumerate(tot.items()):
        if rng.random() < 0.15:
            continue
        d = rng.choice([0, 0, 0, -1, 1]) / 1024
        size = max(0.0, float(t) + d)
        if rng.random() < 0.3 and size > 0:  # split over two aliasing keys
            a = int(size * 1024 * rng.random()) / 1024
            storage[f"k{i}a"] = Storage(mp, a)
            storage[f"k{i}b"] = Storage(mp, size - a)
        else:
            storage[mp] = Storage(mp, size)
    if rng.random() < 0.15:
        storage["extra"] = Storage(rng.choice(MOUNTS), value())
    c = cap.cores + rng.choice([0, 0, 0, -1, 1]) / 1024
    m = cap.memory + rng.choice([0, 0, 0, -1, 1]) / 1024
    return Hardware(max(0.0, c), max(0.0, m), storage)


def _dump(h: Hardware) -> dict:
    return {"cores": h.cores, "memory": h.memory,
            "storage": [[k, s.mount_point, s.size, sorted(s.paths or ()), s.bind] for k, s in h.storage.items()]}


def _load(d: dict) -> Hardware:
    return Hardware(d["cores"], d["memory"], {k: Storage(mp, sz, set(ps), b) for k, mp, sz, ps, b in d["storage"]})


def _run(f):
    try:
        return True, f()
    except Exception as e:  # noqa: BLE001
        return False, exc_kind(e)


def _fmt(res, names, kind="hw"):
    ok, v = res
    if not ok:
        return f"err {v}"
    if kind == "hw":
        return "ok " + enc_hw(v, names)
    if kind == "bool":
        return "ok " + ("true" if v else "false")
    return "ok " + str(v)


def _spec_satisfies(cap: Hardware, req: Hardware):
    """the property's own statement, on exact values"""
    if not (Fraction(cap.cores) >= Fraction(req.cores) and Fraction(cap.memory) >= Fraction(req.memory)):
        return "ok false"
    tc, tr = totals(cap), totals(req)
    if any(mp not in tc for mp in tr):
        return "err missingStorage"
    return "ok true" if all(tc[mp] >= tr[mp] for mp in tr) else "ok false"


class C14(Property):
    pid = "C14"
    title = "Hardware arithmetic is consistent"
    lean_targets = ["SFV.Props.C14", "SFV.Model.HWProto"]
    props_files = ["SFV/Props/C14.lean"]
    drivers = ["Drivers/C14.lean"]
    translators = [schedguards.generate]
    rule = ("pairs of Hardware values built with the real constructors: 0..4 storages over 1..3 mount points, normalised keys or "
            "aliasing keys (several keys per mount point, keys that are other mount points), optional paths and binds; values are "
            "dyadic rationals k/1024 (float arithmetic exact) drawn small (many ties) or up to 2^20; requirements derived from the "
            "capacity with sizes equal / one unit above / below, mount points dropped or added. Every pair runs add, sub, or, "
            "satisfies, normalized, is_normalized, (a+b)-b, get_mount_point on the real classes and on the Lean model (full "
            "structural comparison incl. dict order, paths, bind, exceptions) and is checked against the property's own spec on "
            "exact fractions. A separate decimal stream (0.1, 0.2, …) compares the real float result with exact arithmetic.")
    trusted_base = [
        "translator harness/sfv/translate/schedguards.py (ast: comparison operators of Hardware.satisfies, raise tests and "
        "size/cores/memory arithmetic of Storage/Hardware operators, shape of _reduce_storages/__ior__ loops -> SFV/Gen/SchedGuards.lean)",
        "modelled, not verified: Python dict insertion order (assoc list), set union (duplicate-free list), float arithmetic as exact "
        "rational arithmetic (true for the dyadic stream; the decimal stream measures the difference)",
    ]
    technique = ("Lean 4 theorems over core Rat (normalisation idempotent and total-preserving, (a+b)-b restores a, satisfies iff / "
                 "raises iff, | is max per key) + ast translator of operators and guards + differential correspondence on the real classes")
    level_text = ("grade A: unbounded theorems over exact rationals for every storage map (aliasing keys included): normalize_idem, "
                  "normalize_preserves_mount_totals, add_totals, add_sub_cancel, sub_missing_mount_is_add, satisfies_iff, "
                  "satisfies_raises_iff, or_is_max_per_key; operators and comparison guards regenerated from the source on every run; "
                  "model compared structurally with the real classes on thousands of generated pairs; binary-float rounding recorded "
                  "as known finding (Python-side witness)")
    level_note = ("Lean kernel, axioms within {propext, Classical.choice, Quot.sound}; numbers are exact rationals in the model "
                  "(floats differ: known finding); trusts the schedguards extractor and the dict/set modelling")
    assumptions = ["amounts are exact rationals (the theorems do not cover binary-float rounding)",
                   "Storage objects are built through the constructor (sizes are not negative)"]

    def _pair_ops(self, ctx, names, a, b, lines, expect, meta, tag):
        """queue all operations on (a, b); returns the real results"""
        def q(line, exp, what):
            lines.append(line)
            expect.append(exp)
            meta.append((what, tag))
        ea, eb = enc_hw(a, names), enc_hw(b, names)
        r_add = _run(lambda: a + b)
        q(f"add {ea} {eb}", _fmt(r_add, names), "Hardware.__add__")
        r_sub = _run(lambda: a - b)
        q(f"sub {ea} {eb}", _fmt(r_sub, names), "Hardware.__sub__")
        r_or = _run(lambda: a | b)
        q(f"or {ea} {eb}", _fmt(r_or, names), "Hardware.__or__")
        r_sat = _run(lambda: a.satisfies(b))
        q(f"sat {ea} {eb}", _fmt(r_sat, names, "bool"), "Hardware.satisfies")
        r_norm = _run(lambda: a.normalized())
        q(f"norm {ea}", _fmt(r_norm, names), "Hardware.normalized")
        q(f"isnorm {ea}", "true" if a.is_normalized() else "false", "Hardware.is_normalized")
        r_as = _run(lambda: (a + b) - b)
        q(f"addsub {ea} {eb}", _fmt(r_as, names), "(a+b)-b")
        r_sa = _run(lambda: (a - b) + b)
        q(f"subadd {ea} {eb}", _fmt(r_sa, names), "(a-b)+b")
        p = ctx.rng.choice(PATHS + MOUNTS)
        r_mp = _run(lambda: names.id(a.get_mount_point(p)))
        q(f"getmp {ea} {names.id(p)}", _fmt(r_mp, names, "int"), "Hardware.get_mount_point")
        return r_add, r_sub, r_sat, r_norm, r_as, r_sa

    def _monitor(self, ctx, a, b, res, sample):
        """the property itself, on the real results, against exact fractions"""
        r_add, r_sub, r_sat, r_norm, r_as, r_sa = res
        ta, tb = totals(a), totals(b)
        # a + b: per-mount totals add
        if r_add[0]:
            ts = totals(r_add[1])
            if (Fraction(r_add[1].cores) != Fraction(a.cores) + Fraction(b.cores) or Fraction(r_add[1].memory) != Fraction(a.memory) + Fraction(b.memory)
                    or any(ts.get(mp, Fraction(0)) != ta.get(mp, Fraction(0)) + tb.get(mp, Fraction(0)) for mp in set(ts) | set(ta) | set(tb))):
                ctx.fail("add:totals", f"a+b = {r_add[1]} is not the per-mount sum of a = {a} and b = {b}", sample)
        else:
            ctx.fail("add:raises", f"a+b raised {r_add[1]} for a={a} b={b}", sample)
        # a - b on the mount points a has: a's total minus b's total; raises exactly when one of them would be negative
        neg = [mp for mp in ta if ta[mp] - tb.get(mp, Fraction(0)) < 0]
        if r_sub[0]:
            td = totals(r_sub[1])
            if neg:
                ctx.fail("sub:no-raise", f"a-b = {r_sub[1]} although mount {neg[0]} would be negative (a={a}, b={b})", sample)
            elif (Fraction(r_sub[1].cores) != Fraction(a.cores) - Fraction(b.cores) or Fraction(r_sub[1].memory) != Fraction(a.memory) - Fraction(b.memory)
                  or any(td.get(mp, Fraction(0)) != ta[mp] - tb.get(mp, Fraction(0)) for mp in ta)):
                ctx.fail("sub:totals", f"a-b = {r_sub[1]}: per-mount totals are not a's minus b's (a={a}, b={b})", sample)
        elif not neg:
            ctx.fail("sub:raises", f"a-b raised {r_sub[1]} although every mount point of a is at least b's (a={a}, b={b})", sample)
        # (a - b) + b restores a on a's mount points
        if not neg:
            if not r_sa[0]:
                ctx.fail("sub_add:raises", f"(a-b)+b raised {r_sa[1]} for a={a} b={b}", sample)
            else:
                tr2 = totals(r_sa[1])
                if (Fraction(r_sa[1].cores) != Fraction(a.cores) or Fraction(r_sa[1].memory) != Fraction(a.memory)
                        or any(tr2.get(mp, Fraction(0)) != ta[mp] for mp in ta)):
                    ctx.fail("sub_add:not-restored", f"(a-b)+b = {r_sa[1]} does not restore a = {a} (b = {b})", sample)
        # normalisation
        if not r_norm[0]:
            ctx.fail("normalize:raises", f"normalized() raised {r_norm[1]} on {a}", sample)
        else:
            n = r_norm[1]
            if not n.is_normalized():
                ctx.fail("normalize:not-normal", f"normalized() is not is_normalized(): {n}", sample)
            n2 = n.normalized()
            nm = Names()
            if enc_hw(n2, nm) != enc_hw(n, nm):
                ctx.fail("normalize:not-idempotent", f"normalized twice differs: {n} vs {n2}", sample)
            tn = totals(n)
            if {k: v for k, v in tn.items() if v} != {k: v for k, v in ta.items() if v} or n.cores != a.cores or n.memory != a.memory:
                ctx.fail("normalize:totals-changed", f"per-mount totals {ta} became {tn}", sample)
        # (a+b)-b
        if not r_as[0]:
            ctx.fail("add_sub:raises", f"(a+b)-b raised {r_as[1]} for a={a} b={b}", sample)
        else:
            r = r_as[1]
            tr = totals(r)
            exact = (Fraction(r.cores) == Fraction(a.cores) and Fraction(r.memory) == Fraction(a.memory)
                     and all(tr.get(mp, Fraction(0)) == ta.get(mp, Fraction(0)) for mp in set(tr) | set(ta) | set(tb)))
            if not exact:
                ctx.fail("add_sub:not-restored", f"(a+b)-b = {r} does not restore a = {a} (b = {b})", sample)
        # satisfies
        spec = _spec_satisfies(a, b)
        got = ("ok " + ("true" if r_sat[1] else "false")) if r_sat[0] else f"err {r_sat[1]}"
        if got != spec:
            ctx.fail("satisfies:differs-from-spec", f"{a}.satisfies({b}) = {got}, exact comparison of totals says {spec}", sample)

    def explore(self, ctx: Ctx) -> None:
        rng = ctx.rng
        names = Names()
        for s in MOUNTS + ALIAS + PATHS + ["/host/a", "/host/b", "extra"]:
            names.id(s)
        lines, expect, meta = [], [], []
        n_pairs = 1500 if ctx.tier == "quick" else 15000
        if ctx.mode == "search":
            n_pairs *= 2
        corpus = []
        # boundary corpus: aliasing, missing mounts, equal sizes, empty storage, zero sizes
        corpus.append((Hardware(4.0, 8.0, {"a": Storage("/tmp", 1.5, {"/tmp/a"}), "b": Storage("/tmp", 0.5, {"/tmp/b"}), "c": Storage("/data", 1.0)}),
                       Hardware(1.0, 2.0, {"x": Storage("/tmp", 0.25), "y": Storage(os.sep, 5.0)})))
        corpus.append((Hardware(1.0, 1.0), Hardware(1.0, 1.0)))
        corpus.append((Hardware(2.0, 2.0, {os.sep: Storage(os.sep, 1.0)}), Hardware(2.0, 2.0, {"/tmp": Storage("/tmp", 0.0)})))
        corpus.append((Hardware(2.0, 2.0, {os.sep: Storage(os.sep, 1.0)}), Hardware(3.0, 2.0, {"/tmp": Storage("/tmp", 0.0)})))
        corpus.append((Hardware(0.0, 0.0, {"k": Storage("/tmp", 1.0)}), Hardware(0.0, 0.0, {"k": Storage("/data", 1.0)})))
        corpus.append((Hardware(1.0, 1.0, {"/tmp": Storage("/tmp", 1.0)}), Hardware(0.5, 0.5, {"/tmp": Storage("/tmp", 2.0)})))
        corpus.append((Hardware(1.0, 1.0, {"/tmp": Storage("/data", 1.0), "/data": Storage("/tmp", 3.0)}),
                       Hardware(0.5, 0.5, {"/tmp": Storage("/tmp", 2.0)})))
        corpus.append((Hardware(4.0, 8.0, {"d1": Storage(os.sep, 600.0), "d2": Storage(os.sep, 400.5)}),
                       Hardware(1.0, 1.0, {os.sep: Storage(os.sep, 50.25)})))
        corpus.append((Hardware(4.0, 8.0, {"d1": Storage("/tmp", 3.0), "d2": Storage("/tmp", 1.0), "d3": Storage("/tmp", 0.5), "r": Storage(os.sep, 2.0)}),
                       Hardware(1.0, 1.0, {"x": Storage("/tmp", 4.5), "y": Storage(os.sep, 2.0)})))
        ctx.corpus_replayed += len(corpus)
        cases = list(corpus)
        for i in range(n_pairs):
            n_mounts = rng.randint(1, 3)
            aliasing = rng.random() < 0.6
            small = rng.random() < 0.5
            val = lambda: _dy(rng, small)  # noqa: E731
            if rng.random() < 0.3:
                a = _gen_aliased(rng, val, n_mounts)       # 2..3 keys per mount point on the LEFT operand
                b = _derive(rng, a, val) if rng.random() < 0.7 else _gen_aliased(rng, val, n_mounts)
            else:
                a = _gen_hw(rng, val, n_mounts, aliasing)
                b = _derive(rng, a, val) if rng.random() < 0.5 else _gen_hw(rng, val, n_mounts, aliasing and rng.random() < 0.7)
            cases.append((a, b))
        for i, (a, b) in enumerate(cases):
            sample = {"a": enc_hw(a, names), "b": enc_hw(b, names), "names": None}
            res = self._pair_ops(ctx, names, a, b, lines, expect, meta, i)
            aliased = not (a.is_normalized() and b.is_normalized())
            nontriv = (sample["a"], sample["b"]) if (len(a.storage) + len(b.storage) > 2) else None
            ctx.case({"op": "pair", "a": repr(a), "b": repr(b)}, nontriv, "aliasing" if aliased else "normalised-keys")
            ctx.count("satisfies=" + (str(res[2][1]) if res[2][0] else "raise"))
            ctx.count("sub=" + ("ok" if res[1][0] else res[1][1]))
            self._monitor(ctx, a, b, res, {"stream": "dyadic", **sample})
            if ctx.out_of_time():
                ctx.extra["incomplete"] = True
                break
        # Storage-level operators
        for _ in range(300 if ctx.tier == "quick" else 3000):
            m1, m2 = rng.choice(MOUNTS), rng.choice(MOUNTS[:2])
            s1 = Storage(m1, _dy(rng, True), set(rng.sample(PATHS, rng.randint(0, 2))), rng.choice([None, "/host/a"]))
            s2 = Storage(m2, _dy(rng, True), set(rng.sample(PATHS, rng.randint(0, 2))), rng.choice([None, "/host/b"]))
            e1, e2 = enc_storage("k", s1, names), enc_storage("k", s2, names)
            for op, f in (("sadd", lambda: s1 + s2), ("ssub", lambda: s1 - s2), ("sor", lambda: s1 | s2)):
                ok, v = _run(f)
                lines.append(f"{op} {e1} {e2}")
                expect.append(("ok " + enc_storage("k", v, names)) if ok else f"err {v}")
                meta.append((f"Storage.{op}", None))
            ctx.case({"op": "storage-ops", "s1": e1, "s2": e2}, ("st", e1, e2), "storage-ops")
        for sz in (-0.5, -1 / 1024, 0.0, 1.0):
            ok, v = _run(lambda: Storage("/tmp", sz))
            lines.append(f"snew {names.id('/tmp')} {rat(sz)}")
            expect.append(("ok " + enc_storage("/tmp", v, names)) if ok else f"err {v}")
            meta.append(("Storage.__init__", sz))
        got = ctx.lean("Drivers/C14.lean", lines)
        for g, e, m, ln in zip(got, expect, meta, lines):
            if g != e:
                ctx.disagree(f"model vs {m[0]}", f"{ln}: code {e!r}, Lean model {g!r}", {"line": ln, "names": names.rev})
        # ---- decimal stream: real floats against exact arithmetic (the float finding) ----
        dec_cases = [(Hardware(cores=0.1), Hardware(cores=0.2))]
        for _ in range(200 if ctx.tier == "quick" else 2000):
            val = lambda: rng.choice(DECIMALS)  # noqa: E731
            dec_cases.append((_gen_hw(rng, val, 2, False, with_paths=False), _gen_hw(rng, val, 2, False, with_paths=False)))
        for a, b in dec_cases:
            ok, r = _run(lambda: (a + b) - b)
            ctx.case({"op": "decimal (a+b)-b", "a": repr(a), "b": repr(b)}, None, "decimal-stream")
            if not ok:
                # a float residue can make a size negative: Storage raises
                ctx.fail("float:add-sub-cancel:binary-rounding", f"(a+b)-b raised {r} for a={a} b={b}", {"stream": "decimal", "a": _dump(a), "b": _dump(b)})
                continue
            ta, tr = totals(a), totals(r)
            diffs = [abs(Fraction(r.cores) - Fraction(a.cores)), abs(Fraction(r.memory) - Fraction(a.memory))]
            diffs += [abs(tr.get(mp, Fraction(0)) - ta.get(mp, Fraction(0))) for mp in set(tr) | set(ta)]
            scale = max([Fraction(1)] + [Fraction(x) for x in (a.cores, a.memory, b.cores, b.memory)] + list(ta.values()) + list(totals(b).values()))
            worst = max(diffs)
            if worst == 0:
                ctx.count("decimal-exact")
            elif worst <= scale * Fraction(1, 10 ** 12):
                ctx.count("decimal-rounded")
                if ctx.histogram.get("decimal-rounded", 0) <= 8:      # keep room under the framework's 200-failure cap
                  ctx.fail("float:add-sub-cancel:binary-rounding",
                           f"(a+b)-b differs from a by {float(worst):.3g} (binary float rounding): a={a} b={b} result={r}",
                           {"stream": "decimal", "a": _dump(a), "b": _dump(b)})
            else:
                ctx.fail("add_sub:not-restored", f"(a+b)-b = {r} is far from a = {a} (b = {b})", {"stream": "decimal", "a": _dump(a), "b": _dump(b)})

    def replay(self, ctx: Ctx, data) -> None:
        r = data.get("replay") or {}
        print("recorded:", r)
        if r.get("stream") == "decimal":
            a, b = _load(r["a"]), _load(r["b"])
            res = (a + b) - b
            print("real (a+b)-b:", res, " a:", a)
            if res.cores != a.cores or res.memory != a.memory or totals(res) != totals(a):
                ctx.fail("float:add-sub-cancel:binary-rounding", "still differs", r)
        elif "a" in r and "b" in r:
            out = ctx.lean("Drivers/C14.lean", [f"{op} {r['a']} {r['b']}" for op in ("add", "sub", "or", "sat", "addsub", "subadd")])
            print("model:", out)
        else:
            super().replay(ctx, data)


PROPERTY = C14()
