import SFV.Model.Comb
import SFV.Model.Proto
open SFV SFV.Comb SFV.Proto

/-- `<port>:<tag>:<val>` -/
def parseEv (w : String) : Option Ev :=
  match w.splitOn ":" with
  | [p, t, v] => do
      let p ← p.toNat?
      let t ← parseTag t
      let v ← v.toNat?
      pure (p, ⟨t, v⟩)
  | _ => none

def renderEmit (e : Emit) : String :=
  ",".intercalate (e.map (fun x => s!"{x.1}:{renderTag x.2.tag}:{x.2.val}"))

def renderErr : Option Err → String
  | none => ""
  | some .indexError => "!IndexError"
  | some .keyError => "!KeyError"

def renderOut (out : List Emit) (err : Option Err) : String :=
  let body := ";".intercalate (out.map renderEmit)
  (if body.isEmpty && err.isNone then "-" else body) ++ renderErr err

/-- item spec of the nested form: `2` (a port), `d:0,1` (inner dot over ports 0,1), `c1:0,1` (inner cart depth 1) -/
def parseItem (w : String) : Option Item :=
  match w.splitOn ":" with
  | [p] => (p.toNat?).map Item.port
  | [k, ps] => do
      let ports ← (ps.splitOn ",").mapM (fun x => x.toNat?)
      if k = "d" then pure (Item.sub .dot ports)
      else if k.startsWith "c" then do
        let d ← (k.drop 1).toNat?
        if d = 0 then none else pure (Item.sub (.cart d) ports)
      else none
  | _ => none

def handle : List String → String
  | "dot" :: p :: evs =>
      match p.toNat?, evs.mapM parseEv with
      | some P, some es => let r := runDot P es; renderOut r.out r.err
      | _, _ => "bad-op"
  | "cart" :: d :: p :: evs =>
      match d.toNat?, p.toNat?, evs.mapM parseEv with
      | some (d + 1), some P, some es => let r := runCart (d + 1) P es; renderOut r.out r.err
      | _, _, _ => "bad-op"
  | "nest" :: spec :: evs =>
      match (spec.splitOn "/").mapM parseItem, evs.mapM parseEv with
      | some items, some es => let r := runNested items es; renderOut r.out r.err
      | _, _ => "bad-op"
  | _ => "bad-op"

def main : IO Unit := runPure handle
