"""Monitor for the hypothesis of C10/C11/C12 (`Ledger.HistoryOk`, the engine protocol): run REAL workflows with failures
and recoveries (the recovery harness `sfv.rt.recov`, untouched) on a recording subclass of DefaultScheduler registered at
run time in `streamflow.scheduling.scheduler_classes`, and return the sequence of scheduler events
(allocation / notification) in the order of their critical sections."""
from __future__ import annotations

import random


def run_observed(case: dict) -> dict:
    """worker entry point (own process): returns {"outcome", "events": [["alloc", job] | ["notify", job, status]], ...}"""
    from streamflow.scheduling import scheduler_classes
    from streamflow.scheduling.scheduler import DefaultScheduler

    from sfv.rt import recov

    events: list = []

    class RecordingScheduler(DefaultScheduler):
        def _allocate_job(self, job, hardware, connector, selected_locations, target):
            try:
                super()._allocate_job(job, hardware, connector, selected_locations, target)
            finally:
                events.append(["alloc", job.name])

        async def notify_status(self, job_name, status):
            known = job_name in self.job_allocations
            try:
                await super().notify_status(job_name, status)
            finally:
                # no suspension point between the release of the scheduler lock and here
                if known:
                    events.append(["notify", job_name, int(status)])

    old = scheduler_classes["default"]
    scheduler_classes["default"] = RecordingScheduler
    try:
        r = recov.run_case(case)
    finally:
        scheduler_classes["default"] = old
    return {"name": case["name"], "outcome": r.get("outcome"), "msg": r.get("msg"), "events": events,
            "attempts": r.get("attempts"), "versions": r.get("versions")}


def gen_cases(rng: random.Random, quick: bool) -> list[dict]:
    """workflow shapes x failure plans of the recovery harness: soft and fail-stop failures in the schedule / transfer /
    execute phases, repeated failures, exhausted retries, scatter, diamond, loop, no failure manager"""
    cases = [{"name": "pipeline3-no-failure", "shape": {"kind": "pipeline", "n": 3}, "plan": [], "max_retries": 3}]
    for phase in ["execute", "transfer", "schedule"]:
        n = rng.choice([2, 3])
        st = rng.randrange(n)
        cases.append({"name": f"pipeline{n}-s{st}-{phase}-soft-x{1 if phase != 'execute' else 2}", "shape": {"kind": "pipeline", "n": n},
                      "plan": [{"step": f"/s{st}", "tag": "0", "phase": phase, "kind": "soft", "count": 1 if phase != "execute" else 2}],
                      "max_retries": 4})
    cases.append({"name": "pipeline2-failstop-loses-upstream", "shape": {"kind": "pipeline", "n": 2}, "max_retries": 4,
                  "plan": [{"step": "/s1", "tag": "0", "phase": "execute", "kind": "failstop", "count": 1, "lose": [["/s1", "0"], ["/s0", "0"]]}]})
    cases.append({"name": "pipeline2-retries-exhausted", "shape": {"kind": "pipeline", "n": 2}, "max_retries": 2,
                  "plan": [{"step": "/s1", "tag": "0", "phase": "execute", "kind": "soft", "count": 5}]})
    cases.append({"name": "pipeline2-dummy-manager", "shape": {"kind": "pipeline", "n": 2}, "manager": "dummy", "max_retries": None,
                  "plan": [{"step": "/s1", "tag": "0", "phase": "execute", "kind": "soft", "count": 1}]})
    m = rng.choice([3, 4])
    cases.append({"name": f"scatter{m}-element-fails", "shape": {"kind": "scatter", "m": m}, "max_retries": 3,
                  "plan": [{"step": "/b", "tag": f"0.{rng.randrange(m)}", "phase": "execute", "kind": "soft", "count": 1}]})
    cases.append({"name": "diamond-join-failstop", "shape": {"kind": "diamond"}, "max_retries": 3,
                  "plan": [{"step": "/c", "tag": "0", "phase": "execute", "kind": "failstop", "count": 1, "lose": [["/b1", "0"]]}]})
    if not quick:
        cases.append({"name": "loop3-body-fails", "shape": {"kind": "loop", "k": 3}, "max_retries": 3,
                      "plan": [{"step": "/body", "tag": "0.1", "phase": "execute", "kind": "soft", "count": 1}]})
        for i in range(10):
            n = rng.choice([2, 3, 4])
            plan = []
            for _ in range(rng.randint(1, 2)):
                st = rng.randrange(n)
                kind = rng.choice(["soft", "soft", "failstop"])
                e = {"step": f"/s{st}", "tag": "0", "phase": rng.choice(["execute", "execute", "transfer", "schedule"]), "kind": kind,
                     "count": rng.randint(1, 2)}
                if kind == "failstop":
                    e["phase"] = "execute"
                    e["lose"] = [[f"/s{k}", "0"] for k in range(st + 1) if rng.random() < 0.6] or [[f"/s{st}", "0"]]
                plan.append(e)
            cases.append({"name": f"random-pipeline{n}-{i}", "shape": {"kind": "pipeline", "n": n, "data": rng.choice(["file", "primitive"])},
                          "plan": plan, "max_retries": rng.choice([2, 3, 5])})
    for c in cases:
        c.setdefault("timeout", 90)
    return cases
