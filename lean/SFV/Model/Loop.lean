import SFV.Model.Tag
import SFV.Model.StepBase
import SFV.Gen.LoopGuards
/-! Loops: `LoopCombinator._product` (iteration numbering, `streamflow/workflow/combinator.py`),
    `LoopOutputStep.run` (`streamflow/workflow/step.py`) and `CWLLoopOutputAllStep` / `CWLLoopOutputLastStep`
    (`streamflow/cwl/step.py`), `LoopCombinatorStep.run`'s `iteration_termination_checklist`.

A loop *instance* is identified by the tag `p` of its external inputs; its `k`-th body execution works on tokens
tagged `p.k`. The loop output step reads ONE port; the order in which the body outputs `p.i` of the various
instances and the `IterationTerminationToken`s `p.n` reach it is arbitrary (they come from different steps), only
the port's `TerminationToken` is known to come last (FIFO). Constants and guards come from
`SFV/Gen/LoopGuards.lean`, regenerated from the source on every run. -/
namespace SFV.Loop

structure Tok (V : Type) where
  tag : Tag
  val : V
deriving DecidableEq, Repr

def setKey {α} (m : Tag → α) (k : Tag) (v : α) : Tag → α := fun k' => if k' = k then v else m k'
def addKey (keys : List Tag) (k : Tag) : List Tag := if k ∈ keys then keys else keys ++ [k]

/-! ### LoopCombinator: numbering of iterations -/

/-- `iteration_map` -/
abbrev Counters := Tag → Option Nat

/-- the body of `async for schema in super()._product()`: the joined inputs carry tag `t`;
    returns the new counters and the tag given to the iteration's inputs -/
def number (m : Counters) (t : Tag) : Counters × Tag :=
  match m t.dropLast with
  | none => (setKey m t (some Gen.loopInit), t ++ [Gen.loopFirstSuffix])
  | some c => (setKey m t.dropLast (some (c + Gen.loopIncr)), t.dropLast ++ [c + Gen.loopIncr])

/-- `LoopCombinator.restore(from_tags)`: for every `(prefix, iteration)` the counter of `prefix` becomes
    `max(iteration_map.get(prefix, n), n)` with `n` the last component of `iteration` -/
def restoreCounters (m : Counters) : List (Tag × Tag) → Counters
  | [] => m
  | (pre, it) :: r =>
      let n := it.getLast?.getD 0
      restoreCounters (setKey m pre (some (Gen.loopRestore ((m pre).getD n) n))) r

/-- an arrival, or a restore, at the combinator -/
inductive NEv where
  | arrive (t : Tag)
  | restore (pairs : List (Tag × Tag))

/-- tags given to the arrivals of a sequence of arrivals and restores -/
def numberEvs : Counters → List NEv → List Tag
  | _, [] => []
  | m, .arrive t :: r => (number m t).2 :: numberEvs (number m t).1 r
  | m, .restore ps :: r => numberEvs (restoreCounters m ps) r

/-- tags given to a sequence of arrivals -/
def numberAll : Counters → List Tag → List Tag
  | _, [] => []
  | m, t :: ts => (number m t).2 :: numberAll (number m t).1 ts

/-! ### LoopOutputStep -/

inductive Method | all | last
deriving DecidableEq, Repr

inductive Ev (V : Type) where
  | data (t : Tok V)            -- a body output `p.i`
  | iterTerm (tag : Tag)        -- `IterationTerminationToken(tag = p.n)`
  | term (st : Status)          -- the port's `TerminationToken` (its tag is the default `0`)
deriving Repr

/-- what `_process_output` builds -/
inductive Out (V : Type) where
  | list (tag : Tag) (l : List (Tok V))      -- CWLLoopOutputAllStep: ListToken(tag, sorted tokens)
  | single (tag : Tag) (v : Option V)        -- CWLLoopOutputLastStep: last token retagged (`none` = Token(None))
deriving DecidableEq, Repr

def Out.tag {V} : Out V → Tag
  | .list t _ => t
  | .single t _ => t

/-- `int(t.tag.split(".")[-1])` -/
def lastOf {V} (t : Tok V) : Int := ((t.tag.getLast?.getD 0 : Nat) : Int)

def sortAll {V} (l : List (Tok V)) : List (Tok V) :=
  l.mergeSort (fun a b => decide (Gen.loopSortKeyAll (lastOf a) ≤ Gen.loopSortKeyAll (lastOf b)))

def sortLast {V} (l : List (Tok V)) : List (Tok V) :=
  l.mergeSort (fun a b => decide (Gen.loopSortKeyLast (lastOf a) ≤ Gen.loopSortKeyLast (lastOf b)))

/-- `_process_output(tag)` over `token_map.get(tag, …)` -/
def processOutput {V} (m : Method) (tag : Tag) (toks : List (Tok V)) : Out V :=
  match m with
  | .all => .list tag (sortAll toks)
  | .last => .single tag ((sortLast toks).getLast?.map (·.val))     -- `[Token(value=None)]` when absent

structure St (V : Type) where
  keys : List Tag := []                       -- keys of `token_map`, insertion order
  toks : Tag → List (Tok V) := fun _ => []    -- `token_map`
  sizes : Tag → Option Int := fun _ => none   -- `size_map`
  status : Status := .skipped
  termKeys : List Tag := []                   -- keys of `termination_map`
  out : List (Out V) := []
  terminated : Option Status := none          -- the step left its loop and terminated with this status

/-- `if len(self.token_map.get(prefix, [])) == self.size_map.get(prefix, -1): put(_process_output(prefix))` -/
def check {V} (m : Method) (s : St V) (pre : Tag) : St V :=
  if Gen.loopEmits (s.toks pre).length ((s.sizes pre).getD Gen.loopSizeDefault) then
    { s with out := s.out ++ [processOutput m pre (s.toks pre)] }
  else s

/-- `if self.termination_map and all(self.termination_map): break` — `all` over a dict iterates its KEYS
    (tag strings): a key is falsy only when it is the empty string, i.e. the prefix of a one-component tag -/
def exits {V} (s : St V) : Bool := !s.termKeys.isEmpty && s.termKeys.all (fun k => !k.isEmpty)

def leave {V} (s : St V) : St V := { s with terminated := some (getStatus s.status s.out.isEmpty) }

/-- one iteration of `while True` -/
def step {V} (m : Method) (s : St V) (e : Ev V) : St V :=
  if s.terminated.isSome then s else
  match e with
  | .data t =>
      let pre := t.tag.dropLast
      let s1 := { s with keys := addKey s.keys pre, toks := setKey s.toks pre (s.toks pre ++ [t]) }
      let s2 := check m s1 pre
      if exits s2 then leave s2 else s2
  | .iterTerm tag =>
      let pre := tag.dropLast
      let s1 := { s with sizes := setKey s.sizes pre (some (Gen.loopSizeOf ((tag.getLast?.getD 0 : Nat) : Int))) }
      let s2 := check m s1 pre
      if exits s2 then leave s2 else s2
  | .term st =>
      let s1 := { s with status := reduce2 s.status st }
      if s1.keys.isEmpty then leave s1          -- `if not self.token_map: break`
      else
        let s2 := { s1 with termKeys := s1.keys }
        let s3 := check m s2 []                  -- prefix of the termination token's tag `0` is the empty tag
        if exits s3 then leave s3 else s3

def run {V} (m : Method) (es : List (Ev V)) : St V := es.foldl (step m) {}

/-- the body outputs of a loop instance `p` whose iterations produced `vals`: `p.i ↦ vals[i]` -/
def iterToks {V} (p : Tag) : Nat → List V → List (Tok V)
  | _, [] => []
  | i, x :: xs => ⟨p ++ [i], x⟩ :: iterToks p (i + 1) xs

/-! ### LoopCombinatorStep: the iteration-termination checklist of one input port -/

inductive CEv where
  | data (tag : Tag)            -- an external input `p` or a back-edge token `p.k`
  | iterTerm (tag : Tag)        -- `IterationTerminationToken(tag = p)` from the loop terminator
  | term (st : Status)
deriving Repr

structure CSt where
  checklist : List Tag := []     -- `iteration_termination_checklist[port]` (a set)
  terminated : Bool := false     -- `port in terminated`
  failed : Bool := false         -- the step's `failed` flag, as far as THIS port's own termination token sets it
                                 -- (a FAILED / CANCELLED termination of another port also sets it: not part of this one-port model)
  reading : Bool := true         -- a new `get` task is created for the port

/-- the three-way branch on the token class (checklist / terminated / failed updates) -/
def cpre (s : CSt) : CEv → CSt
  | .data tag =>
      if Gen.loopChecklistAdds (decide (tag.dropLast ∈ s.checklist)) then
        (if tag ∈ s.checklist then s else { s with checklist := tag :: s.checklist })     -- `set.add`
      else s
  | .iterTerm tag => { s with checklist := s.checklist.filter (· ≠ tag) }
  | .term st => { s with checklist := if Gen.loopChecklistClears st then [] else s.checklist, terminated := true,
                         failed := s.failed || Gen.loopFails st }

def cstep (s : CSt) (e : CEv) : CSt :=
  if !s.reading then s else
  { cpre s e with reading := Gen.loopKeepsReading (cpre s e).terminated (cpre s e).failed (cpre s e).checklist.length }

end SFV.Loop

namespace SFV.Loop

/-! ### `LoopCombinatorStep.run` with one input port, as a whole: checklist, the combinator's numbering, output log, status -/

structure LCSt where
  c : CSt := {}
  cnt : Counters := fun _ => none      -- the LoopCombinator's `iteration_map`
  out : List Tag := []                 -- tags of the tokens put on the output port
  status : Status := .skipped
  terminated : Option Status := none   -- the step left its loop and terminated with this status

def lcstep (s : LCSt) (e : CEv) : LCSt :=
  if !s.c.reading then s else
  let s1 : LCSt := match e with
    | .data tag => { s with cnt := (number s.cnt tag).1, out := s.out ++ [(number s.cnt tag).2] }   -- one item: every token is a combination
    | .iterTerm _ => s
    | .term st => { s with status := reduce2 s.status st }
  let s2 : LCSt := { s1 with c := cstep s.c e }
  -- one port: when it is no longer read `input_tasks` is empty and the step terminates
  if !s2.c.reading then { s2 with terminated := some (getStatus s2.status s2.out.isEmpty) } else s2

def lcrun (es : List CEv) : LCSt := es.foldl lcstep {}

end SFV.Loop

namespace SFV.Loop

/-! ### the closed loop of one instance: combinator → loop-when → body → back edge -/

/-- one trip: the combinator numbers the arrival; the loop-when step evaluates the condition on the numbered inputs:
    true → the body runs, its output (same tag) goes to the loop output step and back to the combinator;
    false → `IterationTerminationToken(tag)` goes to the loop output step (`_on_false`) and the instance stops -/
def trip {V} (cond : Tag → Bool) (body : Tag → V) (m : Counters) (arrival : Tag) : Counters × Ev V × Option Tag :=
  let r := number m arrival
  if cond r.2 then (r.1, .data ⟨r.2, body r.2⟩, some r.2) else (r.1, .iterTerm r.2, none)

/-- what reaches the loop output step from one instance whose external inputs carry `arrival` (fuel-bounded) -/
def cycle {V} (cond : Tag → Bool) (body : Tag → V) : Nat → Counters → Tag → List (Ev V)
  | 0, _, _ => []
  | f + 1, m, arrival =>
      let r := trip cond body m arrival
      r.2.1 :: (match r.2.2 with
                | some t => cycle cond body f r.1 t
                | none => [])

end SFV.Loop

namespace SFV.Loop

/-! ### provenance recorded by `LoopOutputStep.run` (`input_token_ids = get_entity_ids(self.token_map.get(prefix))`) -/

/-- provenance of the outputs emitted by one more token: the body outputs collected for the instance, in arrival order -/
def provOfStep {V} (m : Method) (s : St V) (e : Ev V) : List (Tag × List (Tok V)) :=
  let s' := step m s e
  (s'.out.drop s.out.length).map (fun o => (o.tag, s'.toks o.tag))

def runProv {V} (m : Method) : St V → List (Ev V) → List (Tag × List (Tok V))
  | _, [] => []
  | s, e :: es => provOfStep m s e ++ runProv m (step m s e) es

end SFV.Loop
