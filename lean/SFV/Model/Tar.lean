import SFV.Model.Bytes
/-! # Tar streams as `aiotarstream` writes and reads them (C23)

Block structure, offsets, padding, end-of-archive and the read loops are modelled as the code has them
(`AioTarStream.addfile` / `_close`, `AioTarStream.next`, `AioTarInfo.fromtarfile` / `_proc_builtin`,
`FileStreamReaderWrapper.read`, `copyfileobj` / `write`). The *content* of a 512-byte header block is CPython's
(`TarInfo.tobuf` / `frombuf`) and enters through a `Codec`: any pair of functions with `dec (enc n s) = (n, s)` on the
headers it declares valid. Members are regular files (directories are members of size 0); GNU long-name and pax
extension members are validated by the correspondence check only. -/
namespace SFV.Tar
open SFV.Bytes

def BLOCK : Nat := 512
def RECORD : Nat := 10240

structure Member where
  name : List Byte
  data : List Byte
deriving DecidableEq, Repr

/-- header encoding/decoding (CPython's `tobuf`/`frombuf`): what the theorems assume about it -/
structure Codec where
  enc : List Byte → Nat → List Byte
  dec : List Byte → Option (List Byte × Nat)
  valid : List Byte → Nat → Prop
  enc_len : ∀ n s, (enc n s).length = 512
  dec_enc : ∀ n s, valid n s → dec (enc n s) = some (n, s)
  enc_nonzero : ∀ n s, valid n s → (enc n s).all (· == 0) = false

def zeros (n : Nat) : List Byte := List.replicate n 0

/-- bytes of padding after `n` data bytes -/
def padLen (n : Nat) : Nat := (512 - n % 512) % 512
/-- `TarInfo._block(n)` -/
def blockLen (n : Nat) : Nat := n + padLen n

/-! ## writer: `addfile` for every member, then `_close` -/

def encMember (c : Codec) (m : Member) : List Byte :=
  c.enc m.name m.data.length ++ m.data ++ zeros (padLen m.data.length)

def writeMembers (c : Codec) (ms : List Member) : List Byte := ms.flatMap (encMember c)

/-- two zero blocks, then padding up to a multiple of `RECORDSIZE` -/
def closing (len : Nat) : List Byte :=
  zeros 1024 ++ zeros ((10240 - (len + 1024) % 10240) % 10240)

def writeArchive (c : Codec) (ms : List Member) : List Byte :=
  writeMembers c ms ++ closing (writeMembers c ms).length

/-! ## reader -/

inductive Hdr
  | empty | truncated | eof | invalid
  | hdr (name : List Byte) (size : Nat)

/-- `TarInfo.frombuf`: the checks in the order of the code -/
abbrev Dec := List Byte → Option (List Byte × Nat)

def classify (dec : Dec) (buf : List Byte) : Hdr :=
  if buf.length = 0 then .empty
  else if buf.length ≠ 512 then .truncated
  else if buf.all (· == 0) then .eof
  else match dec buf with
    | none => .invalid
    | some (n, s) => .hdr n s

inductive Outcome
  | ok (ms : List Member)
  | error                   -- `tarfile.ReadError` (only raised for the first header)
deriving DecidableEq, Repr

/-- iteration over the archive with extraction of every member's data: `next()` (seek to `offset` if needed, read a
    header block, `frombuf`; header problems end the iteration *silently* unless `offset == 0`), `_proc_builtin`
    (next offset), then the member's data through the looping read (short at EOF). Fuel: one unit per member. -/
def readMembers (dec : Dec) : Nat → Reader → Nat → List Member → Outcome
  | 0, _, _, acc => .ok acc
  | fuel + 1, s, offset, acc =>
      match s.seek offset with
      | none => .error
      | some s1 =>
          let hb := s1.read 512
          match classify dec hb.1 with
          | .hdr name size =>
              let d := hb.2.read size
              readMembers dec fuel d.2 (hb.2.pos + blockLen size) (acc ++ [{ name := name, data := d.1 }])
          | .eof => .ok acc
          | _ => if offset = 0 then .error else .ok acc

/-- read a whole archive from an underlying stream with any chunking policy -/
def readArchive (dec : Dec) (r : Raw) : Outcome :=
  readMembers dec (r.data.length / 512 + 1) { raw := r, pos := 0 } 0 []

/-- `aiotarstream.write(src, dst, bufsize)` as used by `makefile` → `copyfileobj`:
    `while bufsize > 0: buf = await src.read(bufsize); bufsize -= len(buf)`. `none` = the loop does not end within `fuel` rounds. -/
def copyLoop : Nat → Reader → Nat → Option Reader
  | _, s, 0 => some s
  | 0, _, _ + 1 => none
  | fuel + 1, s, n + 1 =>
      let r := s.read (n + 1)
      copyLoop fuel r.2 (n + 1 - r.1.length)

end SFV.Tar
