/-! # Saving and loading a whole workflow (`streamflow/core/workflow.py`, `streamflow/persistence/sqlite.py`)

`Workflow.save` inserts the workflow row, then every port (`Port.save`: `add_port`, the new row id becomes `persistent_id`), then
every step (`Step.save`: `add_step` with the params of `_save_additional_params`, in which a port is referenced by its
`persistent_id`; then one `add_dependency(step, port, type, name)` per entry of `input_ports` / `output_ports`, `INSERT OR IGNORE`
with primary key `(step, port)`). `Workflow.load` reads the rows of the workflow (`get_workflow_ports`, `get_workflow_steps`);
`Step.load` rebuilds `input_ports` / `output_ports` as `{d["name"]: load_port(d["port"]).name}` from the dependency rows of the step,
and `_load` turns a port id of the params back into the port (`loading_context.load_port`, one object per id: a port is
identified by its name here). Row order of a `SELECT` is insertion order in the model (Python compares the rebuilt dicts without
order). Parameter values other than port references are opaque (`Nat`); which keys are saved and read is `SFV.Persist`. -/
namespace SFV.WfStore

/-- an attribute of a step: a JSON value or a port of the workflow (e.g. `job_port`, `connector_port`) -/
inductive AVal
  | plain (v : Nat)
  | port (name : String)
  deriving DecidableEq, Repr

/-- what is stored for it: the value or the port's row id -/
inductive SVal
  | plain (v : Nat)
  | ref (id : Nat)
  deriving DecidableEq, Repr

structure PortE where
  name : String
  cls : String
  params : List (String × Nat)
  pid : Option Nat
  deriving DecidableEq, Repr

structure StepE where
  name : String
  cls : String
  status : Nat
  params : List (String × AVal)
  /-- `input_ports`: dependency name ↦ port name -/
  ins : List (String × String)
  outs : List (String × String)
  pid : Option Nat
  deriving DecidableEq, Repr

structure WF where
  name : String
  params : List (String × Nat)
  ports : List PortE
  steps : List StepE
  pid : Option Nat
  deriving DecidableEq, Repr

structure WfRow where
  id : Nat
  name : String
  params : List (String × Nat)
  deriving DecidableEq, Repr

structure PortRow where
  id : Nat
  wf : Nat
  name : String
  cls : String
  params : List (String × Nat)
  deriving DecidableEq, Repr

structure StepRow where
  id : Nat
  wf : Nat
  name : String
  cls : String
  status : Nat
  params : List (String × SVal)
  deriving DecidableEq, Repr

structure DepRow where
  step : Nat
  port : Nat
  input : Bool
  name : String
  deriving DecidableEq, Repr

/-- the four tables; `next` = the next row id (one counter for all tables: ids are only compared within a table) -/
structure DB where
  next : Nat
  wfs : List WfRow
  ports : List PortRow
  steps : List StepRow
  deps : List DepRow
  deriving Repr

def DB.empty : DB := ⟨1, [], [], [], []⟩

/-! ### save -/

/-- `Port.save` -/
def savePort (wid : Nat) (db : DB) (p : PortE) : DB × PortE :=
  match p.pid with
  | some _ => (db, p)
  | none => ({ db with next := db.next + 1, ports := db.ports ++ [⟨db.next, wid, p.name, p.cls, p.params⟩] },
             { p with pid := some db.next })

def savePorts (wid : Nat) : DB → List PortE → DB × List PortE
  | db, [] => (db, [])
  | db, p :: ps =>
    let r := savePort wid db p
    let rs := savePorts wid r.1 ps
    (rs.1, r.2 :: rs.2)

/-- `self.workflow.ports[name].persistent_id` -/
def idOf : List PortE → String → Nat
  | [], _ => 0
  | p :: ps, n => if p.name = n then p.pid.getD 0 else idOf ps n

def encode (ports : List PortE) : AVal → SVal
  | .plain v => .plain v
  | .port n => .ref (idOf ports n)

/-- `INSERT OR IGNORE INTO dependency`, primary key `(step, port)` -/
def addDep (deps : List DepRow) (d : DepRow) : List DepRow :=
  if deps.any (fun e => e.step = d.step ∧ e.port = d.port) then deps else deps ++ [d]

/-- the dependency rows `Step.save` writes for a step whose row id is `sid` -/
def depsOf (ports : List PortE) (sid : Nat) (s : StepE) : List DepRow :=
  s.ins.map (fun c => ⟨sid, idOf ports c.2, true, c.1⟩) ++ s.outs.map (fun c => ⟨sid, idOf ports c.2, false, c.1⟩)

/-- `Step.save` -/
def saveStep (wid : Nat) (ports : List PortE) (db : DB) (s : StepE) : DB × StepE :=
  let r : DB × StepE := match s.pid with
    | some _ => (db, s)
    | none => ({ db with next := db.next + 1,
                         steps := db.steps ++ [⟨db.next, wid, s.name, s.cls, s.status, s.params.map (fun kv => (kv.1, encode ports kv.2))⟩] },
               { s with pid := some db.next })
  ({ r.1 with deps := (depsOf ports (r.2.pid.getD 0) s).foldl addDep r.1.deps }, r.2)

def saveSteps (wid : Nat) (ports : List PortE) : DB → List StepE → DB × List StepE
  | db, [] => (db, [])
  | db, s :: ss =>
    let r := saveStep wid ports db s
    let rs := saveSteps wid ports r.1 ss
    (rs.1, r.2 :: rs.2)

/-- `Workflow.save` -/
def saveWf (db : DB) (w : WF) : DB × WF :=
  let r : DB × Nat := match w.pid with
    | some i => (db, i)
    | none => ({ db with next := db.next + 1, wfs := db.wfs ++ [⟨db.next, w.name, w.params⟩] }, db.next)
  let ps := savePorts r.2 r.1 w.ports
  let ss := saveSteps r.2 ps.2 ps.1 w.steps
  (ss.1, { w with ports := ps.2, steps := ss.2, pid := some r.2 })

/-! ### load -/

/-- `loading_context.load_port(id).name` -/
def portName : List PortRow → Nat → String
  | [], _ => ""
  | r :: rs, i => if r.id = i then r.name else portName rs i

def decode (ports : List PortRow) : SVal → AVal
  | .plain v => .plain v
  | .ref i => .port (portName ports i)

def loadPort (r : PortRow) : PortE := ⟨r.name, r.cls, r.params, some r.id⟩

/-- `Step.load` over the `port` and `dependency` tables -/
def loadStepFrom (ports : List PortRow) (deps : List DepRow) (r : StepRow) : StepE :=
  { name := r.name, cls := r.cls, status := r.status,
    params := r.params.map (fun kv => (kv.1, decode ports kv.2)),
    ins := (deps.filter (fun d => d.step == r.id && d.input)).map (fun d => (d.name, portName ports d.port)),
    outs := (deps.filter (fun d => d.step == r.id && !d.input)).map (fun d => (d.name, portName ports d.port)),
    pid := some r.id }

def loadStep (db : DB) (r : StepRow) : StepE := loadStepFrom db.ports db.deps r

/-- `Workflow.load` -/
def loadWf (db : DB) (wid : Nat) : Option WF :=
  match db.wfs.find? (fun r => r.id = wid) with
  | none => none
  | some r => some { name := r.name, params := r.params,
                     ports := (db.ports.filter (fun p => p.wf = wid)).map loadPort,
                     steps := (db.steps.filter (fun s => s.wf = wid)).map (loadStep db),
                     pid := some wid }

def PortE.noId (p : PortE) : PortE := { p with pid := none }
def StepE.noId (s : StepE) : StepE := { s with pid := none }
def WF.noIds (w : WF) : WF := { w with ports := w.ports.map PortE.noId, steps := w.steps.map StepE.noId, pid := none }

/-- every step back in its initial state (`Status.WAITING` = 0) -/
def WF.initial (w : WF) : WF := { w with steps := w.steps.map (fun s => { s with status := 0 }) }

/-- `WorkflowBuilder(deep_copy=True)`: the same structure, built through the loaders of a context that registers no ids and puts
every copied step back into its initial state (`step.status = Status.WAITING`) -/
def copyWf (db : DB) (wid : Nat) : Option WF := (loadWf db wid).map (fun w => w.noIds.initial)

/-! ### hypotheses (all decidable; the correspondence part builds workflows that satisfy them) -/

/-- every id in the database is below `next` -/
def DB.ok (db : DB) : Prop :=
  (∀ r ∈ db.wfs, r.id < db.next) ∧ (∀ r ∈ db.ports, r.id < db.next ∧ r.wf < db.next) ∧
  (∀ r ∈ db.steps, r.id < db.next ∧ r.wf < db.next) ∧ (∀ d ∈ db.deps, d.step < db.next)

/-- nothing of the workflow has been saved yet -/
def WF.fresh (w : WF) : Prop := w.pid = none ∧ (∀ p ∈ w.ports, p.pid = none) ∧ (∀ s ∈ w.steps, s.pid = none)

def portNames (w : WF) : List String := w.ports.map (·.name)

/-- the steps only mention ports of the workflow, and a step is connected to a port at most once (the key of `dependency`) -/
def AVal.portIn (names : List String) : AVal → Prop
  | .port n => n ∈ names
  | .plain _ => True

instance (names : List String) (v : AVal) : Decidable (v.portIn names) := by
  cases v <;> unfold AVal.portIn <;> exact inferInstance

def StepE.wf (names : List String) (s : StepE) : Prop :=
  (∀ c ∈ s.ins ++ s.outs, c.2 ∈ names) ∧ ((s.ins ++ s.outs).map (·.2)).Nodup ∧ (∀ kv ∈ s.params, kv.2.portIn names)

def WF.wf (w : WF) : Prop := ∀ s ∈ w.steps, s.wf (portNames w)

instance (names : List String) (s : StepE) : Decidable (s.wf names) := by unfold StepE.wf; exact inferInstance
instance (w : WF) : Decidable w.wf := by unfold WF.wf; exact inferInstance
instance (w : WF) : Decidable w.fresh := by unfold WF.fresh; exact inferInstance
instance (db : DB) : Decidable db.ok := by unfold DB.ok; exact inferInstance

end SFV.WfStore
