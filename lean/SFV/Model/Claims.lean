/-! # Claiming a producer's re-execution under its request lock (`_synchronize_workflows`, failure_manager.py)

For each request `j` in its list a recovery `p`, **holding `j`'s lock**, first asks `is_recovering(j)` (`check`): if the job
is already rolling back / running / fireable it attaches to that recovery, otherwise it will roll the job back itself:
`_update_request(j)` bumps the version and awaits `scheduler.notify_status(j, ROLLBACK)` — a suspension point — after which the
job counts as recovering (`claim`). `finish j`: the re-execution completed; its outputs may be lost again later (a new epoch).
`Cfg.locked = false` is the variant without the per-request lock. -/
namespace SFV.Claims

structure Cfg where
  locked : Bool
deriving DecidableEq, Repr

structure St where
  holder : Nat → Option Nat      -- lock of request j ↦ recovery holding it
  recovering : Nat → Bool        -- is_recovering(j)
  pend : Nat → Option Nat        -- recovery p has decided to claim request j (between `check` and `claim`)
  claims : Nat → Nat             -- successful claims of j in the current epoch (since it last finished)
  total : Nat → Nat              -- all claims of j (= RecoveryRequest.version - 1)

inductive Act
  | acquire (p j : Nat) | check (p j : Nat) | claim (p : Nat) | release (p j : Nat) | finish (j : Nat)
deriving Repr, DecidableEq

def init : St := ⟨fun _ => none, fun _ => false, fun _ => none, fun _ => 0, fun _ => 0⟩

def step (c : Cfg) (s : St) : Act → Option St
  | .acquire p j => if s.holder j = none then some { s with holder := fun k => if k = j then some p else s.holder k } else none
  | .check p j =>
      if (c.locked = false ∨ s.holder j = some p) ∧ s.pend p = none then
        if s.recovering j then some s                                              -- attach
        else some { s with pend := fun q => if q = p then some j else s.pend q }   -- will claim
      else none
  | .claim p =>
      match s.pend p with
      | some j => some { s with recovering := fun k => if k = j then true else s.recovering k,
                                 claims := fun k => if k = j then s.claims k + 1 else s.claims k,
                                 total := fun k => if k = j then s.total k + 1 else s.total k,
                                 pend := fun q => if q = p then none else s.pend q }
      | none => none
  | .release p j =>
      if s.holder j = some p ∧ s.pend p ≠ some j then some { s with holder := fun k => if k = j then none else s.holder k } else none
  | .finish j =>
      if s.recovering j = true then
        some { s with recovering := fun k => if k = j then false else s.recovering k, claims := fun k => if k = j then 0 else s.claims k }
      else none

inductive Reachable (c : Cfg) : St → Prop
  | init : Reachable c init
  | step {s a s'} : Reachable c s → step c s a = some s' → Reachable c s'

def runActs (c : Cfg) (s : St) : List Act → Option St
  | [] => some s
  | a :: as => match step c s a with
    | some s' => runActs c s' as
    | none => none

end SFV.Claims
