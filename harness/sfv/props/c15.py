"""C15 — each scheduled job gets its own existing working directories."""
from __future__ import annotations

import json
import random

from sfv.framework import Ctx, Property
from sfv.rt import recov
from sfv.rt.par import pmap


def gen_cases(rng: random.Random, quick: bool) -> list[dict]:
    ms = [rng.choice([2, 3, 4]), rng.choice([6, 8, 12])] if quick else [1, 2, 3, 5, 8, 12]
    cases = []
    for m in ms:
        cases.append({"name": f"scatter{m}", "shape": {"kind": "scatter", "m": m}, "plan": [], "max_retries": 4})
        cases.append({"name": f"scatter{m}-fixed-tmp-b", "shape": {"kind": "scatter", "m": m}, "plan": [], "max_retries": 4, "fixed_tmp": ["/b"]})
    cases.append({"name": "pipeline4", "shape": {"kind": "pipeline", "n": 4}, "plan": [], "max_retries": 4})
    m = rng.choice([3, 5])
    el = rng.randrange(m)
    cases.append({"name": f"scatter{m}-reschedule-after-failure", "shape": {"kind": "scatter", "m": m}, "max_retries": 4,
                  "plan": [{"step": "/b", "tag": f"0.{el}", "phase": "execute", "kind": "failstop", "count": 1}]})
    return cases


def judge(case: dict, r: dict) -> list[tuple[str, str]]:
    fails = []
    name = case["name"]
    if r["outcome"] != "ok":
        return [(f"run:{r['outcome']}", f"{name}: {r.get('msg', '')[:300]}")]
    fixed = set()
    for st in case.get("fixed_tmp", []):
        fixed.add(st)
    # (1) existence + registration, observed when the job's command starts
    for job, reg in r["avail"]:
        for d, (registered, exists) in reg.items():
            if not exists:
                fails.append(("job-directory-does-not-exist", f"{name}: {job}: {d} does not exist when the job starts"))
            if not registered:
                fails.append(("job-directory-not-registered", f"{name}: {job}: {d} is not registered in the data manager for the job's location"))
    # (2) distinctness across all schedulings (a re-scheduled job gets new directories too) unless fixed by the step
    seen: dict = {}
    for k, (job, dirs) in enumerate(r["dirs"]):
        step = job.rsplit("/", 1)[0]
        if len(set(dirs)) != 3:
            fails.append(("job-directories-coincide", f"{name}: {job}: {dirs}"))
        for pos, d in enumerate(dirs):
            if pos == 2 and step in fixed:
                continue
            if d in seen and seen[d] != (k, pos):
                fails.append(("directory-shared-between-jobs", f"{name}: {d} given to {job} and to scheduling #{seen[d][0]} ({r['dirs'][seen[d][0]][0]})"))
            seen[d] = (k, pos)
        if step in fixed and not dirs[2].endswith("fixed-" + step.strip("/")):
            fails.append(("fixed-directory-not-honoured", f"{name}: {job}: tmp {dirs[2]}"))
    return fails


class C15(Property):
    pid = "C15"
    title = "Each scheduled job gets its own existing working directories"
    lean_targets = ["SFV.Props.C15", "SFV.Model.Proto"]
    props_files = ["SFV/Props/C15.lean"]
    drivers = ["Drivers/C15.lean"]
    translators = []
    rule = ("real workflows with scattered steps (2..12 concurrent jobs of one step) and a pipeline on the local connector, with and without a "
            "tmp directory fixed by the step, and with a job re-scheduled after a fail-stop failure; observed for every scheduling: the three "
            "directories in the Job, their existence and their registration in the data manager when the job's command starts, pairwise "
            "distinctness across all schedulings; the number of distinct directories is compared with the Lean bookkeeping model on the same "
            "sequence of schedulings.")
    trusted_base = ["uuid4 freshness (random_name) = the model's increasing name supply", "real mkdir / resolve / data manager registry are runtime (observed)",
                    "only the local connector is exercised (no shell-based remote fake in this round)"]
    assumptions = ["random_name() never repeats"]
    technique = "Lean 4 bookkeeping model (exist+registered, distinct unless fixed, for every scheduling sequence) + observation of real scattered runs"
    level_text = "grade B, partial: bookkeeping proved (dirs exist and are registered right after scheduling; generated directories never collide); real file system and registry observed"
    level_note = "Lean kernel; file system, data manager and uuid4 are runtime / trusted"
    quick_budget_s = 600
    min_nontrivial = 4

    def explore(self, ctx: Ctx) -> None:
        quick = ctx.tier == "quick" and ctx.mode != "search"
        cases = gen_cases(ctx.rng, quick)
        lines, meta = [], []
        for case, status, r in recov.run_cases(cases, timeout=300, workers=6):
            replay = {"recovery": case}
            if status != "ok":
                ctx.fail("run:" + status, f"{case['name']}: {str(r)[:300]}", replay)
                continue
            ctx.case({"case": case["name"], "outcome": r["outcome"], "schedulings": len(r.get("dirs", []))}, ("c", case["name"]), case["shape"]["kind"])
            for key, detail in judge(case, r):
                ctx.fail(key, detail, replay)
            if r["outcome"] != "ok":
                continue
            fixed = set(case.get("fixed_tmp", []))
            steps = {}
            reqs = []
            for k, (job, dirs) in enumerate(r["dirs"]):
                step = job.rsplit("/", 1)[0]
                fx = steps.setdefault(step, len(steps)) if step in fixed else None
                reqs.append(f"{k}:1:-:-:{fx if fx is not None else '-'}")
            lines.append("dirs " + " ".join(reqs))
            meta.append((case, r))
        got = ctx.lean("Drivers/C15.lean", lines)
        for g, (case, r) in zip(got, meta):
            g = g.strip()
            real_distinct = len({d for _, dirs in r["dirs"] for d in dirs})
            exp = f"jobs={len(r['dirs'])} distinct={real_distinct}"
            if not g.startswith("ok " + exp):
                ctx.disagree("directory bookkeeping vs model", f"{case['name']}: real {exp}, model `{g}`", {"recovery": case})

    def replay(self, ctx: Ctx, data) -> None:
        rr = data.get("replay") or (data.get("no_longer_checks") or [{}])[0].get("case") or {}
        if "recovery" not in rr:
            return super().replay(ctx, data)
        r = recov.run_case(rr["recovery"])
        print(json.dumps({k: r.get(k) for k in ("outcome", "msg", "dirs", "avail")}, indent=1, default=str)[:6000])
        for key, detail in judge(rr["recovery"], r):
            ctx.fail(key, detail, rr)


PROPERTY = C15()
