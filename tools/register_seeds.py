#!/usr/bin/env python3
"""Copy every confirmed seeded change into seeded/<id>/ (patch.diff, demo, notes.md, meta.json) from tools/seed_results.py.
A seed is registered only when its validation record (tools/seed_validation.json, written by the integrator from
tools/validate_seed.sh runs) says: demo passes on the clean tree, fails with the patch, stable tests still pass."""
import json, os, shutil, sys
here = os.path.dirname(os.path.abspath(__file__))
sys.path.insert(0, here)
from seed_results import SEEDS, SEEDS_B, OBSOLETE  # noqa: E402
val = json.load(open(os.path.join(here, "seed_validation.json")))
root = os.path.join(here, "..", "seeded")
n = 0
ALL = [(k, v, "/work/seed") for k, v in SEEDS.items()] + [(k, v, "/work/seedB") for k, v in SEEDS_B.items()]
for sid, (prop, rel, needs, result), base in sorted(ALL):
    v = val.get(sid)
    src = os.path.join(base, rel)
    if not v or not v.get("ok") or result.endswith("PENDING") or result == "PENDING" or not os.path.isdir(src):
        print("skip", sid, "(not validated yet)" if not (v and v.get("ok")) else "(result pending)")
        continue
    dst = os.path.join(root, sid)
    os.makedirs(dst, exist_ok=True)
    for fn in ("patch.diff", "demo.py", "test_demo.py", "notes.md"):
        if os.path.exists(os.path.join(src, fn)):
            shutil.copy(os.path.join(src, fn), os.path.join(dst, fn))
    meta = {
        "property": prop,
        "needs_to_manifest": needs,
        "confirmed": {"demo_on_clean_tree_exit": v["clean"], "demo_with_patch_exit": v["patched"],
                      "stable_baseline_tests_passing_with_patch": v["tests"],
                      "how": "tools/validate_seed.sh in a scratch worktree of /repo (private HOME; tests/test_cwl_loop.py serially)"},
        "check_result": result,
        "ran": [f"tools/validate_seed.sh {base}/{rel}", f"tools/run_seed.sh {base}/{rel} {prop}"],
        "written_by": "independent sub-agent given only the property text and a scratch worktree of /repo",
    }
    json.dump(meta, open(os.path.join(dst, "meta.json"), "w"), indent=1)
    n += 1
json.dump(OBSOLETE, open(os.path.join(root, "OBSOLETE.json"), "w"), indent=1)
print("registered", n, "seeds")
