"""C21 — the data-location registry answers consistently with its history (streamflow/data/manager.py)."""
from __future__ import annotations

import asyncio
import random
import sys
from pathlib import Path

from streamflow.core.data import DataType
from streamflow.core.deployment import ExecutionLocation
from streamflow.data.manager import DefaultDataManager

from sfv.framework import Ctx, Property
from sfv.rt.hexs import hx

DRIVER = "Drivers/C21.lean"


_LOOP = asyncio.new_event_loop()


class _Ckpt:
    def register(self, data_location):
        pass


class _Deploy:
    def get_connector(self, name):
        return None


class _Context:
    checkpoint_manager = _Ckpt()
    deployment_manager = _Deploy()


def parts(p: str):
    return list(Path(p).parts)


def pp(p: str) -> str:
    ps = parts(p)
    return ",".join(hx(x) for x in ps) if ps else "~"


def prefixes(p: str):
    ps = parts(p)
    out = []
    for i in range(1, len(ps) + 1):
        out.append("/" + "/".join(ps[1:i]) if i > 1 else "/")
    return out


# ------------------------------------------------------------------------------------------------
# reference: the registry without its valid_paths cache, invalidation = the whole subtree on that location
# ------------------------------------------------------------------------------------------------
class RObj:
    __slots__ = ("loc", "path", "valid")

    def __init__(self, loc, path):
        self.loc, self.path, self.valid = loc, path, True


class Ref:
    def __init__(self):
        self.nodes: dict[str, dict[int, list[RObj]]] = {}

    def _put(self, node_path, obj):
        self.nodes.setdefault(node_path, {})
        ents = self.nodes[node_path].setdefault(obj.loc, [])
        if any(o.valid and o.path == obj.path for o in ents):
            return False
        ents.append(obj)
        return True

    def register(self, loc, path):
        obj = RObj(loc, path)
        for q in reversed(prefixes(path)):
            self.nodes.setdefault(q, {})
        for q in reversed(prefixes(path)):
            if not self._put(q, obj if q == path else RObj(loc, q)):
                break
        return obj

    def relate(self, src, dst):
        snapshot = [d for ents in self.nodes.get(src.path, {}).values() for d in ents]     # `get(path=src.path)` is a new list
        for d in snapshot:
            self._put(d.path, dst)
            self._put(dst.path, d)

    def invalidate(self, loc, path):
        if path != "" and path not in self.nodes:
            return "KeyError"
        for q, per in self.nodes.items():
            if q == path or path in ("/", "") or q.startswith(path.rstrip("/") + "/"):
                for o in per.get(loc, []):
                    o.valid = False
        return "ok"

    def get(self, path, loc):
        return sorted(o.path for o in self.nodes.get(path, {}).get(loc, []) if o.valid)


def gen_history(rng: random.Random, nloc: int, depth: int, nops: int, wrapped: bool = False):
    names = ["a", "b", "e", "f"]
    pool = []
    for _ in range(rng.randint(2, 6)):
        d = rng.randint(1, depth)
        pool.append("/" + "/".join(rng.choice(names) for _ in range(d)))
    ops, nreg, rloc = [], 0, []
    inner = set()          # indices of the inner (host side) objects of wrapped registrations: not handed to the caller
    for _ in range(nops):
        r = rng.random()
        if r < 0.45 or nreg < 2:
            p = rng.choice(pool)
            if rng.random() < 0.2:
                p = str(Path(p).parent) if p.count("/") > 1 else p
            l = rng.randrange(nloc)
            if l == 2 and wrapped:
                # location 2 wraps location 0 with the mount /m -> /a: one register_path call registers both ends and relates them
                ops.append(("wreg", 2, "/m" + p, 0, "/a" + p))
                inner.add(nreg + 1)
                rloc += [2, 0]
                nreg += 2
                continue
            ops.append(("reg", l, p))
            rloc.append(ops[-1][1])
            nreg += 1
        elif r < 0.65:
            # relations join copies on DIFFERENT locations (a transfer); what invalidating one of two related paths on the
            # same location should do to the other is not fixed by the property (the code follows the relation)
            a, b = rng.randrange(nreg), rng.randrange(nreg)
            if (rloc[a] != rloc[b] or rng.random() < 0.3) and not (wrapped and (a in inner or b in inner)):
                ops.append(("rel", a, b))
        else:
            p = rng.choice(pool)
            x = rng.random()
            if x < 0.3 and p.count("/") > 1:
                p = str(Path(p).parent)
            elif x < 0.35:
                p = "/"
            elif x < 0.38:
                p = "/zz/y"
            ops.append(("inv", rng.randrange(nloc), p))
    return ops


CORPUS = [
    # DESIGN §6 #12: relate after invalidate of the related path is ignored
    [("reg", 0, "/a/f"), ("reg", 1, "/b/g"), ("rel", 0, 1), ("inv", 1, "/b/g"), ("reg", 1, "/b/g"), ("rel", 0, 2)],
    # DESIGN §6 #21: unbounded recursion
    [("reg", 0, "/e/f"), ("reg", 0, "/e"), ("rel", 0, 1), ("inv", 0, "/e")],
    # a subtree skipped by the invalidation walk
    [("reg", 1, "/b/e/a"), ("reg", 0, "/b"), ("reg", 1, "/b/e/a/f"), ("rel", 1, 0), ("inv", 1, "/")],
    # wrapped location d2 (mount /m -> /a on d0): one call registers both ends
    [("reg", 1, "/x"), ("wreg", 2, "/m/b/f", 0, "/a/b/f"), ("inv", 0, "/a/b/f"), ("wreg", 2, "/m/b/f", 0, "/a/b/f"), ("inv", 2, "/m")],
    [("reg", 0, "/a/b/c"), ("inv", 0, "/a"), ("reg", 0, "/a/b/c"), ("reg", 1, "/a/b"), ("inv", 0, "/a/b/c"), ("inv", 1, "/")],
    [("reg", 0, "/a"), ("reg", 0, "/a"), ("inv", 0, "/a"), ("inv", 0, "/a"), ("reg", 0, "/a"), ("inv", 0, "/zz")],
    [("reg", 0, "/a/f"), ("reg", 0, "/b/g"), ("rel", 0, 1), ("inv", 0, "/a"), ("reg", 0, "/a/f")],
]


class C21(Property):
    pid = "C21"
    title = "The data-location registry answers consistently with its history"
    lean_targets = ["SFV.Props.C21", "SFV.Model.Proto"]
    props_files = ["SFV/Props/C21.lean"]
    drivers = [DRIVER]
    translators = []
    rule = ("random operation histories (register_path, register_relation between earlier registrations, invalidate_location on "
            "registered paths, their ancestors, the root and unknown paths) over path trees of depth 1..4 on 1..3 locations; after "
            "every operation get_data_locations is read for every (node path, location) on the real DefaultDataManager, on the Lean "
            "model of the code as written (driver) and on a reference registry (no valid_paths cache, invalidation = every object of "
            "that location stored in the subtree) = the property monitor; relations join any two registrations (same or different location). Non-trivial = distinct history with an invalidation followed by a "
            "registration or relation.")
    trusted_base = [
        "modelled, not verified: pathlib.Path(p).parts and posixpath.join on normalised absolute paths; dict/list/set semantics; "
        "DataLocation objects as heap cells with a mutable validity flag; `available` events are not modelled",
        "a registration on a wrapped location (mount points, get_inner_path) enters the Lean model as its three primitive steps: register outer, register inner, relate",
    ]
    technique = ("Lean 4 model of the trie with object identities (heap) and the valid_paths cache; an inductive invariant over every "
                 "history (registrations, relations, invalidations); differential correspondence")
    level_text = ("grade A: for every history of registrations, relations and invalidations of the repaired code (fix 5f6015f): the "
                  "valid_paths cache never hides a valid location, so put's test is the cache-free test (registry_refines_spec); "
                  "invalidate_location always returns (invalidate_total), leaves nothing available on that location at or beneath the "
                  "path, touches no object of another location and only clears validity (invalidate_subtree); a registration always "
                  "makes the path available (reregister_available); model compared with the real DefaultDataManager after every "
                  "operation of random histories, the three histories that failed before the fix kept as regression guards")
    level_note = ("Lean kernel, axioms within {propext, Classical.choice, Quot.sound}; hand-written model tied to the code by the "
                  "correspondence check")
    assumptions = ["paths are normalised absolute POSIX paths; one location name per deployment"]
    quick_budget_s = 480          # generous: the machine may be heavily loaded
    min_nontrivial = 30

    def _fail(self, ctx: Ctx, key, detail, replay):
        """known findings are reported a few times per key, so that the failure list keeps room for other kinds"""
        self._per_key[key] = self._per_key.get(key, 0) + 1
        if self._per_key[key] <= 5:
            ctx.fail(key, detail, replay)
        else:
            ctx.count("more:" + key)

    def _run(self, ctx: Ctx, ops, nloc, lines, expect, meta, bucket):
        dm = DefaultDataManager(_Context())
        locs = [ExecutionLocation(name="loc", deployment=f"d{i}", local=False) for i in range(nloc)]
        if any(o[0] == "wreg" for o in ops):
            locs[2] = ExecutionLocation(name="loc", deployment="d2", local=False, mounts={"/m": "/a"}, wraps=locs[0])
        ref = Ref()
        regs, rregs = [], []
        universe = set()
        lines.append("new")
        expect.append("ok")
        meta.append((ops, -1, "new"))
        nontriv, seen_inv = False, False
        for i, op in enumerate(ops):
            if op[0] == "reg":
                _, l, p = op
                regs.append(dm.register_path(locs[l], p))
                rregs.append(ref.register(l, p))
                universe.update(prefixes(p))
                res, rres = "ok", "ok"
                lines.append(f"reg {l} {pp(p)}")
                if seen_inv:
                    nontriv = True
            elif op[0] == "wreg":
                _, l, p, li, pi = op
                regs += [dm.register_path(locs[l], p), None]           # one call: outer + inner registration + relation
                ro, ri = ref.register(l, p), ref.register(li, pi)
                ref.relate(ro, ri)
                rregs += [ro, ri]
                universe.update(prefixes(p))
                universe.update(prefixes(pi))
                res, rres = "ok", "ok"
                k = len(regs) - 2
                lines += [f"reg {l} {pp(p)}", f"reg {li} {pp(pi)}", f"rel {k} {k + 1}"]
                expect += ["ok", "ok"]
                meta += [(ops, i, "wreg"), (ops, i, "wreg")]
                if seen_inv:
                    nontriv = True
            elif op[0] == "rel":
                _, a, b = op
                dm.register_relation(regs[a], regs[b])
                ref.relate(rregs[a], rregs[b])
                res, rres = "ok", "ok"
                lines.append(f"rel {a} {b}")
                if seen_inv:
                    nontriv = True
            else:
                _, l, p = op
                seen_inv = True
                old = sys.getrecursionlimit()
                try:
                    sys.setrecursionlimit(400)
                    dm.invalidate_location(locs[l], p)
                    res = "ok"
                except KeyError:
                    res = "KeyError"
                except RecursionError:
                    res = "RecursionError"
                finally:
                    sys.setrecursionlimit(old)
                rres = ref.invalidate(l, p)
                lines.append(f"inv {l} {pp(p)}")
            expect.append(res)
            meta.append((ops, i, op[0]))
            ctx.count("op:" + op[0] + ("" if res == "ok" else ":" + res))
            if res == "RecursionError":
                self._fail(ctx, "registry:invalidate-recursion", f"invalidate_location({op[1]}, {op[2]!r}) raises RecursionError after {ops[:i]}",
                         {"ops": ops[: i + 1], "nloc": nloc})
                break
            if res != rres:
                ctx.fail("registry:" + op[0] + ":" + res, f"{op} -> {res}, reference {rres}, after {ops[:i]}", {"ops": ops[: i + 1], "nloc": nloc})
                break
            if res == "KeyError":
                continue
            diffs = []
            for q in sorted(universe):
                for l in range(nloc):
                    real = sorted(o.path for o in dm.get_data_locations(q, deployment=f"d{l}", location_name="loc"))
                    want = ref.get(q, l)
                    lines.append(f"get {l} {pp(q)}")
                    expect.append(";".join(pp(x) for x in sorted(real, key=pp)) or "-")
                    meta.append((ops, i, f"get_data_locations({q!r}, d{l})"))
                    if real != want:
                        diffs.append((q, l, real, want))
            # the source location chosen for a transfer is a valid primary copy of that path
            for q in sorted(universe)[:6]:
                for l in range(nloc):
                    src = _LOOP.run_until_complete(dm.get_source_location(q, f"d{l}"))
                    ctx.count("get_source_location:" + ("none" if src is None else "some"))
                    valid = dm.get_data_locations(q, data_type=DataType.PRIMARY)
                    if (src is None) != (not valid) or (src is not None and (src.data_type != DataType.PRIMARY or not any(src is v for v in valid))):
                        self._fail(ctx, "registry:source-location-not-a-valid-primary",
                                   f"after {ops[: i + 1]}: get_source_location({q!r}, d{l}) = "
                                   f"{None if src is None else (src.deployment, src.path, src.data_type.name)}, valid primaries "
                                   f"{[(v.deployment, v.path) for v in valid]}", {"ops": ops[: i + 1], "nloc": nloc})
            if diffs:
                has_rel = any(o[0] in ("rel", "wreg") for o in ops[: i + 1])
                stale = []

                def walk(node, where, l):
                    vp = node.valid_paths.get(f"d{l}", {}).get("loc", set())
                    objs = node.locations.get(f"d{l}", {}).get("loc", [])
                    stale.extend((where, x) for x in vp if not any(o.path == x and o.data_type != DataType.INVALID for o in objs))
                    for tok, ch in node.children.items():
                        walk(ch, where + [tok], l)

                def beneath(q, p):
                    return p == "/" or q == p or q.startswith(p.rstrip("/") + "/")

                key, shown = None, diffs[0]
                if op[0] == "inv":
                    other_loc = [d for d in diffs if d[1] != op[1]]
                    b_extra = [d for d in diffs if d[1] == op[1] and beneath(d[0], op[2]) and [x for x in d[2] if x not in d[3]]]
                    if other_loc:
                        key, shown = "registry:invalidate-touches-other-location", other_loc[0]
                    elif b_extra:
                        key, shown = "registry:invalidate-skips-subtree", b_extra[0]
                else:
                    q, l, real, want = diffs[0]
                    walk(dm.path_mapper._filesystem, [], l)
                    if [x for x in want if x not in real] and not [x for x in real if x not in want] and stale and has_rel:
                        key = "registry:stale-valid-paths-hide-new-location"
                q, l, real, want = shown
                self._fail(ctx, key or "registry:differs-from-reference",
                           f"after {ops[: i + 1]}: get_data_locations({q!r}, d{l}) = {real}, reference {want}; stale valid_paths {stale[:4]}",
                           {"ops": ops[: i + 1], "nloc": nloc})
                break
        ctx.case({"ops": [list(o) for o in ops[:10]], "nloc": nloc}, ("h", nloc, repr(ops)) if nontriv else None, bucket)

    def explore(self, ctx: Ctx) -> None:
        rng = ctx.rng
        self._per_key = {}
        lines, expect, meta = [], [], []
        for ops in CORPUS:
            self._run(ctx, ops, 3 if any(o[0] == "wreg" for o in ops) else 2, lines, expect, meta, "corpus")
            ctx.corpus_replayed += 1
        n = 400 if ctx.tier == "quick" else 5000
        if ctx.mode == "search":
            n *= 3
        for k in range(n):
            if ctx.out_of_time():
                ctx.extra["histories_run"] = k
                if k < 100:
                    ctx.extra["incomplete"] = True
                break
            nloc = rng.randint(1, 3)
            wrapped = nloc == 3 and rng.random() < 0.5
            self._run(ctx, gen_history(rng, nloc, rng.randint(1, 4), rng.randint(3, 14), wrapped), nloc, lines, expect, meta,
                      "random:wrapped" if wrapped else "random")
        got = ctx.lean(DRIVER, lines)
        seen = set()
        for gl, e, (ops, i, what) in zip(got, expect, meta):
            if gl != e and id(ops) not in seen:
                seen.add(id(ops))
                ctx.disagree("model vs DefaultDataManager", f"{what} after {ops[: i + 1]}: code {e!r}, Lean model {gl!r}", {"ops": ops[: i + 1]})

    def replay(self, ctx: Ctx, data) -> None:
        r = data.get("replay") or (data.get("no_longer_checks") or [{}])[0].get("case") or {}
        if "ops" not in r:
            return super().replay(ctx, data)
        ops = [tuple(o) for o in r["ops"]]
        lines, expect, meta = [], [], []
        self._per_key = {}
        self._run(ctx, ops, r.get("nloc", 3), lines, expect, meta, "replay")
        got = ctx.lean(DRIVER, lines)
        for ln, gl, e in zip(lines, got, expect):
            flag = "" if gl == e else "   <-- model differs"
            print(f"{ln:40s} code {e}   model {gl}{flag}")


PROPERTY = C21()
