import SFV.Lemmas.Ledger
import SFV.Lemmas.HW
import SFV.Model.Sched
/-! # C11 — released resources return exactly what was reserved

Same bookkeeping model as C10 (`SFV/Model/Ledger.lean`: one numeric component — cores, memory or one mount point —
over all locations, levels and jobs; status guards generated from `notify_status`). "Every order of notifications,
every repetition" is the quantification over all histories `ops`. Numbers are exact rationals (the binary-float
residue is a Python-side finding, see known_findings.d/C11.jsonl). -/
namespace SFV.C11
open SFV.Gen.Sched SFV.Ledger

/-- **the Hardware-level release** (`hardware_locations[loc] = (hardware_locations[loc] - job_hardware) + storage_usage` in
    `_free_resources`, `Sched.freeLevel` in the model): when it does not raise, cores and memory go down by exactly the
    job's amounts (plus the usage's, which are 0) and every mount point the location's books have goes down by the job's
    total there and up by the measured usage — the step the per-component ledger abstracts -/
theorem free_level_exact (cur jobHw usage r : HW.Hardware)
    (h : (cur.sub jobHw >>= fun d => d.add usage) = .ok r) :
    r.cores = cur.cores - jobHw.cores + usage.cores ∧ r.memory = cur.memory - jobHw.memory + usage.memory ∧
    ∀ μ ∈ HW.mounts cur.storage,
      HW.mountTotal r.storage μ = HW.mountTotal cur.storage μ - HW.mountTotal jobHw.storage μ + HW.mountTotal usage.storage μ := by
  obtain ⟨d, hd, hr⟩ := (HW.bind_eq_ok _ _ _).mp h
  obtain ⟨c1, m1, t1⟩ := HW.sub_totals hd
  have hadd := HW.add_totals_lem d usage r hr
  obtain ⟨c2, m2, t2⟩ := hadd
  refine ⟨by rw [c2, c1], by rw [m2, m1], fun μ hμ => ?_⟩
  rw [t2 μ, t1 μ hμ]

/-- the model's `freeLevel` on one location that has books is exactly that update -/
theorem freeLevel_single (env : Sched.Env) (jobHw cur : HW.Hardware) (lvl : Sched.Level) (s : Sched.St) (ust : HW.StorageMap)
    (hc : Sched.assocGet s.reserved lvl.name = some cur)
    (hu : (if Sched.probeFails env lvl.dep jobHw.storage then .ok [] else Sched.usageDisks env lvl.dep jobHw.storage) = .ok ust) :
    Sched.freeLevel env jobHw [lvl] s =
      match cur.sub jobHw >>= fun d => d.add (HW.mkHardware 0 0 ust) with
      | .ok r => ({ s with reserved := Sched.assocSet s.reserved lvl.name r }, none)
      | .error e => (s, some (.hw e)) := by
  simp only [Sched.freeLevel, hc, hu]
  cases cur.sub jobHw >>= fun d => d.add (HW.mkHardware 0 0 ust) <;> rfl

/-- **the failing-probe branch of `_free_resources`** (`except WorkflowExecutionException: storage_usage = Hardware()`):
    when the disk-usage probe of the location raises, the release still subtracts the job's cores, memory and storage —
    the measured usage is just 0 -/
theorem release_with_failing_probe (cur jobHw r : HW.Hardware)
    (h : (cur.sub jobHw >>= fun d => d.add HW.Hardware.empty) = .ok r) :
    r.cores = cur.cores - jobHw.cores ∧ r.memory = cur.memory - jobHw.memory ∧
    ∀ μ ∈ HW.mounts cur.storage, HW.mountTotal r.storage μ = HW.mountTotal cur.storage μ - HW.mountTotal jobHw.storage μ := by
  obtain ⟨h1, h2, h3⟩ := free_level_exact cur jobHw HW.Hardware.empty r h
  have e0 : HW.Hardware.empty.cores = 0 ∧ HW.Hardware.empty.memory = 0 := by decide +kernel
  have et : ∀ μ, HW.mountTotal HW.Hardware.empty.storage μ = 0 := by
    intro μ
    simp only [HW.Hardware.empty, HW.mkHardware, List.isEmpty_nil, if_true, HW.mountTotal]
    split <;> grind
  refine ⟨by rw [h1, e0.1]; grind, by rw [h2, e0.2]; grind, fun μ hμ => ?_⟩
  rw [h3 μ hμ, et μ]; grind

/-- in the model, a location whose probe fails is released with `storage_usage = Hardware()` -/
theorem freeLevel_probe_fails (env : Sched.Env) (jobHw cur : HW.Hardware) (lvl : Sched.Level) (s : Sched.St)
    (hc : Sched.assocGet s.reserved lvl.name = some cur) (hf : Sched.probeFails env lvl.dep jobHw.storage = true) :
    Sched.freeLevel env jobHw [lvl] s =
      match cur.sub jobHw >>= fun d => d.add HW.Hardware.empty with
      | .ok r => ({ s with reserved := Sched.assocSet s.reserved lvl.name r }, none)
      | .error e => (s, some (.hw e)) := by
  have := freeLevel_single env jobHw cur lvl s [] hc (by simp [hf])
  simpa [HW.Hardware.empty] using this

/-- **a releasing notification subtracts, at every level, exactly what the allocation added** (and adds the measured
    usage there): whatever happened in between, `_free_resources` works from the entries `_allocate_job` recorded -/
theorem release_exact (cap : Loc → Rat) (s : St) (j : Job) (new : Status) (usage : List (Loc × Rat)) (ℓ : Loc)
    (hj : j ∈ s.ids) (hr : releases (s.status j) new = true) :
    (step cap s (.notify j new usage)).reserved ℓ =
      s.reserved ℓ - amountAt (s.alloc j) ℓ + amountAt (usageAt (s.alloc j) usage) ℓ := by
  simp only [step, hj, if_true, hr]
  by_cases hs : statusStored (s.status j) new = true <;> by_cases hu : unlists new = true <;> simp [hs, hu]

/-- allocation followed by the release of the same job restores the reserved amount (plus measured usage) -/
theorem allocate_release_roundtrip (cap : Loc → Rat) (s : St) (j : Job) (entries usage : List (Loc × Rat)) (new : Status)
    (ℓ : Loc) (hg : entries.all (fun e => decide (s.reserved e.1 + e.2 ≤ cap e.1)) = true)
    (hr : releases allocStatus new = true) :
    (step cap (step cap s (.allocate j entries)) (.notify j new usage)).reserved ℓ =
      s.reserved ℓ + amountAt (usageAt entries usage) ℓ := by
  have hs1 : step cap s (.allocate j entries) =
      { s with reserved := fun ℓ => s.reserved ℓ + amountAt entries ℓ,
               ids := if j ∈ s.ids then s.ids else j :: s.ids,
               status := update s.status j allocStatus, alloc := update s.alloc j entries } := by
    simp only [step, hg, if_true]
  have hj : j ∈ (step cap s (.allocate j entries)).ids := by
    rw [hs1]; by_cases h : j ∈ s.ids <;> simp [h]
  have hst : (step cap s (.allocate j entries)).status j = allocStatus := by rw [hs1]; simp [update]
  have hal : (step cap s (.allocate j entries)).alloc j = entries := by rw [hs1]; simp [update]
  rw [release_exact cap _ j new usage ℓ hj (by rw [hst]; exact hr), hal, hs1]
  simp only; grind

/-- a repeated notification of the status the job already has changes neither the reserved amounts, nor the
    statuses, nor the residual -/
theorem notify_same_status_noop (cap : Loc → Rat) (s : St) (j : Job) (usage : List (Loc × Rat)) :
    (step cap s (.notify j (s.status j) usage)).reserved = s.reserved ∧
    (step cap s (.notify j (s.status j) usage)).status = s.status ∧
    (step cap s (.notify j (s.status j) usage)).residual = s.residual := by
  obtain ⟨h1, h2⟩ := same_status (s.status j)
  simp only [step]
  by_cases hj : j ∈ s.ids <;> by_cases hu : unlists (s.status j) = true <;> simp [hj, h1, h2, hu]

/-- **all done ⇒ back to zero**, under the engine protocol: once no allocated job is fireable or running, every
    location's reserved amount equals the measured usage left behind (`residual`); for a component without measured
    usage (cores, memory: `ZeroUsage`) it is exactly 0. Holds for every order and repetition of notifications. -/
theorem all_done_zero_partial (cap : Loc → Rat) (hcap : ∀ ℓ, 0 ≤ cap ℓ) (ops : List Op) (hok : HistoryOk cap init ops)
    (hdone : ∀ j ∈ (run cap init ops).ids, occupying ((run cap init ops).status j) = false) (ℓ : Loc) :
    (run cap init ops).reserved ℓ = (run cap init ops).residual ℓ ∧
    (ZeroUsage ops → (run cap init ops).reserved ℓ = 0) := by
  have hI := inv_run ops (inv_init cap hcap) hok
  have hz : occSum (run cap init ops) ℓ = 0 := by
    simp only [occSum]
    apply sumOver_zero
    intro k hk
    simp [contrib, hdone k hk]
  have hb := hI.books ℓ
  refine ⟨by rw [hb, hz]; grind, fun hzu => ?_⟩
  rw [hb, hz, residual_zero_run ops (fun _ => rfl) hzu ℓ]; grind

/-- **full strength is false** ("regardless of the order of notifications"): after FIREABLE → COMPLETED → RUNNING →
    COMPLETED on one 2-core job every job is done and the reserved cores are −2, not 0 -/
theorem all_done_zero_false :
    ¬ (∀ (cap : Loc → Rat) (ops : List Op) (ℓ : Loc), (∀ ℓ, 0 ≤ cap ℓ) → ZeroUsage ops →
        (∀ j ∈ (run cap init ops).ids, occupying ((run cap init ops).status j) = false) →
        (run cap init ops).reserved ℓ = 0) := by
  intro h
  have := h (fun _ => 2) [.allocate 1 [(0, 2)], .notify 1 .completed [], .notify 1 .running [], .notify 1 .completed []] 0
    (by intro _; decide +kernel) (by simp [ZeroUsage]) (by decide +kernel)
  revert this
  decide +kernel

/-! ### non-vacuity: a protocol-conforming history with a stacked allocation, measured usage, duplicates, ROLLBACK and
    re-allocation after which every job is done -/
def exHistory : List Op :=
  [.allocate 1 [(0, 1), (1, 1)], .allocate 2 [(0, 1), (1, 1)], .notify 2 .running [], .notify 1 .running [],
   .notify 2 .failed [(0, 1/2)], .notify 2 .failed [(0, 1/2)], .notify 2 .rollback [], .allocate 2 [(2, 3)],
   .notify 1 .completed [(1, 1/4)], .notify 2 .cancelled [], .notify 1 .completed [(1, 1/4)]]

example : HistoryOk (fun _ => 4) init exHistory := by decide +kernel
example : (∀ j ∈ (run (fun _ => 4) init exHistory).ids, occupying ((run (fun _ => 4) init exHistory).status j) = false) ∧
    (run (fun _ => 4) init exHistory).reserved 0 = 1/2 ∧ (run (fun _ => 4) init exHistory).reserved 1 = 1/4 ∧
    (run (fun _ => 4) init exHistory).reserved 2 = 0 := by decide +kernel

end SFV.C11
