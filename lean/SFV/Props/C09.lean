import SFV.Lemmas.DbCacheConc
import SFV.Gen.DbCache
/-! # C09 — database reads always reflect the latest writes

`SqliteDatabase` (`streamflow/persistence/sqlite.py`): the cache discipline is read from the source on every run
(`SFV/Gen/DbCache.lean`, written by `harness/sfv/translate/dbcache.py`); the state machine `SFV/Model/DbCache.lean`
is driven by it. The shallow-copy aliasing defect was repaired in the code (commit 21280c5); the theorems below
are about the code as it is now, and the two `…_caught` theorems show that undoing the repair or dropping a
`cache.pop` falsifies them on a concrete history. -/
namespace SFV.C09
open SFV.DbCache

/-- **The generated table satisfies the discipline**: every `update_*` of a table read by a cached getter pops
that getter's cache at the updated id; getters select by their own id argument and return deep copies; getters
sharing a cache read the same table; secondary tables (`recoverable`) are written only together with the fresh
primary row; inserts take fresh ids; nothing else writes. -/
theorem dbcache_table_sound : SFV.Gen.dbSpec.sound = true := by decide

/-- **Cache coherence for every operation history** (inserts, updates, reads, and callers mutating returned
rows, in any order): whatever sits in a cache is the stored row. Stated for every specification satisfying the
discipline, hence for the generated one. -/
theorem cache_coherent (spec : Spec) (hs : spec.sound = true) (s : St) (h : Reachable spec s) :
    ∀ c id r, s.cache c id = some r → ∀ g ∈ spec.getters, g.cache = c → s.db g.table id = some r.erase :=
  (inv_reachable (soundP_of_sound hs) h).coh

/-- the same for the code as it is -/
theorem cache_coherent_now (s : St) (h : Reachable SFV.Gen.dbSpec s) :
    ∀ c id r, s.cache c id = some r → ∀ g ∈ SFV.Gen.dbSpec.getters, g.cache = c → s.db g.table id = some r.erase :=
  cache_coherent _ dbcache_table_sound s h

/-- **Every read returns what an uncached read returns at that point** (and does not write): in every reachable
state, `get_*` answers the stored row — `none` (the `TypeError` of the code) exactly when there is no such row. -/
theorem get_eq_uncached (spec : Spec) (hs : spec.sound = true) (s s' : St) (h : Reachable spec s) (g : Getter)
    (id : Nat) (res : Option Row) (hstep : step spec s (.get g id) = some (s', res)) :
    res.map Row.erase = s.db g.table id ∧ s'.db = s.db := by
  have hS := soundP_of_sound hs
  have hI := inv_reachable hS h
  simp only [step] at hstep
  split at hstep
  · rename_i hg
    have hdeep : g.copy = .deep := (hS.self g hg).2
    split at hstep
    · rename_i rc hrc
      simp only [Option.some.injEq, Prod.mk.injEq] at hstep
      obtain ⟨rfl, rfl⟩ := hstep
      refine ⟨?_, rfl⟩
      simp only [hdeep, copyRow, Option.map_some, fresh_erase]
      exact (hI.coh _ _ _ hrc g hg rfl).symm
    · split at hstep
      · rename_i hnone
        simp only [Option.some.injEq, Prod.mk.injEq] at hstep
        obtain ⟨rfl, rfl⟩ := hstep
        exact ⟨by simp [hnone], rfl⟩
      · rename_i p hp
        simp only [Option.some.injEq, Prod.mk.injEq] at hstep
        obtain ⟨rfl, rfl⟩ := hstep
        refine ⟨?_, rfl⟩
        simp only [hdeep, copyRow, Option.map_some, fresh_erase, hp]
  · cases hstep

/-- **A returned row is a fresh copy**: it shares no object with any cached row nor with any row returned
before … -/
theorem get_returns_fresh_copy (spec : Spec) (hs : spec.sound = true) (s s' : St) (h : Reachable spec s)
    (g : Getter) (id : Nat) (r : Row) (hstep : step spec s (.get g id) = some (s', some r)) :
    (∀ c i rc, s'.cache c i = some rc → ∀ a ∈ rc.addrs, a ∉ r.addrs) ∧
    (∀ ro ∈ s.out, ∀ a ∈ ro.addrs, a ∉ r.addrs) := by
  have hS := soundP_of_sound hs
  have hI := inv_reachable hS h
  have hI' := inv_step hS hI hstep
  have hmem : r ∈ s'.out ∧ ∀ a ∈ r.addrs, s.next ≤ a := by
    simp only [step] at hstep
    split at hstep
    · rename_i hg
      have hdeep : g.copy = .deep := (hS.self g hg).2
      split at hstep
      · simp only [Option.some.injEq, Prod.mk.injEq] at hstep
        obtain ⟨rfl, rfl⟩ := hstep
        refine ⟨by simp, ?_⟩
        simp only [hdeep, copyRow]
        exact fun a ha => (fresh_addrs _ _ a ha).1
      · split at hstep
        · simp at hstep
        · simp only [Option.some.injEq, Prod.mk.injEq] at hstep
          obtain ⟨rfl, rfl⟩ := hstep
          refine ⟨by simp, ?_⟩
          simp only [hdeep, copyRow]
          intro a ha
          have := (fresh_addrs _ _ a ha).1
          have := fresh_lt s.next ‹PRow›
          omega
    · cases hstep
  refine ⟨fun c i rc hc a ha => hI'.disj c i rc hc r hmem.1 a ha, ?_⟩
  intro ro hro a ha hmem'
  have := hI.outLt ro hro a ha
  have := hmem.2 a hmem'
  omega

/-- … so **a caller modifying a returned row (top level or nested) changes neither a cache nor the database**,
and by `get_eq_uncached` no later read. -/
theorem mutation_leaves_cache (spec : Spec) (hs : spec.sound = true) (s s' : St) (h : Reachable spec s)
    (op : Op) (res : Option Row) (hop : (∃ j i v, op = .mutTop j i v) ∨ (∃ j i k v, op = .mutNested j i k v))
    (hstep : step spec s op = some (s', res)) : s'.cache = s.cache ∧ s'.db = s.db := by
  have hI := inv_reachable (soundP_of_sound hs) h
  rcases hop with ⟨j, i, v, rfl⟩ | ⟨j, i, k, v, rfl⟩
  · simp only [step] at hstep
    split at hstep
    · rename_i r hr
      simp only [Option.some.injEq, Prod.mk.injEq] at hstep
      obtain ⟨rfl, _⟩ := hstep
      refine ⟨?_, rfl⟩
      funext c x
      cases hc : s.cache c x with
      | none => simp [hc]
      | some rc =>
        simp only [hc, Option.map_some, Option.some.injEq]
        apply mutTop_of_not_mem
        intro ha
        exact hI.disj c x rc hc r (List.mem_of_getElem? hr) r.addr ha (by simp [Row.addrs])
    · cases hstep
  · simp only [step] at hstep
    split at hstep
    · rename_i r hr
      split at hstep
      · rename_i a items hf
        simp only [Option.some.injEq, Prod.mk.injEq] at hstep
        obtain ⟨rfl, _⟩ := hstep
        refine ⟨?_, rfl⟩
        funext c x
        cases hc : s.cache c x with
        | none => simp [hc]
        | some rc =>
          simp only [hc, Option.map_some, Option.some.injEq]
          apply mutNested_of_not_mem
          intro ha
          have har : a ∈ r.addrs := by
            have hfm : Field.box a items ∈ r.fields := List.mem_of_getElem? hf
            simp only [Row.addrs, List.mem_cons, List.mem_flatMap]
            exact Or.inr ⟨_, hfm, by simp [Field.addrs]⟩
          exact hI.disj c x rc hc r (List.mem_of_getElem? hr) a ha har
      · cases hstep
    · cases hstep

/-! ### the two defect classes falsify the statements on concrete histories -/

def gPort (c : Copy) : Getter := ⟨"get_port", 0, 0, [0], c, true⟩
def uPort (pops : List Nat) : Update := ⟨"update_port", 0, pops, true⟩
def aPort : Insert := ⟨"add_port", 0, [0], true⟩
def specWith (c : Copy) (pops : List Nat) : Spec := ⟨[gPort c], [uPort pops], [aPort], []⟩

/-- values returned by the reads of a history -/
def reads (spec : Spec) (ops : List Op) : Option (List (Option PRow)) :=
  (runFrom spec St.init ops).map (fun r => r.2.map (Option.map Row.erase))

/-- the repaired discipline on this small instance is sound and behaves -/
example : (specWith .deep [0]).sound = true := by decide
example : reads (specWith .deep [0])
    [.add aPort [.atom 1, .box [10, 11]], .get (gPort .deep) 1, .mutNested 0 1 0 99, .mutTop 0 0 7, .get (gPort .deep) 1,
     .update (uPort [0]) 1 [.atom 2, .box [12]], .get (gPort .deep) 1] =
    some [none, some [.atom 1, .box [10, 11]], none, none, some [.atom 1, .box [10, 11]], none, some [.atom 2, .box [12]]] := by
  decide

/-- **reverting the deep copy is caught**: with cachebox's default (shallow) copy, appending to a nested value
of a returned row changes what the next `get_port` returns although the stored row is unchanged -/
theorem shallow_copy_caught :
    (specWith .shallow [0]).sound = false ∧
    reads (specWith .shallow [0])
      [.add aPort [.atom 1, .box [10, 11]], .get (gPort .shallow) 1, .mutNested 0 1 0 99, .get (gPort .shallow) 1] =
    some [none, some [.atom 1, .box [10, 11]], none, some [.atom 1, .box [99, 11]]] := by
  constructor <;> decide

/-- **dropping a `cache.pop` is caught**: the read after the update still returns the old row -/
theorem missing_pop_caught :
    (specWith .deep []).sound = false ∧
    reads (specWith .deep [])
      [.add aPort [.atom 1, .box [10]], .get (gPort .deep) 1, .update (uPort []) 1 [.atom 2, .box [10]], .get (gPort .deep) 1] =
    some [none, some [.atom 1, .box [10]], none, some [.atom 1, .box [10]]] := by
  constructor <;> decide

/-! ### overlapping calls (outside the property's quantifier, which speaks of operation *sequences*)

A cached getter that misses is suspended between its `SELECT` and cachebox's `_cache[key] = result`. -/

/-- values returned by the calls of a history with overlapping reads -/
def creads (spec : Spec) (locked : Bool) (ops : List COp) : Option (List (Option PRow)) :=
  (crunFrom spec locked CSt.init ops).map (fun r => r.2.map (Option.map Row.erase))

/-- **the statement is false for overlapping calls, even with a sound table** (known finding): `get_port(1)`
misses and runs its `SELECT`; `update_port(1, …)` runs to completion (its `pop` finds nothing); the getter resumes
and caches the row it read *before* the update; every later `get_port(1)` returns the old row. -/
theorem concurrent_get_update_stale :
    (specWith .deep [0]).sound = true ∧
    creads (specWith .deep [0]) false
      [.seq (.add aPort [.atom 1, .box [10]]), .getStart (gPort .deep) 1, .seq (.update (uPort [0]) 1 [.atom 2, .box [10]]),
       .getFinish 0, .seq (.get (gPort .deep) 1)] =
    some [none, none, none, some [.atom 1, .box [10]], some [.atom 1, .box [10]]] := by
  constructor <;> decide

/-- the proposed repair (an `update_*` waits while a getter reading its table is in flight) refuses exactly that
interleaving … -/
example : creads (specWith .deep [0]) true
    [.seq (.add aPort [.atom 1, .box [10]]), .getStart (gPort .deep) 1, .seq (.update (uPort [0]) 1 [.atom 2, .box [10]])] = none := by
  decide

/-- … and **with it coherence holds for every history of overlapping calls**: caches agree with the tables and
every suspended read still holds the stored row, so whatever a resumed getter caches and returns is current. -/
theorem cache_coherent_concurrent_partial (spec : Spec) (hs : spec.sound = true) (s : CSt)
    (h : CReachable spec true s) :
    (∀ c id r, s.base.cache c id = some r → ∀ g ∈ spec.getters, g.cache = c → s.base.db g.table id = some r.erase) ∧
    (∀ x ∈ s.pending, s.base.db x.1.table x.2.1 = some x.2.2) :=
  let hI := cinv_reachable (soundP_of_sound hs) h
  ⟨hI.inv.coh, fun x hx => (hI.pend x hx).2⟩

end SFV.C09
