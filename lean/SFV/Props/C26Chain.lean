import SFV.Model.DeployChain
/-! # C26, part B — wraps chains (`SFV/Model/DeployChain.lean`)

The chain model is an executable interpreter with a stack of frames per request (the recursion
`deploy → _deploy → _inner_deploy → _deploy …` and `undeploy → undeploy …`). The theorems below are **bounded-exhaustive
over schedules**: `Chain.exploreAll` enumerates *every* interleaving (and every choice of failing deploy call) of the
stated requests on the stated topology and is evaluated by the Lean kernel (`decide +kernel`). They are theorems about
those scenarios — three deployments, up to three concurrent requests, the property's own bound — not about arbitrary ones. -/
namespace SFV.C26.Chains
open SFV SFV.Chain

/-- the chain `V → W → D` (`V` wraps `W` wraps `D`), all eager: names 2, 1, 0 -/
def chainVWD : List Dep := [⟨none, false, false⟩, ⟨some 0, false, true⟩, ⟨some 1, false, true⟩]
/-- the manager as it is in the source now -/
def codeChain : Chain.Cfg := ⟨false, false, false⟩
/-- `deploy(V)` has completed (it deploys `D`, `W`, `V` in turn) -/
def deployedVWD (c : Chain.Cfg) : Chain.St :=
  (Chain.runActs c chainVWD (initWith [.deploy 2]) [.run 0, .callRet 0 true, .callRet 0 true, .callRet 0 true]).getD {}

set_option maxRecDepth 100000

/-- **FALSE of the code as it is** (`no_undeploy_under_live_wrapper`): `undeploy_all` on the deployed chain; the task
    for `W` strips `W` from `D`'s dependants although `W` is not undeployed, finds them empty and undeploys `D` while `W`
    and `V` are live. The concrete schedule (parent, then the children for `D`, `W`): -/
theorem no_undeploy_under_live_wrapper_false :
    (match Chain.runActs codeChain chainVWD (spawn (deployedVWD codeChain) .undeployAll) [.run 1, .run 2, .run 3] with
     | some s => underLiveWrapper chainVWD s && liveNames s == [1, 2] &&
         calls s == [.connDeployEnter 0, .connDeployExit 0, .connDeployEnter 1, .connDeployExit 1, .connDeployEnter 2,
                     .connDeployExit 2, .connUndeployEnter 0]
     | none => false) = true := by
  decide +kernel

/-- **partial** (repaired: the dependants clean-up is inside the "actually undeployed" branch): in every schedule of
    `undeploy_all` on the deployed chain no wrapped deployment is undeployed under a live wrapper, nothing hangs, and
    every connector is undeployed exactly once -/
theorem no_undeploy_under_live_wrapper_partial :
    exploreAll ⟨true, false, false⟩ chainVWD [] (fun s => !underLiveWrapper chainVWD s)
      (fun s => !stuck s && allUndeployedOnce s) 40 (spawn (deployedVWD ⟨true, false, false⟩) .undeployAll) = true := by
  decide +kernel

/-- … and the same for three concurrent explicit `undeploy(D)`, `undeploy(W)`, `undeploy(V)` requests -/
theorem no_undeploy_under_live_wrapper_partial_explicit :
    exploreAll ⟨true, false, false⟩ chainVWD [] (fun s => !underLiveWrapper chainVWD s) (fun s => !stuck s) 60
      (spawn (spawn (spawn (deployedVWD ⟨true, false, false⟩) (.undeploy 0)) (.undeploy 1)) (.undeploy 2)) = true := by
  decide +kernel

/-- **undeploy_all exactly once** (the code as it is): in every schedule of `undeploy_all` on the deployed chain every live connector is undeployed exactly once and the calls return -/
theorem undeploy_all_exactly_once :
    exploreAll codeChain chainVWD [] (fun _ => true) (fun s => !stuck s && allUndeployedOnce s) 40
      (spawn (deployedVWD codeChain) .undeployAll) = true := by
  decide +kernel

/-- **FALSE of the code as it is** (`failed_deploy_wakes_waiters`): two concurrent `deploy(W)`; the first registers
    `W` and deploys the wrapped `D`, whose `deploy()` raises inside `_inner_deploy`; `W`'s event is never set and the
    second request waits for ever -/
theorem failed_deploy_wakes_waiters_false :
    (match Chain.runActs codeChain chainVWD (initWith [.deploy 1, .deploy 1]) [.run 0, .run 1, .callRet 0 false] with
     | some s => stuck s && (s.tasks.map (·.st)) == [.done false, .blocked 0]
     | none => false) = true := by
  decide +kernel

/-- **partial** (repaired: `_deploy` sets the event when `_inner_deploy` raises): two concurrent requests
    `deploy(W)`, `deploy(W)` where `D`'s or `W`'s `deploy()` may fail: in every schedule every
    request finishes (returns or raises) and no deployment ever has two connectors deploying-or-live -/
theorem failed_deploy_wakes_waiters_partial :
    exploreAll ⟨false, true, false⟩ chainVWD [0, 1] atMostOneActive (fun s => !stuck s) 40
      (initWith [.deploy 1, .deploy 1]) = true := by
  decide +kernel

/-- **deploy at most once while live, chains** (the code as it is): concurrent `deploy(V)` and `deploy(W)` with any deploy
    failure: no deployment ever has two connectors deploying-or-live (requests may hang: finding 8) -/
theorem deploy_at_most_once_while_live_chain :
    exploreAll codeChain chainVWD [0, 1, 2] atMostOneActive (fun _ => true) 40
      (initWith [.deploy 2, .deploy 1]) = true := by
  decide +kernel

end SFV.C26.Chains
