import SFV.Model.JobDirs
import SFV.Model.DirReg
import SFV.Gen.DirRegGuard
import SFV.Model.Proto
open SFV SFV.Proto SFV.JobDirs

/-! `dirs <reqs…>` with one request per scheduling: `<job>:<nlocs>:<fixIn|->:<fixOut|->:<fixTmp|->`
    `reg <dep>.<name>,… <ndirs>` -> `ok registered=<n> per-location=<n,…>`
    -> `ok jobs=<n> distinct=<number of distinct directories> generated=<supply used> cells=<existing (loc,dir) cells>` -/

def optN (w : String) : Option Nat := if w = "-" then none else w.toNat?

def parseReq (w : String) : Option Req :=
  match w.splitOn ":" with
  | [j, n, a, b, c] => match j.toNat?, n.toNat? with
    | some j, some n => some ⟨j, List.range n, 0, optN a, optN b, optN c⟩
    | _, _ => none
  | _ => none

def handle : List String → String
  | "dirs" :: ws =>
      match ws.mapM parseReq with
      | some rs =>
          let s := run rs
          let all := s.jobs.flatMap (·.2)
          s!"ok jobs={s.jobs.length} distinct={all.eraseDups.length} generated={s.next} cells={s.fs.eraseDups.length}"
      | none => "bad-op"
  | ["reg", locs, nd] =>
      -- `reg <dep>.<name>,<dep>.<name>,… <ndirs>`: registration loop with the generated guard on an empty registry
      let ls := (locs.splitOn ",").filterMap (fun w => match w.splitOn "." with
        | [a, b] => match a.toNat?, b.toNat? with
          | some a, some b => some (a, b)
          | _, _ => none
        | _ => none)
      match nd.toNat? with
      | some n =>
          let ds := (List.range n).map (fun k => Dir.gen 0 k)
          let reg := SFV.DirReg.regLoop SFV.Gen.regSameKey [] (SFV.DirReg.cells ls ds)
          let per := ls.map (fun l => (reg.filter (fun c => c.1 == l)).length)
          s!"ok registered={reg.length} per-location={",".intercalate (per.map toString)}"
      | none => "bad-op"
  | _ => "bad-op"

def main : IO Unit := runPure handle
