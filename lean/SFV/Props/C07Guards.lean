import SFV.Lemmas.ProvGuards
/-! # C07 — the persistence-log model is what the source writes

`SFV/Gen/ProvRowGuards.lean` is regenerated from /repo on every run by `harness/sfv/translate/provrowguards.py`: the column and
tuple order of `SqliteDatabase.add_provenance`, the order `token.save` / `add_provenance` in `BaseStep._persist_token` and
its check for unpersisted inputs. These theorems stop compiling when the source stops meaning what `SFV/Model/Prov.lean`
(the subject of `SFV/Props/C07.lean`) says. -/
namespace SFV.C07
open SFV.Prov

/-- the model's `_persist_token` / `token.save` step is the one re-assembled from the extracted pieces: rows are
(dependee := input id, depender := new id), an input that was never persisted makes the call raise -/
theorem persist_model_matches_source (db : DB) (op : Op) : stepSrc db op = step db op :=
  stepSrc_eq_step db op

/-- the token is saved — gets its fresh id — before its provenance rows are written (so the depender id exists and is larger
than every dependee id), and unpersisted inputs are rejected -/
theorem persist_saves_before_provenance :
    Gen.persistSavesBeforeProvenance = true ∧ Gen.persistRejectsUnpersistedInput = true ∧ Gen.provRowDependeeIsInput = true :=
  ⟨rfl, rfl, rfl⟩

example : (stepSrc ⟨3, []⟩ (.persist [1, 2])).map (·.edges) = some [(1, 3), (2, 3)] := by decide
example : (stepSrc ⟨3, []⟩ (.persist [1, 5])).isNone = true := by decide

end SFV.C07
