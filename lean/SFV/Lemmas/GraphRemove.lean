import SFV.Lemmas.Graph
/-! C20: one iteration of the `remove_nodes` loop, the loop invariant, and the exact result. -/
namespace SFV.Graph

section step
variable {prune : Bool} {g : G} {cur : Nat} {rest : List Nat}

theorem removeStep_pk : (removeStep prune g cur rest).1.pk = g.pk.filter (· != cur) := by
  simp [removeStep, G.delNode, predLoop_pk, dropFromPreds_pk]

theorem removeStep_succ_mem (hI : Inv g) (u v : Nat) :
    v ∈ (removeStep prune g cur rest).1.succ u ↔ v ∈ g.succ u ∧ u ≠ cur ∧ v ≠ cur := by
  simp only [removeStep, G.delNode, upd_apply]
  split
  · simp_all
  · rw [predLoop_succ_mem, dropFromPreds_succ, dropFromPreds_pred_mem]
    have := hI.mirror u cur
    grind

theorem removeStep_pred_mem (hI : Inv g) (u v : Nat) :
    v ∈ (removeStep prune g cur rest).1.pred u ↔ v ∈ g.pred u ∧ u ≠ cur ∧ v ≠ cur := by
  simp only [removeStep, G.delNode, upd_apply]
  split
  · simp_all
  · rw [predLoop_pred, dropFromPreds_pred_mem]
    have := hI.mirror cur u
    grind

theorem inv_removeStep (hI : Inv g) : Inv (removeStep prune g cur rest).1 := by
  have hs := removeStep_succ_mem (prune := prune) (cur := cur) (rest := rest) hI
  have hp := removeStep_pred_mem (prune := prune) (cur := cur) (rest := rest) hI
  refine ⟨?_, ?_, ?_, ?_, ?_, ?_⟩
  · rw [removeStep_sk, removeStep_pk, hI.keys]
  · intro u v; rw [hs, hp]; have := hI.mirror u v; grind
  · intro u v h; rw [hs] at h; rw [removeStep_sk]
    have := hI.closed u v h.1; simp; grind
  · rw [removeStep_sk]; exact hI.nodupK.filter _
  · intro u
    simp only [removeStep, G.delNode, upd_apply]
    split
    · simp
    · exact predLoop_nodup _ _ _ _ _ (by rw [dropFromPreds_succ]; exact hI.nodupS) u
  · intro u
    simp only [removeStep, G.delNode, upd_apply]
    split
    · simp
    · rw [predLoop_pred]; exact dropFromPreds_nodup _ _ _ hI.nodupP u

/-- the stack after one iteration -/
theorem removeStep_stack (hI : Inv g) :
    ∃ pushed, (removeStep prune g cur rest).2 = pushed ++ rest ∧
      PushedOk (fun p => prune = true ∧ cur ∈ g.succ p ∧ p ≠ cur) g.succ cur pushed rest ∧
      (prune = true → ∀ p, cur ∈ g.succ p → p ≠ cur → (∀ s ∈ g.succ p, s = cur) →
          p ∈ (removeStep prune g cur rest).2) := by
  obtain ⟨pushed, heq, hsound, hcompl⟩ :=
    predLoop_stack prune cur ((dropFromPreds cur (g.succ cur) g).pred cur) (dropFromPreds cur (g.succ cur) g) rest
  simp only [dropFromPreds_succ] at hsound hcompl
  have hmem : ∀ p, p ∈ (dropFromPreds cur (g.succ cur) g).pred cur ↔ cur ∈ g.succ p ∧ p ≠ cur := by
    intro p; rw [dropFromPreds_pred_mem]
    have := hI.mirror p cur; have := hI.mirror cur cur
    grind
  refine ⟨pushed, heq, ?_, ?_⟩
  · exact pushedOk_congr (fun p h => ⟨h.1, ((hmem p).mp h.2).1, ((hmem p).mp h.2).2⟩) (fun _ _ _ h => h) hsound
  · intro hp p h1 h2 h3
    exact hcompl hp p ((hmem p).mpr ⟨h1, h2⟩) h3

end step

/-- loop invariant of `remove_nodes`, relative to the graph `g0` and target list `T` it was called on -/
structure LInv (prune : Bool) (g0 : G) (T : List Nat) (g : G) (stack removed : List Nat) : Prop where
  inv : Inv g
  keys : ∀ n, n ∈ g.sk ↔ n ∈ g0.sk ∧ n ∉ removed
  succ : ∀ u v, v ∈ g.succ u ↔ v ∈ g0.succ u ∧ u ∉ removed ∧ v ∉ removed
  nodup : removed.Nodup
  sound : (∀ n ∈ removed, Closure prune g0 T n) ∧ (∀ n ∈ stack, n ∈ g0.sk → Closure prune g0 T n)
  targets : ∀ n ∈ T, n ∈ g0.sk → n ∈ removed ∨ n ∈ stack
  dead : prune = true → ∀ p ∈ g.sk, (∃ c ∈ g0.succ p, c ∈ removed) → g.succ p = [] → p ∈ stack

theorem linv_init (prune : Bool) (g : G) (T : List Nat) (hI : Inv g) : LInv prune g T g T.reverse [] := by
  refine ⟨hI, by simp, by simp, by simp, ⟨by simp, ?_⟩, ?_, by simp⟩
  · intro n hn hk; exact .base (by simpa using hn) hk
  · intro n hn _; exact Or.inr (by simpa using hn)

theorem linv_skip {prune g0 T g cur rest removed} (h : LInv prune g0 T g (cur :: rest) removed)
    (hc : cur ∉ g.sk) : LInv prune g0 T g rest removed := by
  obtain ⟨hI, hk, hs, hn, hso, ht, hd⟩ := h
  refine ⟨hI, hk, hs, hn, ⟨hso.1, fun n hn => hso.2 n (List.mem_cons_of_mem _ hn)⟩, ?_, ?_⟩
  · intro n hn hk0
    rcases ht n hn hk0 with h | h
    · exact Or.inl h
    · rcases List.mem_cons.mp h with rfl | h
      · have := hk n; grind
      · exact Or.inr h
  · intro hp p hpk hex hnil
    have := hd hp p hpk hex hnil
    rcases List.mem_cons.mp this with rfl | h
    · exact absurd hpk hc
    · exact h

theorem linv_step {prune g0 T g cur rest removed} (h : LInv prune g0 T g (cur :: rest) removed)
    (hc : cur ∈ g.sk) :
    LInv prune g0 T (removeStep prune g cur rest).1 (removeStep prune g cur rest).2 (removed ++ [cur]) := by
  obtain ⟨hI, hk, hs, hn, hso, ht, hd⟩ := h
  have hs' := removeStep_succ_mem (prune := prune) (cur := cur) (rest := rest) hI
  obtain ⟨pushed, heq, hpsound, hpcompl⟩ := removeStep_stack (prune := prune) (cur := cur) (rest := rest) hI
  have hcur0 : cur ∈ g0.sk ∧ cur ∉ removed := (hk cur).mp hc
  have hcurC : Closure prune g0 T cur := hso.2 cur (by simp) hcur0.1
  have hremC : ∀ n ∈ removed ++ [cur], Closure prune g0 T n := by
    intro n hn; rcases List.mem_append.mp hn with h | h
    · exact hso.1 n h
    · simp at h; subst h; exact hcurC
  refine ⟨inv_removeStep hI, ?_, ?_, ?_, ⟨hremC, ?_⟩, ?_, ?_⟩
  · intro n; rw [removeStep_sk]; simp; have := hk n; grind
  · intro u v; rw [hs', hs]; simp; grind
  · exact List.nodup_append.mpr ⟨hn, by simp, by simp; exact fun a ha e => hcur0.2 (e ▸ ha)⟩
  · -- every stack entry will be removed
    rw [heq]
    have hrest : ∀ n ∈ rest, n ∈ g0.sk → Closure prune g0 T n :=
      fun n hn hk0 => hso.2 n (List.mem_cons_of_mem _ hn) hk0
    have hpushed : ∀ n ∈ pushed, n ∈ g0.sk → Closure prune g0 T n := by
      clear heq hpcompl
      induction pushed with
      | nil => simp
      | cons p post ih =>
        obtain ⟨⟨hp, hcs, hne⟩, hall, hpost⟩ := hpsound
        have ih' := ih hpost
        intro n hn hk0
        rcases List.mem_cons.mp hn with rfl | hn
        · have hcs0 := (hs n cur).mp hcs
          refine .step hp hk0 hcs0.1 ?_
          intro s hs0
          by_cases hsr : s ∈ removed
          · exact hso.1 s hsr
          · by_cases hsc : s = cur
            · subst hsc; exact hcurC
            · have hsg : s ∈ g.succ n := (hs n s).mpr ⟨hs0, hcs0.2.1, hsr⟩
              have hsk0 : s ∈ g0.sk := ((hk s).mp (hI.closed n s hsg).2).1
              rcases List.mem_append.mp (hall s hsg hsc) with h1 | h1
              · exact ih' s h1 hsk0
              · exact hrest s h1 hsk0
        · exact ih' n hn hk0
    intro n hn hk0
    rcases List.mem_append.mp hn with h | h
    · exact hpushed n h hk0
    · exact hrest n h hk0
  · intro n hn hk0
    rcases ht n hn hk0 with h | h
    · exact Or.inl (by simp [h])
    · rcases List.mem_cons.mp h with rfl | h
      · exact Or.inl (by simp)
      · exact Or.inr (by rw [heq]; simp [h])
  · intro hp p hpk hex hnil
    rw [removeStep_sk] at hpk
    simp at hpk
    obtain ⟨c, hc0, hcr⟩ := hex
    by_cases hcp : cur ∈ g.succ p
    · apply hpcompl hp p hcp hpk.2
      intro s hsg
      by_cases hsc : s = cur
      · exact hsc
      · have : s ∈ (removeStep prune g cur rest).1.succ p := (hs' p s).mpr ⟨hsg, hpk.2, hsc⟩
        rw [hnil] at this; simp at this
    · have hnil' : g.succ p = [] := by
        apply List.eq_nil_iff_forall_not_mem.mpr
        intro s hsg
        have hsc : s ≠ cur := fun e => hcp (e ▸ hsg)
        have : s ∈ (removeStep prune g cur rest).1.succ p := (hs' p s).mpr ⟨hsg, hpk.2, hsc⟩
        rw [hnil] at this; simp at this
      have hcr' : c ∈ removed := by
        rcases List.mem_append.mp hcr with h | h
        · exact h
        · simp at h; subst h
          have : c ∈ g.succ p := (hs p c).mpr ⟨hc0, ((hk p).mp hpk.1).2, hcur0.2⟩
          exact absurd this hcp
      have := hd hp p hpk.1 ⟨c, hc0, hcr'⟩ hnil'
      rcases List.mem_cons.mp this with rfl | h
      · exact absurd rfl hpk.2
      · rw [heq]; simp [h]

/-- the whole loop preserves the invariant and ends with an empty stack -/
theorem linv_removeLoop {prune g0 T} (g : G) (stack removed : List Nat)
    (h : LInv prune g0 T g stack removed) :
    LInv prune g0 T (removeLoop prune g stack removed).1 [] (removeLoop prune g stack removed).2 := by
  fun_induction removeLoop prune g stack removed with
  | case1 g removed => exact h
  | case2 g removed cur rest hc r ih => exact ih (linv_step h hc)
  | case3 g removed cur rest hc ih => exact ih (linv_skip h hc)

/-- at the end every node of the closure has been removed -/
theorem linv_complete {prune g0 T g removed} (h : LInv prune g0 T g [] removed) {n : Nat}
    (hc : Closure prune g0 T n) : n ∈ removed := by
  induction hc with
  | base hT hk => rcases h.targets _ hT hk with h | h
                  · exact h
                  · cases h
  | @step p c hp hk hc _ ih =>
    apply Classical.byContradiction
    intro hnr
    have hpk : p ∈ g.sk := (h.keys p).mpr ⟨hk, hnr⟩
    have hnil : g.succ p = [] := by
      apply List.eq_nil_iff_forall_not_mem.mpr
      intro s hs
      exact ((h.succ p s).mp hs).2.2 (ih s ((h.succ p s).mp hs).1)
    have := h.dead hp p hpk ⟨c, hc, ih c hc⟩ hnil
    cases this

end SFV.Graph
