"""C10 — the scheduler never over-allocates a location."""
from __future__ import annotations

from sfv.framework import Ctx, Property
from sfv.rt import schedprop
from sfv.translate import schedguards

SCHED_RULE = ("scenarios on the REAL DefaultScheduler with run-time fake connectors under the controlled event loop: 1..3 deployments x 1..3 "
              "locations, hardware (1..2 mount points, binds) or slot-only locations, wrappers stacked on earlier deployments (depth <= 3), "
              "single- and multi-location targets, 2..6 jobs with dyadic requirements (cores, memory, __outdir__/__tmpdir__ storage), "
              "schedule() calls as tasks, notifications inline or as tasks (RUNNING, COMPLETED, FAILED, CANCELLED, ROLLBACK, RECOVERY, "
              "repeats), adaptive protocol-conforming generator plus out-of-protocol / shared-inner / heterogeneous / decimal classes; "
              "a fixed corpus of 8 witness histories runs first. After every call the property's invariant is evaluated on the real "
              "job_allocations / hardware_locations, and every atomic step (one pass of _process_target's critical section, one "
              "notify_status) is replayed on the Lean model and the full state (hardware_locations, job_allocations incl. hardware, "
              "location_allocations job lists) compared. Non-trivial = distinct (configuration, executed history) with >= 1 allocation.")
SCHED_TRUSTED = [
    "translator harness/sfv/translate/schedguards.py (ast: Status enum, release / store / un-list conditions and notify_all position of "
    "notify_status, _get_running_jobs filter, slot test and default of _is_valid, location-count test of _process_target, allocation "
    "status, Hardware/Storage operators) -> SFV/Gen/SchedGuards.lean",
    "harness fakes (sfv.rt.schedfake: connectors, wrapper, requirement) and the event log of sfv.rt.schedharness (passes are recognised by "
    "the target connector's get_available_locations call inside _process_target; allocations by a recording subclass of DefaultScheduler)",
    "modelled, not verified: asyncio.Condition/Lock semantics (a critical section is atomic w.r.t. scheduler state; FIFO not assumed), the "
    "default policy picks the first valid locations (no FileToken inputs), dict insertion order, exact rational amounts",
    "the link between the Hardware-level model (SFV/Model/Sched.lean, compared with the code) and the per-component ledger "
    "(SFV/Model/Ledger.lean, subject of the invariant theorems) is per-step: alloc_respects_capacity / isValid_hw_level / "
    "isValid_slot_level, add_totals, sub_totals; the whole-run simulation is argued in design_notes, not machine-checked",
]


class C10(Property):
    pid = "C10"
    title = "The scheduler never over-allocates a location"
    lean_targets = ["SFV.Props.C10", "SFV.Model.SchedProto"]
    props_files = ["SFV/Props/C10.lean"]
    drivers = ["Drivers/C10.lean"]
    translators = [schedguards.generate]
    rule = SCHED_RULE
    trusted_base = SCHED_TRUSTED
    technique = ("Lean 4: inductive invariant of the scheduler's bookkeeping for all histories/configurations under the engine protocol, "
                 "negative witness without it; guards translated from notify_status/_get_running_jobs/_is_valid; differential "
                 "correspondence of an executable Hardware-level model with the real DefaultScheduler under a controlled event loop")
    level_text = ("grade A-: never_overallocated_partial / reserved_eq_sum proved for every history, number of locations, stacked level and "
                  "job placement under the engine protocol (per numeric component: cores, memory, each mount point); "
                  "never_overallocated_false: the full-strength statement fails on FIREABLE->COMPLETED->RUNNING->COMPLETED (known finding); "
                  "alloc_respects_capacity: what the (capacity - reserved).satisfies(requirement) test guarantees per level; the guards are "
                  "regenerated from the source each run; the Hardware-level executable model agrees with the real scheduler state after "
                  "every call on every generated history")
    level_note = ("Lean kernel, axioms within {propext, Classical.choice, Quot.sound}; the invariant theorems are about the per-component "
                  "ledger; its correspondence with the code goes through the Hardware-level model (per-step lemmas proved, whole-run "
                  "simulation not machine-checked) and the differential check; asyncio lock semantics are trusted")
    assumptions = ["engine protocol (HistoryOk): a notification never moves a non-occupying job to FIREABLE/RUNNING; a job is re-allocated "
                   "only while not occupying", "levels of the selected locations are distinct locations (no two available locations of a "
                   "target stacked on the same inner location)", "amounts are exact rationals"]
    quick_budget_s = 600

    def explore(self, ctx: Ctx) -> None:
        schedprop.explore(ctx, self.pid)

    def replay(self, ctx: Ctx, data) -> None:
        schedprop.replay(ctx, self.pid, data)


PROPERTY = C10()
