"""C27 — batch jobs complete only after leaving the queue."""
from __future__ import annotations

import asyncio
import json
import logging
import random
import re

from sfv.framework import Inconclusive, REPO, Ctx, Property
from sfv.rt.fakeslurm import TERMINAL, CellProxy, FakeInner, FakeSlurm, VirtualTTLCell
from sfv.rt.loop import run_controlled
from sfv.translate import queueguards

logging.getLogger("streamflow").setLevel(logging.ERROR)

LIVE = ["PENDING", "CONFIGURING", "RUNNING", "SUSPENDED", "COMPLETING", "RESIZING", "REVOKED", "SPECIAL_EXIT"]
KNOWN_UNDEPLOY = "undeploy:raises-on-scheduled-jobs:location-unwrapped-twice"


def gen_case(rng: random.Random, idx: int, virtual: bool, big: bool = False) -> dict:
    n = rng.choice([1, 2, 2, 3, 3, 4, 5, 6]) if not big else rng.randint(3, 6)
    jobs = []
    for i in range(n):
        phases = []
        if rng.random() < 0.8:
            phases.append(["PENDING", rng.choice([0, 0, 1, 3, 8, 14])])
        if rng.random() < 0.15:
            phases.append(["CONFIGURING", rng.choice([0, 1, 4])])
        phases.append(["RUNNING", rng.choice([0, 1, 2, 4, 6, 9, 12, 20, 33])])
        if rng.random() < 0.2:
            phases.append([rng.choice(["SUSPENDED", "RESIZING", "SPECIAL_EXIT", "REVOKED"]), rng.choice([1, 5, 11])])
            phases.append(["RUNNING", rng.choice([0, 2, 7])])
        if rng.random() < 0.6:
            phases.append(["COMPLETING", rng.choice([0, 1, 3, 6, 11])])
        phases.append([rng.choice(["COMPLETED"] * 5 + ["FAILED", "TIMEOUT", "OUT_OF_MEMORY", "NODE_FAIL"]), 0])
        jobs.append({"start": rng.choice([0, 0, 0, 1, 2, 5, 9]), "phases": phases, "out": 1000 + rng.randrange(9000),
                     "rc": rng.choice([0, 0, 0, 1, 2, 127, 137]), "id_gap": rng.choice([0, 0, 0, 3, 95])})
    und = None
    if rng.random() < 0.55:
        und = {"after": rng.choice([0, 0, 1, 2, 4, 7, 12, 25, 60])}
    return {"idx": idx, "virtual": virtual, "n": n, "jobs": jobs, "P": rng.choice([5, 5, 5, 2, 9]),
            "unit": 1.0 if virtual else 0.004, "dseed": rng.randrange(1 << 30), "lseed": rng.randrange(1 << 30),
            "undeploy": und, "inclusive_ttl": rng.random() < 0.7,
            "submit_fail": (rng.randrange(n) if rng.random() < 0.08 else None),
            "delay_scale": rng.choice([0.2, 1, 1, 3])}


def run_case(case: dict) -> dict:
    """drive the REAL SlurmConnector over the fake batch system; returns logs, trace and outcomes"""
    from streamflow.core.deployment import ExecutionLocation
    from streamflow.deployment.connector.queue_manager import SlurmConnector

    unit, P = case["unit"], case["P"]
    slurm = FakeSlurm(unit)
    slurm.scripts = case["jobs"]
    if case.get("submit_fail") is not None:
        slurm.submit_failures = {case["submit_fail"]}
    drng = random.Random(case["dseed"])

    def delays(kind: str) -> float:
        return drng.choice([0, 0, 0.2, 0.7, 1.5, 3, 6]) * unit * case["delay_scale"]

    out: dict = {"results": {}, "undeploy": None, "hang": False}

    async def main():
        slurm.all_submitted, slurm.expect = asyncio.Event(), case["n"]
        inner = FakeInner(slurm, delays)
        conn = SlurmConnector("slurm", "/nonexistent", inner, None, pollingInterval=P * unit, maxConcurrentJobs=16)
        cell = VirtualTTLCell(P * unit, case["inclusive_ttl"]) if case["virtual"] else conn._jobs_cache
        conn._jobs_cache = CellProxy(cell, slurm)
        loc = ExecutionLocation("innerloc/slurmctld", "slurm", wraps=ExecutionLocation("innerloc", "inner"))

        async def one(i: int, start: float):
            await asyncio.sleep(start * unit)
            try:
                r = await conn.run(loc, ["echo", str(i)], job_name=f"job{i}")
                out["results"][i] = {"kind": "ok", "value": list(r), "seq": slurm._ev("returned", i)}
            except Exception as e:  # noqa: BLE001
                out["results"][i] = {"kind": "exc", "type": type(e).__name__, "msg": str(e)[:160], "seq": slurm._ev("raised", i)}

        async def und(after: float):
            await slurm.all_submitted.wait()
            await asyncio.sleep(after * unit)
            before = {"seq": slurm.seq, "queued": sorted(j for j in slurm.jobs if slurm.in_queue(j)),
                      "scheduled": sorted(conn._scheduled_jobs)}
            entry = ["ustart", None, None]
            slurm.trace.append(entry)
            n_sc = sum(1 for e in slurm.log if e[1] == "scancel")
            try:
                await conn.undeploy(False)
                sent = [e for e in slurm.log if e[1] == "scancel"][n_sc:]
                if sent:
                    slurm.act("uend")
                    entry[2] = "cancelling"
                else:
                    entry[2] = "finished"
                out["undeploy"] = {"kind": "ok", "before": before, "scancel": [list(e[2]) for e in sent],
                                   "seq": slurm._ev("undeployed"),
                                   "queued_after": sorted(j for j in slurm.jobs if slurm.in_queue(j))}
            except Exception as e:  # noqa: BLE001
                entry[2] = "raised"
                out["undeploy"] = {"kind": "exc", "type": type(e).__name__, "msg": str(e)[:200], "before": before,
                                   "seq": slurm._ev("undeploy-raised"),
                                   "queued_after": sorted(j for j in slurm.jobs if slurm.in_queue(j))}

        tasks = [asyncio.create_task(one(i, j["start"]), name=f"run{i}") for i, j in enumerate(case["jobs"])]
        if case["undeploy"] is not None:
            tasks.append(asyncio.create_task(und(case["undeploy"]["after"]), name="undeploy"))
        done, pending = await asyncio.wait(tasks, timeout=(4000 * unit if case["virtual"] else case.get("wall", 150)))
        if pending:
            out["hang"] = True
            out["pending"] = sorted(t.get_name() for t in pending)
            for t in pending:
                t.cancel()
        out["final_scheduled"] = sorted(conn._scheduled_jobs)

    try:
        run_controlled(main, case["lseed"], timeout=(None if case["virtual"] else case.get("wall", 150) + 50), virtual_time=case["virtual"])
    except TimeoutError:
        out["hang"] = True
    out["log"] = slurm.log
    out["trace"] = [list(t) for t in slurm.trace]
    out["owner"] = dict(slurm.owner)
    out["jobs"] = {j: {"state": d["state"], "out": d["out"], "rc": d["rc"], "task": d["task"]} for j, d in slurm.jobs.items()}
    out["commands"] = len(slurm.scripts_used)
    return out


def _ids(l) -> str:
    return ",".join(str(i) for i in sorted(int(x) for x in l)) or "-"


def _canon(line: str) -> str:
    """sort the id list a model answer ends with (dict/set order is not observable)"""
    parts = line.strip().split(" ")
    if parts and re.fullmatch(r"\d+(,\d+)*", parts[-1] or ""):
        parts[-1] = _ids(parts[-1].split(","))
    return " ".join(parts)


def protocol(case: dict, res: dict) -> tuple[list[str], list[str]]:
    """the observed real execution as model actions + the observations the model must reproduce"""
    lines, expect = ["reset"], ["ok"]
    got_out: dict = {}

    def j(x):
        return str(x) if x is not None else "999999"

    for name, arg, obs in res["trace"]:
        if name == "res":
            lines.append(f"res {arg} {obs[0]} {obs[1]}"); expect.append("ok")
        elif name in ("submit", "clear", "leave"):
            lines.append(f"{name} {j(arg)}"); expect.append("ok")
        elif name in ("hit", "store"):
            lines.append(f"{name} {j(arg)}"); expect.append("ok*")
        elif name in ("miss", "answer"):
            lines.append(f"{name} {j(arg)}"); expect.append("ok " + _ids(obs))
        elif name == "out":
            got_out[arg] = obs
            lines.append(f"out {j(arg)}"); expect.append(f"ok gotOut {obs if obs is not None else 'none'}")
        elif name == "rc":
            o = got_out.get(arg)
            lines.append(f"rc {j(arg)}")
            expect.append(f"ok done {o if o is not None else 'none'} {obs if obs is not None else 'none'}")
        elif name == "expire":
            lines.append("expire"); expect.append("ok")
        elif name == "ustart":
            lines.append("ustart")
            expect.append({"raised": "ok raised", "finished": "ok finished -", "cancelling": "ok cancelling*", None: "?"}[obs])
        elif name == "scancel":
            lines.append("scancel"); expect.append("ok " + _ids(obs))
        elif name == "uend":
            lines.append("uend"); expect.append("ok finished*")
    for i, r in sorted(res["results"].items()):
        jid = res["owner"].get(f"run{i}")
        if jid is None:
            continue
        lines.append(f"pc {jid}")
        if r["kind"] == "ok":
            o, rc = r["value"]
            m = re.fullmatch(r"OUT-(\d+)", o or "")
            expect.append(f"done {m.group(1) if m else 'none'} {rc}")
        elif r["type"] == "KeyError":
            expect.append("failed")
        else:
            expect.append(f"exc:{r['type']}")
    return lines, expect


def matches(got: str, exp: str) -> bool:
    got = _canon(got)
    if exp.endswith("*"):
        return got.startswith(exp[:-1])
    return got == exp.strip()


class C27(Property):
    pid = "C27"
    title = "Batch jobs complete only after leaving the queue"
    lean_targets = ["SFV.Props.C27", "SFV.Model.Proto"]
    props_files = ["SFV/Props/C27.lean"]
    drivers = ["Drivers/C27.lean"]
    translators = [queueguards.generate]
    rule = ("1..6 concurrent SlurmConnector.run(job_name=…) calls (the REAL connector) over an in-process fake batch system "
            "that interprets the sbatch/squeue/scontrol/cat/scancel command strings; per job a random life cycle "
            "(PENDING/CONFIGURING/RUNNING/SUSPENDED/…/COMPLETING -> terminal state), random start instants, random latencies "
            "of every command, polling interval 2/5/9 ticks, optional undeploy at a random instant after the last submission, "
            "occasional rejected submission; controlled event loop with shuffled ready handles; virtual clock (cache cell = "
            "virtual-clock TTL cell) plus a few real-clock cases with the genuine cachebox TTLCache. Each execution is "
            "(a) monitored against the fake's log (finished => left the queue before; own output/exit code; undeploy cancels "
            "the queued jobs; everything terminates) and (b) replayed action by action on the Lean transition system "
            "(trace inclusion + observations: ids listed by each squeue, its answer, fetched values, outcomes).")
    trusted_base = [
        "translator harness/sfv/translate/queueguards.py (statement order of run(), undeploy's location, squeue command shape)",
        "fake batch system + cache-cell proxy harness/sfv/rt/fakeslurm.py (the batch system is accurate for the ids a query lists; "
        "sbatch's effect and its answer are one instant)",
        "asyncio: code between two awaits is atomic; an uncontended Lock.acquire does not suspend",
        "cachebox.cached / TTLCache (exercised, not modelled beyond: one cell, constant key, expiry at arbitrary instants)",
    ]
    assumptions = ["the queue manager answers accurately for the ids a query lists; a job that left the queue never re-enters it",
                   "undeploy is called after the last submission was issued (a submission racing with scancel is outside the theorem)",
                   "liveness: the cell's TTL equals the polling interval (checked by the translator), so a stale cell is gone at the next poll"]
    technique = ("Lean 4 transition system of run()/undeploy with an inductive invariant over all interleavings + ast translator of the "
                 "statement order + trace-inclusion correspondence of the real SlurmConnector over a fake batch system")
    level_text = ("grade A: safety (finished only after the job left the queue, own output/exit code, exactness of undeploy's cancel "
                  "list) proved for every interleaving of any number of runs, cache expiries and one undeploy; progress of the polling "
                  "loop as enabledness + stability theorems; the clause on undeploy is false of the code as it is (witness + known finding), "
                  "proved for the repaired statement order")
    level_note = ("Lean kernel, axioms within {propext, Classical.choice, Quot.sound}; model = atomic segments between awaits; the batch "
                  "system, cachebox and asyncio are modelled, the real connector is replayed on the model on every run")
    min_nontrivial = 10

    # --------------------------------------------------------------------------------------------
    def _check_case(self, ctx: Ctx, case: dict, lines_acc: list, meta_acc: list) -> None:
        res = run_case(case)
        if res["hang"] and not case["virtual"]:
            # a WALL-CLOCK bound elapsed (real-clock cases only; the virtual-time cases count ticks): never a verdict by itself — re-run the
            # case alone with 5x the bound; completes => "slow under load"; no budget for that => inconclusive, not a violation
            need = 5 * case.get("wall", 150) + 60
            if ctx.time_left() < need:
                raise Inconclusive(f"real-clock case {case['idx']} hit its {case.get('wall', 150)}s bound and the remaining budget "
                                   f"({ctx.time_left():.0f}s) does not allow the confirmation run ({need}s)")
            res2 = run_case(dict(case, wall=5 * case.get("wall", 150)))
            if not res2["hang"]:
                ctx.count("slow-under-load")
                ctx.notes.append(f"slow under load: real-clock case {case['idx']} hit its bound and completed when re-run with 5x the bound")
            res = res2
        log = res["log"]
        n_und = case["undeploy"] is not None
        shape = (case["n"], n_und, tuple(t[0] for t in res["trace"]))
        ctx.case({"case": {k: case[k] for k in ("idx", "virtual", "n", "P", "undeploy")}, "trace_len": len(res["trace"]),
                  "results": {str(k): (v.get("value") or v.get("type")) for k, v in res["results"].items()}},
                 shape if len(res["trace"]) > 6 else None,
                 f"n={case['n']}" + (",undeploy" if n_und else "") + ("" if case["virtual"] else ",realtime"))
        replay = {"case": case}
        leave_seq = {e[2]: e[0] for e in log if e[1] == "leave"}
        cancelled = {j for e in log if e[1] == "scancel" for j in e[3]}
        # (P3) termination
        if res["hang"]:
            ctx.fail("run:hang", f"not finished after {'4000 ticks' if case['virtual'] else 'the wall-clock bound, confirmed by a re-run with 5x the bound,'} "
                                 f"although every job leaves the queue: pending {res.get('pending')}", replay)
        # (P1) finished only after left, with the job's own record
        for i, r in res["results"].items():
            jid = res["owner"].get(f"run{i}")
            if r["kind"] == "ok":
                if jid is None:
                    ctx.fail("run:returned-without-submission", f"run {i} returned {r['value']} but never submitted", replay)
                    continue
                rec = res["jobs"][jid]
                if jid not in leave_seq and jid not in cancelled:
                    ctx.fail("run:finished-before-left", f"run of job {jid} returned {r['value']} while the job is still "
                             f"{rec['state']} in the queue", replay)
                elif jid in leave_seq and leave_seq[jid] > r["seq"]:
                    ctx.fail("run:finished-before-left", f"run of job {jid} returned before the job left the queue", replay)
                if jid not in cancelled and r["value"] != [f"OUT-{rec['out']}", rec["rc"]]:
                    ctx.fail("run:not-own-output", f"run of job {jid} returned {r['value']}, the job's record is "
                             f"OUT-{rec['out']}, {rec['rc']}", replay)
            else:
                und = res["undeploy"]
                if case.get("submit_fail") is not None and jid is None and r["type"] == "WorkflowExecutionException":
                    ctx.count("rejected-submission")
                elif r["type"] == "KeyError" and und and und["kind"] == "ok" and und["scancel"]:
                    ctx.count("run-cancelled-by-undeploy")
                else:
                    ctx.fail("run:raised", f"run {i} (job {jid}) raised {r['type']}: {r['msg']}", replay)
        # (P2) undeploy cancels exactly the queued jobs
        und = res["undeploy"]
        if und is not None:
            b = und["before"]
            if und["kind"] == "exc":
                if und["type"] == "WorkflowExecutionException" and "does not wrap any inner location" in und["msg"] and b["scheduled"]:
                    ctx.fail(KNOWN_UNDEPLOY, f"undeploy with scheduled jobs {b['scheduled']} (queued {b['queued']}) raised "
                             f"{und['type']}: {und['msg']}; still queued afterwards: {und['queued_after']}", replay)
                else:
                    ctx.fail("undeploy:raised", f"undeploy raised {und['type']}: {und['msg']}", replay)
            else:
                left = [j for j in b["queued"] if j in und["queued_after"]]
                if left:
                    ctx.fail("undeploy:queued-job-not-cancelled", f"jobs {left} were queued when undeploy started and still are", replay)
                sent = sorted({j for l in und["scancel"] for j in l})
                returned = [res["owner"].get(f"run{i}") for i, r in res["results"].items() if r["kind"] == "ok" and r["seq"] < b["seq"]]
                bad = [j for j in sent if j in returned]
                if bad:
                    ctx.fail("undeploy:cancels-finished-job", f"scancel was sent for {bad} whose run() had already returned", replay)
                if res["final_scheduled"]:
                    ctx.fail("undeploy:scheduled-not-emptied", f"_scheduled_jobs = {res['final_scheduled']} after undeploy", replay)
        if any(e[1] in ("unparsed", "wrong-location") for e in log):
            bad = [e for e in log if e[1] in ("unparsed", "wrong-location")][0]
            ctx.disagree("fake batch system", f"command not understood / sent to the wrong location: {bad}", replay)
        lines, expect = protocol(case, res)
        lines_acc += lines
        meta_acc += [(case, l, e) for l, e in zip(lines, expect)]

    quick_budget_s = 1500        # room for one confirmation re-run of a real-clock case that hit its wall-clock bound
    thorough_budget_s = 4000

    def explore(self, ctx: Ctx) -> None:
        rng = ctx.rng
        quick = ctx.tier == "quick"
        n_virtual = 500 if quick else 4000
        n_real = 16 if quick else 60
        if ctx.mode == "search":
            n_virtual, n_real = n_virtual * 3, 0
        lines, meta = [], []
        cases = [gen_case(random.Random(1000 + k), k, True) for k in range(12)]      # fixed corpus first
        cases += [gen_case(rng, 100 + k, True, big=(ctx.mode == "search")) for k in range(n_virtual)]
        cases += [gen_case(rng, 100000 + k, False) for k in range(n_real)]
        for case in cases:
            if ctx.out_of_time():
                ctx.extra["incomplete"] = True
                break
            self._check_case(ctx, case, lines, meta)
        # the squeue filter the code uses vs the model's generated constant and the fake's live states
        lines.append("states"); meta.append((None, "states", None))
        lines.append("cfg"); meta.append((None, "cfg", None))
        got = ctx.lean("Drivers/C27.lean", lines)
        bad_cases = set()
        for g, (case, l, e) in zip(got, meta):
            if case is None:
                if l == "states":
                    try:
                        src = queueguards.extract(REPO)["states"]
                    except Exception:  # noqa: BLE001  (already reported by the translate stage)
                        src = None
                    if src is not None and g.split(",") != src:
                        ctx.disagree("squeue -t list", f"model {g} vs source {src}", None)
                    ctx.extra["squeue_states"] = g
                else:
                    ctx.extra["source_cfg"] = g
                continue
            if not matches(g, e) and case["idx"] not in bad_cases:
                bad_cases.add(case["idx"])
                ctx.disagree("real execution is not a run of the model",
                             f"case {case['idx']}: action `{l}`: model says `{g.strip()}`, the real execution shows `{e}`", {"case": case})

    def replay(self, ctx: Ctx, data) -> None:
        r = data.get("replay") or (data.get("no_longer_checks") or [{}])[0].get("case") or {}
        case = r.get("case")
        if not case:
            return super().replay(ctx, data)
        res = run_case(case)
        print("case:", json.dumps(case))
        print("fake batch system log:")
        for e in res["log"]:
            print("  ", e)
        print("results:", json.dumps(res["results"]), "undeploy:", json.dumps(res["undeploy"]))
        lines, expect = protocol(case, res)
        got = ctx.lean("Drivers/C27.lean", lines)
        print("action | model | real")
        for l, g, e in zip(lines, got, expect):
            print(f"   {l:14s} | {g.strip():28s} | {e}" + ("" if matches(g, e) else "    <-- differs"))
        lines_acc, meta = [], []
        self._check_case(ctx, case, lines_acc, meta)
        for l, g, e in zip(lines, got, expect):
            if not matches(g, e):
                ctx.disagree("real execution is not a run of the model", f"`{l}`: model `{g.strip()}` real `{e}`", {"case": case})
                break


PROPERTY = C27()
