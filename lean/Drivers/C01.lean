import SFV.Model.Gather
import SFV.Model.Proto
open SFV SFV.Proto SFV.Gather

/-- `e:<tag>:<id>` | `s:<tag>:<n>` | `ts:<STATUS>` | `te:<STATUS>` -/
def parseEv (w : String) : Option (Ev Nat) :=
  match w.splitOn ":" with
  | ["e", t, v] => do
      let tag ← parseTag t
      let n ← v.toNat?
      pure (.elem ⟨tag, n⟩)
  | ["s", t, v] => do
      let tag ← parseTag t
      let n ← v.toNat?
      pure (.size tag n)
  | ["ts", st] => do
      let s ← Status.parse st
      pure (.term .size s)
  | ["te", st] => do
      let s ← Status.parse st
      pure (.term .elem s)
  | _ => none

def renderTok (t : Tok Nat) : String := renderTag t.tag ++ ":" ++ toString t.val

def renderOut (o : List (Tag × List (Tok Nat))) : String :=
  if o.isEmpty then "-" else
  ";".intercalate (o.map (fun (k, l) => renderTag k ++ "[" ++ ",".intercalate (l.map renderTok) ++ "]"))

def renderSt (s : St Nat) : String :=
  renderOut s.out ++ "|term=" ++ (match s.terminated with | some st => st.render | none => "-")

/-- `l:<tag>:<n>` (list of n elements 0..n-1) | `o:<tag>` | `t:<STATUS>` | `r:<tag>,<tag>…` (restore; `r:-` = no valid tag) -/
def parseSIn (w : String) : Option (SIn Nat) :=
  match w.splitOn ":" with
  | ["l", t, n] => do
      let tag ← parseTag t
      let k ← n.toNat?
      pure (.list tag (List.range k))
  | ["o", t] => (parseTag t).map .other
  | ["t", st] => (Status.parse st).map .term
  | ["r", ts] => if ts = "-" then some (.restore []) else ((ts.splitOn ",").mapM parseTag).map .restore
  | _ => none

def renderSSt (s : SSt Nat) : String :=
  (if s.elems.isEmpty then "-" else ",".intercalate (s.elems.map renderTok)) ++ "|sizes=" ++
  (if s.sizes.isEmpty then "-" else ",".intercalate (s.sizes.map (fun z => renderTag z.1 ++ ":" ++ toString z.2))) ++ "|term=" ++
  (match s.terminated with | some st => st.render | none => "-") ++ (if s.raised then "|raised" else "")

def handle : List String → String
  | ["scatter", t, n] =>
      match parseTag t, n.toNat? with
      | some tag, some k =>
          let (els, sz) := scatter tag (List.range k)
          (if els.isEmpty then "-" else ",".intercalate (els.map renderTok)) ++ "|size=" ++ renderTag sz.1 ++ ":" ++ toString sz.2
      | _, _ => "bad-op"
  | "scatterrun" :: ins =>
      match ins.mapM parseSIn with
      | some es => renderSSt (srun es)
      | none => "bad-op"
  | "scatterprov" :: ins =>
      match ins.mapM parseSIn with
      | some es =>
          let ps := srunProv 0 {} es
          if ps.isEmpty then "-" else ",".intercalate (ps.map (fun p => (if p.2.1 then "size:" else "") ++ renderTag p.1 ++ "<-" ++ toString p.2.2))
      | none => "bad-op"
  | "gatherprov" :: d :: evs =>
      match d.toNat?, evs.mapM parseEv with
      | some depth, some es =>
          let ps := runProv depth {} es
          if ps.isEmpty then "-" else ";".intercalate (ps.map (fun p => renderTag p.key ++ "<-" ++ (if p.sizeReceived then "S" else "F") ++
            "[" ++ ",".intercalate (p.elems.map renderTok) ++ "]"))
      | _, _ => "bad-op"
  | "gather" :: d :: evs =>
      match d.toNat?, evs.mapM parseEv with
      | some depth, some es => renderSt (run depth es)
      | _, _ => "bad-op"
  | _ => "bad-op"

def main : IO Unit := runPure handle
