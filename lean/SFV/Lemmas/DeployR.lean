import SFV.Lemmas.DeployG
/-! With no undeploy request in the system: a deploy request returns only for a deployed connector (eager). -/
namespace SFV.Deploy

attribute [local grind] Obj.active Obj.live Obj.absent Fut.absent

macro "sg" : tactic => `(tactic| first | (simp; done) | (simp; grind) | grind)

/-- the request is (part of) an undeploy -/
def Pc.isU : Pc → Bool
  | .idle .undeploy | .uWait _ | .uWoken | .uConn _ _ | .uFWait _ _ | .uFWoken _ _ => true
  | _ => false

/-- no undeploy anywhere, nothing was ever undeployed, and: event set ⇒ the registered connector is deployed -/
def InvR (s : St) : Prop :=
  (∀ p, (s.pc p).isU = false) ∧
  (∀ o, o < s.nObj → (s.objs o).und = .none) ∧
  (∀ e o, s.evmap = some e → s.evs e = true → s.depmap = some (.eager o) → (s.objs o).dep = .ok) ∧
  (∀ o, s.depmap = some (.eager o) → o < s.nObj) ∧
  -- waiters wait on the current event; once woken it stays set (nobody clears it, nobody re-registers)
  (∀ p e, s.pc p = .dWait e → s.evmap = some e ∧ s.config = true) ∧
  (∀ p, s.pc p = .dWoken → s.config = true ∧ ∀ e, s.evmap = some e → s.evs e = true) ∧
  -- the request deploying a connector is deploying the registered one
  (∀ p o, s.pc p = .dConn o → s.depmap = some (.eager o)) ∧
  (s.config = true → s.evmap ≠ none)

theorem invR_init (lazy kinds) (hk : ∀ p, kinds p ≠ some .undeploy) : InvR (init lazy kinds) := by
  have hpc : ∀ p, (∃ k, (init lazy kinds).pc p = .idle k ∧ k ≠ .undeploy) ∨ (init lazy kinds).pc p = .none := by
    intro p
    simp only [init]
    cases hp : kinds p with
    | none => right; rfl
    | some k => left; exact ⟨k, rfl, by intro e; subst e; exact hk p hp⟩
  refine ⟨?_, by intro o h; simp [init] at h, by intro e o h; simp [init] at h, by intro o h; simp [init] at h, ?_, ?_, ?_, by simp [init]⟩
  · intro p
    rcases hpc p with ⟨k, h, hne⟩ | h
    · rw [h]; cases k <;> simp_all [Pc.isU]
    · rw [h]; rfl
  · intro p e h; rcases hpc p with ⟨k, h', _⟩ | h' <;> rw [h'] at h <;> cases h
  · intro p h; rcases hpc p with ⟨k, h', _⟩ | h' <;> rw [h'] at h <;> cases h
  · intro p o h; rcases hpc p with ⟨k, h', _⟩ | h' <;> rw [h'] at h <;> cases h

theorem isU_setPc {s : St} {p c q} (h : ∀ q, (s.pc q).isU = false) (hc : c.isU = false) : ((setPc s p c).pc q).isU = false := by
  simp only [setPc_pc]; split <;> simp_all

theorem isU_setEvent {s : St} {e q} (h : ∀ q, (s.pc q).isU = false) : ((setEvent s e).pc q).isU = false := by
  have := h q
  simp only [setEvent_pc]
  split <;> (try split) <;> simp_all [Pc.isU]

/-- setting the program counter of `p` to a terminal value -/
theorem invR_setPc_term {s : St} {p c} (h : InvR s) (hc : c = .done ∨ c = .failed ∨ c = .noConn) : InvR (setPc s p c) := by
  obtain ⟨r1, r2, r3, r4, r5, r6, r7, r8⟩ := h
  have hcu : c.isU = false := by rcases hc with rfl | rfl | rfl <;> rfl
  refine ⟨fun q => isU_setPc r1 hcu, by simpa using r2, by simpa using r3, by simpa using r4, ?_, ?_, ?_, by simpa using r8⟩
  · intro q e hq
    simp only [setPc_pc] at hq
    split at hq
    · rcases hc with rfl | rfl | rfl <;> cases hq
    · simpa using r5 q e hq
  · intro q hq
    simp only [setPc_pc] at hq
    split at hq
    · rcases hc with rfl | rfl | rfl <;> cases hq
    · simpa using r6 q hq
  · intro q o hq
    simp only [setPc_pc] at hq
    split at hq
    · rcases hc with rfl | rfl | rfl <;> cases hq
    · simpa using r7 q o hq

theorem invR_finishDeploy {s : St} {p} (h : InvR s) : InvR (finishDeploy s p) := by
  unfold finishDeploy
  split
  · refine invR_setPc_term ?_ (Or.inl rfl)
    obtain ⟨r1, r2, r3, r4, r5, r6, r7, r8⟩ := h
    exact ⟨r1, r2, r3, r4, r5, r6, r7, r8⟩
  · exact invR_setPc_term h (Or.inr (Or.inl rfl))

theorem invR_register {s : St} {p} (hE : InvE s) (h : InvR s) (hl : s.lazy = false) (hc : s.config = false) : InvR (register s p) := by
  obtain ⟨r1, r2, r3, r4, r5, r6, r7, r8⟩ := h
  have hnoD : ∀ q o, s.pc q ≠ .dConn o := by
    intro q o hq
    have := hE.2.2.2.2.2.1 _ (r7 q o hq)
    rw [hc] at this; cases this
  unfold register
  simp only [hl, Bool.false_eq_true, if_false]
  refine ⟨fun q => isU_setPc r1 rfl, ?_, ?_, ?_, ?_, ?_, ?_, by simp⟩
  · intro o ho
    simp at ho ⊢
    split
    · rfl
    · exact r2 o (by omega)
  · intro e o he hs hd
    simp at he hs hd
    subst he
    simp at hs
  · intro o hd
    simp at hd ⊢
    omega
  · intro q e hq
    simp only [setPc_pc] at hq
    split at hq
    · cases hq
    · have := (r5 q e (by simpa using hq)).2; rw [hc] at this; cases this
  · intro q hq
    simp only [setPc_pc] at hq
    split at hq
    · cases hq
    · have := (r6 q (by simpa using hq)).1; rw [hc] at this; cases this
  · intro q o hq
    simp only [setPc_pc] at hq
    split at hq
    · cases hq; simp
    · exact absurd (by simpa using hq) (hnoD q o)

theorem invR_afterWait {s : St} {p} (hE : InvE s) (h : InvR s) (hl : s.lazy = false) : InvR (afterWait s p) := by
  unfold afterWait
  split
  · exact invR_setPc_term h (Or.inr (Or.inl rfl))
  · split
    · exact invR_finishDeploy h
    · rename_i hcf
      exact invR_register hE h hl (by simpa using hcf)

theorem invR_loopHead {s : St} {p} (hE : InvE s) (h : InvR s) (hl : s.lazy = false) : InvR (loopHead s p) := by
  unfold loopHead
  split
  · rename_i hcf
    exact invR_register hE h hl (by simpa using hcf)
  · rename_i hcf
    split
    · exact invR_setPc_term h (Or.inr (Or.inl rfl))
    · rename_i e hev
      split
      · exact invR_afterWait hE h hl
      · -- blocks on the current, unset event
        obtain ⟨r1, r2, r3, r4, r5, r6, r7, r8⟩ := h
        have hcfg : s.config = true := by simpa using hcf
        refine ⟨fun q => isU_setPc r1 rfl, by simpa using r2, by simpa using r3, by simpa using r4, ?_, ?_, ?_, by simpa using r8⟩
        · intro q e' hq
          simp only [setPc_pc] at hq
          split at hq
          · cases hq; exact ⟨by simpa using hev, by simpa using hcfg⟩
          · simpa using r5 q e' hq
        · intro q hq
          simp only [setPc_pc] at hq
          split at hq
          · cases hq
          · simpa using r6 q hq
        · intro q o hq
          simp only [setPc_pc] at hq
          split at hq
          · cases hq
          · simpa using r7 q o hq

theorem invR_useStart {s : St} {p} (hE : InvE s) (h : InvR s) (hl : s.lazy = false) : InvR (useStart s p) := by
  unfold useStart
  split
  · exact invR_setPc_term h (Or.inr (Or.inr rfl))
  · exact invR_setPc_term h (Or.inl rfl)
  · rename_i f hdm
    have := hE.2.1 f hdm
    rw [hl] at this; cases this

/-- `setEvent` of the current event keeps `InvR` provided the registered connector (if any) is deployed -/
theorem invR_setEvent_cur {s : St} {e} (h : InvR s) (hev : s.evmap = some e)
    (hok : ∀ o, s.depmap = some (.eager o) → (s.objs o).dep = .ok) : InvR (setEvent s e) := by
  obtain ⟨r1, r2, r3, r4, r5, r6, r7, r8⟩ := h
  refine ⟨fun q => isU_setEvent r1, by simpa using r2, ?_, by simpa using r4, ?_, ?_, ?_, by simpa using r8⟩
  · intro e' o he' _ hd; exact by simpa using hok o (by simpa using hd)
  · intro q e' hq
    simp only [setEvent_pc] at hq
    split at hq
    · split at hq
      · cases hq
      · rename_i e1 hpc hne; cases hq; simpa using r5 q _ hpc
    · split at hq <;> cases hq
    · rename_i hnd hnu
      have := r5 q e' hq
      simpa using this
  · intro q hq
    simp only [setEvent_pc] at hq
    split at hq
    · split at hq
      · rename_i e1 hpc heq
        subst heq
        have := r5 q _ hpc
        refine ⟨by simpa using this.2, ?_⟩
        intro e' he'
        simp at he'
        rw [this.1] at he'; cases he'; simp
      · cases hq
    · split at hq <;> cases hq
    · have := r6 q hq
      refine ⟨by simpa using this.1, ?_⟩
      intro e' he'
      simp at he' ⊢
      exact Or.inr (this.2 e' he')
  · intro q o hq
    simp only [setEvent_pc] at hq
    split at hq
    · split at hq <;> cases hq
    · split at hq <;> cases hq
    · simpa using r7 q o hq

theorem invR_step {cfg : Cfg} {s a s'} (hE : InvE s) (h : InvR s) (hl : s.lazy = false)
    (hs : step cfg s a = some s') : InvR s' := by
  have h' := h
  obtain ⟨r1, r2, r3, r4, r5, r6, r7, r8⟩ := h
  obtain ⟨h1, h2, h3, h3', ⟨h4, h4b⟩, h5, h6, h7, h8, h9, h10, h11, h12, h13, h14⟩ := hE
  have hE' : InvE s := ⟨h1, h2, h3, h3', ⟨h4, h4b⟩, h5, h6, h7, h8, h9, h10, h11, h12, h13, h14⟩
  cases a with
  | start p =>
    simp only [step] at hs
    split at hs
    · cases hs; exact invR_loopHead hE' h' hl
    · rename_i hpc; have := r1 p; rw [hpc] at this; cases this
    · cases hs; exact invR_useStart hE' h' hl
    · cases hs
  | wake p =>
    simp only [step] at hs
    split at hs
    · cases hs; exact invR_afterWait hE' h' hl
    · rename_i hpc; have := r1 p; rw [hpc] at this; cases this
    · split at hs
      · cases hs; exact invR_setPc_term h' (Or.inl rfl)
      · cases hs; exact invR_setPc_term h' (Or.inr (Or.inl rfl))
    · rename_i f e hpc; have := r1 p; rw [hpc] at this; cases this
    · cases hs
  | connOk p =>
    simp only [step] at hs
    split at hs
    · rename_i o hpc
      obtain ⟨hdep, hfut, hlt⟩ := h10 p o hpc
      have hdm := r7 p o hpc
      split at hs
      · rename_i e hev
        cases hs
        apply invR_finishDeploy
        refine invR_setEvent_cur ?_ (by simpa using hev) ?_
        · -- the object table changes only at `o` (dep := ok)
          refine ⟨by simpa using r1, ?_, ?_, by simpa using r4, by simpa using r5, by simpa using r6, by simpa using r7, by simpa using r8⟩
          · intro o' ho'
            simp at ho' ⊢
            split
            · rename_i heq; subst heq; exact r2 _ hlt
            · exact r2 o' ho'
          · intro e' o' he' hs' hd'
            simp at he' hs' hd' ⊢
            rw [hdm] at hd'; cases hd'; simp
        · intro o' hd'
          simp at hd' ⊢
          rw [hdm] at hd'; cases hd'; simp
      · cases hs
    · rename_i o own hpc; have := r1 p; rw [hpc] at this; cases this
    · rename_i f o hpc
      have := (h13 p f o hpc).2.2
      rw [hl] at this; cases this
    · cases hs
  | connFail p =>
    simp only [step] at hs
    split at hs
    · rename_i o hpc
      obtain ⟨hdep, hfut, hlt⟩ := h10 p o hpc
      have hdm := r7 p o hpc
      split at hs
      · rename_i e hev
        split at hs
        · rename_i hnone; rw [hdm] at hnone; simp at hnone
        · cases hs
          have hq_of : ∀ q c, q ≠ p → (setPc (setEvent (setObj { s with depmap := none } o { s.objs o with dep := .failed }) e) p .failed).pc q = c →
              (s.pc q = c ∧ (c ≠ .dWoken ∧ c ≠ .uWoken)) ∨ (c = .dWoken ∧ s.pc q = .dWait e) ∨ (c = .dWoken ∧ s.pc q = .dWoken) ∨
              (c = .uWoken) := by
            intro q c hne hq
            simp only [setPc_pc, hne, if_false, setEvent_pc, setObj_pc] at hq
            split at hq
            · split at hq
              · rename_i e1 hp1 heq; subst heq; cases hq; exact Or.inr (Or.inl ⟨rfl, hp1⟩)
              · rename_i e1 hp1 hne1; cases hq; exact Or.inl ⟨hp1, ⟨by simp, by simp⟩⟩
            · split at hq <;> (cases hq; first | exact Or.inr (Or.inr (Or.inr rfl)) | (rename_i e1 hp1 _; exact Or.inl ⟨hp1, ⟨by simp, by simp⟩⟩))
            · rename_i hnd hnu
              by_cases hw : c = .dWoken
              · subst hw; exact Or.inr (Or.inr (Or.inl ⟨rfl, hq⟩))
              · by_cases hu : c = .uWoken
                · exact Or.inr (Or.inr (Or.inr hu))
                · exact Or.inl ⟨hq, ⟨hw, hu⟩⟩
          refine ⟨fun q => isU_setPc (fun q => isU_setEvent (fun q => by simpa using r1 q)) rfl, ?_, ?_, ?_, ?_, ?_, ?_, by simpa using r8⟩
          · intro o' ho'
            simp at ho' ⊢
            split
            · rename_i heq; subst heq; exact r2 _ hlt
            · exact r2 o' ho'
          · intro e' o' he' hs' hd'; simp at hd'
          · intro o' hd'; simp at hd'
          · intro q e' hq
            by_cases hqp : q = p
            · subst hqp; simp at hq
            · rcases hq_of q _ hqp hq with ⟨h1', _⟩ | ⟨h1', _⟩ | ⟨h1', _⟩ | h1'
              · have := r5 q e' h1'; simpa using this
              · cases h1'
              · cases h1'
              · cases h1'
          · intro q hq
            by_cases hqp : q = p
            · subst hqp; simp at hq
            · have hcfg : ∀ e', (setPc (setEvent (setObj { s with depmap := none } o { s.objs o with dep := .failed }) e) p .failed).evmap = some e' →
                  (setPc (setEvent (setObj { s with depmap := none } o { s.objs o with dep := .failed }) e) p .failed).evs e' = true := by
                intro e' he'; simp at he' ⊢; rw [hev] at he'; cases he'; exact Or.inl rfl
              rcases hq_of q _ hqp hq with ⟨h1', h2'⟩ | ⟨_, h1'⟩ | ⟨_, h1'⟩ | h1'
              · exact absurd rfl h2'.1
              · exact ⟨by simpa using (r5 q e h1').2, hcfg⟩
              · exact ⟨by simpa using (r6 q h1').1, hcfg⟩
              · cases h1'
          · intro q o' hq
            by_cases hqp : q = p
            · subst hqp; simp at hq
            · rcases hq_of q _ hqp hq with ⟨h1', _⟩ | ⟨h1', _⟩ | ⟨h1', _⟩ | h1'
              · have hq' := r7 q o' h1'
                rw [hdm] at hq'; cases hq'
                exact absurd (h11 q p o h1' hpc) hqp
              · cases h1'
              · cases h1'
              · cases h1'
      · cases hs
    · rename_i f o hpc
      have := (h13 p f o hpc).2.2
      rw [hl] at this; cases this
    · cases hs

theorem invR_reachable {cfg : Cfg} {kinds s} (hk : ∀ p, kinds p ≠ some .undeploy) (h : Reachable cfg false kinds s) : InvR s := by
  induction h with
  | init => exact invR_init false kinds hk
  | step hr hs ih => exact invR_step (invE_reachable hr) ih (lazy_reachable hr) hs

end SFV.Deploy
