"""Extractor: the shape of QueueManagerConnector.run / undeploy and SlurmConnector._get_running_jobs
(streamflow/deployment/connector/queue_manager.py) -> SFV/Gen/QueueGuards.lean

What is read (semantic anchors, not line numbers):
* run(): after `job_id = await self._run_batch_command(...)` the very next statement registers the id
  (`self._scheduled_jobs[job_id] = location`); whether a `async with self._jobs_cache_lock: self._jobs_cache.clear()`
  follows before the polling loop (-> `clearsCache`); the polling loop is
  `while True: async with lock: running = await self._get_running_jobs(location); if job_id not in running: break;
  await asyncio.sleep(self.pollingInterval)`; `self._scheduled_jobs.pop(job_id)` comes after the loop and before the
  output / return code are fetched for the same `job_id`.
* undeploy(): which location object is kept in `loc_map` and handed to `_remove_jobs` (-> `passInner`), and that
  `_scheduled_jobs` is emptied after the cancellations.
* SlurmConnector._get_running_jobs: constant cache key, `-j ",".join(self._scheduled_jobs.keys())`, the `-t` state list.
Any other shape raises TranslateError (broken tie)."""
from __future__ import annotations

import ast
import os

from sfv.translate.expr import TranslateError, find_nodes, parse_function

TARGET = "SFV/Gen/QueueGuards.lean"
SRC = "streamflow/deployment/connector/queue_manager.py"


def _u(n) -> str:
    return ast.unparse(n).replace(" ", "").replace('"', "'")


def _is_lock_with(n) -> bool:
    return (isinstance(n, ast.AsyncWith) and len(n.items) == 1 and _u(n.items[0].context_expr) == "self._jobs_cache_lock")


def extract(repo: str) -> dict:
    path = os.path.join(repo, SRC)
    run = parse_function(path, "run", "QueueManagerConnector")
    top = [s for s in run.body if isinstance(s, ast.If) and _u(s.test) == "job_name"]
    if len(top) != 1:
        raise TranslateError("run: `if job_name:` branch not found")
    body = top[0].body
    idx = [i for i, s in enumerate(body) if isinstance(s, ast.Assign) and _u(s.targets[0]) == "job_id"
           and _u(s.value).startswith("awaitself._run_batch_command(")]
    if len(idx) != 1:
        raise TranslateError("run: `job_id = await self._run_batch_command(...)` not found exactly once")
    rest = [s for s in body[idx[0] + 1:] if not (isinstance(s, ast.If) and "logger" in _u(s.test))]
    if not rest or not (isinstance(rest[0], ast.Assign) and _u(rest[0].targets[0]) == "self._scheduled_jobs[job_id]"):
        raise TranslateError("run: the statement after the submission is not `self._scheduled_jobs[job_id] = location` "
                             f"(found `{ast.unparse(rest[0])[:80] if rest else 'nothing'}`)")
    rest = rest[1:]
    clears = False
    if rest and _is_lock_with(rest[0]):
        w = rest[0]
        if len(w.body) == 1 and _u(w.body[0]) == "self._jobs_cache.clear()":
            clears = True
            rest = rest[1:]
        else:
            raise TranslateError("run: unexpected body under the jobs-cache lock before the polling loop")
    if not rest or not (isinstance(rest[0], ast.While) and _u(rest[0].test) == "True" and not rest[0].orelse):
        raise TranslateError("run: `while True:` polling loop not found after registration / cache clear")
    loop = rest[0].body
    if len(loop) != 3:
        raise TranslateError(f"run: polling loop has {len(loop)} statements, expected 3")
    w, test, sleep = loop
    if not (_is_lock_with(w) and len(w.body) == 1 and isinstance(w.body[0], ast.Assign)
            and _u(w.body[0].value) == "awaitself._get_running_jobs(location)"):
        raise TranslateError("run: the poll is not `async with self._jobs_cache_lock: x = await self._get_running_jobs(location)`")
    running = _u(w.body[0].targets[0])
    if not (isinstance(test, ast.If) and _u(test.test) == f"job_idnotin{running}" and len(test.body) == 1
            and isinstance(test.body[0], ast.Break) and not test.orelse):
        raise TranslateError(f"run: loop exit test is `{ast.unparse(test.test)}`, expected `job_id not in {running}`: break")
    if _u(sleep) != "awaitasyncio.sleep(self.pollingInterval)":
        raise TranslateError("run: loop does not sleep `self.pollingInterval` between polls")
    rest = rest[1:]
    if not rest or _u(rest[0]) != "self._scheduled_jobs.pop(job_id)":
        raise TranslateError("run: `self._scheduled_jobs.pop(job_id)` does not follow the polling loop")
    if len(rest) != 2 or not isinstance(rest[1], ast.Return):
        raise TranslateError("run: expected a single `return (output, returncode)` after the pop")
    ret = _u(rest[1].value)
    if "awaitself._get_output(job_id,location)" not in ret or "awaitself._get_returncode(job_id,location)" not in ret:
        raise TranslateError("run: result is not built from _get_output(job_id, …) and _get_returncode(job_id, …)")
    if ret.index("_get_output") > ret.index("_get_returncode"):
        raise TranslateError("run: return code fetched before the output")
    # ---- __init__: TTL of the cache cell = polling interval ---------------------------------------
    init = parse_function(path, "__init__", "QueueManagerConnector")
    ttl = [s for s in ast.walk(init) if isinstance(s, ast.Call) and _u(s.func) == "TTLCache"]
    if len(ttl) != 1 or "maxsize=1" not in _u(ttl[0]) or "global_ttl=self.pollingInterval" not in _u(ttl[0]):
        raise TranslateError("__init__: jobs cache is not `TTLCache(maxsize=1, global_ttl=self.pollingInterval)`")
    # ---- undeploy ----------------------------------------------------------------------------------
    und = parse_function(path, "undeploy", "QueueManagerConnector")
    loops = [s for s in und.body if isinstance(s, ast.For) and _u(s.iter) == "self._scheduled_jobs.items()"]
    if len(loops) != 1:
        raise TranslateError("undeploy: loop over self._scheduled_jobs.items() not found")
    job_var, loc_var = (_u(e) for e in loops[0].target.elts)
    inner_var = None
    for s in loops[0].body:
        if isinstance(s, ast.Assign) and _u(s.value) == f"get_inner_location({loc_var})":
            inner_var = _u(s.targets[0])
    setd = [c for c in find_nodes(loops[0], ast.Call) if _u(c.func) == "loc_map.setdefault"]
    jobs_app = [c for c in find_nodes(loops[0], ast.Call) if _u(c.func).startswith("jobs_map.setdefault(") and _u(c.func).endswith(".append")]
    if len(setd) != 1 or len(setd[0].args) != 2 or len(jobs_app) != 1 or _u(jobs_app[0].args[0]) != job_var:
        raise TranslateError("undeploy: jobs_map / loc_map construction not recognised")
    kept = _u(setd[0].args[1])
    if kept == inner_var:
        pass_inner = True
    elif kept == loc_var:
        pass_inner = False
    else:
        raise TranslateError(f"undeploy: loc_map keeps `{kept}`, neither the job's location nor its inner location")
    calls = [c for c in find_nodes(und, ast.Call) if _u(c.func) == "self._remove_jobs"]
    if len(calls) != 1 or _u(calls[0].args[0]) != "loc_map[location]" or _u(calls[0].args[1]) != "jobs":
        raise TranslateError("undeploy: `self._remove_jobs(loc_map[location], jobs)` not found")
    pos_gather = [i for i, s in enumerate(und.body) if "self._remove_jobs" in _u(s)]
    pos_reset = [i for i, s in enumerate(und.body) if _u(s) == "self._scheduled_jobs={}"]
    if len(pos_reset) != 1 or not pos_gather or pos_reset[0] < pos_gather[0]:
        raise TranslateError("undeploy: `self._scheduled_jobs = {}` does not follow the cancellations")
    # what _remove_jobs / QueueManagerConnector.run do with the location they get
    rem = parse_function(path, "_remove_jobs", "SlurmConnector")
    if "super().run(location=location,command=['scancel',''.join(jobs)]" not in _u(rem).replace("\n", ""):
        raise TranslateError("SlurmConnector._remove_jobs: not `super().run(location=location, command=['scancel', ' '.join(jobs)])`")
    else_branch = top[0].orelse
    if len(else_branch) != 1 or "super().run(location=get_inner_location(location)," not in _u(else_branch[0]).replace("\n", ""):
        raise TranslateError("run: the non-batch branch does not unwrap the location with get_inner_location")
    # ---- SlurmConnector._get_running_jobs ----------------------------------------------------------
    with open(path) as f:
        tree = ast.parse(f.read())
    km = [n for n in tree.body if isinstance(n, ast.FunctionDef) and n.name == "_const_key_maker"]
    if len(km) != 1 or not (len(km[0].body) == 1 and isinstance(km[0].body[0], ast.Return)
                            and isinstance(km[0].body[0].value, ast.Constant)):
        raise TranslateError("_const_key_maker does not return a constant")
    grj = parse_function(path, "_get_running_jobs", "SlurmConnector")
    deco = [_u(d) for d in grj.decorator_list]
    if len(deco) != 1 or not deco[0].startswith("cached(cache=lambdaself:self._jobs_cache,key_maker=_const_key_maker"):
        raise TranslateError("SlurmConnector._get_running_jobs is not cached in self._jobs_cache under the constant key")
    cmd = [s for s in grj.body if isinstance(s, ast.Assign) and _u(s.targets[0]) == "command"]
    if len(cmd) != 1 or not isinstance(cmd[0].value, ast.List):
        raise TranslateError("_get_running_jobs: `command = [...]` not found")
    elts = cmd[0].value.elts
    words = [e.value if isinstance(e, ast.Constant) else None for e in elts]
    if words[:3] != ["squeue", "-h", "-j"] or _u(elts[3]) != "','.join(self._scheduled_jobs.keys())" or words[4] != "-t":
        raise TranslateError("_get_running_jobs: command is not `squeue -h -j <all scheduled ids> -t <states> …`")
    st = elts[5]
    if not (isinstance(st, ast.Call) and _u(st.func) == "','.join" and isinstance(st.args[0], ast.List)
            and all(isinstance(e, ast.Constant) and isinstance(e.value, str) for e in st.args[0].elts)):
        raise TranslateError("_get_running_jobs: `-t` argument is not a literal list of state names")
    states = [e.value for e in st.args[0].elts]
    if words[6:] != ["-O", "JOBID"]:
        raise TranslateError("_get_running_jobs: output format is not `-O JOBID`")
    if "return[j.strip()forjinstdout.strip().splitlines()]" not in _u(grj).replace("\n", ""):
        raise TranslateError("_get_running_jobs: result is not the stripped lines of squeue's output")
    return {"clearsCache": clears, "passInner": pass_inner, "states": states}


def generate(repo: str) -> tuple[str, str]:
    d = extract(repo)
    b = lambda x: "true" if x else "false"  # noqa: E731
    states = ", ".join(f'"{s}"' for s in d["states"])
    text = f"""import SFV.Model.Queue
/-! GENERATED by harness/sfv/translate/queueguards.py from {SRC} — do not edit. -/
namespace SFV.Gen

/-- shape facts of `QueueManagerConnector.run` / `undeploy` as they are in the source now -/
def queueCfg : SFV.Queue.Cfg := {{ clearsCache := {b(d['clearsCache'])}, passInner := {b(d['passInner'])} }}

/-- the `-t` filter of `SlurmConnector._get_running_jobs` -/
def slurmQueryStates : List String := [{states}]

end SFV.Gen
"""
    return TARGET, text
