import SFV.Model.SourceLoc
/-! Lemmas about the `get_source_location` task model, used by `SFV.Props.C21`. -/
namespace SFV.SourceLoc

theorem advance_good (sh : Shape) (hall : ∀ b, sh.recheck b = true) (h : Heap) (c : List (Branch × Nat)) :
    (∀ i, advance sh h c = .done (some i) → validPrimary h i) ∧
    (∀ cm c', advance sh h c = .waiting cm c' → cm = false ∧ ∀ x ∈ c, x ∈ c' ∨ lost h x.2) ∧
    (advance sh h c = .done none → ∀ x ∈ c, lost h x.2) := by
  induction c with
  | nil =>
    refine ⟨?_, ?_, ?_⟩
    · intro i hd; simp [advance] at hd
    · intro cm c' hd; simp [advance] at hd
    · intro _ x hx; cases hx
  | cons a rest ih =>
    obtain ⟨b, i⟩ := a
    obtain ⟨ih1, ih2, ih3⟩ := ih
    have hlost_none : h[i]? = none → lost h i := by intro hn l hl; rw [hn] at hl; cases hl
    unfold advance
    cases hl : h[i]? with
    | none =>
      simp only
      refine ⟨ih1, ?_, ?_⟩
      · intro cm c' hd
        obtain ⟨h1, h2⟩ := ih2 cm c' hd
        refine ⟨h1, ?_⟩
        intro x hx
        rcases List.mem_cons.mp hx with rfl | hx
        · exact Or.inr (hlost_none hl)
        · exact h2 x hx
      · intro hd x hx
        rcases List.mem_cons.mp hx with rfl | hx
        · exact hlost_none hl
        · exact ih3 hd x hx
    | some l =>
      simp only [hall b, if_true]
      by_cases hav : l.avail = true
      · simp only [hav, if_true]
        by_cases hp : l.dtype = .primary
        · simp only [hp, if_true]
          refine ⟨?_, ?_, ?_⟩
          · intro j hd
            cases hd
            exact ⟨l, hl, hp, hav⟩
          · intro cm c' hd; cases hd
          · intro hd; cases hd
        · simp only [hp, if_false]
          have hli : lost h i := by intro l' hl'; rw [hl] at hl'; cases hl'; exact hp
          refine ⟨ih1, ?_, ?_⟩
          · intro cm c' hd
            obtain ⟨h1, h2⟩ := ih2 cm c' hd
            refine ⟨h1, ?_⟩
            intro x hx
            rcases List.mem_cons.mp hx with rfl | hx
            · exact Or.inr hli
            · exact h2 x hx
          · intro hd x hx
            rcases List.mem_cons.mp hx with rfl | hx
            · exact hli
            · exact ih3 hd x hx
      · simp only [hav]
        refine ⟨?_, ?_, ?_⟩
        · intro j hd; simp at hd
        · intro cm c' hd
          simp at hd
          obtain ⟨rfl, rfl⟩ := hd
          exact ⟨rfl, fun x hx => Or.inl hx⟩
        · intro hd; simp at hd

theorem returned_good (sh : Shape) (hall : ∀ b, sh.recheck b = true) (hs : List Heap) :
    ∀ (c : List (Branch × Nat)) (r : Option Nat) (h : Heap), returnedAt sh (.waiting false c) hs = some (r, h) →
      h ∈ hs ∧ (∀ i, r = some i → validPrimary h i) ∧ (r = none → ∀ x ∈ c, ∃ h' ∈ hs, lost h' x.2) := by
  induction hs with
  | nil => intro c r h hd; simp [returnedAt] at hd
  | cons h0 hs ih =>
    intro c r h hd
    obtain ⟨g1, g2, g3⟩ := advance_good sh hall h0 c
    simp only [returnedAt, resume] at hd
    cases ha : advance sh h0 c with
    | done r' =>
      rw [ha] at hd
      simp only [Option.some.injEq, Prod.mk.injEq] at hd
      obtain ⟨rfl, rfl⟩ := hd
      refine ⟨List.mem_cons_self, ?_, ?_⟩
      · intro i hi; subst hi; exact g1 i ha
      · intro hr x hx; subst hr; exact ⟨h0, List.mem_cons_self, g3 ha x hx⟩
    | waiting cm c' =>
      rw [ha] at hd
      obtain ⟨rfl, hsub⟩ := g2 cm c' ha
      simp only at hd
      obtain ⟨k1, k2, k3⟩ := ih c' r h hd
      refine ⟨List.mem_cons_of_mem _ k1, k2, ?_⟩
      intro hr x hx
      rcases hsub x hx with hx' | hx'
      · obtain ⟨h', hm, hl⟩ := k3 hr x hx'
        exact ⟨h', List.mem_cons_of_mem _ hm, hl⟩
      · exact ⟨h0, List.mem_cons_self, hx'⟩

end SFV.SourceLoc
