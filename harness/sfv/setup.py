"""setup: run every translator, then `lake build` the whole library (all proofs)."""
import glob
import importlib
import os
import subprocess
import sys

from sfv import framework


def main() -> int:
    broken = []
    targets = set()
    with framework.lake_lock():
        for path in sorted(glob.glob(os.path.join(os.path.dirname(__file__), "props", "c*.py"))):
            mod = importlib.import_module("sfv.props." + os.path.basename(path)[:-3])
            framework.run_translators(mod.PROPERTY, broken)
            targets.update(mod.PROPERTY.lean_targets)
        for b in broken:
            print(f"translator problem: {b.what}: {b.detail}")
        p = subprocess.run(["lake", "build", *sorted(targets)], cwd=framework.LEAN)
    return p.returncode


sys.exit(main())
