import SFV.Lemmas.GatherMore
import SFV.Lemmas.GatherTerm
import SFV.Lemmas.GatherNested
import SFV.Lemmas.ScatterRun
import SFV.Lemmas.StepBase
/-! # C01 — scatter then gather returns the original list in its original order

Property theorems only; the development is in `SFV/Lemmas/Gather*.lean`, the model in `SFV/Model/Gather.lean`.
The emission tests, the key slice, the sort comparator, the forced-gather guard and the scatter tag/size
expressions come from `SFV/Gen/GatherGuards.lean`, regenerated from `streamflow/workflow/step.py` on every run;
`compare_tags` from `SFV/Gen/TagGuards.lean`.

An *arrival order* is the list of tokens the gather step takes from its two ports, i.e. any interleaving; the
theorems quantify over every permutation `es` of the tokens produced by the scatter step(s), followed by the two
termination tokens (either order, any status). -/
namespace SFV.C01
open SFV SFV.Gather

/-- the tokens `ScatterStep._scatter` emits for the list `xs` tagged `p`, as events at a gather step -/
def scatterEvents {V} (p : Tag) (xs : List V) : List (Ev V) :=
  (scatter p xs).1.map Ev.elem ++ [Ev.size (scatter p xs).2.1 (scatter p xs).2.2]

/-- **scatter**: element `i` is retagged `tag.i` (so tags are pairwise distinct and increasing), the size token
    carries the tag of the list and its length. -/
theorem scatter_tags {V} (tag : Tag) (xs : List V) :
    (scatter tag xs).2 = (tag, xs.length) ∧
    (∃ hl : (scatter tag xs).1.length = xs.length,
      ∀ i (h : i < xs.length), (scatter tag xs).1[i]'(hl ▸ h) = ⟨tag ++ [i], xs[i]⟩) ∧
    (scatter tag xs).1.Pairwise (fun a b => compareTags a.tag b.tag < 0) := by
  refine ⟨by simp [scatter, Gen.scatterSize], ⟨scatterFrom_length tag 0 xs, ?_⟩, scatterFrom_sorted tag 0 xs⟩
  intro i h
  have := scatterFrom_getElem tag 0 xs i h
  simpa [scatter] using this

/-- **the sorted permutation is unique**: `_gather`'s `sorted(..., key=cmp_to_key(compare_tags))` applied to any
    permutation of a list with strictly increasing tags returns that list — numeric, not lexicographic
    (`0.9 < 0.10` is `C33.cmp_numeric`). -/
theorem sorted_perm_unique {V} (l l' : List (Tok V)) (hp : l'.Perm l)
    (hs : l.Pairwise (fun a b => compareTags a.tag b.tag < 0)) : sortToks l' = l :=
  sortToks_perm_sorted hp hs

/-- `0.10` is gathered after `0.9` -/
example : sortToks [(⟨[0, 10], "k"⟩ : Tok String), ⟨[0, 9], "j"⟩] = [⟨[0, 9], "j"⟩, ⟨[0, 10], "k"⟩] :=
  sorted_perm_unique _ _ (List.Perm.swap ..) (by
    refine List.pairwise_cons.mpr ⟨?_, List.pairwise_cons.mpr ⟨by simp, List.Pairwise.nil⟩⟩
    intro b hb; simp at hb; subst hb; exact C33.cmp_numeric [0] [] [] 9 10 rfl (by omega))

/-- **scatter ∘ f ∘ gather = map f, any arrival order.** For every list `xs` (any length, including 0 and ≥ 10),
    every element-wise tag-preserving step `f` and every arrival order `es` of the `xs.length` element tokens and the
    size token, the gather step (depth 1) emits exactly one list token: tag `tag`, elements `f xs[i]` tagged `tag.i`
    in index order; then it terminates. -/
theorem gather_any_order {V W} (tag : Tag) (xs : List V) (f : V → W) (es : List (Ev W))
    (h : es.Perm ((scatter tag xs).1.map (fun t => Ev.elem ⟨t.tag, f t.val⟩) ++ [Ev.size tag xs.length]))
    (pa pb : PortId) (hab : pa ≠ pb) (sa sb : Status) :
    (run 1 (es ++ [.term pa sa, .term pb sb])).out = [(tag, (scatter tag (xs.map f)).1)] ∧
    (run 1 (es ++ [.term pa sa, .term pb sb])).terminated = some (getStatus (reduce2 (reduce2 .skipped sa) sb) false) := by
  have hmap : (scatter tag (xs.map f)).1 = (scatter tag xs).1.map (fun t => ⟨t.tag, f t.val⟩) := scatterFrom_map f tag 0 xs
  have hlen : (scatter tag (xs.map f)).1.length = xs.length := by
    simpa [scatter] using scatterFrom_length tag 0 (xs.map f)
  have hperm : es.Perm ([(tag, (scatter tag (xs.map f)).1)].flatMap groupEvents) := by
    simp only [List.flatMap_cons, List.flatMap_nil, List.append_nil, groupEvents, hlen]
    rw [hmap, List.map_map]
    exact h
  have := gather_groups 1 [(tag, (scatter tag (xs.map f)).1)] (by simp)
    (by intro g hg; simp at hg; subst hg; exact scatterFrom_key tag 0 _)
    (by intro g hg; simp at hg; subst hg; exact scatterFrom_sorted tag 0 _)
    es hperm pa pb hab sa sb
  exact ⟨List.perm_singleton.mp this.1, by simpa using this.2⟩

/-- **several concurrent keys.** Scatters of several lists with distinct tags, all their tokens interleaved
    arbitrarily: exactly one list token per input list, each with its own tag and its elements in order (the
    order *between* the list tokens is the only thing that depends on the interleaving). -/
theorem gather_multi_key {V} (ins : List (Tag × List V)) (hnd : (ins.map (·.1)).Nodup) (es : List (Ev V))
    (h : es.Perm (ins.flatMap (fun i => scatterEvents i.1 i.2)))
    (pa pb : PortId) (hab : pa ≠ pb) (sa sb : Status) :
    (run 1 (es ++ [.term pa sa, .term pb sb])).out.Perm (ins.map (fun i => (i.1, (scatter i.1 i.2).1))) ∧
    (run 1 (es ++ [.term pa sa, .term pb sb])).terminated =
      some (getStatus (reduce2 (reduce2 .skipped sa) sb) ins.isEmpty) := by
  have hev : ∀ i : Tag × List V, scatterEvents i.1 i.2 = groupEvents (i.1, (scatter i.1 i.2).1) := by
    intro i
    have := (scatter_tags i.1 i.2).1
    simp only [scatterEvents, groupEvents, this]
    rw [scatterFrom_length i.1 0 i.2 |> fun e => (by simpa [scatter] using e : (scatter i.1 i.2).1.length = i.2.length)]
  have hperm : es.Perm ((ins.map (fun i => (i.1, (scatter i.1 i.2).1))).flatMap groupEvents) := by
    rw [List.flatMap_map]
    refine h.trans (List.Perm.of_eq ?_)
    congr 1; funext i; exact hev i
  have := gather_groups 1 (ins.map (fun i => (i.1, (scatter i.1 i.2).1)))
    (by simpa [List.map_map, Function.comp_def] using hnd)
    (by intro g hg; obtain ⟨i, _, rfl⟩ := List.mem_map.mp hg; exact scatterFrom_key i.1 0 i.2)
    (by intro g hg; obtain ⟨i, _, rfl⟩ := List.mem_map.mp hg; exact scatterFrom_sorted i.1 0 i.2)
    es hperm pa pb hab sa sb
  exact ⟨this.1, by simpa using this.2⟩

/-- **termination tokens anywhere.** The termination token of one port may arrive while tokens of the other port
    are still to come (e.g. the size port terminates right after the size token, before any element): the first
    termination token `p` may sit anywhere, provided nothing of its own port follows it (FIFO). Same outputs. -/
theorem gather_termination_anywhere {V} (ins : List (Tag × List V)) (hnd : (ins.map (·.1)).Nodup) (a b : List (Ev V))
    (h : (a ++ b).Perm (ins.flatMap (fun i => scatterEvents i.1 i.2)))
    (p q : PortId) (hpq : p ≠ q) (hpb : ∀ e ∈ b, portOf e ≠ p) (sa sb : Status) :
    (run 1 (a ++ [.term p sa] ++ b ++ [.term q sb])).out.Perm (ins.map (fun i => (i.1, (scatter i.1 i.2).1))) ∧
    (run 1 (a ++ [.term p sa] ++ b ++ [.term q sb])).terminated =
      some (getStatus (reduce2 (reduce2 .skipped sa) sb) ins.isEmpty) := by
  have hdata : ∀ e ∈ a ++ b, IsData e := by
    intro e he
    obtain ⟨i, _, hei⟩ := List.mem_flatMap.mp (h.subset he)
    simp only [scatterEvents, List.mem_append, List.mem_map, List.mem_singleton] at hei
    rcases hei with ⟨t, _, rfl⟩ | rfl <;> trivial
  rw [run_term_middle 1 a b p q sa sb (fun e he => hdata e (List.mem_append_left _ he))
    (fun e he => hdata e (List.mem_append_right _ he)) hpb]
  exact gather_multi_key ins hnd (a ++ b) h p q hpq sa sb

/-- **depth parameter.** One gather step with `depth = 2` fed with the leaves of a scatter of scatters (tags
    `p.i.j`) and a size token announcing their number: exactly one list tagged `p` with all leaves in row-major
    (numeric) order, whatever the arrival order. -/
theorem gather_depth2 {V} (p : Tag) (xss : List (List V)) (es : List (Ev V))
    (h : es.Perm (((scatter2 p xss).flatMap (·.2)).map Ev.elem ++ [Ev.size p ((scatter2 p xss).flatMap (·.2)).length]))
    (pa pb : PortId) (hab : pa ≠ pb) (sa sb : Status) :
    (run 2 (es ++ [.term pa sa, .term pb sb])).out = [(p, (scatter2 p xss).flatMap (·.2))] := by
  have := gather_groups 2 [(p, (scatter2 p xss).flatMap (·.2))] (by simp)
    (by intro g hg; simp at hg; subst hg; exact scatter2_leaves_key p xss)
    (by intro g hg; simp at hg; subst hg; exact scatter2_leaves_sorted p xss)
    es (by simpa [groupEvents] using h) pa pb hab sa sb
  exact List.perm_singleton.mp this.1

/-- **depth parameter, any depth.** One gather step with `depth = d` fed, in any order, with the leaves of `d`
    nested scatters of the token `t` (`leavesAt d t`, tags `t.tag ++ q` with `|q| = d`) and a size token announcing
    their number: exactly one list tagged `t.tag` holding the leaves in row-major (numeric) order. -/
theorem gather_depth_any {V} (d : Nat) (t : Tok (NV V)) (es : List (Ev (NV V)))
    (h : es.Perm ((leavesAt d t).map Ev.elem ++ [Ev.size t.tag (leavesAt d t).length]))
    (pa pb : PortId) (hab : pa ≠ pb) (sa sb : Status) :
    (run d (es ++ [.term pa sa, .term pb sb])).out = [(t.tag, leavesAt d t)] := by
  have := gather_groups d [(t.tag, leavesAt d t)] (by simp)
    (by
      intro g hg x hx
      simp at hg; subst hg
      obtain ⟨q, hq, hxq⟩ := leavesAt_tags d t x hx
      rw [hxq]; exact keyOf_append d t.tag q hq)
    (by intro g hg; simp at hg; subst hg; exact leavesAt_sorted d t)
    es (by simpa [groupEvents] using h) pa pb hab sa sb
  exact List.perm_singleton.mp this.1

/-- **nested scatters, chained gathers.** A list of lists `xss` tagged `p` is scattered twice (elements `p.i.j`).
    The inner gather receives all leaf and inner size tokens in any order `es1`; its list tokens (tags `p.i`), in
    whatever order they were emitted, reach the outer gather together with the outer size token in any order `es2`.
    The outer gather emits exactly one token: tag `p`, element `i` = the list token `p.i` holding `xss[i]` tagged
    `p.i.j` in order — the original nested list. -/
theorem gather_nested {V} (p : Tag) (xss : List (List V)) (es1 : List (Ev V)) (es2 : List (Ev (List (Tok V))))
    (pa pb pc pd : PortId) (hab : pa ≠ pb) (hcd : pc ≠ pd) (sa sb sc sd : Status)
    (h1 : es1.Perm ((scatter2 p xss).flatMap groupEvents))
    (h2 : es2.Perm (((run 1 (es1 ++ [.term pa sa, .term pb sb])).out.map asTok).map Ev.elem ++ [Ev.size p xss.length])) :
    (run 1 (es2 ++ [.term pc sc, .term pd sd])).out = [(p, (scatter2 p xss).map asTok)] := by
  have hin := gather_groups 1 (scatter2 p xss) (scatter2_keys_nodup p xss)
    (fun g hg => (scatter2_group_key p xss g hg).1) (fun g hg => (scatter2_group_key p xss g hg).2)
    es1 h1 pa pb hab sa sb
  have hlen : ((scatter2 p xss).map asTok).length = xss.length := by
    simp [scatter2, scatter, scatterFrom_length]
  have hp2 : es2.Perm ([(p, (scatter2 p xss).map asTok)].flatMap groupEvents) := by
    simp only [List.flatMap_cons, List.flatMap_nil, List.append_nil, groupEvents, hlen]
    refine h2.trans (List.Perm.append_right _ ?_)
    exact (hin.1.map asTok).map Ev.elem
  have hsorted : StrictSorted ((scatter2 p xss).map asTok) := by
    have hs : StrictSorted (scatter p xss).1 := scatterFrom_sorted p 0 xss
    unfold StrictSorted at *
    simp only [scatter2, List.map_map, List.pairwise_map, asTok, Function.comp_def]
    exact hs
  have hkey : ∀ t ∈ (scatter2 p xss).map asTok, keyOf 1 t.tag = p := by
    intro t ht
    obtain ⟨g, hg, rfl⟩ := List.mem_map.mp ht
    obtain ⟨a, ha, rfl⟩ := List.mem_map.mp hg
    exact scatterFrom_key p 0 xss a ha
  have := gather_groups 1 [(p, (scatter2 p xss).map asTok)] (by simp)
    (by intro g hg; simp at hg; subst hg; exact hkey)
    (by intro g hg; simp at hg; subst hg; exact hsorted)
    es2 hp2 pc pd hcd sc sd
  exact List.perm_singleton.mp this.1

/-- **nested scatters of ANY depth `d`.** A token `⟨p, v⟩` whose value is a `d`-level nested list is scattered `d`
    times and regathered by `d` chained gather steps; `Regather d [⟨p, v⟩] out` lets EVERY stage see its tokens (the
    list tokens of the previous stage, in the order they happened to be emitted, and the size tokens of the matching
    scatter level) in an arbitrary interleaving. The result is exactly the original token: same tag, same nested value
    (hence every sub-list in its original order). Instantiate `d` at 1, 2, 3 for the property's range. -/
theorem gather_nested_any_depth {V} (d : Nat) (p : Tag) (v : NV V) (hv : Deep d v) (out : List (Tok (NV V)))
    (h : Regather d [⟨p, v⟩] out) : out = [⟨p, v⟩] :=
  List.perm_singleton.mp (regather_perm d [⟨p, v⟩] out (by simp) (by simpa using hv) h)

/-- the same for several nested tokens with distinct tags regathered together -/
theorem gather_nested_any_depth_multi {V} (d : Nat) (T out : List (Tok (NV V))) (hnd : (T.map (·.tag)).Nodup)
    (hdeep : ∀ t ∈ T, Deep d t.val) (h : Regather d T out) : out.Perm T :=
  regather_perm d T out hnd hdeep h

/-- non-vacuity of `Regather`: a one-level instance with its tokens in scatter order; and a 3-deep value -/
example : Regather 1 [(⟨[0], .node [.leaf 1, .leaf 2]⟩ : Tok (NV Nat))]
    ((run 1 ((([(⟨[0], .node [.leaf 1, .leaf 2]⟩ : Tok (NV Nat))].flatMap scatterElems).map Ev.elem ++
        [(⟨[0], .node [.leaf 1, .leaf 2]⟩ : Tok (NV Nat))].map sizeEv) ++ [.term .size .completed, .term .elem .completed])).out.map asTokNV) :=
  .succ _ .size .elem (by decide) .completed .completed (.zero (List.Perm.refl _)) (List.Perm.refl _) rfl
example : Deep 3 (NV.node [.node [.node [.leaf 1, .leaf 2], .node []], .node []] : NV Nat) := by
  simp [Deep]

/-- **forced gathering.** If the size token never arrives, the elements received for key `p` (in arrival order
    `ts`, any tags with key `p` under `depth`) are gathered when both ports have terminated — sorted by tag —
    unless the reduced status is FAILED, in which case nothing is emitted. (The property's premise fails here; the
    theorem is stated so that the model covers the branch.) -/
theorem gather_forced {V} (d : Nat) (p : Tag) (ts : List (Tok V)) (hne : ts ≠ [])
    (hkey : ∀ t ∈ ts, keyOf d t.tag = p) (pa pb : PortId) (hab : pa ≠ pb) (sa sb : Status) :
    (run d (ts.map Ev.elem ++ [.term pa sa, .term pb sb])).out =
      (if Gen.gatherForce (reduce2 (reduce2 .skipped sa) sb) then [(p, sortToks ts)] else []) := by
  rw [run_append_terms]
  obtain ⟨_, h2, h3, h4, h5, h6, h7⟩ := forced_fold d p ts hkey {} ⟨rfl, rfl⟩ rfl
  rw [terms_general d _ h6 pa pb hab sa sb, h7, h3, h4, h5]
  simp [hne, addKey, forceOut, h2]

/-- the status logic the models use (`reduce2` = `_reduce_statuses([a, b])`, `getStatus` = `BaseStep._get_status`) is built from the arms
    and the if-chains extracted from the source (`SFV/Gen/StepGuards.lean`); spelled out, it is this table -/
theorem status_logic_spec :
    (∀ a b : Status, reduce2 a b =
      (if a = .failed then .failed else if a = .cancelled then .cancelled
       else if b = .failed then .failed else if b = .cancelled then .cancelled
       else if a = .recovered ∨ b = .recovered then .recovered
       else if a = .skipped ∧ b = .skipped then .skipped else .completed)) ∧
    (∀ (s : Status) (e : Bool), getStatus s e =
      (if s = .failed then s else if s = .recovered then .completed else if e then .skipped else s)) :=
  ⟨reduce2_table, getStatus_table⟩

/-- **`ScatterStep.run` as a whole.** Fed the list tokens `ins` (any number, any lengths) and then its termination token, the
    step puts on its element port the elements of every list retagged `tag.i`, list after list, on its size port one size token
    per list, and terminates both ports — with status SKIPPED when it emitted no element at all (only empty lists, or nothing). -/
theorem scatter_run_spec {V} (ins : List (Tag × List V)) (st : Status) :
    let s := srun (ins.map (fun i => SIn.list i.1 i.2) ++ [SIn.term st])
    s.elems = ins.flatMap (fun i => (scatter i.1 i.2).1) ∧ s.sizes = ins.map (fun i => (scatter i.1 i.2).2) ∧
    s.terminated = some (getStatus st ((ins.flatMap (fun i => (scatter i.1 i.2).1)).isEmpty || ins.isEmpty)) ∧ s.raised = false := by
  obtain ⟨h1, h2, ⟨h3, h4⟩, _⟩ := srun_lists ins ({} : SSt V) ⟨rfl, rfl⟩ rfl
  simp only [srun, List.foldl_append, List.foldl_cons, List.foldl_nil]
  simp only [List.nil_append] at h1 h2
  simp [sstep, h1, h2, h3, h4]

/-- a token that is not a list makes `run` raise: nothing is terminated (the step dies, its ports stay open) -/
theorem scatter_run_raises {V} (ins : List (Tag × List V)) (t : Tag) :
    (srun (ins.map (fun i => SIn.list i.1 i.2) ++ [SIn.other (V := V) t])).raised = true ∧
    (srun (ins.map (fun i => SIn.list i.1 i.2) ++ [SIn.other (V := V) t])).terminated = none := by
  obtain ⟨_, _, ⟨h3, h4⟩, _⟩ := srun_lists ins ({} : SSt V) ⟨rfl, rfl⟩ rfl
  simp only [srun, List.foldl_append, List.foldl_cons, List.foldl_nil]
  simp [sstep, h3, h4]

/-- **`ScatterStep.restore`.** Once the recovery machinery has restored the step on the tokens tagged `valid` (the output port
    becomes a `FilterTokenPort`), the element port holds exactly the already emitted and the newly scattered elements whose tag is
    in `valid`, in order; the size token is emitted as usual. -/
theorem scatter_restore_filters {V} (s : SSt V) (h : s.terminated = none ∧ s.raised = false) (valid : List Tag) (tag : Tag) (xs : List V) :
    (sstep (sstep s (.restore valid)) (.list tag xs)).elems = (s.elems ++ (scatter tag xs).1).filter (fun t => decide (t.tag ∈ valid)) ∧
    (sstep (sstep s (.restore valid)) (.list tag xs)).sizes = s.sizes ++ [(scatter tag xs).2] :=
  sstep_restore_then_list s h valid tag xs

/-- **the two steps composed.** Whatever `ScatterStep.run` put on its two ports for the lists `ins` (distinct tags), delivered to
    the gather step in ANY interleaving, comes back as exactly one list token per input list, each with its tag and its elements
    in their original order. -/
theorem scatter_gather_identity {V} (ins : List (Tag × List V)) (hnd : (ins.map (·.1)).Nodup) (st : Status) (es : List (Ev V))
    (h : es.Perm ((srun (ins.map (fun i => SIn.list i.1 i.2) ++ [SIn.term st])).elems.map Ev.elem ++
                  (srun (ins.map (fun i => SIn.list i.1 i.2) ++ [SIn.term st])).sizes.map (fun z => Ev.size z.1 z.2)))
    (pa pb : PortId) (hab : pa ≠ pb) (sa sb : Status) :
    (run 1 (es ++ [.term pa sa, .term pb sb])).out.Perm (ins.map (fun i => (i.1, (scatter i.1 i.2).1))) := by
  obtain ⟨h1, h2, _, _⟩ := scatter_run_spec ins st
  rw [h1, h2] at h
  have hre : ∀ l : List (Tag × List V),
      ((l.flatMap (fun (i : Tag × List V) => (scatter i.1 i.2).1)).map Ev.elem ++
        (l.map (fun (i : Tag × List V) => (scatter i.1 i.2).2)).map (fun (z : Tag × Nat) => Ev.size z.1 z.2)).Perm
        (l.flatMap (fun (i : Tag × List V) => scatterEvents i.1 i.2)) := by
    intro l
    induction l with
    | nil => simp
    | cons i l ih =>
      simp only [List.flatMap_cons, List.map_cons, List.map_append, scatterEvents]
      refine List.Perm.trans ?_ (List.Perm.append_left _ ih)
      simp only [List.append_assoc]
      refine List.Perm.append_left _ ?_
      exact List.perm_middle
  exact (gather_multi_key ins hnd es (h.trans (hre ins)) pa pb hab sa sb).1

/-- **provenance recorded by `_gather`.** Whenever the arrival of a token makes the gather step emit a list token, the inputs it
    records for it (`input_token_ids`) are the size token received for that key and exactly the element tokens of which the list
    is the sorted arrangement — nothing missing, nothing foreign. (Forced gathering records a synthesised size token instead:
    modelled as `sizeReceived = false`, compared with the database by the K-check.) -/
theorem gather_provenance_complete {V} (d : Nat) (s : St V) (e : Ev V) (ho : s.openSize = true ∧ s.openElem = true)
    (hd : match e with | .term _ _ => False | _ => True) :
    ∀ p ∈ provOfStep d s e, p.sizeReceived = true ∧ (p.key, sortToks p.elems) ∈ (step d s e).out ∧ (step d s e).sizes p.key ≠ none :=
  provOfStep_data d s e ho (by cases e <;> first | exact hd | trivial)

/-- non-vacuity: the second of two elements completes key `0`: one emission whose provenance is both elements -/
example : (runProv 1 ({} : St Nat) [.size [0] 2, .elem ⟨[0, 1], 7⟩, .elem ⟨[0, 0], 5⟩]).map (fun p => (p.key, p.sizeReceived, p.elems.length)) =
    [([0], true, 2)] := by decide

/-- non-vacuity: a restore on two of three elements -/
example : (srun [SIn.list [0] [10, 20, 30], SIn.restore [[0, 0], [0, 2]], SIn.list [1] [40], SIn.term .completed]).elems =
    [(⟨[0, 0], 10⟩ : Tok Nat), ⟨[0, 2], 30⟩] := by decide

/-- non-vacuity: 12 elements (indices 10 and 11 included), all 13 tokens arriving in reverse order (size first) -/
example (evs : List (Ev Nat))
    (hevs : evs = (scatter [0] (List.range 12)).1.map (fun t => Ev.elem ⟨t.tag, t.val * 2⟩) ++ [Ev.size [0] (List.range 12).length]) :
    (run 1 (evs.reverse ++ [.term .size .completed, .term .elem .completed])).out
      = [([0], (scatter [0] ((List.range 12).map (· * 2))).1)] :=
  (gather_any_order [0] (List.range 12) (· * 2) evs.reverse (hevs ▸ List.reverse_perm _) .size .elem (by decide)
    .completed .completed).1

/-- non-vacuity of `gather_multi_key`: two parents `0.9` and `0.10`, events of the second before the first -/
example : ([([0, 9], [1, 2, 3]), ([0, 10], ([] : List Nat))].map (·.1)).Nodup := by decide

/-- non-vacuity of `gather_nested`: a ragged 3 × {2, 0, 1} list; the hypotheses hold for the in-order streams -/
example : (scatter2 [0] [[1, 2], [], [3]]).map (·.1) = [[0, 0], [0, 1], [0, 2]] := by decide

end SFV.C01
