import SFV.Model.Registry
import SFV.Model.Proto
open SFV SFV.Proto SFV.Registry

structure DSt where
  s : St := St.init
  regs : List Nat := []     -- object id of the k-th register_path result

def parseParts (s : String) : Option Path :=
  if s = "~" then some [] else (s.splitOn ",").mapM stringOfHex

def showPath (p : Path) : String := if p.isEmpty then "~" else ",".intercalate (p.map hexOfString)

def step (d : DSt) : List String → DSt × String
  | ["new"] => ({}, "ok")
  | ["reg", l, parts] =>
      match l.toNat?, parseParts parts with
      | some l, some p => let r := register d.s l p; ({ s := r.1, regs := d.regs ++ [r.2] }, "ok")
      | _, _ => (d, "bad-op")
  | ["rel", a, b] =>
      match a.toNat?.bind (d.regs[·]?), b.toNat?.bind (d.regs[·]?) with
      | some a, some b => ({ d with s := relate d.s a b }, "ok")
      | _, _ => (d, "bad-op")
  | ["inv", l, parts] =>
      match l.toNat?, parseParts parts with
      | some l, some p =>
          match invalidate d.s l p with
          | .ok s' => ({ d with s := s' }, "ok")
          | .keyError => (d, "KeyError")
      | _, _ => (d, "bad-op")
  | ["get", l, parts] =>
      match l.toNat?, parseParts parts with
      | some l, some p =>
          let paths := ((getLocs d.s p l).map (fun o => showPath (objPath d.s o))).mergeSort (· ≤ ·)
          (d, if paths.isEmpty then "-" else ";".intercalate paths)
      | _, _ => (d, "bad-op")
  | _ => (d, "bad-op")

def main : IO Unit := runStateful ({} : DSt) step
