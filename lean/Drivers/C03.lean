import SFV.Model.Port
import SFV.Model.Proto
open SFV SFV.Proto SFV.Port

/-! Line protocol for C03: one line = one whole history, one output line = the final observation.

`plain  <op>*`                       ops: `p:<term>:<tag>:<val>` put, `g:<c>` get, `c:<c>` close
`filter <tag,tag,..|-> <op>*`        admitted tags, then ops
`iw <op>*`                           additionally `a:<s|e<k>>:<P>:<T>:<tag,tag|->` add_inter_port
Output: `log=<toks> | c<id>=<recv>/<items>/<unf>/<wait>/<err> ... [| e<k>=<toks> ... | r=<tags;tags..>]`. -/

def showTok (t : Tok) : String :=
  if t.term then s!"T{t.val}" else s!"d{t.tag}:{t.val}"

def showToks (l : List Tok) : String :=
  if l.isEmpty then "-" else ",".intercalate (l.map showTok)

def showNats (l : List Nat) : String :=
  if l.isEmpty then "-" else ",".intercalate (l.map toString)

def parseNats (s : String) : Option (List Nat) :=
  if s = "-" then some [] else (s.splitOn ",").mapM (·.toNat?)

def showCons (p : Port) : String :=
  " ".intercalate ((List.range 4).filterMap (fun c =>
    match p.qs c with
    | none => none
    | some q =>
        let w := match q.wait with | none => "n" | some true => "f" | some false => "l"
        some s!"c{c}={showToks q.recv}/{q.items.length}/{q.unf}/{w}/{if q.err then 1 else 0}"))

def parseBasic (w : String) : Option Op :=
  match w.splitOn ":" with
  | ["p", a, b, c] => do
      let a ← a.toNat?
      let b ← b.toNat?
      let c ← c.toNat?
      pure (Op.put { term := a != 0, tag := b, val := c })
  | ["g", c] => do pure (Op.get (← c.toNat?))
  | ["c", c] => do pure (Op.close (← c.toNat?))
  | _ => none

def parseTarget (s : String) : Option Target :=
  if s = "s" then some .self
  else if s.startsWith "e" then (s.drop 1).toString.toNat?.map Target.ext
  else none

def parseIW (w : String) : Option IWOp :=
  match w.splitOn ":" with
  | ["a", tg, p, t, tags] => do
      let tg ← parseTarget tg
      let p ← p.toNat?
      let t ← t.toNat?
      let tags ← parseNats tags
      pure (IWOp.add { target := tg, propagate := p != 0, terminate := t != 0, tags := tags })
  | _ =>
      match parseBasic w with
      | some (.put t) => some (.put t)
      | some (.get c) => some (.get c)
      | some (.close c) => some (.close c)
      | none => none

def showPort (p : Port) : String := s!"log={showToks p.log} | {showCons p}"

def handle : List String → String
  | "plain" :: ws =>
      match ws.mapM parseBasic with
      | some ops => showPort (Port.empty.run ops)
      | none => "bad-op"
  | "filter" :: tags :: ws =>
      match parseNats tags, ws.mapM parseBasic with
      | some tg, some ops => showPort (filterRun (fun t => tg.contains t.tag) Port.empty ops)
      | _, _ => "bad-op"
  | "iw" :: ws =>
      match ws.mapM parseIW with
      | some ops =>
          let s := IW.empty.run ops
          let exts := " ".intercalate ((List.range 3).map (fun k => s!"e{k}={showToks (s.ext k).log}"))
          let rules := ";".intercalate (s.rules.map (fun r => showNats r.tags))
          s!"{showPort s.own} | {exts} | r={if s.rules.isEmpty then "-" else rules}"
      | none => "bad-op"
  | _ => "bad-op"

def main : IO Unit := runPure handle
