/-! # The persistence log (C07)

`BaseStep._persist_token(token, port, input_token_ids)`:

    await token.save(database, port_id)                 -- INSERT INTO token: a fresh INTEGER PRIMARY KEY id
    if input_token_ids:
        if any(id_ is None ...): raise                   -- callers pass get_entity_ids(inputs): only persisted tokens
        await database.add_provenance(inputs=input_token_ids, token=token.persistent_id)   -- rows (i, id)

The database is a counter (`next` = an id larger than every id handed out: SQLite rowid allocation without deletions)
and the list of provenance rows `(dependee, depender)`. -/
namespace SFV.Prov

structure DB where
  next  : Nat
  edges : List (Nat × Nat)
deriving Repr

def DB.empty : DB := { next := 1, edges := [] }

inductive Op where
  /-- `token.save` alone: source tokens, elements of list tokens, the size token of a forced gather -/
  | save
  /-- `_persist_token` with the ids of the consumed inputs -/
  | persist (inputs : List Nat)
deriving Repr

/-- `none` = the call raises (an input id that was never handed out; `None` ids raise in the code) -/
def step (db : DB) : Op → Option DB
  | .save => some { db with next := db.next + 1 }
  | .persist ins =>
      if ins.all (fun i => decide (0 < i ∧ i < db.next)) then
        some { next := db.next + 1, edges := db.edges ++ ins.map (fun i => (i, db.next)) }
      else none

def run : DB → List Op → Option DB
  | db, [] => some db
  | db, op :: ops => match step db op with
    | some db' => run db' ops
    | none => none

/-- a path in the provenance relation -/
inductive Path (edges : List (Nat × Nat)) : Nat → Nat → Prop
  | edge {a b} : (a, b) ∈ edges → Path edges a b
  | trans {a b c} : Path edges a b → Path edges b c → Path edges a c

end SFV.Prov
