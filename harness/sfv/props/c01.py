"""C01 — scatter then gather returns the original list in its original order (any length, nesting, arrival order)."""
from __future__ import annotations

import asyncio
import itertools
import json
import os
import random
from typing import Any

from streamflow.core.workflow import Status, Token
from streamflow.workflow.executor import StreamFlowExecutor
from streamflow.workflow.step import GatherStep, ScatterStep, Transformer
from streamflow.workflow.token import ListToken, ObjectToken, TerminationToken

from sfv.framework import Ctx, Property
from sfv.rt import stepdrive as sd
from sfv.rt.loop_safe import run_controlled
from sfv.rt.sfctx import make_context
from sfv.translate import gatherguards, tagguards, stepguards

BOUNDARY = [0, 1, 9, 10, 11, 12]
STATUSES = ["COMPLETED", "SKIPPED", "FAILED", "CANCELLED", "RECOVERED"]


# ------------------------------------------------------------------------------------------------
# values
# ------------------------------------------------------------------------------------------------
def leaf_token(v: Any, tag: str) -> Token:
    if isinstance(v, dict) and "__obj__" in v:
        return ObjectToken(tag=tag, value={k: Token(value=x, tag=tag) for k, x in v["__obj__"].items()})
    return Token(value=v, tag=tag)


def build_token(value: Any, levels: int, tag: str) -> Token:
    """a nested JSON list of known depth -> ListToken of … of leaf tokens, everything tagged `tag`"""
    if levels == 0:
        return leaf_token(value, tag)
    return ListToken(tag=tag, value=[build_token(v, levels - 1, tag) for v in value])


def apply_f(f: str, tok: Token) -> Token:
    """the element-wise step between scatter and gather: tag preserved, value mapped"""
    if f == "id" or isinstance(tok, (ObjectToken, ListToken)):
        return tok.update(tok.value)
    if f == "wrap":
        return tok.update({"f": tok.value})
    if f == "str":
        return tok.update(f"<{tok.value!r}>")
    raise ValueError(f)


def f_value(f: str, v: Any) -> Any:
    if f == "wrap":
        return {"f": v}
    if f == "str":
        return f"<{v!r}>"
    return v


def expect_leaf(f: str, v: Any, tag: str, top: str) -> Any:
    if isinstance(v, dict) and "__obj__" in v:   # the fields of an object token are not retagged by scatter
        return ["O", tag, {k: ["T", top, x] for k, x in sorted(v["__obj__"].items())}]
    return ["T", tag, f_value(f, v)]


def expect_tree(f: str, value: Any, levels: int, tag: str, top: str | None = None) -> Any:
    """what the property promises: the original structure, element i of a list tagged `<tag>.<i>`"""
    top = tag if top is None else top
    if levels == 0:
        return expect_leaf(f, value, tag, top)
    return ["L", tag, [expect_tree(f, v, levels - 1, f"{tag}.{i}", top) for i, v in enumerate(value)]]


def rand_leaf(rng: random.Random, i: int) -> Any:
    k = rng.random()
    if k < 0.5:
        return i * 7 + rng.randint(0, 5)
    if k < 0.65:
        return f"s{i}-{rng.choice(['a', 'é', ' ', '10', '9'])}"
    if k < 0.8:
        return [rng.randint(0, 99) for _ in range(rng.randint(0, 3))]
    if k < 0.92:
        return {"a": i, "b": [i, str(i)]}
    return {"__obj__": {"x": i, "y": f"o{i}"}}


def rand_nested(rng: random.Random, levels: int, sizes: list[int]) -> Any:
    if levels == 0:
        return rand_leaf(rng, rng.randint(0, 50))
    n = rng.choice(sizes)
    return [rand_nested(rng, levels - 1, sizes) for _ in range(n)]


CWL_SCATTER_1 = """#!/usr/bin/env cwl-runner
cwlVersion: v1.2
class: Workflow
requirements:
  InlineJavascriptRequirement: {}
  ScatterFeatureRequirement: {}
inputs:
  xs: int[]
outputs:
  ys:
    type: Any
    outputSource: work/y
steps:
  work:
    run:
      class: ExpressionTool
      inputs: {x: int}
      outputs: {y: int}
      expression: "${return {'y': inputs.x * 2 + 1};}"
    in: {x: xs}
    scatter: x
    out: [y]
"""

CWL_SCATTER_2 = """#!/usr/bin/env cwl-runner
cwlVersion: v1.2
class: Workflow
requirements:
  InlineJavascriptRequirement: {}
  ScatterFeatureRequirement: {}
  SubworkflowFeatureRequirement: {}
inputs:
  xss:
    type: {type: array, items: {type: array, items: int}}
outputs:
  yss:
    type: Any
    outputSource: outer/ys
steps:
  outer:
    run:
      class: Workflow
      inputs: {xs: "int[]"}
      outputs:
        ys:
          type: Any
          outputSource: work/y
      steps:
        work:
          run:
            class: ExpressionTool
            inputs: {x: int}
            outputs: {y: int}
            expression: "${return {'y': inputs.x * 2 + 1};}"
          in: {x: xs}
          scatter: x
          out: [y]
    in: {xs: xss}
    scatter: xs
    out: [ys]
"""


class _Map(Transformer):
    """a real element-wise step (streamflow Transformer): tag preserved, value mapped by `f`"""
    f = "id"

    async def transform(self, inputs):
        (name, tok), = inputs.items()
        return {name: apply_f(self.f, tok)}


# ------------------------------------------------------------------------------------------------
# arrival orders
# ------------------------------------------------------------------------------------------------
def interleave(rng: random.Random, elems: list, sizes: list, how: str, te: str = "COMPLETED", ts: str = "COMPLETED") -> list:
    """a global arrival order of ('e', tok) / ('s', tok) / ('te', status) / ('ts', status), FIFO per port"""
    e = [("e", t) for t in elems]
    s = [("s", t) for t in sizes]
    if how == "in-order":
        return e + s + [("te", te), ("ts", ts)]
    if how == "reversed":
        return list(reversed(e)) + list(reversed(s)) + [("ts", ts), ("te", te)]
    if how == "size-first":
        rng.shuffle(e)
        return s + [("ts", ts)] + e + [("te", te)]
    if how == "size-last":
        rng.shuffle(e)
        return e + [("te", te)] + s + [("ts", ts)]
    # shuffled: random permutation per port, random merge, each termination after its port's tokens
    rng.shuffle(e)
    rng.shuffle(s)
    a, b = e + [("te", te)], s + [("ts", ts)]
    out = []
    while a or b:
        pick = a if (a and (not b or rng.random() < len(a) / (len(a) + len(b)))) else b
        out.append(pick.pop(0))
    return out


ORDERS = ["in-order", "reversed", "size-first", "size-last", "shuffled"]


# ------------------------------------------------------------------------------------------------
# the rig: real steps, real ports, one in-memory context
# ------------------------------------------------------------------------------------------------
class Rig:
    def __init__(self, context):
        self.context = context
        self.n = 0

    def _wf(self):
        self.n += 1
        return sd.new_workflow(self.context, f"c01-{self.n}")

    async def scatter(self, inputs: list[Token], term: str = "COMPLETED") -> tuple[list[Token], list[Token], ScatterStep]:
        """run a real ScatterStep over `inputs` (in this order); returns its element and size port logs"""
        wf = self._wf()
        p_in, p_out = wf.create_port(), wf.create_port()
        step = wf.create_step(cls=ScatterStep, name="/s/x-scatter")
        step.add_input_port("x", p_in)
        step.add_output_port("x", p_out)
        await wf.save(self.context.database)
        await sd.save_tokens(self.context, p_in, inputs)
        await sd.drive(step, [("x", t) for t in inputs] + [("x", TerminationToken(Status[term]))], imposed=False)
        return list(p_out.token_list), list(step.get_size_port().token_list), step

    async def scatter_run(self, events: list) -> tuple[list[Token], list[Token], bool]:
        """a real ScatterStep fed one token at a time; events = ['l', tag, n] (ListToken of n ints) | ['o', tag] (a plain Token) |
        ['t', STATUS] | ['r', [tags]] (ScatterStep.restore with on_tokens = tokens carrying these tags, called while the step is idle).
        Returns the logs of the (possibly replaced) element port and of the size port, and whether run() raised."""
        wf = self._wf()
        p_in, p_out = wf.create_port(), wf.create_port()
        step = wf.create_step(cls=ScatterStep, name="/s/x-scatter")
        step.add_input_port("x", p_in)
        step.add_output_port("x", p_out)
        await wf.save(self.context.database)
        task = asyncio.create_task(step.run())
        raised = False
        fed: dict = {}
        self.last_scatter_applied = 0
        try:
            await sd.settle(step, task, ["x"])
            for e in events:
                if task.done():
                    break           # run() raised (or terminated): nothing after this point is applied — nor given to the model
                self.last_scatter_applied += 1
                if e[0] == "r":
                    await step.restore({p_out.name: [Token(value=None, tag=t) for t in e[1]]})
                    continue
                tok = (ListToken(tag=e[1], value=[Token(value=i, tag=e[1]) for i in range(e[2])]) if e[0] == "l"
                       else Token(value="plain", tag=e[1]) if e[0] == "o" else TerminationToken(Status[e[1]]))
                await sd.save_tokens(self.context, p_in, [tok])
                fed[tok.persistent_id] = events.index(e) if events.count(e) == 1 else [i for i, x in enumerate(events) if x is e][0]
                p_in.put(tok)
                for _ in range(sd.TERM_SPINS):
                    await asyncio.sleep(0)
                await sd.settle(step, task, ["x"])
            if not task.done():       # no termination token in the stream: the step is blocked on its port
                task.cancel()
            try:
                await task
            except asyncio.CancelledError:
                pass
            except Exception:  # noqa: BLE001
                raised = True
        finally:
            if not task.done():
                task.cancel()
        self.last_scatter_inputs = fed
        return list(wf.ports[p_out.name].token_list), list(step.get_size_port().token_list), raised

    async def gather(self, depth: int, events: list, imposed: bool) -> tuple[list[Token], GatherStep]:
        """run a real GatherStep; events = ('e', tok) | ('s', tok) | ('te', status) | ('ts', status)"""
        wf = self._wf()
        p_in, p_size, p_out = wf.create_port(), wf.create_port(), wf.create_port()
        step = wf.create_step(cls=GatherStep, name="/s/x-gather", size_port=p_size, depth=depth)
        step.add_input_port("x", p_in)
        step.add_output_port("x", p_out)
        await wf.save(self.context.database)
        await sd.save_tokens(self.context, p_in, [t for k, t in events if k == "e"])
        await sd.save_tokens(self.context, p_size, [t for k, t in events if k == "s"])
        feed = []
        for k, t in events:
            if k == "e":
                feed.append(("x", t))
            elif k == "s":
                feed.append(("__size__", t))
            elif k == "te":
                feed.append(("x", TerminationToken(Status[t])))
            else:
                feed.append(("__size__", TerminationToken(Status[t])))
        await sd.drive(step, feed, imposed=imposed)
        return list(p_out.token_list), step


def lean_gather_line(depth: int, events: list, ids: dict) -> str:
    ws = []
    for k, t in events:
        if k == "e":
            ws.append(f"e:{t.tag}:{ids.setdefault(id(t), len(ids))}")
        elif k == "s":
            ws.append(f"s:{t.tag}:{t.value}")
        else:
            ws.append(f"{k}:{t}")
    return f"gather {depth} " + " ".join(ws)


def render_real_out(out: list[Token], ids: dict) -> str:
    lists = [t for t in out if not isinstance(t, TerminationToken)]
    terms = [t for t in out if isinstance(t, TerminationToken)]
    body = ";".join(
        f"{t.tag}[" + ",".join(f"{e.tag}:{ids.get(id(e), '?')}" for e in t.value) + "]" if isinstance(t, ListToken)
        else f"{t.tag}<not-a-list>" for t in lists) or "-"
    pos_ok = not terms or (len(terms) == 1 and out[-1] is terms[0])
    return body + "|term=" + (terms[0].value.name if terms and pos_ok else ("-" if not terms else "MISPLACED"))


def canon_prov(rendered: str) -> list:
    """`key<-S[a,b];…` -> [(key, kind, sorted elements)]"""
    if rendered == "-":
        return []
    out = []
    for part in rendered.split(";"):
        head, body = part.split("[", 1)
        key, kind = head.split("<-")
        out.append((key, kind, tuple(sorted(x for x in body.rstrip("]").split(",") if x))))
    return out


def canon_sets(rendered: str) -> tuple:
    body, term = rendered.split("|term=")
    return tuple(sorted(body.split(";"))), term


class C01(Property):
    pid = "C01"
    title = "Scatter then gather returns the original list in its original order"
    lean_targets = ["SFV.Props.C01", "SFV.Model.Proto"]
    props_files = ["SFV/Props/C01.lean"]
    drivers = ["Drivers/C01.lean"]
    translators = [tagguards.generate, stepguards.generate, gatherguards.generate]
    quick_budget_s = 300
    rule = ("REAL ScatterStep and GatherStep wired with real Ports in an in-memory context. Lists of length 0..40 (always 0,1,9,10,11,12), "
            "scalar/list/dict/ObjectToken elements, an element-wise tag-preserving map in between; 1..4 concurrent parent tags; nesting "
            "1..3 (chained scatters and chained gathers; one gather with depth=d); arrival order at the gather imposed token by token "
            "(in-order, reversed, size-first, size-last, shuffled, all permutations for n<=3 in quick / n<=5 in thorough) or left to the shuffling event loop; "
            "whole pipelines scatter^k -> Transformer -> gather^k (k<=3) and generated CWL scatter workflows (1-2 levels) run by the real executor; "
            "incomplete streams (missing size / missing elements / FAILED) for the forced-gathering branch. Every gather stage is "
            "compared with the Lean model (driver) on the same event list; complete streams are checked against the property "
            "(exactly one list per key, original tag, original values in original order). Non-trivial = distinct (depth, arrival order) with n>=2.")
    trusted_base = [
        "translators harness/sfv/translate/gatherguards.py (emission tests, key slice, sort comparator, forced-gather guard, scatter tag/size "
        "-> SFV/Gen/GatherGuards.lean) and tagguards.py (compare_tags)",
        "modelled, not verified: asyncio.wait(FIRST_COMPLETED) over one get per port delivers an arbitrary interleaving of two FIFO queues "
        "(the event list of the model); Python's sorted() is a stable sort (List.mergeSort); dict insertion order",
        "harness/sfv/rt/stepdrive.py imposes the arrival order using asyncio.Queue._getters (CPython 3.12 private attribute)",
    ]
    trusted_base = trusted_base + [
        "harness/sfv/rt/loop_safe.py: shuffling event loop whose reordering of ready handles is safe against call_soon_threadsafe "
        "(the shared rt/loop.py drops handles appended by the aiosqlite thread while it shuffles)"]
    technique = ("Lean 4 theorems about an executable model of ScatterStep._scatter / GatherStep.run (any arrival order, any length, several keys, "
                 "depth parameter, nesting, forced gathering) + ast translator of the guards + differential correspondence on the real step classes")
    level_text = ("grade A: unbounded theorems — scatter tags, uniqueness of the compare_tags-sorted permutation (0.10 after 0.9 proved), gather of any "
                  "interleaving of element/size tokens yields exactly one list per key in index order (single key, several concurrent keys, any depth d, "
                  "chained nested gathers of ANY depth with every stage in any order, termination tokens anywhere), forced gathering; guards regenerated "
                  "from the source each run; model compared with the real steps, whole pipelines and CWL scatter workflows under the real executor")
    level_note = ("Lean kernel, axioms within {propext, Classical.choice, Quot.sound}; trusts the gatherguards/tagguards extractors and the "
                  "event-list abstraction of asyncio.wait; the K-check drives the real ScatterStep/GatherStep with real ports")
    assumptions = ["tags are dotted decimal strings rooted at 0 with more components than the gather depth",
                   "ports are FIFO per consumer (C03); the termination token of a port follows the port's data tokens"]

    # --------------------------------------------------------------------------------------------
    def explore(self, ctx: Ctx) -> None:
        seed = ctx.rng.randrange(1 << 30)
        self._lines: list[str] = []
        self._expect: list[tuple[str, str, Any]] = []   # (rendered real, compare mode, case)

        async def main():
            context = make_context(ctx.scratch)
            try:
                rig = Rig(context)
                for case in self.cases(ctx):
                    if ctx.out_of_time():
                        ctx.extra["incomplete"] = True
                        break
                    await self.run_case(ctx, rig, case)
            finally:
                await context.close()

        run_controlled(main, seed, timeout=max(30.0, ctx.time_left() + 900))
        got = ctx.lean("Drivers/C01.lean", self._lines)
        for g, (real, how, case) in zip(got, self._expect):
            if how == "exact":
                same = g == real
            elif how == "scatterprov":   # tokens dropped by the FilterTokenPort are persisted but not on the port: compare what is on the ports
                mine = set(real.split(",")) if real != "-" else set()
                tags = {x.split("<-")[0] for x in mine}
                same = {x for x in (g.split(",") if g != "-" else []) if x.split("<-")[0] in tags} == mine
            elif how in ("prov", "provset"):   # element order inside a provenance set is not observable in the database
                cg, cr = canon_prov(g), canon_prov(real)
                same = cg == cr if how == "prov" else sorted(cg) == sorted(cr)
            else:   # the arrival order was chosen by the event loop: same lists per key, same termination
                same = canon_sets(g) == canon_sets(real)
            if not same:
                ctx.disagree(f"model vs {case.get('stage', case['op'])}", f"code {real!r}, Lean model {g!r}", case)

    # --------------------------------------------------------------------------------------------
    def cases(self, ctx: Ctx):
        rng = ctx.rng
        wide = ctx.tier == "thorough" or ctx.mode == "search"
        # boundary corpus first
        for n in BOUNDARY:
            for how in ORDERS:
                yield {"op": "flat", "inputs": [{"tag": "0", "values": [i * 3 for i in range(n)]}], "f": "id", "how": how,
                       "oseed": rng.randrange(1 << 30), "imposed": True}
        lengths = list(range(0, 41)) if wide else sorted(set(BOUNDARY + [rng.randint(2, 8), rng.randint(13, 25), rng.randint(26, 40), 40]))
        for n in lengths:
            for how in (ORDERS if wide else rng.sample(ORDERS, 2) + ["shuffled"]):
                vals = [rand_leaf(rng, i) for i in range(n)]
                yield {"op": "flat", "inputs": [{"tag": rng.choice(["0", "0", "0.3", "0.10.2"]), "values": vals}],
                       "f": rng.choice(["id", "wrap", "str"]), "how": how, "oseed": rng.randrange(1 << 30),
                       "imposed": rng.random() < 0.8}
        # all permutations of small streams
        for n in range(0, 6 if wide else 4):
            toks = [f"e{i}" for i in range(n)] + ["s", "te", "ts"]
            for perm in itertools.permutations(toks):
                if perm.index("te") < max([perm.index(f"e{i}") for i in range(n)], default=-1) or perm.index("ts") < perm.index("s"):
                    continue
                yield {"op": "flat", "inputs": [{"tag": "0", "values": list(range(n))}], "f": "id", "perm": list(perm), "imposed": True}
        # several concurrent keys
        for _ in range(40 if wide else 12):
            k = rng.randint(2, 4)
            parents = rng.sample(["0.0", "0.1", "0.2", "0.9", "0.10", "0.11", "0.1.0", "0.10.3"], k)
            yield {"op": "flat", "inputs": [{"tag": p, "values": [rand_leaf(rng, i) for i in range(rng.choice(BOUNDARY + [3, 5, 14]))]}
                                            for p in parents],
                   "f": rng.choice(["id", "wrap"]), "how": "shuffled", "oseed": rng.randrange(1 << 30), "imposed": rng.random() < 0.8}
        # nesting: chained scatters / gathers, and one gather with depth=d
        for levels in (2, 3):
            sizes = [0, 1, 2, 3, 11, 12] if levels == 2 else [0, 1, 2, 3, 11]
            for _ in range(24 if wide else 6):
                yield {"op": "nested", "levels": levels, "value": rand_nested(rng, levels, sizes), "tag": rng.choice(["0", "0.2"]),
                       "f": rng.choice(["id", "wrap"]), "oseed": rng.randrange(1 << 30), "imposed": rng.random() < 0.8,
                       "single_gather": False}
            for _ in range(16 if wide else 5):
                yield {"op": "nested", "levels": levels, "value": rand_nested(rng, levels, [1, 2, 3, 11] if levels == 2 else [1, 2, 4]),
                       "tag": "0", "f": "id", "oseed": rng.randrange(1 << 30), "imposed": True, "single_gather": True}
        # the whole pipeline run by the real executor: scatter^levels -> Transformer -> gather^levels, all steps concurrent
        for i in range(40 if wide else 12):
            levels = rng.choice([1, 1, 2, 3])
            sizes = {1: BOUNDARY + [3, 20, 40], 2: [0, 1, 2, 3, 11, 12], 3: [0, 1, 2, 3, 11]}[levels]
            yield {"op": "pipeline", "levels": levels, "inputs": [{"tag": t, "value": rand_nested(rng, levels, sizes)}
                                                                for t in rng.sample(["0", "1", "2", "10"], rng.randint(1, 3))],
                   "f": rng.choice(["id", "wrap", "str"]), "oseed": rng.randrange(1 << 30)}
        # end to end through the CWL front end (real translator + executor, in-memory db): scatter over an array, scatter of scatter
        cwl = [(1, [5, 3, 9, 1, 0, 7, 2, 8, 6, 4, 11, 10]), (1, [4]), (2, [[1, 2, 3], [4], [5, 6, 7, 8, 9, 10, 11, 12, 13, 14, 15, 16]])]
        if wide:
            cwl += [(1, [rng.randint(0, 99) for _ in range(rng.choice([2, 10, 11, 13, 25]))]) for _ in range(4)]
            cwl += [(2, [[rng.randint(0, 99) for _ in range(rng.choice([1, 2, 11]))] for _ in range(rng.choice([1, 3, 11]))]) for _ in range(4)]
        import shutil
        if shutil.which("node") is None:      # the CWL documents need a JavaScript engine (InlineJavascriptRequirement)
            ctx.notes.append("node is not on PATH: the end-to-end CWL cases were skipped")
            cwl = []
        for levels, value in cwl:
            yield {"op": "cwl", "levels": levels, "value": value}
        # ScatterStep.run as a whole: several inputs, a non-list token, any termination status, restore (FilterTokenPort)
        for i in range(80 if wide else 24):
            evs, tags = [], rng.sample(["0", "1", "2", "0.3", "0.10", "10"], rng.randint(1, 4))
            for t in tags:
                evs.append(["o", t] if rng.random() < 0.08 else ["l", t, rng.choice([0, 0, 1, 2, 3, 11, 12])])
            if rng.random() < 0.45:
                pool = [f"{e[1]}.{k}" for e in evs if e[0] == "l" for k in range(e[2])]
                valid = sorted(rng.sample(pool, rng.randint(0, len(pool)))) if pool else []
                if rng.random() < 0.3:
                    valid.append("7.7")
                evs.insert(rng.randint(0, len(evs)), ["r", valid])
            if rng.random() < 0.9:
                evs.append(["t", rng.choice(STATUSES)])
            yield {"op": "scatterrun", "events": evs}
        # incomplete streams: the forced-gathering branch (the property's premise fails; model vs code only)
        for _ in range(60 if wide else 20):
            n = rng.choice([0, 1, 2, 3, 11])
            yield {"op": "partial", "n": n, "drop": rng.choice(["size", "elems", "none", "both"]), "extra_size": rng.random() < 0.2,
                   "te": rng.choice(STATUSES), "ts": rng.choice(STATUSES), "depth": 1, "oseed": rng.randrange(1 << 30)}
        for _ in range(40 if wide else 12):     # several keys and depth 2: order of the forced gathering, key slice on incomplete streams
            yield {"op": "partial", "n": rng.choice([1, 2, 3, 11]), "drop": rng.choice(["size", "elems", "none", "both"]), "extra_size": False,
                   "keys": rng.sample(["0", "1", "0.2", "0.10", "0.9"], rng.randint(2, 3)), "te": rng.choice(STATUSES), "ts": rng.choice(STATUSES),
                   "depth": rng.choice([1, 1, 2]), "oseed": rng.randrange(1 << 30)}

    # --------------------------------------------------------------------------------------------
    async def run_case(self, ctx: Ctx, rig: Rig, case: dict) -> None:
        try:
            await asyncio.wait_for(self._run_case(ctx, rig, case), 1800)
        except (sd.StepHang, asyncio.TimeoutError) as e:
            ctx.fail("gather:hang", f"the real steps did not terminate: {e}", case)
        except Exception as e:  # noqa: BLE001
            ctx.fail(f"crash:{type(e).__name__}", f"the real steps raised {e!r}", case)

    def _order(self, case: dict, rng: random.Random, elems: list, sizes: list) -> list:
        if "perm" in case:
            by = {f"e{i}": ("e", t) for i, t in enumerate(elems)}
            by.update({"s": ("s", sizes[0]), "te": ("te", "COMPLETED"), "ts": ("ts", "COMPLETED")})
            return [by[x] for x in case["perm"]]
        return interleave(rng, elems, sizes, case.get("how", "shuffled"))

    async def _gather_stage(self, ctx: Ctx, rig: Rig, case: dict, depth: int, events: list, imposed: bool, stage: str):
        out, step = await rig.gather(depth, events, imposed)
        ids: dict = {}
        line = lean_gather_line(depth, events, ids)
        exp = (render_real_out(out, ids), "exact" if imposed else "sets", dict(case, stage=stage, line=line))
        # provenance recorded in the database for every emitted list token: the size token of its key + its element tokens
        by_pid = {t.persistent_id: f"{t.tag}:{ids[id(t)]}" for k, t in events if k == "e" and id(t) in ids}
        size_pids = {t.persistent_id for k, t in events if k == "s"}
        provs = []
        for t in (out if "perm" not in case else []):
            if isinstance(t, TerminationToken):
                continue
            deps = [r["dependee"] for r in await rig.context.database.get_dependees(t.persistent_id)]
            els = sorted(by_pid[d] for d in deps if d in by_pid)
            others = [d for d in deps if d not in by_pid]
            kind = "S" if len(others) == 1 and others[0] in size_pids else "F" if len(others) == 1 else f"?{len(others)}"
            provs.append(f"{t.tag}<-{kind}[{','.join(els)}]")
        pexp = (";".join(provs) or "-", "prov" if imposed else "provset", dict(case, stage=stage + ":provenance", line=line))
        self._lines.append(line)       # (line, expectation) are appended together: a crash in between must not misalign them
        self._expect.append(exp)
        if "perm" not in case:
            self._lines.append("gatherprov" + line[len("gather"):])
            self._expect.append(pexp)
        return out

    async def _run_case(self, ctx: Ctx, rig: Rig, case: dict) -> None:
        rng = random.Random(case.get("oseed", 0))
        op = case["op"]
        if op == "flat":
            inputs = [build_token(i["values"], 1, i["tag"]) for i in case["inputs"]]
            elems, sizes, _ = await rig.scatter(inputs)
            self._check_scatter(ctx, case, inputs, elems, sizes)
            data = [apply_f(case["f"], t) for t in elems if not isinstance(t, TerminationToken)]
            szs = [t for t in sizes if not isinstance(t, TerminationToken)]
            events = self._order(case, rng, data, szs)
            out = await self._gather_stage(ctx, rig, case, 1, events, case["imposed"], "gather")
            expected = [expect_tree(case["f"], i["values"], 1, i["tag"]) for i in case["inputs"]]
            self._monitor(ctx, case, out, expected)
            n = max(len(i["values"]) for i in case["inputs"])
            ctx.case({"case": _brief(case), "out": [sd.untoken(t) for t in out][:2]},
                     ("flat", len(case["inputs"]), n, tuple(k if k in ("te", "ts") else (k, t.tag) for k, t in events)) if n >= 2 else None,
                     "flat" if len(case["inputs"]) == 1 else "multi-key")
            ctx.count("len>=10" if n >= 10 else "len<10")
        elif op == "nested":
            levels = case["levels"]
            top = build_token(case["value"], levels, case["tag"])
            cur, size_logs = [top], []
            for lv in range(levels):
                rng.shuffle(cur)
                elems, sizes, _ = await rig.scatter(cur)
                self._check_scatter(ctx, case, cur, elems, sizes)
                cur = [t for t in elems if not isinstance(t, TerminationToken)]
                size_logs.append([t for t in sizes if not isinstance(t, TerminationToken)])
            data = [apply_f(case["f"], t) for t in cur]
            if case["single_gather"]:
                # one gather with depth = levels; its size token carries the number of leaves (flat cross product)
                size_tok = Token(value=len(data), tag=case["tag"])
                events = interleave(rng, data, [size_tok], rng.choice(ORDERS))
                out = await self._gather_stage(ctx, rig, case, levels, events, case["imposed"], f"gather-depth-{levels}")
                flat = _flatten_expected(expect_tree(case["f"], case["value"], levels, case["tag"]), levels)
                self._monitor(ctx, case, out, [["L", case["tag"], flat]])
            else:
                for lv in reversed(range(levels)):
                    events = interleave(rng, data, size_logs[lv], rng.choice(ORDERS))
                    out = await self._gather_stage(ctx, rig, case, 1, events, case["imposed"], f"gather-level-{lv + 1}")
                    data = [t for t in out if not isinstance(t, TerminationToken)]
                self._monitor(ctx, case, out, [expect_tree(case["f"], case["value"], levels, case["tag"])])
            ctx.case({"case": _brief(case)}, ("nested", levels, case["single_gather"], repr(case["value"])[:200], case["oseed"]),
                     f"nested-{levels}" + ("-single-gather" if case["single_gather"] else ""))
        elif op == "scatterrun":
            evs = case["events"]
            elems, sizes, raised = await rig.scatter_run(evs)
            evs = evs[: rig.last_scatter_applied]
            words = [f"l:{e[1]}:{e[2]}" if e[0] == "l" else f"o:{e[1]}" if e[0] == "o" else f"t:{e[1]}" if e[0] == "t"
                     else "r:" + (",".join(e[1]) or "-") for e in evs]
            terms = [t for t in elems if isinstance(t, TerminationToken)]
            tsz = [t for t in sizes if isinstance(t, TerminationToken)]
            ok_term = len(terms) <= 1 and len(tsz) == len(terms) and (not terms or (elems[-1] is terms[0] and sizes[-1] is tsz[0]
                                                                                       and terms[0].value == tsz[0].value))
            real = ((",".join(f"{t.tag}:{t.value}" for t in elems if not isinstance(t, TerminationToken)) or "-") + "|sizes=" +
                    (",".join(f"{t.tag}:{t.value}" for t in sizes if not isinstance(t, TerminationToken)) or "-") + "|term=" +
                    ((terms[0].value.name if terms else "-") if ok_term else "INCONSISTENT") + ("|raised" if raised else ""))
            exp = (real, "exact", dict(case, stage="scatterrun"))
            # provenance in the database of every token on the two ports at the end: the list token it was scattered from
            fed = rig.last_scatter_inputs
            provs = []
            for log, pre in ((elems, ""), (sizes, "size:")):
                for t in log:
                    if isinstance(t, TerminationToken):
                        continue
                    deps = [r["dependee"] for r in await rig.context.database.get_dependees(t.persistent_id)]
                    provs.append(f"{pre}{t.tag}<-" + ("+".join(str(fed.get(d, "?")) for d in deps) or "none"))
            pexp = (",".join(sorted(provs)) or "-", "scatterprov", dict(case, stage="scatterrun:provenance"))
            self._lines.append("scatterrun " + " ".join(words))
            self._expect.append(exp)
            self._lines.append("scatterprov " + " ".join(words))
            self._expect.append(pexp)
            if all(e[0] in ("l", "t") for e in evs) and evs and evs[-1][0] == "t":
                # the property's part: element i of every list retagged tag.i in order, one size token per list, both ports terminated
                exp_e = [f"{e[1]}.{k}" for e in evs if e[0] == "l" for k in range(e[2])]
                exp_s = [(e[1], e[2]) for e in evs if e[0] == "l"]
                got_e = [t.tag for t in elems if not isinstance(t, TerminationToken)]
                got_s = [(t.tag, t.value) for t in sizes if not isinstance(t, TerminationToken)]
                if got_e != exp_e or got_s != exp_s or not terms:
                    ctx.fail("scatter:wrong-tags-or-size", f"scatter run {words}: elements {got_e[:30]} sizes {got_s} terminated {bool(terms)}", case)
            ctx.case({"case": case, "real": real[:300]}, ("scatterrun", tuple(words)), "scatterrun")
        elif op == "pipeline":
            await self._pipeline(ctx, rig, case)
        elif op == "cwl":
            await self._cwl(ctx, rig, case)
        elif op == "partial":
            n, depth = case["n"], case["depth"]
            elems, sizes = [], []
            # one key ("0"), or several concurrent keys: the forced gathering walks token_map in insertion order
            for key in case.get("keys", ["0"]):
                mid = ".0" * (depth - 1)
                ke = [Token(value=i, tag=f"{key}{mid}.{i}") for i in range(n)]
                ks = [Token(value=n, tag=key)]
                drop = case["drop"] if key == case.get("keys", ["0"])[0] else rng.choice(["size", "elems", "none", "both"])
                if drop in ("size", "both"):
                    ks = []
                if drop in ("elems", "both") and ke:
                    ke = rng.sample(ke, rng.randint(0, len(ke) - 1))
                elems += ke
                sizes += ks
            if case["extra_size"]:
                sizes.append(Token(value=rng.randint(0, 2), tag="0.7"))
            events = interleave(rng, elems, sizes, "shuffled", te=case["te"], ts=case["ts"])
            await self._gather_stage(ctx, rig, case, case["depth"], events, True, "gather-partial")
            ctx.case({"case": case}, ("partial", n, case["drop"], case["te"], case["ts"], case["oseed"]), "partial" if "keys" not in case else "partial-multi-key")
        else:
            raise ValueError(op)

    # --------------------------------------------------------------------------------------------
    async def _pipeline(self, ctx: Ctx, rig: Rig, case: dict) -> None:
        """ScatterStep^levels -> Transformer(f) -> GatherStep^levels (each gather wired to the size port of its scatter, as the CWL
        translator does), every step run concurrently by the real StreamFlowExecutor under the shuffling event loop"""
        levels = case["levels"]
        wf = rig._wf()
        p_in = wf.create_port()
        cur, size_ports = p_in, []
        for lv in range(levels):
            sc = wf.create_step(cls=ScatterStep, name=f"/s{lv}/x-scatter")
            sc.add_input_port("x", cur)
            cur = wf.create_port()
            sc.add_output_port("x", cur)
            size_ports.append(sc.get_size_port())
        m = wf.create_step(cls=_Map, name="/map")
        m.f = case["f"]
        m.add_input_port("x", cur)
        cur = wf.create_port()
        m.add_output_port("x", cur)
        gathers = []
        for lv in reversed(range(levels)):
            g = wf.create_step(cls=GatherStep, name=f"/s{lv}/x-gather", size_port=size_ports[lv], depth=1)
            g.add_input_port("x", cur)
            cur = wf.create_port()
            g.add_output_port("x", cur)
            gathers.append(g)
        await wf.save(rig.context.database)
        inputs = [build_token(i["value"], levels, i["tag"]) for i in case["inputs"]]
        await sd.save_tokens(rig.context, p_in, inputs)
        for t in inputs:
            p_in.put(t)
        p_in.put(TerminationToken())
        hung, _, live = await sd.run_workflow(wf, StreamFlowExecutor(wf).run())
        if hung:
            raise sd.StepHang(f"pipeline made no progress for 180 s; steps still running: {live}")
        out = list(cur.token_list)
        self._monitor(ctx, case, out, [expect_tree(case["f"], i["value"], levels, i["tag"]) for i in case["inputs"]], check_status=False)
        # every gather of the pipeline against the model: its two input logs in a canonical interleaving, outputs compared per key
        for g in gathers:
            gin, gsz = g.get_input_port(), g.get_size_port()
            events = [("e", t) for t in gin.token_list if not isinstance(t, TerminationToken)] + \
                     [("s", t) for t in gsz.token_list if not isinstance(t, TerminationToken)] + \
                     [("te", next(t.value.name for t in gin.token_list if isinstance(t, TerminationToken))),
                      ("ts", next(t.value.name for t in gsz.token_list if isinstance(t, TerminationToken)))]
            ids: dict = {}
            line = lean_gather_line(1, events, ids)
            exp = (render_real_out(list(g.get_output_port().token_list), ids), "sets", dict(case, stage=g.name, line=line[:300]))
            self._lines.append(line)
            self._expect.append(exp)
        ctx.case({"case": _brief(case), "out": [sd.untoken(t) for t in out][:2]},
                 ("pipeline", levels, repr(case["inputs"])[:300], case["oseed"]), f"pipeline-{levels}")

    # --------------------------------------------------------------------------------------------
    async def _cwl(self, ctx: Ctx, rig: Rig, case: dict) -> None:
        """a generated CWL scatter workflow (ExpressionTool body) through the real CWLTranslator and executor, in-process on the check's
        in-memory database; the workflow output against the property, every GatherStep of the translated workflow against the model"""
        import logging
        import cwl_utils.parser
        import cwl_utils.parser.utils
        from streamflow.config.config import WorkflowConfig
        from streamflow.cwl.translator import CWLTranslator
        from streamflow.log_handler import logger as sf_logger

        sf_logger.setLevel(logging.ERROR)
        rig.n += 1
        wdir = os.path.join(ctx.scratch, f"cwl-{rig.n}")
        os.makedirs(wdir, exist_ok=True)
        doc, job = os.path.join(wdir, "scatter.cwl"), os.path.join(wdir, "job.yml")
        with open(doc, "w") as f:
            f.write(CWL_SCATTER_1 if case["levels"] == 1 else CWL_SCATTER_2)
        with open(job, "w") as f:
            json.dump({"xs" if case["levels"] == 1 else "xss": case["value"]}, f)
        cfg = {"version": "v1.0", "workflows": {"w": {"type": "cwl", "config": {"file": doc, "settings": job}}}, "path": wdir}
        cwl_definition = cwl_utils.parser.load_document_by_uri(doc)
        cwl_inputs = cwl_utils.parser.utils.load_inputfile_by_uri(version=cwl_definition.cwlVersion, path=job,
                                                                   loadingOptions=cwl_definition.loadingOptions)
        # the scheduler, the job pipeline and the JavaScript engine (node, 20 s time-out in cwl_utils) take part in a CWL run: on a loaded
        # machine an expression can time out, the job FAILS and the executor may never finish. A stall or failure is charged to
        # scatter/gather only if a ScatterStep/GatherStep itself failed, or nothing failed and the stall is reproducible (3 of 3).
        verdict = None
        for attempt in range(3):
            wf = CWLTranslator(context=rig.context, name=f"c01cwl-{rig.n}-{attempt}", output_directory=wdir, cwl_definition=cwl_definition,
                               cwl_inputs=cwl_inputs, cwl_inputs_path=job, workflow_config=WorkflowConfig("w", cfg)).translate()
            await wf.save(rig.context.database)
            err, hung, outputs, live = None, False, None, []
            try:
                hung, outputs, live = await sd.run_workflow(wf, StreamFlowExecutor(wf).run())
            except Exception as e:  # noqa: BLE001
                err = e
            failed = [st for st in wf.steps.values() if st.status == Status.FAILED]
            if not hung and err is None:
                verdict = "ok"
                break
            if failed and not any(isinstance(st, (ScatterStep, GatherStep)) for st in failed):
                verdict = "env"
                ctx.count("cwl-job-failure(not charged)")
                ctx.notes.append(f"CWL run attempt {attempt + 1}: job step(s) {[st.name for st in failed][:4]} FAILED outside scatter/gather "
                                 f"({'stall' if hung else repr(err)[:120]}) on {case}")
                continue
            if err is not None:
                raise err
            verdict = "hang"
            ctx.count("cwl-stall")
            ctx.notes.append(f"CWL run stalled (attempt {attempt + 1}) on {case}: steps still running {live}")
        if verdict == "env":
            ctx.extra["cwl_cases_not_evaluated"] = ctx.extra.get("cwl_cases_not_evaluated", 0) + 1
            return
        if verdict == "hang":
            raise sd.StepHang(f"CWL scatter workflow made no progress for 180 s in 3 runs out of 3 (no failed step); steps still running: {live}")

        def f2(v):
            return [f2(x) for x in v] if isinstance(v, list) else v * 2 + 1

        got = outputs.get("ys" if case["levels"] == 1 else "yss")
        if got != f2(case["value"]):
            flat = sorted(sd_flat(got)) == sorted(sd_flat(f2(case["value"])))
            ctx.fail("cwl:wrong-order" if flat else "cwl:wrong-content", f"workflow output {got!r}, expected {f2(case['value'])!r}", case)
        for st in wf.steps.values():
            if isinstance(st, GatherStep):
                gin, gsz = st.get_input_port(), st.get_size_port()
                tin = [t for t in gin.token_list if isinstance(t, TerminationToken)]
                tsz = [t for t in gsz.token_list if isinstance(t, TerminationToken)]
                if not tin or not tsz:
                    continue
                events = [("e", t) for t in gin.token_list if not isinstance(t, TerminationToken)] + \
                         [("s", t) for t in gsz.token_list if not isinstance(t, TerminationToken)] + \
                         [("te", tin[0].value.name), ("ts", tsz[0].value.name)]
                ids: dict = {}
                line = lean_gather_line(st.depth, events, ids)
                exp = (render_real_out(list(st.get_output_port().token_list), ids), "sets", dict(case, stage=st.name, line=line[:300]))
                self._lines.append(line)
                self._expect.append(exp)
        ctx.case({"case": case, "outputs": outputs}, ("cwl", case["levels"], repr(case["value"])[:300]), f"cwl-{case['levels']}")

    # --------------------------------------------------------------------------------------------
    def _check_scatter(self, ctx: Ctx, case: dict, inputs: list[Token], elems: list[Token], sizes: list[Token]) -> None:
        """scatter: element i of the list tagged p becomes p.i (in order), one size token (p, n) per input"""
        exp_e, exp_s = [], []
        for t in inputs:
            exp_e += [f"{t.tag}.{i}" for i in range(len(t.value))]
            exp_s.append((t.tag, len(t.value)))
        got_e = [t.tag for t in elems if not isinstance(t, TerminationToken)]
        got_s = [(t.tag, t.value) for t in sizes if not isinstance(t, TerminationToken)]
        if got_e != exp_e or got_s != exp_s:
            ctx.fail("scatter:wrong-tags-or-size", f"scatter of {[(t.tag, len(t.value)) for t in inputs]} emitted {got_e[:30]} sizes {got_s}", case)
        if not (elems and isinstance(elems[-1], TerminationToken) and sizes and isinstance(sizes[-1], TerminationToken)):
            ctx.fail("scatter:no-termination", "scatter did not terminate its output ports", case)
        for t in inputs:
            sline = f"scatter {t.tag} {len(t.value)}"
            # the real side of this line is what the real step emitted for this input
            mine = [e.tag for e in elems if not isinstance(e, TerminationToken) and e.tag.rsplit(".", 1)[0] == t.tag]
            msz = [s.value for s in sizes if not isinstance(s, TerminationToken) and s.tag == t.tag]
            real_line = (",".join(f"{tg}:{i}" for i, tg in enumerate(mine)) or "-") + f"|size={t.tag}:{msz[0] if msz else '?'}"
            self._lines.append(sline)
            self._expect.append((real_line, "exact", dict(_brief(case), stage="scatter", input=t.tag)))

    def _monitor(self, ctx: Ctx, case: dict, out: list[Token], expected: list, check_status: bool = True) -> None:
        """the property: exactly one list per key, original tag, original values in original order, then termination"""
        lists = [sd.untoken(t) for t in out if not isinstance(t, TerminationToken)]
        if not out or not isinstance(out[-1], TerminationToken) or sum(isinstance(t, TerminationToken) for t in out) != 1:
            ctx.fail("gather:termination", f"output port does not end with exactly one termination token: {[sd.untoken(t) for t in out][-3:]}", case)
            return
        by_tag: dict = {}
        for item in lists:
            by_tag.setdefault(item[1], []).append(item)
        for exp in expected:
            got = by_tag.pop(exp[1], [])
            if len(got) != 1:
                key = "gather:never-emitted" if not got else "gather:emitted-more-than-once"
                ctx.fail(key, f"{len(got)} list tokens with tag {exp[1]} (expected exactly one)", case)
            elif got[0] != exp:
                g = got[0]
                if g[0] == "L" and exp[0] == "L" and sorted(map(repr, g[2])) == sorted(map(repr, exp[2])):
                    n = len(exp[2])
                    ctx.fail("gather:wrong-order" + (":len>=11" if n >= 11 else ""), f"elements of {exp[1]} are permuted: {[e[1] for e in g[2]]}", case)
                else:
                    ctx.fail("gather:wrong-content", f"list {exp[1]}: got {g!r:.300}, expected {exp!r:.300}", case)
        if by_tag:
            ctx.fail("gather:unexpected-output", f"list tokens with unexpected tags {sorted(by_tag)}", case)
        # (in a whole pipeline an empty list makes the upstream steps SKIPPED and the gather inherits that status although it
        #  emits the — correct — empty list; the status is only checked where the harness feeds COMPLETED termination tokens)
        if check_status and out[-1].value != Status.COMPLETED:
            ctx.fail("gather:status", f"termination status {out[-1].value.name} on a complete stream", case)

    # --------------------------------------------------------------------------------------------
    def replay(self, ctx: Ctx, data) -> None:
        case = data.get("replay") or (data.get("no_longer_checks") or [{}])[0].get("case")
        if not isinstance(case, dict) or "op" not in case:
            return super().replay(ctx, data)
        case = {k: v for k, v in case.items() if k not in ("stage", "line")}
        self._lines, self._expect = [], []

        async def main():
            context = make_context(ctx.scratch)
            try:
                await self.run_case(ctx, Rig(context), case)
            finally:
                await context.close()

        run_controlled(main, data.get("seed", 0), timeout=120)
        got = ctx.lean("Drivers/C01.lean", self._lines)
        for ln, g, (real, how, c) in zip(self._lines, got, self._expect):
            print(f"{c.get('stage')}: {ln[:400]}\n   real : {real[:600]}\n   model: {g[:600]}")
            if how == "scatterprov":
                continue
            bad = (g != real) if how == "exact" else (canon_prov(g) != canon_prov(real)) if how == "prov" else \
                (sorted(canon_prov(g)) != sorted(canon_prov(real))) if how == "provset" else (canon_sets(g) != canon_sets(real))
            if bad:
                ctx.disagree("model vs code", f"code {real!r}, model {g!r}", c)


def sd_flat(v) -> list:
    return [y for x in v for y in sd_flat(x)] if isinstance(v, list) else [v]


def _brief(case: dict) -> dict:
    c = dict(case)
    return c


def _flatten_expected(tree: Any, levels: int) -> list:
    """leaves of the expected tree in row-major order (what one gather with depth=levels produces)"""
    if levels == 0:
        return [tree]
    out = []
    for sub in tree[2]:
        out += _flatten_expected(sub, levels - 1)
    return out


PROPERTY = C01()
