/-! # Bytes — chunked byte streams with an arbitrary chunking policy

Shared layer of C22 / C23. An underlying stream (pipe, socket, subprocess stdout) is its remaining data plus a
*policy*: how many bytes a raw `read(req)` returns, as an arbitrary function of the request and of what is
left. A raw read returns between 1 and `min req remaining` bytes (0 only when nothing is requested or left):
`grant` clamps the policy into that range, so *every* function is a legal policy and theorems quantified over
`policy` cover every chunking.

`tellRead` is `TellableStreamWrapper.read(size)` (loop until `size` bytes or EOF); `seek` is
`SeekableStreamReaderWrapper.seek(offset)` as it is now (skips with the looping read); `seekOnce` is the
version before commit 3419471 (one raw read). -/
namespace SFV.Bytes

abbrev Byte := UInt8

structure Raw where
  data : List Byte
  policy : Nat → Nat → Nat   -- request → remaining → bytes offered

/-- bytes a raw read of `req` returns -/
def Raw.grant (r : Raw) (req : Nat) : Nat :=
  max (min 1 (min req r.data.length)) (min (r.policy req r.data.length) (min req r.data.length))

/-- one raw `stream.read(req)` -/
def Raw.read (r : Raw) (req : Nat) : List Byte × Raw :=
  (r.data.take (r.grant req), { r with data := r.data.drop (r.grant req) })

theorem Raw.grant_le (r : Raw) (req : Nat) : r.grant req ≤ min req r.data.length := by
  unfold Raw.grant; omega
theorem Raw.grant_pos (r : Raw) (req : Nat) (h1 : 0 < req) (h2 : 0 < r.data.length) : 0 < r.grant req := by
  unfold Raw.grant; omega

/-- `TellableStreamWrapper.read(size)`: loop until `size` bytes or EOF (fuel = `size`: every round gets ≥ 1 byte) -/
def tellReadF : Nat → Nat → Raw → List Byte × Raw
  | 0, _, r => ([], r)
  | _, 0, r => ([], r)
  | fuel + 1, size + 1, r =>
      let n := r.grant (size + 1)
      if n = 0 then ([], { r with data := r.data.drop n })
      else
        let rest := tellReadF fuel (size + 1 - n) { r with data := r.data.drop n }
        (r.data.take n ++ rest.1, rest.2)

def tellRead (size : Nat) (r : Raw) : List Byte × Raw := tellReadF size size r

/-- a reader with a position: `TellableStreamWrapper` / `SeekableStreamReaderWrapper` -/
structure Reader where
  raw : Raw
  pos : Nat

/-- `read(size)`: returns the bytes, advances `position` by their number -/
def Reader.read (s : Reader) (size : Nat) : List Byte × Reader :=
  let res := tellRead size s.raw
  (res.1, { raw := res.2, pos := s.pos + res.1.length })

/-- `seek(offset)` as the code is now: `await self.read(offset - position); position = offset` (forward only;
    `none` = `ReadError("Cannot seek backward with streams")`) -/
def Reader.seek (s : Reader) (offset : Nat) : Option Reader :=
  if offset > s.pos then some { raw := (s.read (offset - s.pos)).2.raw, pos := offset }
  else if offset < s.pos then none
  else some s

/-- `seek` before the fix: ONE raw read, then `position = offset` -/
def Reader.seekOnce (s : Reader) (offset : Nat) : Option Reader :=
  if offset > s.pos then some { raw := (s.raw.read (offset - s.pos)).2, pos := offset }
  else if offset < s.pos then none
  else some s

end SFV.Bytes
