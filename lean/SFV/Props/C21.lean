import SFV.Lemmas.RegistryInv
import SFV.Lemmas.RegistryWitness
/-! # C21 — the data-location registry answers consistently with its history

`_RemotePathMapper` / `DefaultDataManager` (`streamflow/data/manager.py`), modelled as written in
`SFV/Model/Registry.lean` (trie nodes, `locations` lists of `DataLocation` *objects*, the `valid_paths` cache, a heap of
objects whose validity is mutated in place). Two defects of the unchanged code are proved on witnesses; the partial
statements say what does hold. -/
namespace SFV.C21
open SFV.Registry

def pa : Path := ["/", "a"]
def paf : Path := ["/", "a", "f"]
def pbg : Path := ["/", "b", "g"]

/-! ### defect 1: stale `valid_paths` -/

/-- register A:/a/f, register B:/b/g, relate them, invalidate B:/b/g, register B:/b/g again -/
def h12 : St :=
  let s1 := register St.init 0 paf                  -- object 0 (+ ancestors)
  let s2 := register s1.1 1 pbg
  let s3 := relate s2.1 s1.2 s2.2
  match invalidate 1000 s3 1 pbg with
  | .ok s4 => (register s4 1 pbg).1
  | _ => St.init

/-- the object created by the second registration of B:/b/g -/
def o12 : Nat := h12.heap.length - 1

/-- **relate after invalidate is ignored**: after relating A:/a/f with the *new, valid* B:/b/g object, `/a/f` is still
not available on B — the node of `/a/f` keeps `/b/g` in its `valid_paths` although no valid object there carries that
path (the cache-free registry `specValid` says so), and `put` stops at that test. The full statement
`registry_refines_spec` is therefore false of the code. -/
theorem relate_after_invalidate_ignored :
    objValid h12 o12 = true ∧ objPath h12 o12 = pbg ∧ objLoc h12 o12 = 1 ∧
    getLocs (relate h12 0 o12) paf 1 = [] ∧
    pbg ∈ (relate h12 0 o12).vpaths paf 1 ∧ specValid (relate h12 0 o12) paf 1 pbg = false := by
  decide +kernel

/-- register L:/b/g, L:/e, relate them, invalidate L:/e (this also invalidates the shared /b/g object) -/
def h12b : St :=
  let s1 := register St.init 0 pbg
  let s2 := register s1.1 0 pe
  let s3 := relate s2.1 s2.2 s1.2
  match invalidate 1000 s3 0 pe with
  | .ok s4 => s4
  | _ => St.init

/-- **re-registering does not make the path available again** when the stale entry sits in the path's own node -/
theorem reregister_after_invalidate_ignored :
    getLocs h12b pbg 0 = [] ∧ getLocs (register h12b 0 pbg).1 pbg 0 = [] := by
  decide +kernel

/-! ### defect 3: a subtree is skipped -/

def pb : Path := ["/", "b"]
def pbea : Path := ["/", "b", "e", "a"]
def pbeaf : Path := ["/", "b", "e", "a", "f"]

/-- register B:/b/e/a, A:/b, B:/b/e/a/f, relate A:/b with B:/b/e/a (the B object is now also stored at the node `/b`),
invalidate B:"/" -/
def h3 : St :=
  let s1 := register St.init 1 pbea
  let s2 := register s1.1 0 pb
  let s3 := register s2.1 1 pbeaf
  let s4 := relate s3.1 s2.2 s1.2
  match invalidate 1000 s4 1 ["/"] with
  | .ok s5 => s5
  | _ => St.init

/-- **invalidating the root leaves `/b/e/a/f` available on that location**: the object of `/b/e/a` is invalidated while
the walk is at `/b` (where the relation stored it); when the walk reaches `/b/e`, the node `/b/e/a` holds no valid
object any more, so the walk does not enter it and never sees `/b/e/a/f`. `invalidate_subtree_only` is false. -/
theorem invalidate_misses_subtree :
    getLocs h3 ["/"] 1 = [] ∧ getLocs h3 pbea 1 = [] ∧ getLocs h3 pbeaf 1 ≠ [] := by
  decide +kernel

/-! ### defect 2: `invalidate_location` does not terminate -/

/-- **`invalidate_location(L, "/e")` is still running after any number of steps**: object 3 (the second registration
of `/e`) is stored only in the child node `/e/f`, is never marked invalid, and sends the recursion back to `/e`. -/
theorem invalidate_diverges : ∀ fuel, (∃ s, invalidate fuel s21 0 pe = .ok s) → False := by
  have hf := s21m_facts
  obtain ⟨h1, h1m, hc, hcm, hl, hv0, hv3, hl3, hp3⟩ := hf
  -- on the fixed point nothing ever returns
  have key : ∀ fuel,
      (∀ s, invalidate fuel s21m 0 pe ≠ .ok s) ∧ (∀ s, childLoop fuel s21m 0 [pef] ≠ .ok s) ∧
      (∀ s, entryLoop fuel s21m 0 [0, 3] ≠ .ok s) ∧ (∀ s, entryLoop fuel s21m 0 [3] ≠ .ok s) := by
    intro fuel
    induction fuel with
    | zero => simp [invalidate, childLoop, entryLoop]
    | succ f ih =>
      obtain ⟨iA, iB, iC, iD⟩ := ih
      refine ⟨?_, ?_, ?_, ?_⟩
      · intro s
        simp only [invalidate, if_neg h1m, s21m_fix, hcm]
        exact iB s
      · intro s
        simp only [childLoop, hl]
        cases hC : entryLoop f s21m 0 [0, 3] with
        | ok s' => exact absurd hC (iC s')
        | keyError => simp
        | recursion => simp
      · intro s
        simp only [entryLoop, hv0]
        exact iD s
      · intro s
        simp only [entryLoop, hv3, if_true, hl3, hp3]
        cases hA : invalidate f s21m 0 pe with
        | ok s' => exact absurd hA (iA s')
        | keyError => simp
        | recursion => simp
  intro fuel ⟨s, hs⟩
  cases fuel with
  | zero => simp [invalidate] at hs
  | succ f =>
    simp only [invalidate, if_neg h1, hc] at hs
    exact (key f).2.1 s hs

/-! ### what does hold -/

/-- `get_data_locations` never returns an invalid location (`source_is_valid_primary`, as far as validity goes) -/
theorem get_returns_valid_only (s : St) (p : Path) (l : Nat) : ∀ o ∈ getLocs s p l, objValid s o = true := by
  intro o ho
  simp only [getLocs, List.mem_filter] at ho
  exact ho.2

/-- **`invalidate_location` only invalidates** (when it returns): no object becomes valid, no entry, node, path or
location of an object changes, the heap keeps its size — and every object stored at the invalidated node for that
location is invalid afterwards (`invalidate_total` is false, see `invalidate_diverges`; this is the part that holds). -/
theorem invalidate_only_invalidates_partial (fuel : Nat) (s s' : St) (l : Nat) (p : Path)
    (h : invalidate fuel s l p = .ok s') :
    s'.heap.length = s.heap.length ∧ s'.nodes = s.nodes ∧ s'.locs = s.locs ∧
    (∀ o, objValid s' o = true → objValid s o = true) ∧
    (∀ o ∈ s.locs p l, objValid s' o = false) ∧ getLocs s' p l = [] := by
  have hs := (shrinks_invalidate fuel).1 s l p s' h
  have hmark : ∀ o ∈ s.locs p l, objValid s' o = false := by
    intro o ho
    cases fuel with
    | zero => simp [invalidate] at h
    | succ f =>
      simp only [invalidate] at h
      split at h
      · cases h
      · have h2 := (shrinks_invalidate f).2.1 _ _ _ _ h
        cases hv : objValid s' o with
        | false => rfl
        | true =>
          have := h2.valid o hv
          rw [markLoop_invalid p l (s.locs p l) s o ho] at this
          cases this
  refine ⟨hs.len, hs.nodes, hs.locs, hs.valid, hmark, ?_⟩
  simp only [getLocs, hs.locs]
  apply List.filter_eq_nil_iff.mpr
  intro o ho
  simp [hmark o ho]

/-- **re-registration makes the path available again — provided the node does not still believe the path valid**
(the hypothesis `p ∉ s.vpaths p l` is exactly what the stale cache breaks, see `reregister_after_invalidate_ignored`):
the new object is stored at the node of `p` for `l` and is returned by `get_data_locations`. -/
theorem reregister_available_partial (s : St) (l : Nat) (p : Path) (hp : p ≠ []) (hv : p ∉ s.vpaths p l) :
    (register s l p).2 ∈ getLocs (register s l p).1 p l := by
  obtain ⟨init, hpre, hlen⟩ := prefixes_snoc p hp
  have hrev : (prefixes p).reverse = p :: init.reverse := by rw [hpre]; simp
  have hne : ∀ np ∈ init.reverse, np ≠ p := by
    intro np hnp e
    have := hlen np (by simpa using hnp)
    rw [e] at this; omega
  simp only [register, put, hrev, if_true]
  -- the object just allocated
  have hl : objLoc ⟨s.heap ++ [⟨l, p, true⟩], s.nodes, s.locs, s.vpaths⟩ s.heap.length = l := by simp [objLoc]
  have hpth : objPath ⟨s.heap ++ [⟨l, p, true⟩], s.nodes ++ prefixes p, s.locs, s.vpaths⟩ s.heap.length = p := by
    simp [objPath]
  simp only [hl, putLoop, if_true, hpth]
  rw [if_neg hv]
  obtain ⟨hk1, hk2⟩ := putLoop_keeps l s.heap.length p init.reverse
    { heap := s.heap ++ [⟨l, p, true⟩], nodes := s.nodes ++ prefixes p,
      locs := upd s.locs p l (s.locs p l ++ [s.heap.length]), vpaths := upd s.vpaths p l (s.vpaths p l ++ [p]) } hne
  simp only [getLocs, List.mem_filter]
  refine ⟨?_, ?_⟩
  · rw [hk1]; simp [upd]
  · simp only [objValid]
    rw [hk2 s.heap.length (by simp)]
    simp

/-- **`registry_refines_spec_partial`**: for every history of registrations and invalidations (no relations) the
`valid_paths` cache is exact — a path is believed valid at a node iff the cache-free registry (`specValid`: some valid
object with that path is stored there) says so — every stored object sits in the node of its own path under its own
location, and therefore `put`'s `valid_paths` test is the cache-free test. The full statement (with relations) is false:
`relate_after_invalidate_ignored`. -/
theorem registry_refines_spec_partial (ops : List ROp) :
    (∀ np l p, p ∈ (runR ops).vpaths np l ↔ specValid (runR ops) np l p = true) ∧
    (∀ np l o, o ∈ (runR ops).locs np l → objPath (runR ops) o = np ∧ objLoc (runR ops) o = l) := by
  have h := rinv_runR ops
  refine ⟨?_, fun np l o ho => ⟨(h.own np l o ho).2.1, (h.own np l o ho).2.2⟩⟩
  intro np l p
  rw [h.cache np l p]
  simp only [specValid, List.any_eq_true, Bool.and_eq_true, beq_iff_eq]
  constructor
  · rintro ⟨rfl, o, ho, hv⟩; exact ⟨o, ho, hv, (h.own _ l o ho).2.1⟩
  · rintro ⟨o, ho, hv, hp⟩; exact ⟨((h.own np l o ho).2.1.symm.trans hp).symm, o, ho, hv⟩

/-- consequence for such histories: **re-registration always makes the path available again**, and so does registering
below an invalidated directory -/
theorem reregister_available_norel (ops : List ROp) (l : Nat) (p : Path) (hp : p ≠ []) :
    getLocs (register (runR ops) l p).1 p l ≠ [] := by
  have hc := (registry_refines_spec_partial ops).1 p l p
  by_cases hv : p ∈ (runR ops).vpaths p l
  · -- already believed valid: by exactness a valid object is stored there, and `register` keeps it
    have hspec := hc.mp hv
    simp only [specValid, List.any_eq_true, Bool.and_eq_true, beq_iff_eq] at hspec
    obtain ⟨o, ho, hval, _⟩ := hspec
    obtain ⟨init, hpre, hlen⟩ := prefixes_snoc p hp
    have hrev : (prefixes p).reverse = p :: init.reverse := by rw [hpre]; simp
    have hl : objLoc ⟨(runR ops).heap ++ [⟨l, p, true⟩], (runR ops).nodes, (runR ops).locs, (runR ops).vpaths⟩
        (runR ops).heap.length = l := by simp [objLoc]
    have hpth : objPath ⟨(runR ops).heap ++ [⟨l, p, true⟩], (runR ops).nodes ++ prefixes p, (runR ops).locs, (runR ops).vpaths⟩
        (runR ops).heap.length = p := by simp [objPath]
    have hstop : (register (runR ops) l p).1 =
        ⟨(runR ops).heap ++ [⟨l, p, true⟩], (runR ops).nodes ++ prefixes p, (runR ops).locs, (runR ops).vpaths⟩ := by
      simp only [register, put, hrev, if_true, hl, putLoop, hpth]
      rw [if_pos hv]
    rw [hstop]
    intro hnil
    have hlt : o < (runR ops).heap.length := by
      have hinv : RInv (runR ops) := rinv_runR ops
      exact (hinv.own p l o ho).1
    have : o ∈ getLocs ⟨(runR ops).heap ++ [⟨l, p, true⟩], (runR ops).nodes ++ prefixes p, (runR ops).locs, (runR ops).vpaths⟩ p l := by
      simp only [getLocs, List.mem_filter]
      refine ⟨ho, ?_⟩
      simp only [objValid] at hval ⊢
      simp [List.getElem?_append_left hlt, hval]
    rw [hnil] at this; cases this
  · intro hnil
    have := reregister_available_partial (runR ops) l p hp hv
    rw [hnil] at this; cases this

/-- non-vacuity of the witnesses: the states are the ones the comments describe -/
example : s21.heap.length = 4 ∧ s21.locs pe 0 = [1, 0] ∧ s21.locs pef 0 = [0, 3] := by decide +kernel

end SFV.C21
