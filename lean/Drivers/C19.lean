import SFV.Model.Claims
import SFV.Model.ClaimStatus
import SFV.Model.Proto
open SFV SFV.Proto SFV.Claims

/-! `claims <acts…>`: a<p>:<j> acquire, t<p>:<j> check observed True, f<p>:<j> check observed False, c<p> claim,
    r<p>:<j> release, d<j> the job finished an execution (ignored unless it is recovering)
    -> `ok maxclaims=<n> total=<sum>` | `disabled <i> <why>` -/

def pj (w : String) : Option (Nat × Nat) :=
  match (w.drop 1).toString.splitOn ":" with
  | [p, j] => match p.toNat?, j.toNat? with
    | some p, some j => some (p, j)
    | _, _ => none
  | _ => none

def go : St → List String → Nat → Nat → String
  | _, [], _, mx => s!"ok maxclaims={mx}"
  | s, w :: ws, i, mx =>
      let fail (why : String) := s!"disabled {i} {why}"
      let cont (s' : St) (j : Nat) := go s' ws (i + 1) (max mx (s'.claims j))
      if w.startsWith "a" then match pj w with
        | some (p, j) => match step ⟨true⟩ s (.acquire p j) with
          | some s' => cont s' j | none => fail "lock-held"
        | none => fail "parse"
      else if w.startsWith "t" then match pj w with
        | some (p, j) => if s.holder j = some p then go s ws (i + 1) mx else fail "check-without-lock"
        | none => fail "parse"
      else if w.startsWith "f" then match pj w with
        | some (p, j) =>
            if s.recovering j then fail "code-says-not-recovering-but-already-claimed"
            else match step ⟨true⟩ s (.check p j) with
              | some s' => cont s' j | none => fail "check-without-lock"
        | none => fail "parse"
      else if w.startsWith "c" then match (w.drop 1).toNat? with
        | some p => match s.pend p with
          | some j => match step ⟨true⟩ s (.claim p) with
            | some s' => cont s' j | none => fail "claim"
          | none => fail "claim-without-check"
        | none => fail "parse"
      else if w.startsWith "r" then match pj w with
        | some (p, j) => match step ⟨true⟩ s (.release p j) with
          | some s' => cont s' j | none => fail "release"
        | none => fail "parse"
      else if w.startsWith "d" then match (w.drop 1).toNat? with
        | some j => match step ⟨true⟩ s (.finish j) with
          | some s' => cont s' j | none => go s ws (i + 1) mx
        | none => fail "parse"
      else fail "parse"

/-! `status <acts…>`: replay on the status-refined model (`SFV/Model/ClaimStatus.lean`) run with the GENERATED `is_recovering`:
    a<p>:<j> acquire, r<p>:<j> release, k<p>:<j>:<T|F>:<STATUS> a check under the lock that saw the scheduler status STATUS and
    answered T/F, c<p> claim. Before a check the model's status of the job is advanced along the re-execution life cycle
    (ROLLBACK → FIREABLE → RUNNING → COMPLETED | failed) until it equals the observed one — the engine's schedule / start / finish
    steps are not logged one by one; a status the life cycle cannot explain is reported.
    -> `ok maxclaims=<n>` | `disabled <i> <why>` -/

namespace StatusReplay
open SFV.ClaimStatus SFV.Gen

def parseStatus : String → Option JobStatus
  | "WAITING" => some .WAITING | "FIREABLE" => some .FIREABLE | "RUNNING" => some .RUNNING | "SKIPPED" => some .SKIPPED
  | "COMPLETED" => some .COMPLETED | "FAILED" => some .FAILED | "CANCELLED" => some .CANCELLED | "ROLLBACK" => some .ROLLBACK
  | "RECOVERY" => some .RECOVERY | "RECOVERED" => some .RECOVERED | _ => none

/-- FAILED (the job failed, `recover` has not yet marked it) and RECOVERY are the model's "failed" end of an execution -/
def norm : JobStatus → JobStatus
  | .FAILED => .RECOVERY
  | st => st

/-- advance job `j` along the life cycle until its status is `want` (at most `fuel` steps) -/
def catchUp (s : SFV.ClaimStatus.St) (j : Nat) (want : JobStatus) : Nat → Option SFV.ClaimStatus.St
  | 0 => if s.status j = want then some s else none
  | fuel + 1 =>
      if s.status j = want then some s
      else match s.status j with
        | .ROLLBACK => (SFV.ClaimStatus.step isRecovering s (.schedule j)).bind (catchUp · j want fuel)
        | .FIREABLE => (SFV.ClaimStatus.step isRecovering s (.start j)).bind (catchUp · j want fuel)
        | .RUNNING => (SFV.ClaimStatus.step isRecovering s (.finish j (decide (want ≠ .RECOVERY)))).bind (catchUp · j want fuel)
        | _ =>
            -- an execution that no claim started (the first run of the job, or the re-run of a job after its own failure was
            -- claimed and finished long ago): COMPLETED / failed → FIREABLE is the scheduler's `schedule`
            if want = .FIREABLE ∨ want = .RUNNING ∨ want = .COMPLETED ∨ want = .RECOVERY then
              if s.claims j = 0 then catchUp { s with status := SFV.ClaimStatus.upd s.status j .FIREABLE } j want fuel else none
            else none

def pjs (w : String) : Option (Nat × Nat × Bool × JobStatus) :=
  match (w.drop 1).toString.splitOn ":" with
  | [p, j, b, st] => match p.toNat?, j.toNat?, parseStatus st with
    | some p, some j, some st => some (p, j, b == "T", st)
    | _, _, _ => none
  | _ => none

def go : SFV.ClaimStatus.St → List String → Nat → Nat → String
  | _, [], _, mx => s!"ok maxclaims={mx}"
  | s, w :: ws, i, mx =>
      let fail (why : String) := s!"disabled {i} {why}"
      let cont (s' : SFV.ClaimStatus.St) (j : Nat) := go s' ws (i + 1) (max mx (s'.claims j))
      if w.startsWith "a" then match pj w with
        | some (p, j) => match SFV.ClaimStatus.step isRecovering s (.acquire p j) with
          | some s' => cont s' j | none => fail "lock-held"
        | none => fail "parse"
      else if w.startsWith "r" then match pj w with
        | some (p, j) => match SFV.ClaimStatus.step isRecovering s (.release p j) with
          | some s' => cont s' j | none => fail "release"
        | none => fail "parse"
      else if w.startsWith "k" then match pjs w with
        | some (p, j, b, st) =>
            if isRecovering st ≠ b then fail s!"answer-differs-from-generated-status-test"
            else match catchUp s j (norm st) 6 with
              | none => fail s!"status-not-explained-by-life-cycle model={repr (s.status j)} claims={s.claims j}"
              | some s1 => match SFV.ClaimStatus.step isRecovering s1 (.check p j) with
                | some s' => cont s' j
                | none => fail "check-without-lock"
        | none => fail "parse"
      else if w.startsWith "c" then match (w.drop 1).toNat? with
        | some p => match s.pend p with
          | some j => match SFV.ClaimStatus.step isRecovering s (.claim p) with
            | some s' => cont s' j | none => fail "claim"
          | none => fail "claim-without-negative-check"
        | none => fail "parse"
      else fail "parse"

end StatusReplay

def handle : List String → String
  | "claims" :: acts => go init acts 0 0
  | "status" :: acts => StatusReplay.go SFV.ClaimStatus.init acts 0 0
  | _ => "bad-op"

def main : IO Unit := runPure handle
