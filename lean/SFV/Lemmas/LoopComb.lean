import SFV.Model.LoopComb
/-! Helper definitions and lemmas for the reading protocol of `LoopCombinatorStep.run` (C04, loop combinator). -/
namespace SFV.LoopComb

/-! ## Reachability -/

/-- the states the loop can be in, for the given producer streams, under some scheduling of the reads -/
inductive Reachable (fixed : Bool) (streams : List (List Tok)) : St → Prop
  | init : Reachable fixed streams (initSt streams)
  | step {s s' : St} {i : Nat} :
      Reachable fixed streams s → SFV.LoopComb.step fixed s i = some s' → Reachable fixed streams s'

theorem run_append (fixed : Bool) (a b : List Nat) (s : St) :
    run fixed s (a ++ b) = (run fixed s a).bind (fun s' => run fixed s' b) := by
  induction a generalizing s with
  | nil => rfl
  | cons i is ih =>
    simp only [List.cons_append, run]
    cases step fixed s i with
    | none => rfl
    | some s1 => exact ih s1

theorem reachable_of_run {fixed : Bool} {streams : List (List Tok)} (sched : List Nat) {s0 s : St}
    (h0 : Reachable fixed streams s0) (hr : run fixed s0 sched = some s) : Reachable fixed streams s := by
  induction sched generalizing s0 with
  | nil => simp only [run] at hr; cases hr; exact h0
  | cons i is ih =>
    simp only [run] at hr
    split at hr
    · rename_i s1 h1; exact ih (Reachable.step h0 h1) hr
    · cases hr

theorem reachable_iff_run {fixed : Bool} {streams : List (List Tok)} {s : St} :
    Reachable fixed streams s ↔ ∃ sched, run fixed (initSt streams) sched = some s := by
  constructor
  · intro h
    induction h with
    | init => exact ⟨[], rfl⟩
    | step _ hs ih =>
      obtain ⟨sched, hr⟩ := ih
      rename_i i _
      refine ⟨sched ++ [i], ?_⟩
      rw [run_append, hr]
      simp only [Option.bind, run, hs]
  · rintro ⟨sched, hr⟩
    exact reachable_of_run sched Reachable.init hr

/-! ## Streams -/

theorem hasTerm_nil : hasTerm [] = false := rfl

theorem hasTerm_tail {t : Tok} {rest : List Tok} (h : hasTerm (t :: rest) = true)
    (ht : ∀ ok, t ≠ .term ok) : hasTerm rest = true := by
  cases t with
  | term ok => exact absurd rfl (ht ok)
  | data _ => simpa [hasTerm] using h
  | iterTerm _ => simpa [hasTerm] using h

theorem hasTerm_of_mem {l : List Tok} {ok : TermSt} (h : Tok.term ok ∈ l) : hasTerm l = true := by
  unfold hasTerm
  exact List.any_eq_true.mpr ⟨_, h, rfl⟩

/-- a well-formed stream (exactly one termination token, at the end) contains a termination token -/
theorem hasTerm_of_wellFormed {l : List Tok} (h : wellFormedStream l = true) : hasTerm l = true := by
  unfold wellFormedStream at h
  split at h
  · rename_i ok r hr
    have : Tok.term ok ∈ l.reverse := by rw [hr]; exact List.mem_cons_self
    exact hasTerm_of_mem (List.mem_reverse.mp this)
  · cases h

/-! ## One step, in closed form -/

def isTerm : Tok → Bool
  | .term _ => true
  | _ => false

/-- `TerminationToken` with status FAILED or CANCELLED -/
def isBad : Tok → Bool
  | .term .failed => true
  | _ => false

@[simp] theorem consume_stream (p : PortSt) (tok : Tok) : (consume p tok).stream = p.stream := by
  cases tok <;> simp only [consume] <;> split <;> rfl

@[simp] theorem consume_pending (p : PortSt) (tok : Tok) :
    (consume p tok).pending = p.pending := by
  cases tok <;> simp only [consume] <;> split <;> rfl

@[simp] theorem consume_terminated (p : PortSt) (tok : Tok) :
    (consume p tok).terminated = (p.terminated || isTerm tok) := by
  cases tok <;> simp only [consume, isTerm, Bool.or_false, Bool.or_true] <;> split <;> rfl

/-- the port after its read returned `tok` (`failed'` = the failure flag after this token) -/
def portAfter (fixed failed' : Bool) (p : PortSt) (tok : Tok) (rest : List Tok) : PortSt :=
  let p1 := consume { p with stream := rest } tok
  { p1 with pending := if fixed then !(p1.terminated && (failed' || p1.checklist.isEmpty))
                       else !(p1.terminated && p1.checklist.isEmpty) }

/-- the repaired loop cancels the read of a terminated port -/
def cancelTerminated (q : PortSt) : PortSt := if q.terminated then { q with pending := false } else q

@[simp] theorem portAfter_stream (fixed failed' : Bool) (p : PortSt) (tok : Tok) (rest : List Tok) :
    (portAfter fixed failed' p tok rest).stream = rest := by
  simp [portAfter]

@[simp] theorem portAfter_terminated (fixed failed' : Bool) (p : PortSt) (tok : Tok) (rest : List Tok) :
    (portAfter fixed failed' p tok rest).terminated = (p.terminated || isTerm tok) := by
  simp [portAfter]

theorem portAfter_pending_fixed (p : PortSt) (tok : Tok) (rest : List Tok) :
    (portAfter true true p tok rest).pending = !(p.terminated || isTerm tok) := by
  simp [portAfter]

@[simp] theorem cancelTerminated_stream (q : PortSt) : (cancelTerminated q).stream = q.stream := by
  unfold cancelTerminated; split <;> rfl

@[simp] theorem cancelTerminated_terminated (q : PortSt) : (cancelTerminated q).terminated = q.terminated := by
  unfold cancelTerminated; split <;> rfl

theorem cancelTerminated_pending (q : PortSt) (h : q.terminated = true) : (cancelTerminated q).pending = false := by
  unfold cancelTerminated; simp [h]

/-- closed form of an enabled step -/
theorem step_spec {fixed : Bool} {s s' : St} {i : Nat} (hs : step fixed s i = some s') :
    ∃ p tok rest, s.ports[i]? = some p ∧ p.pending = true ∧ p.stream = tok :: rest ∧
      s' = { ports := if (fixed && isBad tok) = true
                      then (s.ports.set i (portAfter fixed (s.failed || (fixed && isBad tok)) p tok rest)).map
                        cancelTerminated
                      else s.ports.set i (portAfter fixed (s.failed || (fixed && isBad tok)) p tok rest),
             failed := s.failed || (fixed && isBad tok) } := by
  simp only [step] at hs
  split at hs
  · cases hs
  · rename_i p hp
    split at hs
    · rename_i hpend
      split at hs
      · cases hs
      · rename_i tok rest hst
        cases hs
        refine ⟨p, tok, rest, hp, hpend, hst, ?_⟩
        cases tok with
        | term st => cases st <;> rfl
        | _ => rfl
    · cases hs

/-! ## The invariant of the repaired loop -/

/-- (a) a port that has not seen a termination token still has one to come;
    (b) after a failure, no terminated port is read -/
def Inv (s : St) : Prop :=
  ∀ p ∈ s.ports, (p.terminated = false → hasTerm p.stream = true) ∧
    (s.failed = true → p.terminated = true → p.pending = false)

theorem inv_init {streams : List (List Tok)} (h : ∀ l ∈ streams, hasTerm l = true) : Inv (initSt streams) := by
  intro p hp
  simp only [initSt, List.mem_map] at hp
  obtain ⟨l, hl, rfl⟩ := hp
  exact ⟨fun _ => h l hl, fun hf => by simp [initSt] at hf⟩

theorem isTerm_false_iff {t : Tok} : isTerm t = false ↔ ∀ ok, t ≠ .term ok := by
  cases t <;> simp [isTerm]

theorem isBad_isTerm {t : Tok} (h : isBad t = true) : isTerm t = true := by
  cases t with
  | term ok => rfl
  | _ => cases h

theorem inv_step {s s' : St} {i : Nat} (hs : step true s i = some s') (hI : Inv s) : Inv s' := by
  obtain ⟨p, tok, rest, hp, hpend, hst, rfl⟩ := step_spec hs
  have hIp := hI p (List.mem_of_getElem? hp)
  -- (a) for the port just read
  have ha : ∀ f, (portAfter true f p tok rest).terminated = false →
      hasTerm (portAfter true f p tok rest).stream = true := by
    intro f h
    simp only [portAfter_terminated, Bool.or_eq_false_iff] at h
    rw [portAfter_stream]
    exact hasTerm_tail (hst ▸ hIp.1 h.1) (isTerm_false_iff.mp h.2)
  intro q hq
  cases hb : isBad tok with
  | false =>
    simp only [hb, Bool.and_false, Bool.false_eq_true, if_false, Bool.or_false] at hq ⊢
    rcases List.mem_or_eq_of_mem_set hq with h | rfl
    · exact hI q h
    · refine ⟨ha _, fun hf ht => ?_⟩
      rw [hf, portAfter_pending_fixed]
      rw [portAfter_terminated] at ht
      simp [ht]
  | true =>
    simp only [hb, Bool.and_true, if_true, Bool.or_true, List.mem_map] at hq ⊢
    obtain ⟨q0, hq0, rfl⟩ := hq
    refine ⟨?_, fun _ ht => cancelTerminated_pending q0 (by simpa using ht)⟩
    rw [cancelTerminated_stream, cancelTerminated_terminated]
    rcases List.mem_or_eq_of_mem_set hq0 with h | rfl
    · exact (hI q0 h).1
    · exact ha _

theorem inv_reachable {streams : List (List Tok)} (hw : ∀ l ∈ streams, hasTerm l = true) {s : St}
    (hr : Reachable true streams s) : Inv s := by
  induction hr with
  | init => exact inv_init hw
  | step _ hs ih => exact inv_step hs ih

/-- under the invariant, a port with an outstanding read and nothing left to arrive has terminated -/
theorem inv_pending_empty {s : St} (hI : Inv s) {p : PortSt} (hp : p ∈ s.ports) (he : p.stream = []) :
    p.terminated = true := by
  cases ht : p.terminated with
  | true => rfl
  | false =>
    have := (hI p hp).1 ht
    rw [he] at this; cases this

theorem inv_no_deadlock {s : St} (hI : Inv s) (hf : s.failed = true) : deadlocked s = false := by
  cases hd : deadlocked s with
  | false => rfl
  | true =>
    unfold deadlocked at hd
    obtain ⟨p, hp, hpp⟩ := List.any_eq_true.mp hd
    simp only [Bool.and_eq_true, List.isEmpty_iff] at hpp
    have ht := inv_pending_empty hI hp hpp.2
    have := (hI p hp).2 hf ht
    rw [hpp.1] at this; cases this

theorem inv_done {s : St} (hI : Inv s) (hf : s.failed = true) (he : ∀ p ∈ s.ports, p.stream = []) :
    done s = true := by
  unfold done
  apply List.all_eq_true.mpr
  intro p hp
  have ht := inv_pending_empty hI hp (he p hp)
  simp [(hI p hp).2 hf ht]

/-! ## The patch is neutral without failure -/

theorem step_patch_neutral {s : St} {i : Nat} (hf : s.failed = false)
    (hh : ∀ p, s.ports[i]? = some p → p.stream.head? ≠ some (.term .failed)) :
    step true s i = step false s i := by
  simp only [step]
  split
  · rfl
  · rename_i p hp
    have hh := hh p hp
    split
    · split
      · rfl
      · rename_i tok rest hst
        rw [hst] at hh
        cases tok with
        | data t => simp [consume, hf]
        | iterTerm t => simp [consume, hf]
        | term ok =>
          cases ok with
          | completed => simp [consume, hf]
          | skipped => simp [consume, hf]
          | failed => simp at hh
    · rfl

/-- no failed termination is ever to be delivered, and none was seen -/
def NoFailSt (s : St) : Prop := s.failed = false ∧ ∀ p ∈ s.ports, Tok.term .failed ∉ p.stream

theorem noFailSt_init {streams : List (List Tok)} (h : ∀ l ∈ streams, Tok.term .failed ∉ l) :
    NoFailSt (initSt streams) := by
  refine ⟨rfl, ?_⟩
  intro p hp
  simp only [initSt, List.mem_map] at hp
  obtain ⟨l, hl, rfl⟩ := hp
  exact h l hl

theorem noFailSt_step {s s' : St} {i : Nat} (hs : step false s i = some s') (hN : NoFailSt s) : NoFailSt s' := by
  simp only [step] at hs
  split at hs
  · cases hs
  · rename_i p hp
    have hpm := List.mem_of_getElem? hp
    split at hs
    · split at hs
      · cases hs
      · rename_i tok rest hst
        cases hs
        refine ⟨by simp [hN.1], ?_⟩
        intro q hq
        simp only [Bool.false_and, Bool.false_eq_true, if_false] at hq
        rcases List.mem_or_eq_of_mem_set hq with h | rfl
        · exact hN.2 q h
        · have h1 := hN.2 p hpm
          rw [hst] at h1
          have h2 : Tok.term .failed ∉ rest := fun h => h1 (List.mem_cons_of_mem _ h)
          cases tok with
          | data t => simp only [consume]; split <;> exact h2
          | iterTerm t => exact h2
          | term ok => exact h2
    · cases hs

theorem noFailSt_head {s : St} (hN : NoFailSt s) (i : Nat) :
    ∀ p, s.ports[i]? = some p → p.stream.head? ≠ some (.term .failed) := by
  intro p hp hh
  have := hN.2 p (List.mem_of_getElem? hp)
  cases hst : p.stream with
  | nil => rw [hst] at hh; cases hh
  | cons t r =>
    rw [hst] at hh this
    simp only [List.head?_cons, Option.some.injEq] at hh
    exact this (hh ▸ List.mem_cons_self)

theorem run_patch_neutral {s : St} (hN : NoFailSt s) (sched : List Nat) :
    run true s sched = run false s sched := by
  induction sched generalizing s with
  | nil => rfl
  | cons i is ih =>
    simp only [run]
    rw [step_patch_neutral hN.1 (noFailSt_head hN i)]
    cases hs : step false s i with
    | none => rfl
    | some s1 => exact ih (noFailSt_step hs hN)

/-! ## Deadlocks of the loop as it is are permanent -/

theorem deadlocked_iff {s : St} :
    deadlocked s = true ↔ ∃ (j : Nat) (p : PortSt), s.ports[j]? = some p ∧ p.pending = true ∧ p.stream = [] := by
  unfold deadlocked
  rw [List.any_eq_true]
  constructor
  · rintro ⟨p, hp, hpp⟩
    obtain ⟨j, hj⟩ := List.mem_iff_getElem?.mp hp
    simp only [Bool.and_eq_true, List.isEmpty_iff] at hpp
    exact ⟨j, p, hj, hpp.1, hpp.2⟩
  · rintro ⟨j, p, hj, h1, h2⟩
    exact ⟨p, List.mem_of_getElem? hj, by simp [h1, h2]⟩

theorem not_done_of_deadlocked {s : St} (hd : deadlocked s = true) : done s = false := by
  obtain ⟨j, p, hj, h1, _⟩ := deadlocked_iff.mp hd
  cases h : done s with
  | false => rfl
  | true =>
    unfold done at h
    have := List.all_eq_true.mp h p (List.mem_of_getElem? hj)
    simp [h1] at this

/-- a blocked read is never enabled -/
theorem step_blocked {fixed : Bool} {s : St} {j : Nat} {p : PortSt} (hj : s.ports[j]? = some p)
    (he : p.stream = []) : step fixed s j = none := by
  cases h : step fixed s j with
  | none => rfl
  | some s' =>
    obtain ⟨q, tok, rest, hq, _, hst, _⟩ := step_spec h
    rw [hj] at hq; cases hq; rw [he] at hst; cases hst

theorem deadlocked_step_asis {s s' : St} {i : Nat} (hd : deadlocked s = true) (hs : step false s i = some s') :
    deadlocked s' = true := by
  obtain ⟨j, q, hq, hqp, hqs⟩ := deadlocked_iff.mp hd
  have hij : i ≠ j := by
    intro h; subst h
    rw [step_blocked hq hqs] at hs; cases hs
  obtain ⟨p, tok, rest, hp, hpend, hst, rfl⟩ := step_spec hs
  apply deadlocked_iff.mpr
  refine ⟨j, q, ?_, hqp, hqs⟩
  simp only [Bool.false_and, Bool.false_eq_true, if_false]
  rw [List.getElem?_set_ne hij]; exact hq

theorem deadlocked_run_asis {s s' : St} (sched : List Nat) (hd : deadlocked s = true)
    (hr : run false s sched = some s') : deadlocked s' = true := by
  induction sched generalizing s with
  | nil => simp only [run] at hr; cases hr; exact hd
  | cons i is ih =>
    simp only [run] at hr
    split at hr
    · rename_i s1 h1; exact ih (deadlocked_step_asis hd h1) hr
    · cases hr

/-! ## Progress and the number of tokens still to be read -/

/-- tokens not yet read, over all ports -/
def remaining (s : St) : Nat := (s.ports.map (fun p => p.stream.length)).sum

theorem sum_map_set {α : Type} (f : α → Nat) (l : List α) (i : Nat) (p x : α) (hp : l[i]? = some p)
    (hx : f x + 1 = f p) : ((l.set i x).map f).sum + 1 = (l.map f).sum := by
  induction l generalizing i with
  | nil => cases hp
  | cons a l ih =>
    cases i with
    | zero =>
      simp only [List.getElem?_cons_zero, Option.some.injEq] at hp
      subst hp
      simp only [List.set_cons_zero, List.map_cons, List.sum_cons]
      omega
    | succ i =>
      simp only [List.getElem?_cons_succ] at hp
      have := ih i hp
      simp only [List.set_cons_succ, List.map_cons, List.sum_cons]
      omega

/-- every step reads exactly one token -/
theorem step_remaining {fixed : Bool} {s s' : St} {i : Nat} (hs : step fixed s i = some s') :
    remaining s' + 1 = remaining s := by
  obtain ⟨p, tok, rest, hp, _, hst, rfl⟩ := step_spec hs
  have key := sum_map_set (fun p : PortSt => p.stream.length) s.ports i p
    (portAfter fixed (s.failed || (fixed && isBad tok)) p tok rest) hp (by simp [hst])
  unfold remaining
  split
  · rw [List.map_map]
    have : ((fun p : PortSt => p.stream.length) ∘ cancelTerminated) = (fun p : PortSt => p.stream.length) := by
      funext q; simp
    rw [this]; exact key
  · exact key

theorem run_remaining {fixed : Bool} {s s' : St} (sched : List Nat) (hr : run fixed s sched = some s') :
    remaining s' + sched.length = remaining s := by
  induction sched generalizing s with
  | nil => simp only [run] at hr; cases hr; rfl
  | cons i is ih =>
    simp only [run] at hr
    split at hr
    · rename_i s1 h1
      have := ih hr
      have := step_remaining h1
      simp only [List.length_cons]; omega
    · cases hr

/-- a pending port with a token to deliver can be stepped -/
theorem step_enabled {fixed : Bool} {s : St} {j : Nat} {p : PortSt} (hj : s.ports[j]? = some p)
    (hp : p.pending = true) (hne : p.stream ≠ []) : ∃ s', step fixed s j = some s' := by
  simp only [step, hj, hp, if_true]
  cases hst : p.stream with
  | nil => exact absurd hst hne
  | cons t r => exact ⟨_, rfl⟩

theorem exists_pending_of_not_done {s : St} (h : done s = false) :
    ∃ (j : Nat) (p : PortSt), s.ports[j]? = some p ∧ p.pending = true := by
  unfold done at h
  have : ¬ ∀ p ∈ s.ports, (!p.pending) = true := fun hh => by
    rw [List.all_eq_true.mpr hh] at h; cases h
  simp only [Classical.not_forall] at this
  obtain ⟨p, hp, hpp⟩ := this
  obtain ⟨j, hj⟩ := List.mem_iff_getElem?.mp hp
  exact ⟨j, p, hj, by simpa using hpp⟩

theorem inv_progress {s : St} (hI : Inv s) (hf : s.failed = true) (hd : done s = false) :
    ∃ i s', step true s i = some s' := by
  obtain ⟨j, p, hj, hp⟩ := exists_pending_of_not_done hd
  have hpm := List.mem_of_getElem? hj
  refine ⟨j, step_enabled hj hp ?_⟩
  intro he
  have := (hI p hpm).2 hf (inv_pending_empty hI hpm he)
  rw [hp] at this; cases this

/-! ## The loop as it is: when exactly it waits forever -/

/-- (a) as in `Inv`; (c) a read is outstanding exactly on the ports that are not (terminated with empty checklist) -/
def InvA (s : St) : Prop :=
  ∀ p ∈ s.ports, (p.terminated = false → hasTerm p.stream = true) ∧
    p.pending = !(p.terminated && p.checklist.isEmpty)

theorem invA_init {streams : List (List Tok)} (h : ∀ l ∈ streams, hasTerm l = true) : InvA (initSt streams) := by
  intro p hp
  simp only [initSt, List.mem_map] at hp
  obtain ⟨l, hl, rfl⟩ := hp
  exact ⟨fun _ => h l hl, rfl⟩

theorem invA_step {s s' : St} {i : Nat} (hs : step false s i = some s') (hI : InvA s) : InvA s' := by
  obtain ⟨p, tok, rest, hp, hpend, hst, rfl⟩ := step_spec hs
  have hIp := hI p (List.mem_of_getElem? hp)
  intro q hq
  simp only [Bool.false_and, Bool.false_eq_true, if_false] at hq
  rcases List.mem_or_eq_of_mem_set hq with h | rfl
  · exact hI q h
  · refine ⟨fun h => ?_, rfl⟩
    simp only [portAfter_terminated, Bool.or_eq_false_iff] at h
    rw [portAfter_stream]
    exact hasTerm_tail (hst ▸ hIp.1 h.1) (isTerm_false_iff.mp h.2)

theorem invA_reachable {streams : List (List Tok)} (hw : ∀ l ∈ streams, hasTerm l = true) {s : St}
    (hr : Reachable false streams s) : InvA s := by
  induction hr with
  | init => exact invA_init hw
  | step _ hs ih => exact invA_step hs ih

theorem invA_deadlocked_iff {s : St} (hI : InvA s) :
    deadlocked s = true ↔ ∃ p ∈ s.ports, p.stream = [] ∧ p.terminated = true ∧ p.checklist ≠ [] := by
  unfold deadlocked
  rw [List.any_eq_true]
  constructor
  · rintro ⟨p, hp, hpp⟩
    simp only [Bool.and_eq_true, List.isEmpty_iff] at hpp
    have hIp := hI p hp
    have ht : p.terminated = true := by
      cases ht : p.terminated with
      | true => rfl
      | false => have := hIp.1 ht; rw [hpp.2] at this; cases this
    refine ⟨p, hp, hpp.2, ht, fun hc => ?_⟩
    have := hIp.2
    rw [hpp.1, ht, hc] at this
    cases this
  · rintro ⟨p, hp, h1, h2, h3⟩
    refine ⟨p, hp, ?_⟩
    have := (hI p hp).2
    rw [h2] at this
    cases hc : p.checklist with
    | nil => exact absurd hc h3
    | cons a l => rw [hc] at this; simp [this, h1]

end SFV.LoopComb
