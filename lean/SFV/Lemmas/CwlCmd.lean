import SFV.Model.CwlCmd
/-! Helper lemmas for C30 (`SFV/Props/C30.lean`). -/
namespace SFV.CwlCmd

/-! ### shell quoting round trip over word lists -/

theorem parse_sq_escSq (s cur rest : List Char) (done : List (List Char)) :
    parseCmd .sq (escSq s ++ '\'' :: rest) cur done = parseCmd .unq rest (s.reverse ++ cur) done := by
  induction s generalizing cur with
  | nil => simp [escSq, parseCmd]
  | cons c cs ih =>
    by_cases h : c = '\''
    · subst h
      simp only [escSq, ↓reduceIte, List.cons_append]
      simp only [parseCmd, ↓reduceIte]
      have h1 : ¬ ('"' = ' ') := by decide
      have h2 : ¬ ('"' = '\'') := by decide
      have h3 : ¬ ('\'' = '"') := by decide
      simp only [h1, h2, h3, ↓reduceIte, Bool.or_self, Bool.false_eq_true]
      simp [parseCmd, ih]
    · simp only [escSq, h, ↓reduceIte, List.cons_append, parseCmd]
      rw [ih]; simp

theorem safe_props (c : Char) (hc : isSafe c = true) : isMeta c = false ∧ c ≠ '\'' ∧ c ≠ '"' ∧ c ≠ ' ' := by
  have key : ∀ m : Char, isSafe m = false → c ≠ m := by
    intro m hm e; subst e; rw [hc] at hm; exact absurd hm (by decide)
  refine ⟨?_, key _ (by decide), key _ (by decide), key _ (by decide)⟩
  simp only [isMeta, List.elem_eq_mem, decide_eq_false_iff_not, List.mem_cons, List.mem_nil_iff, or_false, not_or]
  exact ⟨key _ (by decide), key _ (by decide), key _ (by decide), key _ (by decide), key _ (by decide),
    key _ (by decide), key _ (by decide), key _ (by decide), key _ (by decide), key _ (by decide),
    key _ (by decide), key _ (by decide), key _ (by decide), key _ (by decide), key _ (by decide),
    key _ (by decide), key _ (by decide), key _ (by decide), key _ (by decide), key _ (by decide),
    key _ (by decide), key _ (by decide)⟩

theorem parse_safe (s cur rest : List Char) (done : List (List Char)) (h : s.all isSafe = true) :
    parseCmd .unq (s ++ rest) cur done = parseCmd .unq rest (s.reverse ++ cur) done := by
  induction s generalizing cur with
  | nil => simp
  | cons c cs ih =>
    simp only [List.all_cons, Bool.and_eq_true] at h
    obtain ⟨h3, h1, h2, h4⟩ := safe_props c h.1
    simp [parseCmd, h1, h2, h3, h4, ih _ h.2]

/-- one quoted word followed by anything -/
theorem parse_quoted (w cur rest : List Char) (done : List (List Char)) :
    parseCmd .unq (shlexQuote w ++ rest) cur done = parseCmd .unq rest (w.reverse ++ cur) done := by
  unfold shlexQuote
  split
  · rename_i h
    simp at h; subst h
    simp [parseCmd]
  · split
    · rename_i h; exact parse_safe w cur rest done h
    · simp only [List.cons_append, List.append_assoc, List.singleton_append, parseCmd]
      have h1 : ¬ ('\'' = ' ') := by decide
      simp only [h1, ↓reduceIte]
      exact parse_sq_escSq w cur rest done

theorem parse_words : ∀ (ws : List (List Char)) (done : List (List Char)), ws ≠ [] →
    parseCmd .unq (joinSp (ws.map shlexQuote)) [] done = some (done.reverse ++ ws)
  | [], _, h => absurd rfl h
  | [w], done, _ => by
    simp only [List.map, joinSp]
    have := parse_quoted w [] [] done
    simp only [List.append_nil] at this
    rw [this]
    simp [parseCmd]
  | w :: w' :: ws, done, _ => by
    simp only [List.map, joinSp]
    rw [parse_quoted]
    simp only [List.append_nil, parseCmd, ↓reduceIte, List.reverse_reverse]
    have := parse_words (w' :: ws) (w :: done) (by simp)
    simp only [List.map] at this
    rw [this]
    simp

/-! ### environment rendering -/

theorem parse_dq_plain (v cur rest : List Char) (done : List (List Char)) (h : ∀ c, c ∈ v → dqActive c = false) :
    parseCmd .dq (v ++ '"' :: rest) cur done = parseCmd .unq rest (v.reverse ++ cur) done := by
  induction v generalizing cur with
  | nil => simp [parseCmd]
  | cons c cs ih =>
    have hc := h c (by simp)
    simp only [dqActive, Bool.or_eq_false_iff, decide_eq_false_iff_not] at hc
    obtain ⟨⟨⟨h1, h2⟩, h3⟩, h4⟩ := hc
    simp only [List.cons_append, parseCmd, h4, ↓reduceIte, h1, h2, h3, decide_false, Bool.or_self, Bool.false_eq_true]
    rw [ih _ (fun d hd => h d (by simp [hd]))]
    simp

/-! ### binding -/

theorem applyPrefix_one (b : Bind) (s : String) : applyPrefix b (.one s) = some (withPrefix b s) := by
  unfold applyPrefix withPrefix
  cases b.prefix_ <;> simp
  split <;> rfl

theorem withPrefix_ne_nil (b : Bind) (s : String) : withPrefix b s ≠ [] := by
  unfold withPrefix
  cases b.prefix_ <;> simp
  split <;> simp

theorem sfItems_eq (ib : Option Bind) (items : List String) :
    sfItems ib items = (match ib with | none => items | some b => items.flatMap (fun it => withPrefix b it)) := by
  cases ib with
  | none => rfl
  | some b => simp [sfItems, applyPrefix_one]

theorem sfItems_isEmpty (ib : Option Bind) (items : List String) : (sfItems ib items).isEmpty = items.isEmpty := by
  rw [sfItems_eq]
  cases ib with
  | none => rfl
  | some b =>
    cases items with
    | nil => rfl
    | cons x r =>
      simp only [List.flatMap_cons, List.isEmpty_cons]
      have := withPrefix_ne_nil b x
      cases h : withPrefix b x with
      | nil => exact absurd h this
      | cons a l => rfl

theorem mem_insertBy (le : Param → Param → Bool) (x y : Param) (l : List Param) :
    y ∈ insertBy le x l ↔ y = x ∨ y ∈ l := by
  induction l with
  | nil => simp [insertBy]
  | cons z r ih =>
    simp only [insertBy]
    split
    · simp
    · simp only [List.mem_cons, ih]
      constructor
      · rintro (h | h | h)
        · exact Or.inr (Or.inl h)
        · exact Or.inl h
        · exact Or.inr (Or.inr h)
      · rintro (h | h | h)
        · exact Or.inr (Or.inl h)
        · exact Or.inl h
        · exact Or.inr (Or.inr h)

theorem mem_sortBy (le : Param → Param → Bool) (y : Param) (l : List Param) : y ∈ sortBy le l ↔ y ∈ l := by
  induction l with
  | nil => simp [sortBy]
  | cons x r ih => simp [sortBy, mem_insertBy, ih]

theorem insertBy_congr (le1 le2 : Param → Param → Bool) (x : Param) (l : List Param)
    (h : ∀ y, y ∈ l → le1 x y = le2 x y) : insertBy le1 x l = insertBy le2 x l := by
  induction l with
  | nil => rfl
  | cons z r ih =>
    simp only [insertBy, h z (by simp)]
    rw [ih (fun y hy => h y (by simp [hy]))]

/-- two comparators that agree on every pair "earlier element, later element" sort alike -/
theorem sortBy_congr (le1 le2 : Param → Param → Bool) (l : List Param)
    (h : l.Pairwise (fun x y => le1 x y = le2 x y)) : sortBy le1 l = sortBy le2 l := by
  induction l with
  | nil => rfl
  | cons x r ih =>
    have h' := List.pairwise_cons.mp h
    simp only [sortBy, ih h'.2]
    exact insertBy_congr le1 le2 x _ (fun y hy => h'.1 y ((mem_sortBy le2 y r).mp hy))

theorem flatMap_ext' {α β : Type} {l : List α} {f g : α → List β} (h : ∀ a, a ∈ l → f a = g a) :
    l.flatMap f = l.flatMap g := by
  induction l with
  | nil => rfl
  | cons a r ih =>
    simp only [List.flatMap_cons]
    rw [h a (by simp), ih (fun b hb => h b (by simp [hb]))]

end SFV.CwlCmd
