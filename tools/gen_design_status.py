#!/venv/bin/python
"""Regenerate the machine-written parts of DESIGN.md (§9.3 table, §9.4 seeded changes, §9.5 findings) between markers."""
import glob, importlib, json, os, re, sys
ROOT = os.path.dirname(os.path.dirname(os.path.abspath(__file__)))
sys.path[:0] = [os.path.join(ROOT, "harness"), "/repo"]
from sfv import framework  # noqa: E402


def props_table():
    rows = ["| id | Lean files (Props) | theorems | translators (T) | driver (K) | open findings | fixed | notes |", "|---|---|---|---|---|---|---|---|"]
    for i in range(1, 35):
        pid = f"C{i:02d}"
        try:
            P = importlib.import_module(f"sfv.props.{pid.lower()}").PROPERTY
        except Exception as e:  # noqa: BLE001
            rows.append(f"| {pid} | (no check: {e}) | | | | | | |")
            continue
        thms = sum(len(framework.props_theorems(f)) for f in P.props_files)
        open_, fixed = framework.load_known_findings(pid)
        trs = ", ".join(sorted({t.__module__.split('.')[-1] for t in P.translators})) or "—"
        drv = ", ".join(os.path.basename(d) for d in P.drivers) or "—"
        rows.append(f"| {pid} | {', '.join(os.path.basename(f) for f in P.props_files)} | {thms} | {trs} | {drv} | {len(open_)} | {len(fixed)} | design_notes/{pid}.md |")
    return "\n".join(rows)


def grades_table():
    import re
    rows = ["| id | grade claimed (first sentence of MANIFEST level_claimed.text) |", "|---|---|"]
    for i in range(1, 35):
        pid = f"C{i:02d}"
        try:
            P = importlib.import_module(f"sfv.props.{pid.lower()}").PROPERTY
        except Exception:  # noqa: BLE001
            continue
        txt = " ".join(P.level_text.split())
        rows.append(f"| {pid} | {txt[:330].replace('|', '/')}… |")
    return "\n".join(rows)


def numbers():
    import subprocess
    def loc(pattern, root):
        n = 0
        for base, _, files in os.walk(os.path.join(ROOT, root)):
            if ".lake" in base:
                continue
            for fn in files:
                if fn.endswith(pattern):
                    n += sum(1 for _ in open(os.path.join(base, fn), errors="ignore"))
        return n
    thms = 0
    for i in range(1, 35):
        try:
            P = importlib.import_module(f"sfv.props.c{i:02d}").PROPERTY
            thms += sum(len(framework.props_theorems(f)) for f in P.props_files)
        except Exception:  # noqa: BLE001
            pass
    trs = sorted(fn[:-3] for fn in os.listdir(os.path.join(ROOT, "harness", "sfv", "translate")) if fn.endswith(".py") and fn not in ("__init__.py", "expr.py"))
    gens = sorted(os.listdir(os.path.join(ROOT, "lean", "SFV", "Gen")))
    op = fx = 0
    for p in [os.path.join(ROOT, "known_findings.jsonl")] + sorted(glob.glob(os.path.join(ROOT, "known_findings.d", "*.jsonl"))):
        for line in open(p):
            if line.strip():
                if json.loads(line).get("status") == "fixed":
                    fx += 1
                else:
                    op += 1
    seeds = [d for d in glob.glob(os.path.join(ROOT, "seeded", "C*")) if os.path.isdir(d)]
    fixes = subprocess.run(["git", "-C", "/repo", "log", "--oneline", "--grep=^fix:"], capture_output=True, text=True).stdout.strip().split("\n")
    lines = [
        f"* property theorems (obligations audited with `#print axioms`): **{thms}** in {len(glob.glob(os.path.join(ROOT, 'lean', 'SFV', 'Props', '*.lean')))} property files; Lean sources: {loc('.lean', 'lean/SFV')} lines under `lean/SFV`, {loc('.lean', 'lean/Drivers')} lines of drivers; harness: {loc('.py', 'harness')} lines of Python",
        f"* translators ({len(trs)}): {', '.join(trs)} → generated files ({len(gens)}): {', '.join(gens)}",
        f"* known findings: {op} open, {fx} fixed entries; `fix:` commits in /repo: {len([f for f in fixes if f])}",
        f"* seeded changes registered under `seeded/`: {len(seeds)}",
    ]
    return "\n".join(lines)


def seeded_table():
    rows = ["| seed | property | what it needs to manifest | result of the check |", "|---|---|---|---|"]
    for d in sorted(glob.glob(os.path.join(ROOT, "seeded", "*"))):
        m = os.path.join(d, "meta.json")
        if not os.path.exists(m):
            continue
        meta = json.load(open(m))
        rows.append(f"| {os.path.basename(d)} | {meta['property']} | {meta['needs_to_manifest'].replace('|', '/')} | {meta['check_result'].replace('|', '/')} |")
    ob = os.path.join(ROOT, "seeded", "OBSOLETE.json")
    if os.path.exists(ob):
        for k, v in sorted(json.load(open(ob)).items()):
            rows.append(f"| {k} | {k[:3]} | (no longer applies to /repo HEAD) | not run: {v} |")
    return "\n".join(rows)


def findings_list():
    out = []
    paths = [os.path.join(ROOT, "known_findings.jsonl")] + sorted(glob.glob(os.path.join(ROOT, "known_findings.d", "*.jsonl")))
    for p in paths:
        for line in open(p):
            line = line.strip()
            if not line:
                continue
            r = json.loads(line)
            pid = r.get("property") or "/".join(r.get("properties", []))
            st = r.get("status", "open")
            txt = r["line"].replace("\n", " ")
            out.append(f"* **{pid}** [{st}{' ' + r['commit'] if r.get('commit') else ''}] `{r['key']}` — {txt[:400]}")
    return "\n".join(out)


def main():
    path = os.path.join(ROOT, "DESIGN.md")
    s = open(path).read()
    for name, text in (("PROPS", props_table()), ("GRADES", grades_table()), ("NUMBERS", numbers()), ("SEEDED", seeded_table()), ("FINDINGS", findings_list())):
        a, b = f"<!-- BEGIN {name} -->", f"<!-- END {name} -->"
        if a in s and b in s:
            s = s[: s.index(a) + len(a)] + "\n" + text + "\n" + s[s.index(b):]
        else:
            print("marker missing", name)
    open(path, "w").write(s)
    print("DESIGN.md updated")


main()
