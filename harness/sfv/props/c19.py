"""C19 — concurrent recoveries share work and never deadlock."""
from __future__ import annotations

import json
import random

from sfv.framework import Ctx, Property
from sfv.rt import recov
from sfv.rt.par import pmap
from sfv.translate import recoverguard

K_INFLIGHT = "producer-rolled-back-while-it-was-being-re-executed"
K_LATE = "producer-reexecuted-more-than-once-per-loss:recovery-started-after-the-regeneration-completed"


def gen_cases(rng: random.Random, quick: bool) -> list[dict]:
    cases = []
    specs = [(3, 2), (4, 3), (6, 4)] if quick else [(2, 2), (3, 2), (3, 3), (4, 2), (4, 4), (5, 3), (6, 4), (6, 6)]
    for m, k in specs:
        for seed in ([None, rng.randrange(1 << 20)] if quick else [None] + [rng.randrange(1 << 20) for _ in range(4)]):
            els = sorted(rng.sample(range(m), k))
            plan = [{"step": "/b", "tag": f"0.{i}", "phase": "execute", "kind": "failstop", "count": 1, "lose": [["/b", f"0.{i}"], ["/a", "0"]]}
                    for i in els]
            cases.append({"name": f"scatter{m}-failstop{els}-seed{seed}", "shape": {"kind": "scatter", "m": m}, "plan": plan,
                          "max_retries": 8, "trace_fm": True, "lseed": seed})
    for seed in ([None] if quick else [None, 3, 11]):
        plan = [{"step": s, "tag": "0", "phase": "execute", "kind": "failstop", "count": 1, "lose": [[s, "0"], ["/a", "0"]]} for s in ("/b1", "/b2")]
        cases.append({"name": f"diamond-b1-b2-failstop-seed{seed}", "shape": {"kind": "diamond"}, "plan": plan, "max_retries": 8,
                      "trace_fm": True, "lseed": seed})
    cases += gated_cases(quick)
    cases += deep_cases(quick)
    refs = {}
    for c in list(cases):
        key = json.dumps(c["shape"], sort_keys=True)
        if key not in refs:
            refs[key] = {"name": "ref " + key, "shape": c["shape"], "plan": [], "max_retries": 8, "ref": True}
    return list(refs.values()) + cases


def gated_cases(quick: bool) -> list[dict]:
    """forced interleavings (event gates of the harness, no timing luck): output `a` of A has two consumers B1 and B2; B1's fail-stop
    failure loses `a` and starts a re-execution of A; B2 fails exactly while that re-execution is RUNNING (gate in A's command) resp. has
    just been scheduled = FIREABLE (gate in A's ScheduleStep); A is held there until B2's recovery has finished `_synchronize_workflows`.
    B2's recovery must attach to the running re-execution: A starts twice, not three times."""
    out = []
    for phase, mark in (("execute", "running"), ("schedule", "fireable")):
        for b2kind in (["soft"] if quick else ["soft", "failstop"]):
            out.append({"name": f"diamond-gated-b2-fails-while-rerun-of-a-is-{mark}-{b2kind}", "shape": {"kind": "diamond"}, "max_retries": 8,
                        "trace_fm": True, "lseed": None,
                        "plan": [{"step": "/b1", "tag": "0", "phase": "execute", "kind": "failstop", "count": 1, "lose": [["/b1", "0"], ["/a", "0"]]},
                                 {"step": "/b2", "tag": "0", "phase": "execute", "kind": b2kind, "count": 1}],
                        "gates": [{"job": "/b2/0", "attempt": 1, "wait": f"a-{mark}-again", "timeout": 60},
                                  {"job": "/a/0", "attempt": 2, "phase": phase, "signal": f"a-{mark}-again", "wait": "synced:/b2/0", "timeout": 60}],
                        "expect_attempts": {"/a/0": 2, "/b1/0": 2, "/b2/0": 2, "/c/0": 1}})
    return out


def deep_cases(quick: bool) -> list[dict]:
    """two NESTED shared ancestors (a -> m -> b_i), both lost with every failure, >= 2 concurrent failures. The list of requests a recovery
    walks in `_synchronize_workflows` comes from a set of job names (arbitrary order): `sync_order` fixes it to downstream-first (attach to
    m before a: attaching to m prunes a's job token from the token graph) and to upstream-first, so both orders run on every seed."""
    out = []
    orders = {"downstream-first": lambda names: sorted(names, key=lambda n: {"/a": 2, "/m": 1}.get(n.rsplit("/", 1)[0], 0)),
              "upstream-first": lambda names: sorted(names, key=lambda n: {"/a": 0, "/m": 1}.get(n.rsplit("/", 1)[0], 2))}
    for oname, order in orders.items():
        names = ["/a/0", "/m/0", "/b1/0", "/b2/0"]
        out.append({"name": f"deep-diamond-b1-b2-failstop-{oname}", "shape": {"kind": "diamond", "deep": True}, "max_retries": 8,
                    "trace_fm": True, "lseed": None, "sync_order": order(names),
                    "plan": [{"step": st, "tag": "0", "phase": "execute", "kind": "failstop", "count": 1,
                              "lose": [[st, "0"], ["/m", "0"], ["/a", "0"]]} for st in ("/b1", "/b2")]})
    for m, els in ([(3, [0, 2])] if quick else [(3, [0, 2]), (4, [0, 1, 3]), (5, [1, 2, 3, 4])]):
        for oname, order in orders.items():
            names = ["/a/0", "/m/0"] + [f"/b/0.{i}" for i in range(m)]
            out.append({"name": f"deep-scatter{m}-failstop{els}-{oname}", "shape": {"kind": "scatter", "m": m, "deep": True}, "max_retries": 8,
                        "trace_fm": True, "lseed": None, "sync_order": order(names),
                        "plan": [{"step": "/b", "tag": f"0.{i}", "phase": "execute", "kind": "failstop", "count": 1,
                                  "lose": [["/b", f"0.{i}"], ["/m", "0"], ["/a", "0"]]} for i in els]})
    return out


def inflight_claims(timeline: list) -> list[str]:
    """claims (`_update_request` entered) of a job between an earlier claim of it and the end of the execution that claim started"""
    inflight, bad = {}, []
    for i, (kind, job) in enumerate(timeline):
        if kind == "claim":
            if inflight.get(job):
                bad.append(f"{job} (event #{i}; claimed at #{inflight[job] - 1}, no end of execution in between)")
            inflight[job] = i + 1
        elif kind == "claim-refused":
            inflight[job] = 0
        elif kind in ("exec", "fail"):
            inflight[job] = 0
    return bad


def lock_order_conflict(fm_events: list) -> str | None:
    """two recoveries that both take locks x and y must take them in the same order"""
    seqs: dict = {}
    for kind, rid, name, *_ in fm_events:
        if kind == "acquire":
            seqs.setdefault(rid, []).append(name)
        elif kind == "release" and rid in seqs and name in seqs[rid] and all(n == name or n not in seqs[rid] for n in []):
            pass
    before = set()
    cur: dict = {}
    for kind, rid, name, *_ in fm_events:
        if kind == "acquire":
            for h in cur.get(rid, []):
                before.add((h, name))
            cur.setdefault(rid, []).append(name)
        elif kind == "release":
            if name in cur.get(rid, []):
                cur[rid].remove(name)
    for a, b in before:
        if (b, a) in before:
            return f"{a} before {b} in one recovery and {b} before {a} in another"
    return None


def judge(case: dict, r: dict, ref: dict | None) -> list[tuple[str, str]]:
    fails = []
    name = case["name"]
    if r["outcome"] != "ok":
        claims: dict = {}
        for kind, job in r.get("timeline", []):
            if kind == "claim":
                claims[job] = claims.get(job, 0) + 1
        fails.append((f"run:{r['outcome']}", f"{name}: {r.get('msg', '')[:300]}; injected failures {[j for j, _, _ in r.get('injected', [])]}, "
                                             f"roll-backs per job {claims}, executions {r.get('attempts')}"))
        bad = inflight_claims(r.get("timeline", []))
        if bad:
            fails.append((K_INFLIGHT, f"{name}: rolled back again while its re-execution was under way: {bad}"))
        return fails
    if ref is not None and ref.get("outcome") == "ok" and ref["outputs"] != r["outputs"]:
        fails.append(("outputs-differ-from-failure-free-run", f"{name}"))
    bad = {s: st for s, st in r["statuses"].items() if st not in ("COMPLETED", "SKIPPED")}
    if bad:
        fails.append(("step-not-completed", f"{name}: {bad}"))
    conflict = lock_order_conflict(r.get("fm_events", []))
    if conflict:
        fails.append(("locks-taken-in-inconsistent-order", f"{name}: {conflict}"))
    # at most one re-execution of a producer per loss of its data
    seq = [e for e in r["events"] if e[0] in ("exec", "lose")]
    for job in {e[1] for e in seq}:
        mine = [e[0] for e in seq if e[1] == job]
        epochs, prev = 0, None
        for k in mine:
            if k == "lose" and prev != "lose":
                epochs += 1
            prev = k
        execs = mine.count("exec")
        own_failures = sum(1 for j, _, _ in r["injected"] if j == job)
        if execs - 1 > epochs + own_failures:
            fails.append((K_LATE, f"{name}: {job} executed {execs} times, its data was lost {epochs} time(s), it failed itself {own_failures} time(s): "
                                  f"{mine}"))
    bad = inflight_claims(r.get("timeline", []))
    if bad:
        fails.append((K_INFLIGHT, f"{name}: rolled back again while its re-execution was under way (ROLLBACK/FIREABLE/RUNNING): {bad}; "
                                  f"attempts {r['attempts']}; timeline {[e for e in r['timeline'] if e[0] in ('start', 'exec', 'fail', 'lose', 'claim', 'signal')]}"))
    for job, n in (case.get("expect_attempts") or {}).items():
        if r["attempts"].get(job, 0) != n and not bad and not any(e[0] == "gate-timeout" for e in r.get("timeline", [])):
            fails.append(("executions-differ-from-forced-interleaving", f"{name}: {job} executed {r['attempts'].get(job, 0)} times, expected {n}"))
    for job, v in r["versions"].items():
        if job in r["attempts"] and v < r["attempts"][job]:
            fails.append(("more-executions-than-version", f"{name}: {job} version {v} attempts {r['attempts'][job]}"))
    return fails


class C19(Property):
    pid = "C19"
    title = "Concurrent recoveries share work and never deadlock"
    lean_targets = ["SFV.Props.C19", "SFV.Props.C19Port", "SFV.Model.Proto"]
    props_files = ["SFV/Props/C19.lean", "SFV/Props/C19Port.lean"]
    drivers = ["Drivers/C19.lean", "Drivers/C19Port.lean"]
    translators = [recoverguard.generate]
    rule = ("real scatter (2..6 elements) and diamond workflows in which 2..6 jobs fail concurrently with fail-stop failures that delete the failed "
            "job's directories AND those of the shared ancestor (own injector), under the default schedule and under controlled-loop schedules "
            "(seeded shuffling of ready handles); observed: termination (wall-clock watchdog), outputs vs the failure-free run, executions per job, "
            "RecoveryRequest versions, and — through wrappers installed on the failure manager instance — every lock acquisition / release, every "
            "is_recovering check made under a request's lock and every successful claim; the lock/claim trace is replayed on the Lean claim model "
            "(claim only under the lock after a negative check, at most one claim per epoch) and the acquisition orders of different recoveries are "
            "checked for consistency. Forced interleavings (event gates in the harness's command / schedule step): a second consumer fails exactly "
            "while the shared producer's re-execution is RUNNING resp. FIREABLE; no claim of a job may fall between an earlier claim of it and the "
            "end of the execution that claim started. T: the status tuple of is_recovering is generated and proved to cover ROLLBACK, FIREABLE, "
            "RUNNING and to exclude settled statuses. Deep shapes: two nested shared ancestors (a -> m -> b_i) lost by 2..4 concurrent failures, "
            "with the (set-ordered, hence arbitrary) request list of _synchronize_workflows fixed to downstream-first and to upstream-first.")
    trusted_base = ["recovery harness harness/sfv/rt/recov.py (own injectors, failure-manager wrappers installed at run time on the instance)",
                    "translator harness/sfv/translate/recoverguard.py (Status enumeration, status tuple of is_recovering)",
                    "the status sequence claim -> ROLLBACK -> FIREABLE -> RUNNING -> COMPLETED/failed of the status-refined claim model is read off "
                    "failure_manager.py / scheduler.py / step.py by hand (the forced-interleaving runs exercise RUNNING and FIREABLE)",
                    "delivery of regenerated tokens to attached recoveries and termination of each recovery executor are runtime layers (observed, not proved)"]
    assumptions = ["retry limit not reached (max_retries 8)"]
    technique = "Lean 4: ordered-lock no-deadlock theorem + claim protocol invariant (all interleavings) + InterWorkflowPort hand-over theorems (late/early registration) with differential histories on the real port + real concurrent fail-stop runs with lock/claim trace replay"
    level_text = ("grade B: the locking protocol is proved (ordered acquisition never deadlocks; with the lock a producer is claimed at most once while it is "
                  "recovering; without the lock it can be claimed twice); that waiting recoveries receive the regenerated tokens and terminate is observed on "
                  "real concurrent runs; the property's 'once per loss' clause is false when a consumer's recovery starts after the regeneration completed "
                  "(known finding)")
    level_note = "Lean kernel; recovery workflows and inter-workflow token delivery are runtime layers"
    quick_budget_s = 2400        # room for one confirmation re-run of a timed-out case (5x its bound), see recov.run_confirmed
    thorough_budget_s = 6000
    min_nontrivial = 5

    def explore(self, ctx: Ctx) -> None:
        quick = ctx.tier == "quick" and ctx.mode != "search"
        cases = gen_cases(ctx.rng, quick)
        results = {}
        for case, status, r in recov.run_cases(cases, timeout=300, workers=6, ctx=ctx):
            results[case["name"]] = (case, status, r)
        lines, meta = [], []
        for name, (case, status, r) in results.items():
            replay = {"recovery": case}
            if status != "ok":
                ctx.fail("run:" + status, f"{name}: {str(r)[:300]}", replay)
                continue
            if case.get("ref"):
                continue
            ctx.case({"case": name, "outcome": r["outcome"], "attempts": r.get("attempts"), "fm_events": len(r.get("fm_events", []))},
                     ("c", name), case["shape"]["kind"])
            ref = results.get("ref " + json.dumps(case["shape"], sort_keys=True))
            for key, detail in judge(case, r, ref[2] if ref and ref[1] == "ok" else None):
                ctx.fail(key, detail, replay)
            if any(e[0] == "gate-timeout" for e in r.get("timeline", [])):
                ctx.count("gate-timeout")
                ctx.notes.append(f"{name}: a gate of the forced interleaving timed out (interleaving not forced in this run)")
            if r["outcome"] != "ok":
                continue
            jobs = {}
            acts = []
            merged = []      # interleave lock/claim events and job completions in real order: fm_events carry no timestamps; use `events` order markers
            for e in r.get("fm_events", []):
                kind, rid, jn = e[0], e[1], e[2]
                j = jobs.setdefault(jn, len(jobs))
                if kind == "acquire":
                    acts.append(f"a{rid}:{j}")
                elif kind == "release":
                    acts.append(f"r{rid}:{j}")
                elif kind == "check":
                    acts.append(("t" if e[3] else "f") + f"{rid}:{j}")
                elif kind == "claim":
                    acts.append(f"c{rid}")
                    acts.append(f"d{j}")     # epochs: the claimed job finishes before it can be claimed again (checked by the `f` guard)
            if acts:
                lines.append("claims " + " ".join(acts))
                meta.append((case, r))
                # the same trace on the status-refined model with the generated status test: checks carry the scheduler status they saw
                sacts = []
                for e in r.get("fm_events", []):
                    kind, rid, jn = e[0], e[1], e[2]
                    j = jobs[jn]
                    if kind == "acquire":
                        sacts.append(f"a{rid}:{j}")
                    elif kind == "release":
                        sacts.append(f"r{rid}:{j}")
                    elif kind == "check":
                        sacts.append(f"k{rid}:{j}:{'T' if e[3] else 'F'}:{e[4] if len(e) > 4 else 'UNKNOWN'}")
                    elif kind == "claim":
                        sacts.append(f"c{rid}")
                lines.append("status " + " ".join(sacts))
                meta.append((dict(case, _status_model=True), r))
        self._explore_ports(ctx)
        got = ctx.lean("Drivers/C19.lean", lines)
        for g, (case, r) in zip(got, meta):
            g = g.strip()
            if case.get("_status_model"):
                case = {k: v for k, v in case.items() if k != "_status_model"}
                if not g.startswith("ok"):
                    ctx.disagree("lock/check/claim trace with observed statuses is not a run of the status-refined claim model",
                                 f"{case['name']}: {g}; trace {r['fm_events'][:40]}", {"recovery": case})
                elif "maxclaims=1" not in g and "maxclaims=0" not in g:
                    ctx.disagree("status-refined claim model: a job claimed twice within one execution epoch", f"{case['name']}: {g}; "
                                 f"trace {r['fm_events'][:40]}", {"recovery": case})
                continue
            if not g.startswith("ok"):
                ctx.disagree("lock/claim trace is not a run of the claim model", f"{case['name']}: {g}; trace {r['fm_events'][:30]}", {"recovery": case})
            elif "maxclaims=1" not in g and "maxclaims=0" not in g:
                ctx.disagree("claim model", f"{case['name']}: {g}", {"recovery": case})

    # ---- port level: InterWorkflowPort hand-over between recovery workflows (SFV/Model/IWPort.lean, SFV/Props/C19Port.lean) ----
    @staticmethod
    def _port_history(ops, nports):
        """run one operation history on real InterWorkflowPort objects; port 0 is the producer, the others plain targets"""
        from streamflow.core.workflow import Token
        from streamflow.workflow.port import BoundaryAction, InterWorkflowPort
        from streamflow.workflow.token import TerminationToken
        from streamflow.core.workflow import Status
        ports = [InterWorkflowPort(None, f"p{i}") for i in range(nports)]
        for op in ops:
            if op[0] == "put":
                ports[0].put(Token(value=op[1], tag=f"0.{op[1]}"))
            elif op[0] == "term":
                ports[0].put(TerminationToken(Status.COMPLETED))
            else:
                _, q, pr, tm, tags = op
                act = BoundaryAction(0)
                if pr:
                    act |= BoundaryAction.PROPAGATE
                if tm:
                    act |= BoundaryAction.TERMINATE
                ports[0].add_inter_port(ports[q], [f"0.{t}" for t in tags], act)
        return " | ".join(" ".join("T" if isinstance(t, TerminationToken) else t.tag.split(".")[1] for t in pt.token_list) for pt in ports)

    def _explore_ports(self, ctx: Ctx) -> None:
        rng = ctx.rng
        lines, expect, meta = [], [], []
        n = 300 if ctx.tier == "quick" and ctx.mode != "search" else 3000
        for i in range(n):
            nports = rng.randint(2, 4)
            tags = list(range(rng.randint(1, 4)))
            ops = []
            if i % 3 == 0:
                # the C19 hand-over: producer emits t (maybe terminates), a waiting recovery registers [t] before or after
                t = rng.choice(tags)
                w = rng.randint(1, nports - 1)
                seq = [("put", t)] + ([("term",)] if rng.random() < 0.6 else []) + [("put", u) for u in tags if u != t and rng.random() < 0.5]
                reg = ("add", w, True, rng.random() < 0.5, [t])
                if rng.random() < 0.4:
                    ops.append(("add", 0, True, True, [t]))          # recovery A's own rule (as _inject_tokens registers it)
                pos = rng.randint(0, len(seq))
                ops += seq[:pos] + [reg] + seq[pos:]
                want = (w, t)
            else:
                for _ in range(rng.randint(1, 9)):
                    k = rng.random()
                    if k < 0.45:
                        ops.append(("put", rng.choice(tags)))
                    elif k < 0.55:
                        ops.append(("term",))
                    else:
                        ops.append(("add", rng.randint(0, nports - 1), rng.random() < 0.8, rng.random() < 0.5,
                                    [rng.choice(tags) for _ in range(rng.randint(0, 2))]))
                want = None
            try:
                real = self._port_history(ops, nports)
            except Exception as e:  # noqa: BLE001
                ctx.fail("port:exception", f"InterWorkflowPort history {ops} raised {type(e).__name__}: {e}", {"port_history": ops, "nports": nports})
                continue
            ctx.case({"op": "port-history", "ops": ops, "real": real}, ("ports", json.dumps(ops)), "port-handover" if want else "port-random")
            if want is not None:
                w, t = want
                got_w = real.split(" | ")[w].split()
                if str(t) not in got_w:
                    ctx.fail("port:hand-over-lost", f"recovery port {w} registered [{t}] on the producer port but never received token {t} "
                             f"(history {ops}; ports {real!r}) — the waiting recovery would block for ever", {"port_history": ops, "nports": nports})
            lines.append("reset")
            for op in ops:
                if op[0] == "put":
                    lines.append(f"put {op[1]}")
                elif op[0] == "term":
                    lines.append("term")
                else:
                    lines.append(f"add {op[1]} {int(op[2])} {int(op[3])} " + (",".join(map(str, op[4])) or "-"))
            lines.append(f"dump {nports - 1}")
            expect.append(real)
            meta.append((ops, nports))
        got = [g for g, l in zip(ctx.lean("Drivers/C19Port.lean", lines), lines) if l.startswith("dump")]
        for g, e, (ops, nports) in zip(got, expect, meta):
            if g.strip() != e.strip():
                ctx.disagree("InterWorkflowPort vs IWPort model", f"history {ops}: code {e!r}, Lean model {g!r}", {"port_history": ops, "nports": nports})

    def replay(self, ctx: Ctx, data) -> None:
        rp = data.get("replay") or (data.get("no_longer_checks") or [{}])[0].get("case") or {}
        if "port_history" in rp:
            ops = [tuple(o) for o in rp["port_history"]]
            print("real ports:", self._port_history(ops, rp["nports"]))
            return
        rr = data.get("replay") or (data.get("no_longer_checks") or [{}])[0].get("case") or {}
        if "recovery" not in rr:
            return super().replay(ctx, data)
        case = rr["recovery"]
        r = recov.run_case(case)
        print(json.dumps({k: r.get(k) for k in ("outcome", "msg", "attempts", "versions", "injected", "timeline", "fm_events")}, indent=1, default=str)[:8000])
        for key, detail in judge(case, r, None):
            ctx.fail(key, detail, rr)


PROPERTY = C19()
