import SFV.Gen.RecoverGuard
/-! # Claiming a producer's re-execution, with the job statuses spelled out

Refinement of `SFV/Model/Claims.lean` (always with the per-request lock): instead of one flag "recovering", every job carries
its scheduler status (`SFV.Gen.JobStatus` = `streamflow.core.workflow.Status`). A successful claim (`_update_request`) sets
ROLLBACK (`notify_status(job, ROLLBACK)`); the recovery workflow's ScheduleStep makes it FIREABLE (`scheduler.schedule`), its
ExecuteStep RUNNING (`notify_status(job, RUNNING)`), and the job ends COMPLETED or fails (RECOVERY: its own recovery starts).
`check` asks `seen (status j)` — the parameter is the status test of `is_recovering`. -/
namespace SFV.ClaimStatus
open SFV.Gen (JobStatus)

def upd {β : Type} (f : Nat → β) (k : Nat) (v : β) : Nat → β := fun x => if x = k then v else f x
@[simp, grind =] theorem upd_apply {β : Type} (f : Nat → β) (k : Nat) (v : β) (x : Nat) :
    upd f k v x = if x = k then v else f x := rfl

structure St where
  holder : Nat → Option Nat      -- lock of request j ↦ recovery holding it
  status : Nat → JobStatus       -- scheduler status of job j
  pend : Nat → Option Nat        -- recovery p has decided to claim request j (between `check` and `claim`)
  claims : Nat → Nat             -- successful claims of j in the current epoch (since it last completed / failed)
  total : Nat → Nat              -- all claims of j

inductive Act
  | acquire (p j : Nat) | check (p j : Nat) | claim (p : Nat) | release (p j : Nat)
  | schedule (j : Nat) | start (j : Nat) | finish (j : Nat) (ok : Bool)
deriving Repr, DecidableEq

/-- the statuses a job passes through between a claim and the end of its re-execution -/
def reexecuting : JobStatus → Bool
  | .ROLLBACK | .FIREABLE | .RUNNING => true
  | _ => false

def init : St := ⟨fun _ => none, fun _ => .COMPLETED, fun _ => none, fun _ => 0, fun _ => 0⟩

def step (seen : JobStatus → Bool) (s : St) : Act → Option St
  | .acquire p j => if s.holder j = none then some { s with holder := upd s.holder j (some p) } else none
  | .check p j =>
      if s.holder j = some p ∧ s.pend p = none then
        if seen (s.status j) then some s                      -- attach
        else some { s with pend := upd s.pend p (some j) }    -- will claim
      else none
  | .claim p =>
      match s.pend p with
      | some j => some { s with status := upd s.status j .ROLLBACK, claims := upd s.claims j (s.claims j + 1),
                                 total := upd s.total j (s.total j + 1), pend := upd s.pend p none }
      | none => none
  | .release p j => if s.holder j = some p ∧ s.pend p ≠ some j then some { s with holder := upd s.holder j none } else none
  | .schedule j => if s.status j = .ROLLBACK then some { s with status := upd s.status j .FIREABLE } else none
  | .start j => if s.status j = .FIREABLE then some { s with status := upd s.status j .RUNNING } else none
  | .finish j ok =>
      if s.status j = .RUNNING then
        some { s with status := upd s.status j (if ok then .COMPLETED else .RECOVERY), claims := upd s.claims j 0 }
      else none

inductive Reachable (seen : JobStatus → Bool) : St → Prop
  | init : Reachable seen init
  | step {s a s'} : Reachable seen s → step seen s a = some s' → Reachable seen s'

def runActs (seen : JobStatus → Bool) (s : St) : List Act → Option St
  | [] => some s
  | a :: as => match step seen s a with
    | some s' => runActs seen s' as
    | none => none

theorem reachable_runActs {seen} : ∀ (as : List Act) (s s' : St), Reachable seen s → runActs seen s as = some s' → Reachable seen s'
  | [], s, s', h, e => by simp [runActs] at e; exact e ▸ h
  | a :: as, s, s', h, e => by
    simp only [runActs] at e
    split at e
    · rename_i s1 hs1; exact reachable_runActs as s1 s' (Reachable.step h hs1) e
    · cases e

end SFV.ClaimStatus
