import SFV.Model.Bytes
/-! The looping read is exact for every chunking policy. -/
namespace SFV.Bytes

theorem tellReadF_exact : ∀ (fuel size : Nat) (r : Raw), size ≤ fuel →
    (tellReadF fuel size r).1 = r.data.take size ∧ (tellReadF fuel size r).2.data = r.data.drop size ∧
    (tellReadF fuel size r).2.policy = r.policy := by
  intro fuel
  induction fuel with
  | zero =>
    intro size r h
    have : size = 0 := by omega
    subst this
    simp [tellReadF]
  | succ fuel ih =>
    intro size r h
    cases size with
    | zero => simp [tellReadF]
    | succ n =>
      simp only [tellReadF]
      have hle := r.grant_le (n + 1)
      by_cases hlen : r.data.length = 0
      · have hnil : r.data = [] := List.eq_nil_of_length_eq_zero hlen
        have hg : r.grant (n + 1) = 0 := by unfold Raw.grant; rw [hlen]; omega
        simp [hg, hnil]
      · have hpos := r.grant_pos (n + 1) (by omega) (by omega)
        have hne : ¬ r.grant (n + 1) = 0 := by omega
        simp only [hne, if_false]
        obtain ⟨h1, h2, h3⟩ := ih (n + 1 - r.grant (n + 1)) { r with data := r.data.drop (r.grant (n + 1)) } (by omega)
        refine ⟨?_, ?_, h3⟩
        · rw [h1]
          simp only
          rw [← List.take_add]
          congr 1; omega
        · rw [h2]
          simp only
          rw [List.drop_drop]
          congr 1; omega

theorem tellRead_exact' (size : Nat) (r : Raw) :
    (tellRead size r).1 = r.data.take size ∧ (tellRead size r).2.data = r.data.drop size ∧
    (tellRead size r).2.policy = r.policy :=
  tellReadF_exact size size r (Nat.le_refl _)

theorem tellRead_eq (size : Nat) (r : Raw) :
    tellRead size r = (r.data.take size, { r with data := r.data.drop size }) := by
  obtain ⟨h1, h2, h3⟩ := tellRead_exact' size r
  cases h : tellRead size r with
  | mk a b =>
    rw [h] at h1 h2 h3
    cases b
    simp_all

end SFV.Bytes
