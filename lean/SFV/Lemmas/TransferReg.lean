import SFV.Model.TransferReg
/-! Lemmas for the registration part of C22: the registry only grows under `put` / `register_relation`. -/
namespace SFV.TransferReg
open SFV.Registry

/-- `s'` has everything `s` has: objects keep their identity and content, node entries are only added -/
def Grows (s s' : St) : Prop :=
  (∀ o, o < s.heap.length → s'.heap[o]? = s.heap[o]?) ∧ (∀ p l o, o ∈ s.locs p l → o ∈ s'.locs p l)

theorem grows_refl (s : St) : Grows s s := ⟨fun _ _ => rfl, fun _ _ _ h => h⟩

theorem grows_trans {a b c : St} (h1 : Grows a b) (h2 : Grows b c) (hlen : a.heap.length ≤ b.heap.length) : Grows a c :=
  ⟨fun o ho => by rw [h2.1 o (by omega), h1.1 o ho], fun p l o h => h2.2 p l o (h1.2 p l o h)⟩

theorem heap_len_of_grows {s s' : St} (h : Grows s s') : s.heap.length ≤ s'.heap.length := by
  apply Nat.le_of_not_lt
  intro hlt
  cases hl : s.heap.length with
  | zero => omega
  | succ n =>
    have := h.1 n (by omega)
    have h1 : s.heap[n]? ≠ none := by simp; omega
    have h2 : s'.heap[n]? = none := by simp; omega
    rw [h2] at this; exact h1 this.symm

theorem hasCopy_grows {s s' : St} (h : Grows s s') (p : Path) (l : Nat) (hc : HasCopy s p l) : HasCopy s' p l := by
  obtain ⟨o, ho, hp⟩ := hc
  simp only [getLocs, List.mem_filter] at ho
  have hlt : o < s.heap.length := by
    have := ho.2
    unfold objValid at this
    cases hg : s.heap[o]? with
    | none => simp [hg] at this
    | some x => exact (List.getElem?_eq_some_iff.mp hg).1
  have hsame := h.1 o hlt
  refine ⟨o, ?_, ?_⟩
  · simp only [getLocs, List.mem_filter]
    exact ⟨h.2 p l o ho.1, by unfold objValid; rw [hsame]; exact ho.2⟩
  · unfold objPath; rw [hsame]; exact hp

theorem grows_putLoop (l o : Nat) (path : Path) : ∀ (nps : List Path) (s : St), Grows s (putLoop l o path nps s) := by
  intro nps
  induction nps with
  | nil => intro s; exact grows_refl s
  | cons np rest ih =>
    intro s
    by_cases hnp : np = path
    · subst hnp
      simp only [putLoop, if_true]
      split
      · exact grows_refl s
      · refine grows_trans ?_ (ih _) (Nat.le_refl _)
        refine ⟨fun _ _ => rfl, fun p l' x hx => ?_⟩
        simp only [upd]
        split
        · rename_i hpl; obtain ⟨rfl, rfl⟩ := hpl; exact List.mem_append_left _ hx
        · exact hx
    · simp only [putLoop, hnp, if_false]
      split
      · exact grows_refl s
      · refine grows_trans ?_ (ih _) (by simp)
        refine ⟨fun x hx => by simp [List.getElem?_append_left hx], fun p l' x hx => ?_⟩
        simp only [upd]
        split
        · rename_i hpl; obtain ⟨rfl, rfl⟩ := hpl; exact List.mem_append_left _ hx
        · exact hx

theorem grows_put (s : St) (p : Path) (o : Nat) (r : Bool) : Grows s (put s p o r) := by
  unfold put
  refine grows_trans (b := { s with nodes := s.nodes ++ prefixes p }) ⟨fun _ _ => rfl, fun _ _ _ h => h⟩ (grows_putLoop _ _ _ _ _) (Nat.le_refl _)

theorem grows_relateLoop (dst : Nat) : ∀ (ds : List Nat) (s : St), Grows s (relateLoop dst ds s) := by
  intro ds
  induction ds with
  | nil => intro s; exact grows_refl s
  | cons d ds ih =>
    intro s
    simp only [relateLoop]
    have h1 := grows_put s (objPath s d) dst false
    have h2 := grows_put (put s (objPath s d) dst false) (objPath s dst) d false
    have h12 := grows_trans h1 h2 (heap_len_of_grows h1)
    exact grows_trans h12 (ih _) (heap_len_of_grows h12)

theorem grows_relate (s : St) (src dst : Nat) : Grows s (relate s src dst) := grows_relateLoop dst _ s

/-- storing a valid object with path `p` at the node `p` makes a copy available there — either the object itself or, when
    `put` stops early, the valid object with that path that is already stored -/
theorem put_hasCopy (s : St) (p : Path) (o : Nat) (_ho : o < s.heap.length) (hp : objPath s o = p) (hv : objValid s o = true) :
    HasCopy (put s p o false) p (objLoc s o) := by
  unfold put
  simp only [Bool.false_eq_true, if_false, putLoop, if_true]
  have hobj : objPath { s with nodes := s.nodes ++ prefixes p } o = p := hp
  have hval : objValid { s with nodes := s.nodes ++ prefixes p } o = true := hv
  split
  · rename_i hbreak
    -- `put` stops: a valid object with this path is already there
    obtain ⟨_, hsv⟩ := hbreak
    rw [hobj] at hsv
    unfold specValid at hsv
    obtain ⟨x, hx, hxv⟩ := List.any_eq_true.mp hsv
    simp only [Bool.and_eq_true, beq_iff_eq] at hxv
    exact ⟨x, by simp only [getLocs, List.mem_filter]; exact ⟨hx, hxv.1⟩, hxv.2⟩
  · refine ⟨o, ?_, hp⟩
    simp only [getLocs, List.mem_filter, upd]
    refine ⟨by simp, ?_⟩
    exact hv

end SFV.TransferReg
