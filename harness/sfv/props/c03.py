"""C03 — ports deliver every token to every consumer exactly once, in order; filter and inter-workflow ports."""
from __future__ import annotations

import asyncio
import itertools

from streamflow.core.workflow import Port, Status, Token
from streamflow.workflow.port import BoundaryAction, FilterTokenPort, InterWorkflowPort
from streamflow.workflow.token import TerminationToken

from sfv.framework import Ctx, Property
from sfv.rt.loop import run_controlled
from sfv.rt.shrink import ddmin

# tags are opaque to the port code (compared for equality only); the model sees their index
TAGS = ["0", "0.0", "0.1", "0.2", "0.10", "0.1.0", "1"]
STATUSES = [4, 4, 4, 3, 5, 6, 9]  # COMPLETED (mostly), SKIPPED, FAILED, CANCELLED, RECOVERED
NCONS = 4
NEXT = 3


def _tokstr(t) -> str:
    if isinstance(t, TerminationToken):
        return f"T{int(t.value)}"
    return f"d{TAGS.index(t.tag)}:{t.value}"


def _opstr(op) -> str:
    if op[0] == "p":
        return f"p:{op[1]}:{op[2]}:{op[3]}"
    if op[0] in ("g", "c"):
        return f"{op[0]}:{op[1]}"
    if op[0] == "a":
        return f"a:{op[1]}:{op[2]}:{op[3]}:{','.join(map(str, op[4])) or '-'}"
    raise ValueError(op)


def model_line(case) -> str:
    ops = " ".join(_opstr(o) for o in case["eff"])
    if case["kind"] == "plain":
        return f"plain {ops}".rstrip()
    if case["kind"] == "filter":
        return f"filter {','.join(map(str, case['admit'])) or '-'} {ops}".rstrip()
    return f"iw {ops}".rstrip()


async def _exec(case) -> dict:
    """run one history on the REAL port classes. Returns the effective history (ops really issued) and the
    observation in the driver's output format."""
    kind, ops, disc = case["kind"], case["ops"], case.get("disc", False)
    exts = [Port(None, f"e{k}") for k in range(NEXT)]
    if kind == "plain":
        port = Port(None, "p")
    elif kind == "filter":
        admitted = {TAGS[i] for i in case["admit"]}
        port = FilterTokenPort(None, "p", filter_function=lambda t: t.tag in admitted)
    else:
        port = InterWorkflowPort(None, "p")
    recv: dict[int, list] = {}
    pending: dict[int, tuple] = {}
    err: dict[int, bool] = {}
    eff = []
    put_objs = []
    closes = []

    def name(c):
        return f"/step{c}/in"

    async def settle():
        for _ in range(3):
            await asyncio.sleep(0)
        for c, (task, _first) in list(pending.items()):
            if task.done():
                del pending[c]
                try:
                    recv[c].append(task.result())
                except ValueError:
                    err[c] = True

    async def do_get(c):
        first = name(c) not in port.queues
        recv.setdefault(c, [])
        pending[c] = (asyncio.create_task(port.get(name(c))), first)
        await settle()

    for op in ops:
        if op[0] == "p":
            tok = TerminationToken(Status(op[3])) if op[1] else Token(value=op[3], tag=TAGS[op[2]])
            put_objs.append(tok)
            port.put(tok)
            eff.append(op)
            await settle()
        elif op[0] == "g":
            c = op[1]
            if c in pending or err.get(c):
                continue
            if disc and any(isinstance(t, TerminationToken) for t in recv.get(c, [])):
                continue  # the read discipline of every step: stop after the termination token
            eff.append(op)
            await do_get(c)
        elif op[0] == "c":
            eff.append(op)
            closes.append([op[1], name(op[1]) in port.queues, len(recv.get(op[1], []))])
            try:
                port.close(name(op[1]))
            except ValueError:
                err[op[1]] = True
        elif op[0] == "a":
            target = port if op[1] == "s" else exts[int(op[1][1:])]
            action = BoundaryAction(0)
            if op[2]:
                action |= BoundaryAction.PROPAGATE
            if op[3]:
                action |= BoundaryAction.TERMINATE
            port.add_inter_port(target, [TAGS[i] for i in op[4]], action)
            eff.append(op)
            await settle()
    # final drain: every consumer that subscribed asks for everything that is in the log
    drained_ok = True
    for c in sorted(recv):
        guard = 0
        while c not in pending and not err.get(c) and len(recv[c]) < len(port.token_list) and guard < 200:
            if disc and any(isinstance(t, TerminationToken) for t in recv[c]):
                break
            guard += 1
            eff.append(["g", c])
            await do_get(c)
        if c in pending and len(recv[c]) < len(port.token_list):
            drained_ok = False
    cons = {}
    for c in sorted(recv):
        q = port.queues[name(c)]
        w = "n" if c not in pending else ("f" if pending[c][1] else "l")
        cons[c] = {"recv": [_tokstr(t) for t in recv[c]], "items": q.qsize(), "unf": q._unfinished_tasks, "wait": w,
                   "err": 1 if err.get(c) else 0,
                   "same_objects": all(a is b for a, b in zip(recv[c], port.token_list))}
    for task, _ in pending.values():
        task.cancel()
    obs = {"log": [_tokstr(t) for t in port.token_list], "cons": cons, "drained_ok": drained_ok,
           "puts": [_tokstr(t) for t in put_objs], "closes": closes}
    if kind == "iw":
        obs["ext"] = [[_tokstr(t) for t in e.token_list] for e in exts]
        obs["rules"] = [[TAGS.index(t) for t in b.tags] for b in port.boundaries]
    return {"eff": eff, "obs": obs}


def _render(obs, kind) -> str:
    def toks(l):
        return ",".join(l) or "-"
    cons = " ".join(f"c{c}={toks(v['recv'])}/{v['items']}/{v['unf']}/{v['wait']}/{v['err']}" for c, v in sorted(obs["cons"].items()))
    s = f"log={toks(obs['log'])} | {cons}"
    if kind == "iw":
        ex = " ".join(f"e{k}={toks(l)}" for k, l in enumerate(obs["ext"]))
        rules = ";".join(",".join(map(str, r)) or "-" for r in obs["rules"]) or "-"
        s += f" | {ex} | r={rules}"
    return s


def _normalise_model(line: str) -> str:
    """the model keeps printing `recv` of a consumer whose queue raised ValueError; the real consumer got an
    exception instead of the token, so after an error only the error flag of that consumer is compared"""
    parts = line.split(" | ")
    if len(parts) < 2:
        return line
    cons = []
    for w in parts[1].split():
        head, _, rest = w.partition("=")
        f = rest.split("/")
        cons.append(f"{head}=ERR" if f[-1] == "1" else w)
    parts[1] = " ".join(cons)
    return " | ".join(parts)


# ------------------------------------------------------------------------------------------------
# the property's own oracle, written from the statement (independent of the Lean model)
# ------------------------------------------------------------------------------------------------
def _fire(tags, stream):
    """tokens of `stream` put at or after the one that empties the tag list"""
    tags = list(tags)
    out = []
    for t in stream:
        tg = int(t[1:].split(":")[0])
        if tg in tags:
            tags.remove(tg)
        if not tags:
            out.append(t)
    return out


def _act(rule, t):
    return ([t] if rule[2] else []) + (["T9"] if rule[3] else [])


def oracle(case, res):
    """yield (key, detail) for every way the real run contradicts the property statement"""
    kind, eff, obs = case["kind"], res["eff"], res["obs"]
    log = obs["log"]
    puts = obs["puts"]
    if kind == "plain" and log != puts:
        yield "port:log-differs-from-puts", f"token_list {log} after puts {puts}"
    if kind == "filter":
        exp = [t for t in puts if t[0] == "T" or int(t[1:].split(":")[0]) in case["admit"]]
        if log != exp:
            yield "filter:log-not-admitted-sequence", f"token_list {log}, admitted puts {exp}"
    for c, v in obs["cons"].items():
        if v["err"]:
            continue
        r = v["recv"]
        if r != log[: len(r)] or not v["same_objects"]:
            dup = len(set(r)) < len(r) and len(set(log)) == len(log)
            yield ("port:duplicate-delivery" if dup else "port:order-or-content"), f"consumer {c} received {r}, token_list {log}"
        elif len(r) + v["items"] != len(log):
            yield "port:lost-or-extra-queued-token", f"consumer {c}: received {len(r)} + queued {v['items']} != {len(log)} put"
        if case.get("disc") and any(t[0] == "T" for t in r[:-1]):
            yield "port:token-after-termination", f"disciplined consumer {c} received {r}"
    if not obs["drained_ok"]:
        yield "port:token-never-delivered", f"a consumer blocked although token_list {log} holds more than it received: {obs['cons']}"
    # close bookkeeping: at most one close per consumer, issued after it received something (or never subscribed)
    # -> task_done never raises
    for c, v in obs["cons"].items():
        mine = [x for x in obs["closes"] if x[0] == c]
        disciplined = len(mine) <= 1 and all((not sub) or n > 0 for _, sub, n in mine)
        if v["err"] and disciplined:
            yield "port:task_done-raised", f"consumer {c}: ValueError from task_done although close was called at most once, after a token: {eff}"
    if kind == "iw":
        rules = [op for op in eff if op[0] == "a"]
        # external rules alone on their boundary port
        for k in range(NEXT):
            mine = [i for i, op in enumerate(eff) if op[0] == "a" and op[1] == f"e{k}"]
            if len(mine) != 1:
                if not mine and obs["ext"][k]:
                    yield "iw:boundary-port-without-rule-got-tokens", f"e{k} = {obs['ext'][k]}"
                continue
            i = mine[0]
            rule = eff[i]
            # the stream the rule sees: data tokens in the own log when it was added, then data tokens put later
            own_at_add = case.get("_own_at_add", {}).get(i)
            later = [(_tok_of(op)) for op in eff[i + 1:] if op[0] == "p" and not op[1]]
            if own_at_add is None:
                continue
            exp = [x for t in _fire(rule[4], own_at_add + later) for x in _act(rule, t)]
            if obs["ext"][k] != exp:
                yield "iw:boundary-port-content", f"rule {rule}: boundary port e{k} has {obs['ext'][k]}, expected {exp}"
        selfr = [op for op in rules if op[1] == "s"]
        data_puts = [t for t in puts if t[0] == "d"]
        if not selfr:
            if log != puts:
                yield "iw:own-log-without-self-rule", f"own log {log}, puts {puts}"
        elif len(selfr) == 1 and selfr[0][2] and case.get("_self_added_on_empty"):
            if [t for t in log if t[0] == "d"] != data_puts:
                yield "iw:self-rule-lost-or-duplicated", f"own log {log}, data puts {data_puts}, rule {selfr[0]}"


def _tok_of(op):
    return f"T{op[3]}" if op[1] else f"d{op[2]}:{op[3]}"


def _annotate_iw(case, eff):
    """what the own log held (data tokens) when each rule was added — computed from the property's reading of the
    history for histories in which it is unambiguous: before any self rule exists the own log is the put sequence"""
    own_at_add, self_seen, ok_self = {}, False, True
    data = []
    for i, op in enumerate(eff):
        if op[0] == "p" and not op[1]:
            data.append(_tok_of(op))
        elif op[0] == "a":
            if not self_seen:
                own_at_add[i] = list(data)
            if op[1] == "s":
                if data:
                    ok_self = False
                self_seen = True
    case["_own_at_add"] = own_at_add
    case["_self_added_on_empty"] = ok_self


# ------------------------------------------------------------------------------------------------
# generators
# ------------------------------------------------------------------------------------------------
def _rand_history(rng, kind, n, ncons, wild=False):
    ops = []
    val = 0
    for _ in range(n):
        r = rng.random()
        if kind == "iw" and r < 0.12 and sum(1 for o in ops if o[0] == "a") < 4:
            nself = sum(1 for o in ops if o[0] == "a" and o[1] == "s")
            if rng.random() < (0.25 if (nself == 0 or wild) else 0.0):
                tg = "s"
            else:
                tg = f"e{rng.randrange(NEXT)}"
            flags = rng.choice([(1, 0), (0, 1), (1, 1), (1, 0), (1, 1)] + ([(0, 0)] if wild else []))
            tags = [rng.randrange(len(TAGS)) for _ in range(rng.choice([0, 1, 1, 2, 2, 3]))]
            ops.append(["a", tg, flags[0], flags[1], tags])
        elif r < 0.45:
            if rng.random() < 0.15:
                ops.append(["p", 1, 0, rng.choice(STATUSES)])
            else:
                val += 1
                ops.append(["p", 0, rng.randrange(len(TAGS)), val])
        elif r < 0.92:
            ops.append(["g", rng.randrange(ncons)])
        else:
            ops.append(["c", rng.randrange(ncons)])
    return ops


CORPUS = [
    {"kind": "plain", "ops": []},
    {"kind": "plain", "ops": [["g", 0]]},
    {"kind": "plain", "ops": [["p", 0, 1, 1], ["p", 0, 2, 2], ["g", 0], ["g", 0], ["g", 0], ["p", 1, 0, 4], ["g", 1], ["g", 1], ["g", 1], ["c", 0]]},
    {"kind": "plain", "ops": [["g", 0], ["p", 0, 1, 1], ["g", 0], ["p", 1, 0, 4], ["c", 0]], "disc": True},
    {"kind": "plain", "ops": [["g", 0], ["c", 0]]},                       # model witness: task_done raises
    {"kind": "plain", "ops": [["p", 0, 1, 1], ["g", 0], ["c", 0], ["c", 0]]},
    {"kind": "plain", "ops": [["p", 1, 0, 4], ["p", 0, 1, 1], ["g", 0], ["g", 0]], "disc": True},
    {"kind": "filter", "admit": [1, 2], "ops": [["p", 0, 1, 1], ["p", 0, 3, 2], ["p", 0, 2, 3], ["p", 1, 0, 4], ["g", 0], ["g", 0], ["g", 0], ["g", 0]]},
    {"kind": "filter", "admit": [], "ops": [["g", 1], ["p", 0, 1, 1], ["p", 1, 0, 5]]},
    {"kind": "iw", "ops": [["a", "e0", 1, 0, [1, 2]], ["p", 0, 1, 1], ["p", 0, 2, 2], ["p", 0, 3, 3], ["p", 1, 0, 4]]},
    {"kind": "iw", "ops": [["p", 0, 1, 1], ["p", 0, 2, 2], ["a", "e1", 1, 1, [2]], ["p", 0, 3, 3]]},
    {"kind": "iw", "ops": [["a", "s", 1, 1, [1, 2]], ["p", 0, 1, 1], ["g", 0], ["p", 0, 2, 2], ["g", 0], ["g", 0], ["g", 0]]},
    {"kind": "iw", "ops": [["a", "e0", 1, 0, [4]], ["a", "s", 0, 1, [4]], ["p", 0, 4, 1], ["p", 0, 1, 2]]},   # failed step's output port
    {"kind": "iw", "ops": [["a", "e2", 1, 0, [1, 1]], ["p", 0, 1, 1], ["p", 0, 1, 2], ["p", 0, 1, 3]]},         # duplicate tag in the rule
    {"kind": "iw", "ops": [["a", "e0", 1, 0, []], ["p", 0, 0, 1]]},
    {"kind": "iw", "ops": [["a", "s", 1, 0, []], ["a", "s", 1, 0, []], ["p", 0, 1, 1]]},                      # two self rules: duplicate (witness)
]


class C03(Property):
    pid = "C03"
    title = "Ports deliver every token to every consumer exactly once, in order"
    lean_targets = ["SFV.Props.C03"]
    props_files = ["SFV/Props/C03.lean"]
    drivers = ["Drivers/C03.lean"]
    translators = []
    rule = ("histories of put/get/close (and add_inter_port) on the REAL Port / FilterTokenPort / InterWorkflowPort by up to 4 "
            "consumers incl. late subscribers, blocked gets completed by later puts, disciplined and undisciplined readers; a corpus of "
            "boundary histories, exhaustive histories up to length 5 (quick) / 6 (thorough) over 2 consumers x {2 data tokens, "
            "termination} x {put,get,close}, and random histories (length <= 30; 0..4 boundary rules with PROPAGATE/TERMINATE flags, "
            "self and external targets, duplicate tags). Each history runs on the real classes under the controlled loop, on the Lean "
            "model (driver) and against an oracle written from the statement. Non-trivial = history with >= 2 puts and >= 1 get.")
    trusted_base = [
        "hand-written model lean/SFV/Model/Port.lean of Port.put/get/close/_init_consumer, FilterTokenPort.put, "
        "InterWorkflowPort.put/add_inter_port/_execute_boundary_action, compared with the real classes on every history",
        "modelled, not verified: asyncio.Queue (FIFO, _unfinished_tasks/task_done, a blocked getter is woken by the next put_nowait)",
    ]
    technique = "Lean 4 theorems over all op histories (inductive invariant recv ++ queued = log) + differential correspondence on exhaustive small and random histories"
    level_text = ("grade A: for every history of put/get/close by any number of consumers the received sequence is a prefix of the put sequence "
                  "(equal after enough gets), late subscribers included; filter ports hold exactly the admitted sub-sequence; inter-workflow "
                  "boundary ports receive exactly the tokens from the completing put on; model compared with the real classes on every run")
    level_note = "Lean kernel, axioms within {propext, Classical.choice, Quot.sound}; trusts the asyncio.Queue abstraction and the K sampling"
    assumptions = [
        "a consumer is a sequential coroutine (it does not issue a second get while one is blocked)",
        "boundary ports of an InterWorkflowPort are modelled as plain ports (chains of inter-workflow ports are not modelled)",
        "tags are compared for equality only",
    ]
    quick_budget_s = 200
    thorough_budget_s = 1200
    min_nontrivial = 50

    # ---- case production -----------------------------------------------------------------------
    def _cases(self, ctx: Ctx):
        rng = ctx.rng
        for c in CORPUS:
            yield dict(c), "corpus"
        ctx.corpus_replayed += len(CORPUS)
        # exhaustive small histories on the plain port
        alpha = [["p", 0, 1, 1], ["p", 0, 2, 2], ["p", 1, 0, 4], ["g", 0], ["g", 1], ["c", 0], ["c", 1]]
        maxlen = 6 if (ctx.tier == "thorough" or ctx.mode == "search") else 5
        for n in range(1, maxlen + 1):
            for combo in itertools.product(range(len(alpha)), repeat=n):
                # symmetric histories (consumer 1 appearing before consumer 0) are skipped
                first = next((alpha[i][1] for i in combo if alpha[i][0] in ("g", "c")), 0)
                if first == 1:
                    continue
                yield {"kind": "plain", "ops": [list(alpha[i]) for i in combo]}, f"exhaustive-{n}"
        nrand = {"quick": 2500, "thorough": 40000}[ctx.tier] * (3 if ctx.mode == "search" else 1)
        for i in range(nrand):
            kind = rng.choice(["plain", "filter", "iw", "iw"])
            case = {"kind": kind, "ops": _rand_history(rng, kind, rng.randint(0, 30), rng.randint(1, NCONS), wild=rng.random() < 0.15),
                    "disc": rng.random() < 0.6}
            if kind == "filter":
                case["admit"] = sorted(rng.sample(range(len(TAGS)), rng.randint(0, 4)))
            yield case, f"random-{kind}"

    def _run_batch(self, ctx: Ctx, batch, seed):
        async def main():
            out = []
            for case, _ in batch:
                out.append(await _exec(case))
            return out
        return run_controlled(main, seed, timeout=180)

    def explore(self, ctx: Ctx) -> None:
        cases = list(self._cases(ctx))
        B = 400
        lines, metas = [], []
        for b0 in range(0, len(cases), B):
            if ctx.out_of_time():
                ctx.extra["incomplete"] = True
                break
            batch = cases[b0:b0 + B]
            seed = ctx.rng.randrange(1 << 30)
            try:
                results = self._run_batch(ctx, batch, seed)
            except (TimeoutError, asyncio.TimeoutError):
                ctx.fail("port:hang", f"a batch of {len(batch)} port histories did not finish in 180 s",
                         {"cases": [c for c, _ in batch][:50], "seed": seed})
                continue
            for (case, bucket), res in zip(batch, results):
                case["eff"] = res["eff"]
                if case["kind"] == "iw":
                    _annotate_iw(case, res["eff"])
                nput = sum(1 for o in res["eff"] if o[0] == "p")
                nget = sum(1 for o in res["eff"] if o[0] == "g")
                key = (case["kind"], tuple(_opstr(o) for o in res["eff"]), tuple(case.get("admit", []))) if nput >= 2 and nget >= 1 else None
                pub = {k: v for k, v in case.items() if not k.startswith("_") and k != "eff"}
                ctx.case({"case": pub, "real": _render(res["obs"], case["kind"])}, key, bucket)
                for fkey, detail in oracle(case, res):
                    ctx.fail(fkey, detail, self._shrunk(pub, fkey, seed))
                lines.append(model_line(case))
                metas.append((pub, _render(res["obs"], case["kind"])))
        got = ctx.lean("Drivers/C03.lean", lines)
        ndis = 0
        for g, (pub, real) in zip(got, metas):
            if _normalise_model(g) != _normalise_model(real):
                ndis += 1
                if ndis <= 5:
                    pub, real, g = self._shrink_disagreement(ctx, pub, real, g)
                ctx.disagree(f"model vs real {pub['kind']} port", f"history {[_opstr(o) for o in pub['ops']]}: real {real!r}, Lean model {g!r}", pub)

    # ---- shrinking -----------------------------------------------------------------------------
    def _one(self, case, seed=0):
        async def main():
            return await _exec(case)
        return run_controlled(main, seed, timeout=60)

    def _shrunk(self, pub, fkey, seed):
        def fails(ops):
            c = dict(pub, ops=ops)
            res = self._one(c, seed)
            c["eff"] = res["eff"]
            if c["kind"] == "iw":
                _annotate_iw(c, res["eff"])
            return any(k == fkey for k, _ in oracle(c, res))
        try:
            ops = ddmin(pub["ops"], fails, budget_s=5, max_tests=120)
        except Exception:  # noqa: BLE001
            ops = pub["ops"]
        return dict(pub, ops=ops, seed=seed)

    def _shrink_disagreement(self, ctx, pub, real, model):
        last = {}

        def fails(ops):
            c = dict(pub, ops=ops)
            res = self._one(c)
            c["eff"] = res["eff"]
            g = ctx.lean("Drivers/C03.lean", [model_line(c)])[0]
            r = _render(res["obs"], c["kind"])
            bad = _normalise_model(g) != _normalise_model(r)
            if bad:
                last[tuple(map(tuple, map(lambda o: map(str, o), ops)))] = (r, g)
            return bad
        try:
            ops = ddmin(pub["ops"], fails, budget_s=25, max_tests=25)
            r, g = last.get(tuple(map(tuple, map(lambda o: map(str, o), ops))), (real, model))
            return dict(pub, ops=ops), r, g
        except Exception:  # noqa: BLE001
            return pub, real, model

    def replay(self, ctx: Ctx, data) -> None:
        case = data.get("replay") or data.get("case") or (data.get("no_longer_checks") or [{}])[0].get("case")
        if not case or "ops" not in case:
            return super().replay(ctx, data)
        case = {k: v for k, v in case.items() if k in ("kind", "ops", "admit", "disc")}
        res = self._one(case, data.get("seed", 0) if isinstance(data.get("seed"), int) else 0)
        case["eff"] = res["eff"]
        if case["kind"] == "iw":
            _annotate_iw(case, res["eff"])
        real = _render(res["obs"], case["kind"])
        model = ctx.lean("Drivers/C03.lean", [model_line(case)])[0]
        print("history :", " ".join(_opstr(o) for o in res["eff"]))
        print("real    :", real)
        print("model   :", model)
        for k, d in oracle(case, res):
            ctx.fail(k, d, case)
        if _normalise_model(model) != _normalise_model(real):
            ctx.disagree("model vs real port", f"real {real!r} model {model!r}", case)


PROPERTY = C03()
