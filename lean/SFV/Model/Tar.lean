import SFV.Model.Bytes
/-! # Tar streams as `aiotarstream` writes and reads them (C23)

Block structure, offsets, padding, end-of-archive and the read loops are modelled as the code has them
(`AioTarStream.addfile` / `_close`, `AioTarStream.next`, `AioTarInfo.fromtarfile` / `_proc_builtin`,
`AioTarInfo._proc_gnulong`, `FileStreamReaderWrapper.read`, `copyfileobj` / `write`). The *content* of a 512-byte header
block is CPython's (`TarInfo.tobuf` / `frombuf`) and enters through a `Codec`: functions with `dec (enc n s) = reg n s` and
`dec (encLong n) = long n` on the headers it declares valid. Members are regular files (directories are members of size
0) with names of any length: names over 100 bytes go through a GNU long-name record or a per-member pax extended header
(`_proc_pax`, records applied to that member only); pax *global* headers, `size` overrides, links and sparse files are validated
by the correspondence check only. -/
namespace SFV.Tar
open SFV.Bytes

def BLOCK : Nat := 512
def RECORD : Nat := 10240

structure Member where
  name : List Byte
  data : List Byte
deriving DecidableEq, Repr

/-- what a header block announces: an ordinary member, or a GNU long-name record of `n` bytes (`././@LongLink`, type `L`) -/
inductive Hd
  | reg (name : List Byte) (size : Nat)
  | long (n : Nat)
  | pax (n : Nat)          -- pax extended header (`././@PaxHeader`, type `x`) with `n` bytes of records
deriving DecidableEq, Repr

/-- a pax record `key=value` -/
abbrev Rec := List Byte × List Byte

/-- the two decoders the reader uses: header blocks (CPython `frombuf`) and the records of a pax extended header
    (the `"%d %s=%s\n"` parse loop of `_proc_pax`) -/
structure Dec where
  hdr : List Byte → Option Hd
  recs : List Byte → List Rec

/-- `path` -/
def pathKey : List Byte := [112, 97, 116, 104]

/-- dictionary semantics: the last record for a key wins -/
def lookupLast (k : List Byte) (rs : List Rec) : Option (List Byte) := (rs.reverse.find? (fun r => r.1 == k)).map (·.2)

/-- `_apply_pax_info`: a `path` record replaces the member's name -/
def applyPath (rs : List Rec) (name : List Byte) : List Byte := (lookupLast pathKey rs).getD name

/-- header encoding/decoding (CPython's `tobuf`/`frombuf`): what the theorems assume about it -/
structure Codec where
  pax : Bool                                 -- the writer's format: `PAX_FORMAT` (true) or `GNU_FORMAT` (false)
  enc : List Byte → Nat → List Byte          -- ordinary header: name (at most 100 bytes), size
  encLong : Nat → List Byte                  -- GNU long-name header announcing `n` bytes
  encPax : Nat → List Byte                   -- pax extended header announcing `n` bytes of records
  encRecs : List Rec → List Byte             -- the records of a pax header
  dec : Dec
  valid : List Byte → Nat → Prop
  validLong : Nat → Prop
  validPax : Nat → Prop
  enc_len : ∀ n s, (enc n s).length = 512
  encLong_len : ∀ n, (encLong n).length = 512
  encPax_len : ∀ n, (encPax n).length = 512
  dec_enc : ∀ n s, valid n s → dec.hdr (enc n s) = some (.reg n s)
  dec_encLong : ∀ n, validLong n → dec.hdr (encLong n) = some (.long n)
  dec_encPax : ∀ n, validPax n → dec.hdr (encPax n) = some (.pax n)
  dec_encRecs : ∀ name, dec.recs (encRecs [(pathKey, name)]) = [(pathKey, name)]
  enc_nonzero : ∀ n s, valid n s → (enc n s).all (· == 0) = false
  encLong_nonzero : ∀ n, validLong n → (encLong n).all (· == 0) = false
  encPax_nonzero : ∀ n, validPax n → (encPax n).all (· == 0) = false

def zeros (n : Nat) : List Byte := List.replicate n 0

/-- bytes of padding after `n` data bytes -/
def padLen (n : Nat) : Nat := (512 - n % 512) % 512
/-- `TarInfo._block(n)` -/
def blockLen (n : Nat) : Nat := n + padLen n

/-! ## writer: `addfile` for every member, then `_close` -/

/-- the records block of a pax header carrying the member's full name -/
def paxPayload (c : Codec) (name : List Byte) : List Byte := c.encRecs [(pathKey, name)]

/-- `TarInfo.tobuf`: names longer than 100 bytes are preceded by an extension record — `GNU_FORMAT`: a long-name record (header,
    the name and a NUL, padded to a block); `PAX_FORMAT`: an extended header whose records carry `path=<name>` — and the ordinary
    header then carries the first 100 bytes of the name -/
def longRecord (c : Codec) (name : List Byte) : List Byte :=
  if name.length ≤ 100 then []
  else if c.pax then
    c.encPax (paxPayload c name).length ++ (paxPayload c name ++ zeros (padLen (paxPayload c name).length))
  else c.encLong (name.length + 1) ++ (name ++ [0] ++ zeros (padLen (name.length + 1)))

def encMember (c : Codec) (m : Member) : List Byte :=
  longRecord c m.name ++ (c.enc (m.name.take 100) m.data.length ++ m.data ++ zeros (padLen m.data.length))

def writeMembers (c : Codec) (ms : List Member) : List Byte := ms.flatMap (encMember c)

/-- two zero blocks, then padding up to a multiple of `RECORDSIZE` -/
def closing (len : Nat) : List Byte :=
  zeros 1024 ++ zeros ((10240 - (len + 1024) % 10240) % 10240)

def writeArchive (c : Codec) (ms : List Member) : List Byte :=
  writeMembers c ms ++ closing (writeMembers c ms).length

/-! ## reader -/

inductive Hdr
  | empty | truncated | eof | invalid
  | hdr (name : List Byte) (size : Nat)
  | longname (n : Nat)
  | paxhdr (n : Nat)

/-- `tarfile.nts`: the bytes up to the first NUL -/
def nts (bs : List Byte) : List Byte := bs.takeWhile (· != 0)

/-- `TarInfo.frombuf`: the checks in the order of the code -/

def classify (dec : Dec) (buf : List Byte) : Hdr :=
  if buf.length = 0 then .empty
  else if buf.length ≠ 512 then .truncated
  else if buf.all (· == 0) then .eof
  else match dec.hdr buf with
    | none => .invalid
    | some (.reg n s) => .hdr n s
    | some (.long n) => .longname n
    | some (.pax n) => .paxhdr n

inductive Outcome
  | ok (ms : List Member)
  | error                   -- `tarfile.ReadError` (only raised for the first header)
deriving DecidableEq, Repr

/-- iteration over the archive with extraction of every member's data: `next()` (seek to `offset` if needed, read a
    header block, `frombuf`; header problems end the iteration *silently* unless `offset == 0`), `_proc_builtin`
    (next offset), then the member's data through the looping read (short at EOF). Fuel: one unit per member. -/
def readMembers (dec : Dec) : Nat → Reader → Nat → List Member → Outcome
  | 0, _, _, acc => .ok acc
  | fuel + 1, s, offset, acc =>
      match s.seek offset with
      | none => .error
      | some s1 =>
          let hb := s1.read 512
          match classify dec hb.1 with
          | .hdr name size =>
              let d := hb.2.read size
              readMembers dec fuel d.2 (hb.2.pos + blockLen size) (acc ++ [{ name := name, data := d.1 }])
          | .longname n =>
              -- `_proc_gnulong`: read the name blocks, then the real header; any problem with that header is a
              -- `SubsequentHeaderError`, which `next()` turns into `ReadError` wherever it happens
              let nb := hb.2.read (blockLen n)
              let hb2 := nb.2.read 512
              (match classify dec hb2.1 with
                | .hdr _ size =>
                    let d := hb2.2.read size
                    readMembers dec fuel d.2 (hb2.2.pos + blockLen size) (acc ++ [{ name := nts nb.1, data := d.1 }])
                | _ => .error)
          | .paxhdr n =>
              -- `_proc_pax` (per-member extended header, no global headers in the archive): read the records, then the real
              -- header (`SubsequentHeaderError` → `ReadError` otherwise); the records apply to THIS member only
              let pb := hb.2.read (blockLen n)
              let hb2 := pb.2.read 512
              (match classify dec hb2.1 with
                | .hdr name size =>
                    let d := hb2.2.read size
                    readMembers dec fuel d.2 (hb2.2.pos + blockLen size)
                      (acc ++ [{ name := applyPath (dec.recs (pb.1.take n)) name, data := d.1 }])
                | _ => .error)
          | .eof => .ok acc
          | _ => if offset = 0 then .error else .ok acc

/-- read a whole archive from an underlying stream with any chunking policy -/
def readArchive (dec : Dec) (r : Raw) : Outcome :=
  readMembers dec (r.data.length / 512 + 1) { raw := r, pos := 0 } 0 []

/-- `aiotarstream.write(src, dst, bufsize)` as used by `makefile` → `copyfileobj`:
    `while bufsize > 0: buf = await src.read(bufsize); bufsize -= len(buf)`. `none` = the loop does not end within `fuel` rounds. -/
def copyLoop : Nat → Reader → Nat → Option Reader
  | _, s, 0 => some s
  | 0, _, _ + 1 => none
  | fuel + 1, s, n + 1 =>
      let r := s.read (n + 1)
      copyLoop fuel r.2 (n + 1 - r.1.length)

end SFV.Tar
