import SFV.Model.CwlCmd
import SFV.Model.Proto
open SFV SFV.Proto SFV.CwlCmd

def optHex (s : String) : Option (Option String) :=
  if s = "~" then some none else (stringOfHex s).map some

def parseBind : List String → Option (Option Bind × List String)
  | "0" :: r => some (none, r)
  | "1" :: pos :: pfx :: sep :: isep :: sq :: r => do
      let p ← pos.toInt?
      let pf ← optHex pfx
      let is ← optHex isep
      pure (some { position := p, prefix_ := pf, separate := sep == "1", itemSeparator := is, shellQuote := sq == "1" }, r)
  | _ => none

def parseVal (s : String) : Option Val :=
  if s = "n" then some .null
  else if s = "b1" then some (.bool true)
  else if s = "b0" then some (.bool false)
  else if s.startsWith "s" then (stringOfHex (String.ofList (s.toList.drop 1))).map .str
  else if s = "a" then some (.arr [])
  else if s.startsWith "a" then
    ((String.ofList (s.toList.drop 1)).splitOn ",").mapM stringOfHex |>.map .arr
  else none

partial def parseParams : List String → Option (List Param)
  | [] => some []
  | nm :: idx :: r => do
      let name ← optHex nm
      let i ← idx.toNat?
      let (b, r1) ← parseBind r
      let (ib, r2) ← parseBind r1
      match r2 with
      | v :: r3 => do
          let val ← parseVal v
          let rest ← parseParams r3
          pure ({ name := name, index := i, bind := b, itemBind := ib, value := val } :: rest)
      | [] => none
  | _ => none

def showElems (es : List Elem) : String :=
  if es.isEmpty then "_" else ",".intercalate (es.map (fun e => hexOfString e.text ++ (if e.quoted then ":q" else ":r")))

def showWords (ws : Option (List (List Char))) : String :=
  match ws with
  | none => "none"
  | some l => if l.isEmpty then "_" else ",".intercalate (l.map (fun w => hexOfString (String.ofList w)))

def handle : List String → String
  | "cmd" :: sh :: rest =>
      match parseParams rest with
      | some ps =>
          let shell := sh == "1"
          let sf := sfElems shell ps
          let sp := specElems shell ps
          "sf:" ++ showElems sf ++ " spec:" ++ showElems sp ++ " parse:" ++
            showWords (parseCmd .unq (renderElems sf) [] [])
      | none => "bad-op"
  | "quote" :: ws =>
      match ws.mapM stringOfHex with
      | some l =>
          let cs := l.map String.toList
          "q:" ++ ",".intercalate (cs.map (fun w => hexOfString (String.ofList (shlexQuote w)))) ++ " parse:" ++
            showWords (parseCmd .unq (joinSp (cs.map shlexQuote)) [] [])
      | none => "bad-op"
  | ["redir", a, b, c] =>
      match optHex a, optHex b, optHex c with
      | some i, some o, some e =>
          let toks := sfSuffix (i.map String.toList) (o.map String.toList) (e.map String.toList)
          let sh := fun (x : Option (List Char)) => match x with | some l => hexOfString (String.ofList l) | none => "~"
          "suffix:" ++ hexOfString (String.ofList (renderSuffix toks)) ++ " streams:" ++
            (match interpSuffix toks noStreams with
             | some s => sh s.stdin ++ "," ++ sh s.stdout ++ "," ++
                 (match s.stderr with | .inherit => "inherit" | .toStdout => "stdout" | .file f => "file=" ++ hexOfString (String.ofList f))
             | none => "none")
      | _, _, _ => "bad-op"
  | ["env", h] =>
      match stringOfHex h with
      | some v => "parse:" ++ showWords (parseCmd .unq (envRender v.toList) [] [])
      | none => "bad-op"
  | _ => "bad-op"

def main : IO Unit := runPure handle
