import SFV.Model.SchedProto
import SFV.Lemmas.RefineStack
import SFV.Lemmas.RefineSlots
/-! Second driver over the same protocol lines as `Drivers/C10.lean`: replays the scenario on the scheduler model and
evaluates, at every step, the (decidable) hypotheses of the whole-run refinement theorems `C10.sched_refines_ledger_stacked`
(`RefineStack.OkS` for cores and memory) and `C10.sched_refines_slots` (`RefineSlots.OkS`). It imports the lemma
files; the comparison driver `Drivers/C10.lean` stays model-only so that it keeps working when a proof breaks.
`refhyp` answers `<ledger hypothesis held> <some step raised> <slots hypothesis held>`; every other line answers `.`. -/
open SFV SFV.HW SFV.Sched SFV.SchedProto SFV.Proto SFV.Gen.Sched

structure HSt where
  d : DSt := {}
  refOk : Bool := true
  raised : Bool := false
  slotOk : Bool := true
  jobInfo : List (Nat × (Nat × List Nat)) := []

def capOf (d : DSt) (c : Refine.Comp) (name : Nat) : Rat :=
  match d.stacks.findSome? (fun (_, st) => st.findSome? (fun lvl => if lvl.name = name then lvl.hardware.map c.get else none)) with
  | some v => v
  | none => 0

def hypOk (d : DSt) (op : Refine.SOp) : Bool :=
  decide (RefineStack.OkS Refine.coresComp (capOf d Refine.coresComp) d.st op) &&
  decide (RefineStack.OkS Refine.memoryComp (capOf d Refine.memoryComp) d.st op)

def slotCfg (h : HSt) : RefineSlots.Cfg :=
  { depOf := fun name => (h.d.stacks.findSome? (fun (_, st) => st.findSome? (fun lvl => if lvl.name = name then some lvl.dep else none))).getD 0,
    slots := fun name => (h.d.stacks.findSome? (fun (_, st) => st.findSome? (fun lvl =>
        if lvl.name = name then some (lvl.slots.getD slotsDefault) else none))).getD 0,
    stepOf := fun j => ((assocGet h.jobInfo j).map (·.1)).getD 0,
    tagOf := fun j => ((assocGet h.jobInfo j).map (·.2)).getD [] }

def isErrOut (out : String) : Bool := out.startsWith "err "

def hstep (h : HSt) (ws : List String) : HSt × String :=
  match ws with
  | ["reset"] => ({}, ".")
  | ["refhyp"] => (h, s!"{h.refOk} {h.raised} {h.slotOk}")
  | ["try", j, stp, tag, hw, t] =>
      match j.toNat?, stp.toNat?, parseTag tag, HWProto.parseHw hw, t.toNat? with
      | some j, some stp, some tag, some hw, some t =>
          match availOf h.d t with
          | some (wanted, avail) =>
              let op : Refine.SOp := .pass j stp tag hw t wanted avail
              let h1 := { h with jobInfo := assocSet h.jobInfo j (stp, tag) }
              let (d', out) := SchedProto.step h.d ws
              ({ h1 with d := d', refOk := h.refOk && hypOk h.d op,
                         slotOk := h.slotOk && decide (RefineSlots.OkS (slotCfg h1) h.d.st op),
                         raised := h.raised || isErrOut out }, ".")
          | none => (h, ".")
      | _, _, _, _, _ => (h, ".")
  | ["notify", j, n] =>
      match j.toNat?, n.toNat? >>= statusOfNat with
      | some j, some stt =>
          let op : Refine.SOp := .notify j stt
          let (d', out) := SchedProto.step h.d ws
          ({ h with d := d', refOk := h.refOk && hypOk h.d op,
                    slotOk := h.slotOk && decide (RefineSlots.OkS (slotCfg h) h.d.st op),
                    raised := h.raised || isErrOut out }, ".")
      | _, _ => (h, ".")
  | _ =>
      let (d', _) := SchedProto.step h.d ws
      ({ h with d := d' }, ".")

def main : IO Unit := runStateful ({} : HSt) hstep
