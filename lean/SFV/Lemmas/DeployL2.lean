import SFV.Lemmas.DeployL1
import SFV.Lemmas.DeployD
/-! `InvL` is inductive. -/
namespace SFV.Deploy

attribute [local grind] Obj.active Obj.live Obj.absent Fut.absent

theorem setEvent_pc_fConn {s : St} {e q f o} : (setEvent s e).pc q = .fConn f o ↔ s.pc q = .fConn f o := by
  simp only [setEvent_pc]; split <;> (try split) <;> simp_all

theorem wakeFut_pc_fConn {s : St} {g q f o} : (wakeFut s g).pc q = .fConn f o ↔ s.pc q = .fConn f o := by
  simp only [wakeFut_pc]; split <;> (try split) <;> simp_all

theorem wakeFut_pc_uFWoken {s : St} {g q f e} : (wakeFut s g).pc q = .uFWoken f e →
    s.pc q = .uFWoken f e ∨ (f = g ∧ s.pc q = .uFWait f e) := by
  simp only [wakeFut_pc]; split <;> (try split) <;> simp_all

theorem invL_step_start {cfg : Cfg} (hw : cfg.futWaits = true) {s p s'} (hE : InvE s) (hF : InvF s) (h : InvL s)
    (hs : step cfg s (.start p) = some s') : InvL s' := by
  have h' := h
  have hF' := hF
  have hE' := hE
  obtain ⟨f0, f1, f2, g1, g2, g3, g4, g5⟩ := hF
  obtain ⟨h1, h2, h3, h3', ⟨h4, h4b⟩, h5, h6, h7, h8, h9, h10, h11, h12, h13, h14⟩ := hE
  obtain ⟨l0, l1, l2, l3, l5, l6, l4⟩ := h
  simp only [step] at hs
  split at hs
  · rename_i hpc; cases hs; exact invL_loopHead hE' hF' h' (by intro f e; simp [hpc])
  · rename_i hpc
    have hp : ∀ f e, s.pc p ≠ .uFWait f e ∧ s.pc p ≠ .uFWoken f e := by intro f e; simp [hpc]
    (repeat' split at hs) <;> first
      | (cases hs; done)
      | (cases hs; first | exact invL_uBody hw hE' hF' h' hp | exact invL_setPc h' (hp := hp))
  · rename_i hpc; cases hs; exact invL_useStart hE' hF' h' (by intro f e; simp [hpc])
  · cases hs

theorem invL_step_wake {cfg : Cfg} (hw : cfg.futWaits = true) {s p s'} (hE : InvE s) (hF : InvF s) (h : InvL s)
    (hs : step cfg s (.wake p) = some s') : InvL s' := by
  have h' := h
  have hF' := hF
  have hE' := hE
  obtain ⟨f0, f1, f2, g1, g2, g3, g4, g5⟩ := hF
  obtain ⟨h1, h2, h3, h3', ⟨h4, h4b⟩, h5, h6, h7, h8, h9, h10, h11, h12, h13, h14⟩ := hE
  obtain ⟨l0, l1, l2, l3, l5, l6, l4⟩ := h
  simp only [step] at hs
  split at hs
  · rename_i hpc; cases hs; exact invL_afterWait hE' hF' h' (by intro f e; simp [hpc])
  · rename_i hpc; cases hs; exact invL_uBody hw hE' hF' h' (by intro f e; simp [hpc])
  · rename_i f hpc
    split at hs <;> (cases hs; exact invL_setPc h' (hp := by intro f e; simp [hpc]))
  · rename_i f e hpc
    have hev := l2 p f e hpc
    split at hs
    · rename_i o hconn
      have ho := h14 f o hconn
      cases hs
      unfold callUndeploy
      refine ⟨?_, ?_, ?_, ?_, ?_, ?_, ?_⟩
      · (try clear l4); (try clear h'); (try clear hE'); (try clear hF'); sgl
      · (try clear l4); (try clear h'); (try clear hE'); (try clear hF'); sgl
      · (try clear l4); (try clear h'); (try clear hE'); (try clear hF'); sgl
      · (try clear l4); (try clear h'); (try clear hE'); (try clear hF'); sgl
      · (try clear l4); (try clear h'); (try clear hE'); (try clear hF'); sgl
      · intro p1 q f1' o1 o1' hh1 hh2
        simp only [setPc_pc, setObj_pc] at hh1 hh2
        split at hh1
        · cases hh1
        · split at hh2
          · cases hh2
          · exact l6 _ _ _ _ _ (id hh1) (id hh2)
      · intro o' f' hf' ha
        simp at hf' ha
        by_cases hoo : o' = o
        · subst hoo; simp [Obj.active] at ha
        · simp [hoo] at hf' ha
          rcases l4 o' f' hf' ha with h | ⟨q, e', hq⟩
          · exact Or.inl h
          · by_cases hqp : q = p
            · subst hqp
              rw [hpc] at hq
              rcases hq with hq | hq <;> cases hq
              exact absurd (f1 o' o f hf' ho.1) hoo
            · exact Or.inr ⟨q, e', by simpa [hqp] using hq⟩
    · rename_i hconn
      split at hs
      · rename_i e' hue
        cases hs
        refine ⟨?_, ?_, ?_, ?_, ?_, ?_, ?_⟩
        · (try clear l4); (try clear h'); (try clear hE'); (try clear hF'); sgl
        · (try clear l4); (try clear h'); (try clear hE'); (try clear hF'); sgl
        · (try clear l4); (try clear h'); (try clear hE'); (try clear hF'); sgl
        · (try clear l4); (try clear h'); (try clear hE'); (try clear hF'); sgl
        · (try clear l4); (try clear h'); (try clear hE'); (try clear hF'); sgl
        · intro p1 q f1' o1 o1' hh1 hh2
          simp only [setPc_pc] at hh1 hh2
          split at hh1
          · cases hh1
          · split at hh2
            · cases hh2
            · exact l6 _ _ _ _ _ (setEvent_pc_fConn.mp hh1) (setEvent_pc_fConn.mp hh2)
        · intro o' f' hf' ha
          simp at hf' ha
          rcases l4 o' f' hf' ha with h | ⟨q, e'', hq⟩
          · exact Or.inl h
          · by_cases hqp : q = p
            · subst hqp
              rw [hpc] at hq
              rcases hq with hq | hq <;> cases hq
              have := l0 f o' hev hconn hf'
              simp [Obj.active, this] at ha
            · refine Or.inr ⟨q, e'', ?_⟩
              simp [hqp]
              rcases hq with hq | hq <;> simp [hq]
      · cases hs
  · cases hs

theorem invL_step_connOk {cfg : Cfg} (hw : cfg.futWaits = true) {s p s'} (hE : InvE s) (hF : InvF s) (h : InvL s)
    (hs : step cfg s (.connOk p) = some s') : InvL s' := by
  have h' := h
  have hF' := hF
  have hE' := hE
  obtain ⟨f0, f1, f2, g1, g2, g3, g4, g5⟩ := hF
  obtain ⟨h1, h2, h3, h3', ⟨h4, h4b⟩, h5, h6, h7, h8, h9, h10, h11, h12, h13, h14⟩ := hE
  obtain ⟨l0, l1, l2, l3, l5, l6, l4⟩ := h
  simp only [step] at hs
  split at hs
  · rename_i o hpc
    split at hs
    · cases hs
      refine invL_finishDeploy (invL_setEvent ?_) (setEvent_pc_ne (by intro f e; simp [hpc]))
      have hp := h10 p o hpc
      refine ⟨?_, ?_, ?_, ?_, ?_, ?_, ?_⟩
      · (try clear l4); (try clear h'); (try clear hE'); (try clear hF'); sgl
      · (try clear l4); (try clear h'); (try clear hE'); (try clear hF'); sgl
      · (try clear l4); (try clear h'); (try clear hE'); (try clear hF'); sgl
      · (try clear l4); (try clear h'); (try clear hE'); (try clear hF'); sgl
      · (try clear l4); (try clear h'); (try clear hE'); (try clear hF'); sgl
      · (try clear l4); (try clear h'); (try clear hE'); (try clear hF'); sgl
      · intro o' f' hf' ha
        simp at hf' ha
        by_cases hoo : o' = o
        · subst hoo; simp at hf'; rw [hp.2.1] at hf'; cases hf'
        · simp [hoo] at hf' ha
          rcases l4 o' f' hf' ha with h | h
          · exact Or.inl h
          · exact Or.inr (waitedFor_congr h (by intro q; rfl))
    · cases hs
  · rename_i o own hpc
    split at hs
    · cases hs
      refine invL_setPc (invL_setEvent ?_) (hp := setEvent_pc_ne (by intro f e; simp [hpc]))
      have hp := h12 p o own hpc
      refine ⟨?_, ?_, ?_, ?_, ?_, ?_, ?_⟩
      · (try clear l4); (try clear h'); (try clear hE'); (try clear hF'); sgl
      · (try clear l4); (try clear h'); (try clear hE'); (try clear hF'); sgl
      · (try clear l4); (try clear h'); (try clear hE'); (try clear hF'); sgl
      · (try clear l4); (try clear h'); (try clear hE'); (try clear hF'); sgl
      · (try clear l4); (try clear h'); (try clear hE'); (try clear hF'); sgl
      · (try clear l4); (try clear h'); (try clear hE'); (try clear hF'); sgl
      · intro o' f' hf' ha
        simp at hf' ha
        by_cases hoo : o' = o
        · subst hoo; simp [Obj.active] at ha
        · simp [hoo] at hf' ha
          rcases l4 o' f' hf' ha with h | h
          · exact Or.inl h
          · exact Or.inr (waitedFor_congr h (by intro q; rfl))
    · cases hs
  · rename_i f o hpc
    have hp := h13 p f o hpc
    have hq := l1 p f o hpc
    have hdep := f0 o f hp.1
    have huniq := fun q o' hq' => l6 p q f o o' hpc hq'
    cases hs
    have hpne : ∀ f e, s.pc p ≠ .uFWait f e ∧ s.pc p ≠ .uFWoken f e := by intro f e; simp [hpc]
    have key : ∀ o' f', ((setObj s o { s.objs o with dep := .ok }).objs o').fut = some f' →
        ((setObj s o { s.objs o with dep := .ok }).objs o').active = true → (s.objs o').fut = some f' ∧ (s.objs o').active = true := by
      intro o' f' h1' h2'
      simp at h1' h2'
      by_cases hoo : o' = o
      · subst hoo; simp at h1' h2'; simp [Obj.active, hq.2.2] at h2' ⊢; exact ⟨h1', h2'⟩
      · simp [hoo] at h1' h2'; exact ⟨h1', h2'⟩
    refine ⟨?_, ?_, ?_, ?_, ?_, ?_, ?_⟩
    · (try clear l4); (try clear h'); (try clear hE'); (try clear hF'); sgl
    · intro p1 f1' o1 hh1
      simp only [setPc_pc] at hh1
      split at hh1
      · cases hh1
      · rename_i hne
        have hh' : s.pc p1 = .fConn f1' o1 := wakeFut_pc_fConn.mp hh1
        have hfne : f1' ≠ f := by
          rintro rfl; exact hne (l6 p1 p _ _ _ hh' hpc)
        have hone : o1 ≠ o := by
          rintro rfl
          have a := (h13 p1 f1' _ hh').1
          have b := hp.1
          rw [a] at b; exact hfne (Option.some.inj b)
        have := l1 p1 f1' o1 hh'
        simp [hfne, hone, this]
    · (try clear l4); (try clear h'); (try clear hE'); (try clear hF'); sgl
    · (try clear l4); (try clear h'); (try clear hE'); (try clear hF'); sgl
    · (try clear l4); (try clear h'); (try clear hE'); (try clear hF'); sgl
    · intro p1 q f1' o1 o1' hh1 hh2
      simp only [setPc_pc] at hh1 hh2
      split at hh1
      · cases hh1
      · split at hh2
        · cases hh2
        · exact l6 _ _ _ _ _ (wakeFut_pc_fConn.mp hh1) (wakeFut_pc_fConn.mp hh2)
    · intro o' f' hf' ha
      simp only [setPc_objs, wakeFut_objs, setFut_objs] at hf' ha
      obtain ⟨h1', h2'⟩ := key o' f' hf' ha
      rcases l4 o' f' h1' h2' with h | h
      · exact Or.inl (by simpa using h)
      · refine Or.inr (waitedFor_setPc (waitedFor_wakeFut (waitedFor_congr h (by intro q; rfl))) (wakeFut_pc_ne (by intro f e; simp [hpc]) f'))
  · cases hs

theorem invL_connFail_dConn {cfg : Cfg} {s p o s'} (hD : InvD s) (hE : InvE s) (hF : InvF s) (h : InvL s)
    (hpc : s.pc p = .dConn o) (hs : step cfg s (.connFail p) = some s') : InvL s' := by
  have h' := h
  have hF' := hF
  have hE' := hE
  obtain ⟨f0, f1, f2, g1, g2, g3, g4, g5⟩ := hF
  obtain ⟨h1, h2, h3, h3', ⟨h4, h4b⟩, h5, h6, h7, h8, h9, h10, h11, h12, h13, h14⟩ := hE
  obtain ⟨l0, l1, l2, l3, l5, l6, l4⟩ := h
  simp only [step, hpc] at hs
  have hp := h10 p o hpc
  split at hs
  · split at hs
    · cases hs
      refine invL_setPc (?_ : InvL _) (hp := by intro f e; simp [hpc])
      refine ⟨?_, ?_, ?_, ?_, ?_, ?_, ?_⟩
      · (try clear l4); (try clear h'); (try clear hE'); (try clear hF'); sgl
      · (try clear l4); (try clear h'); (try clear hE'); (try clear hF'); sgl
      · (try clear l4); (try clear h'); (try clear hE'); (try clear hF'); sgl
      · (try clear l4); (try clear h'); (try clear hE'); (try clear hF'); sgl
      · (try clear l4); (try clear h'); (try clear hE'); (try clear hF'); sgl
      · (try clear l4); (try clear h'); (try clear hE'); (try clear hF'); sgl
      · intro o' f' hf' ha
        simp at hf' ha
        by_cases hoo : o' = o
        · subst hoo; simp at hf'; rw [hp.2.1] at hf'; cases hf'
        · simp [hoo] at hf' ha
          rcases l4 o' f' hf' ha with h | h
          · exact Or.inl h
          · exact Or.inr (waitedFor_congr h (by intro q; rfl))
    · cases hs
      refine invL_setPc (invL_setEvent ?_) (hp := setEvent_pc_ne (by intro f e; simp [hpc]))
      refine ⟨?_, ?_, ?_, ?_, ?_, ?_, ?_⟩
      · (try clear l4); (try clear h'); (try clear hE'); (try clear hF'); sgl
      · (try clear l4); (try clear h'); (try clear hE'); (try clear hF'); sgl
      · (try clear l4); (try clear h'); (try clear hE'); (try clear hF'); sgl
      · (try clear l4); (try clear h'); (try clear hE'); (try clear hF'); sgl
      · (try clear l4); (try clear h'); (try clear hE'); (try clear hF'); sgl
      · (try clear l4); (try clear h'); (try clear hE'); (try clear hF'); sgl
      · intro o' f' hf' ha
        simp at hf' ha
        by_cases hoo : o' = o
        · subst hoo; simp at hf'; rw [hp.2.1] at hf'; cases hf'
        · simp [hoo] at hf' ha
          rcases l4 o' f' hf' ha with h | h
          · have e1 := h2 f' h; have e2 := hD p o hpc; rw [e2] at e1; cases e1
          · exact Or.inr (waitedFor_congr h (by intro q; rfl))
  · cases hs

theorem invL_connFail_fConn {cfg : Cfg} {s p f o s'} (hE : InvE s) (hF : InvF s) (h : InvL s)
    (hpc : s.pc p = .fConn f o) (hs : step cfg s (.connFail p) = some s') : InvL s' := by
  have h' := h
  have hF' := hF
  have hE' := hE
  obtain ⟨f0, f1, f2, g1, g2, g3, g4, g5⟩ := hF
  obtain ⟨h1, h2, h3, h3', ⟨h4, h4b⟩, h5, h6, h7, h8, h9, h10, h11, h12, h13, h14⟩ := hE
  obtain ⟨l0, l1, l2, l3, l5, l6, l4⟩ := h
  simp only [step, hpc] at hs
  have hp := h13 p f o hpc
  have hq := l1 p f o hpc
  have hdep := f0 o f hp.1
  have huniq := fun q o' hq' => l6 p q f o o' hpc hq'
  have hone := fun o' h' => f1 o' o f h' hp.1
  cases hs
  refine ⟨?_, ?_, ?_, ?_, ?_, ?_, ?_⟩
  · (try clear l4); (try clear h'); (try clear hE'); (try clear hF'); sgl
  · (try clear l4); (try clear h'); (try clear hE'); (try clear hF'); sgl
  · (try clear l4); (try clear h'); (try clear hE'); (try clear hF'); sgl
  · (try clear l4); (try clear h'); (try clear hE'); (try clear hF'); sgl
  · (try clear l4); (try clear h'); (try clear hE'); (try clear hF'); sgl
  · intro p1 q f1' o1 o1' hh1 hh2
    simp only [setPc_pc] at hh1 hh2
    split at hh1
    · cases hh1
    · split at hh2
      · cases hh2
      · exact l6 _ _ _ _ _ (wakeFut_pc_fConn.mp hh1) (wakeFut_pc_fConn.mp hh2)
  · intro o' f' hf' ha
    simp only [setPc_objs, wakeFut_objs, setFut_objs] at hf' ha
    by_cases hoo : o' = o
    · subst hoo; simp [Obj.active] at ha
    · simp [hoo] at hf' ha
      rcases l4 o' f' hf' ha with h | h
      · exact Or.inl (by simpa using h)
      · refine Or.inr (waitedFor_setPc (waitedFor_wakeFut (waitedFor_congr h (by intro q; rfl))) (wakeFut_pc_ne (by intro f e; simp [hpc]) f'))

theorem invL_step_connFail {cfg : Cfg} {s p s'} (hD : InvD s) (hE : InvE s) (hF : InvF s) (h : InvL s)
    (hs : step cfg s (.connFail p) = some s') : InvL s' := by
  cases hpc : s.pc p with
  | dConn o => exact invL_connFail_dConn hD hE hF h hpc hs
  | fConn f o => exact invL_connFail_fConn hE hF h hpc hs
  | _ => simp [step, hpc] at hs

theorem invL_step {cfg : Cfg} (hw : cfg.futWaits = true) {s a s'} (hD : InvD s) (hE : InvE s) (hF : InvF s) (h : InvL s)
    (hs : step cfg s a = some s') : InvL s' := by
  cases a with
  | start p => exact invL_step_start hw hE hF h hs
  | wake p => exact invL_step_wake hw hE hF h hs
  | connOk p => exact invL_step_connOk hw hE hF h hs
  | connFail p => exact invL_step_connFail hD hE hF h hs

theorem invL_reachable {cfg : Cfg} (hw : cfg.futWaits = true) {lazy kinds s} (h : Reachable cfg lazy kinds s) : InvL s := by
  induction h with
  | init => exact invL_init lazy kinds
  | step hr hs ih => exact invL_step hw (invD_reachable hr) (invE_reachable hr) (invF_reachable hr) ih hs

end SFV.Deploy

