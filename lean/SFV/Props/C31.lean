import SFV.Lemmas.JsDepsOk
/-! # C31 — expression dependency analysis covers every input an expression reads

Model: `SFV/Model/JsDeps.lean` (`listen` = `CWLDependencyListener`, `paramDeps` = `DependencyResolver.regex_eval`,
`eval`/`run` = instrumented evaluation recording the fields of `inputs` that are read).
Helpers: `SFV/Lemmas/JsDeps*.lean`. Only the property theorems are here.

The property has two halves. *Definedness* ("the analysis never fails on an expression that evaluates") holds at
full strength since fix 254d061 of the code (`deps_defined`). *Soundness* ("reads ⊆ deps") is **false of the code**;
the `_false` theorems prove its negation on concrete witnesses (each replayed on the real `resolve_dependencies`
by the check and recorded as a known finding). The `_partial` theorem proves it for the fragment `Frag.handled` (see the model file): `inputs` and its aliases are used only as
the object of `.k` / `['k']` or as the whole right-hand side of a top-level assignment statement; function
declarations / expressions at the top level whose bodies use their own parameters and variables and the
aliases known at the point of declaration (parameter shadowing included). -/
namespace SFV.C31
open SFV.JsDeps SFV.JsDeps.Js SFV.JsDeps.Frag

deriving instance DecidableEq for Except

/-- Full-strength statement, soundness half: whatever evaluation reads is in the dependency set. -/
def DepsSound (prog : Js) : Prop :=
  ∀ deps, resolve prog = .ok deps → ∀ fuel reads, run fuel prog = some reads → ∀ k, k ∈ reads → k ∈ deps

/-- Full-strength statement, definedness half: the analysis raises no exception when evaluation succeeds. -/
def DepsDefined (prog : Js) : Prop :=
  ∀ fuel reads, run fuel prog = some reads → ∃ deps, resolve prog = .ok deps

/-- **Soundness on the handled fragment** (direct dot / string-index access, aliasing by plain assignment,
kills, conditionals, counted loops whose body does not change the listener's names, function declarations and
expressions with parameter shadowing): every field of `inputs`
read by any terminating evaluation is in the listener's dependency set. -/
theorem deps_sound_partial (prog : Js) (h : handled prog = true) : DepsSound prog := by
  intro deps hres fuel reads hrun k hk
  simp only [handled, Bool.and_eq_true] at h
  unfold resolve at hres
  cases hl : listen initNames prog with
  | error e => rw [hl] at hres; simp [Except.map] at hres
  | ok p =>
    obtain ⟨n', ks⟩ := p
    rw [hl] at hres
    simp only [Except.map, Except.ok.injEq] at hres
    subst hres
    unfold run at hrun
    cases he : eval fuel [1, 0] prog initSt with
    | none => rw [he] at hrun; simp at hrun
    | some q =>
      obtain ⟨r, st'⟩ := q
      rw [he] at hrun
      simp only [Option.some.injEq] at hrun
      subst hrun
      have henv : EnvOk initNames [] true ks [1, 0] initSt.heap := by
        refine ⟨fun _ _ _ hc => by simp at hc, ?_, ?_, fun _ => rfl, fun _ => by simp [initSt]⟩
        · intro x v hv _ _ hh
          have : glookup initSt.heap x = some v := hv
          rw [glookup_def] at this
          simp only [initSt, frameAt, List.getD_cons_succ, List.getD_cons_zero, List.lookup, Option.none_or] at this
          split at this
          · rename_i heq
            have hx : x = "inputs" := by simpa using heq
            subst hx
            simp [initNames, Names.has] at hh
          · simp at this
        · intro x v hv
          have : glookup initSt.heap x = some v := hv
          rw [glookup_def] at this
          simp only [initSt, frameAt, List.getD_cons_succ, List.getD_cons_zero, List.lookup, Option.none_or] at this
          split at this
          · simp only [Option.some.injEq] at this; subst this; simp [CloOk]
          · simp at this
      have := (top_all ks fuel prog false initNames initSt r st' n' ks h.2 rfl henv he hl (fun k hk => hk)).1 k
        (by
          have hk' : k ∈ st'.reads.reverse := List.mem_eraseDups.mp hk
          exact List.mem_reverse.mp hk')
      rcases this with h1 | h1
      · simp [initSt] at h1
      · exact List.mem_eraseDups.mpr h1

/-- **Definedness at full strength** (after fix 254d061): for every syntax tree of the modelled JavaScript the listener
raises no exception — in particular never on an expression that evaluates successfully. -/
theorem deps_defined (prog : Js) : DepsDefined prog := by
  intro fuel reads _
  obtain ⟨⟨n', ks⟩, hl⟩ := listen_total prog initNames
  exact ⟨ks.eraseDups, by simp [resolve, hl, Except.map]⟩

/-! ### non-vacuity: handled programs with aliasing, shadowing, a kill, a conditional and a function expression -/

/-- `var x; var y; x = inputs; y = x; function f(inputs){ return inputs.a; }
    if (y.c) { x = inputs.d; } else {} return x.foo ? f(inputs.b) : (function(p){ return inputs['e f']; })(1);` -/
def exHandled : Js :=
  seq (varDecl "x") (seq (varDecl "y") (seq (assign "x" (ident "inputs")) (seq (assign "y" (ident "x"))
  (seq (fdecl "f" ["inputs"] (seq (ret (dot (ident "inputs") "a")) skip))
  (seq (ite (dot (ident "y") "c") (seq (assign "x" (dot (ident "inputs") "d")) skip) skip)
  (seq (ret (cond (dot (ident "x") "foo")
      (call (ident "f") (seq (dot (ident "inputs") "b") skip))
      (call (paren (fexpr ["p"] (seq (ret (idx (ident "inputs") (str "e f"))) skip))) (seq (num 1) skip)))) skip))))))

example : handled exHandled = true := by decide
example : resolve exHandled = .ok ["c", "d", "foo", "b", "e f"] := by decide
example : run 30 exHandled = some ["c", "d", "b"] := by decide

/-! ### the full statement is false of the code: witnesses (DESIGN §6 #14 and relatives) -/

/-- `var x = inputs; return x.foo;` -/
def wVarInit : Js := seq (varInit "x" (ident "inputs")) (seq (ret (dot (ident "x") "foo")) skip)
/-- `return (inputs).par;` -/
def wParen : Js := seq (ret (dot (paren (ident "inputs")) "par")) skip
/-- `function f(p){ return p.k; } return f(inputs);` -/
def wArg : Js := seq (fdecl "f" ["p"] (seq (ret (dot (ident "p") "k")) skip))
  (seq (ret (call (ident "f") (seq (ident "inputs") skip))) skip)
/-- `function f(){ var l; l = inputs; return l.k; } return f();` -/
def wLocal : Js := seq (fdecl "f" [] (seq (varDecl "l") (seq (assign "l" (ident "inputs")) (seq (ret (dot (ident "l") "k")) skip))))
  (seq (ret (call (ident "f") skip)) skip)
/-- `var x; var y = 1; x = inputs; if (0) { x = y; } else {} return x.c;` -/
def wUntakenKill : Js := seq (varDecl "x") (seq (varInit "y" (num 1)) (seq (assign "x" (ident "inputs"))
  (seq (ite (num 0) (seq (assign "x" (ident "y")) skip) skip) (seq (ret (dot (ident "x") "c")) skip))))
/-- `return inputs.class;` (reserved word as property name) -/
def wReserved : Js := seq (ret (dot (ident "inputs") "class")) skip

theorem deps_sound_false :
    ¬ DepsSound wVarInit ∧ ¬ DepsSound wParen ∧ ¬ DepsSound wArg ∧ ¬ DepsSound wLocal ∧
    ¬ DepsSound wUntakenKill ∧ ¬ DepsSound wReserved := by
  refine ⟨?_, ?_, ?_, ?_, ?_, ?_⟩
  · intro h; exact absurd (h [] (by decide) 10 ["foo"] (by decide) "foo" (by simp)) (by simp)
  · intro h; exact absurd (h [] (by decide) 10 ["par"] (by decide) "par" (by simp)) (by simp)
  · intro h; exact absurd (h [] (by decide) 10 ["k"] (by decide) "k" (by simp)) (by simp)
  · intro h; exact absurd (h [] (by decide) 10 ["k"] (by decide) "k" (by simp)) (by simp)
  · intro h; exact absurd (h [] (by decide) 10 ["c"] (by decide) "c" (by simp)) (by simp)
  · intro h; exact absurd (h [] (by decide) 10 ["class"] (by decide) "class" (by simp)) (by simp)

/-- `var k = 'a'; return inputs[k];` — computed index: skipped by the listener since fix 254d061 (it raised
`AttributeError` before), the field read is still missed -/
def wComputed : Js := seq (varInit "k" (str "a")) (seq (ret (idx (ident "inputs") (ident "k"))) skip)
/-- `return inputs['a' + 'b'];` -/
def wConcat : Js := seq (ret (idx (ident "inputs") (bin (str "a") (str "b")))) skip
/-- `var x; var y; x = inputs; function f(){ x = y; } return x.q;` (raised `KeyError` before the fix; now analysed,
and soundly: the alias is kept) -/
def wInnerKill : Js := seq (varDecl "x") (seq (varDecl "y") (seq (assign "x" (ident "inputs"))
  (seq (fdecl "f" [] (seq (assign "x" (ident "y")) skip)) (seq (ret (dot (ident "x") "q")) skip))))

theorem deps_sound_computed_false : ¬ DepsSound wComputed ∧ ¬ DepsSound wConcat := by
  refine ⟨?_, ?_⟩
  · intro h; exact absurd (h [] (by decide) 10 ["a"] (by decide) "a" (by simp)) (by simp)
  · intro h; exact absurd (h [] (by decide) 10 ["ab"] (by decide) "ab" (by simp)) (by simp)

example : resolve wInnerKill = .ok ["q"] ∧ run 10 wInnerKill = some ["q"] := by decide

/-- `var y; for (var i = 0; i < 2; i++) { if (y) { y.k; } else {} y = inputs; } return 0;` — a loop-carried alias: the
listener walks the body once (before `y = inputs`), the second iteration reads `k` through `y` -/
def wLoopAlias : Js := seq (varDecl "y") (seq (loop "i" 0 2 (seq (ite (ident "y") (seq (dot (ident "y") "k") skip) skip)
  (seq (assign "y" (ident "inputs")) skip))) (seq (ret (num 0)) skip))

theorem deps_sound_loop_false : ¬ DepsSound wLoopAlias ∧ handled wLoopAlias = false := by
  refine ⟨?_, by decide⟩
  intro h; exact absurd (h [] (by decide) 20 ["k"] (by decide) "k" (by simp)) (by simp)

/-- loops whose body leaves the listener's names unchanged are inside the proved fragment -/
def exLoop : Js := seq (varDecl "x") (seq (assign "x" (ident "inputs"))
  (seq (loop "i" 0 3 (seq (idx (dot (ident "x") "a") (ident "i")) (seq (dot (ident "inputs") "b") skip))) (seq (ret (num 0)) skip)))
example : handled exLoop = true ∧ resolve exLoop = .ok ["a", "b"] ∧ run 30 exLoop = some ["a", "b"] := by decide

/-- none of the witnesses is in the handled fragment (the partial theorems do not cover them) -/
theorem witnesses_not_handled :
    handled wVarInit = false ∧ handled wParen = false ∧ handled wArg = false ∧ handled wLocal = false ∧
    handled wUntakenKill = false ∧ handled wReserved = false ∧ handled wComputed = false ∧
    handled wConcat = false := by decide

/-! ### parameter references -/

/-- **Parameter references** `$(inputs.a.b)`, `$(inputs['a'])`, `$(inputs["a"][3])`: the field of the context
object the reference evaluator reads (the first segment's key) is the dependency reported, for every
non-empty key. -/
theorem paramref_sound (ck : String) (segs : List Seg) :
    ∀ k, k ∈ paramReads segs → k ≠ "" → k ∈ paramDeps ck ck segs := by
  intro k hk hne
  cases segs with
  | nil => simp [paramReads] at hk
  | cons s rest =>
    cases s with
    | dot k' => simp only [paramReads, List.mem_singleton] at hk; subst hk; simp [paramDeps, hne]
    | key k' => simp only [paramReads, List.mem_singleton] at hk; subst hk; simp [paramDeps, hne]
    | index i => simp [paramReads] at hk

/-- references to another context object (`self`, `runtime`) contribute nothing -/
theorem paramref_other_context (ck first : String) (segs : List Seg) (h : first ≠ ck) :
    paramDeps ck first segs = [] := by
  simp [paramDeps, h]

/-- **Interpolated strings**: the placeholders of one string share one resolver and the dependency set is the union
of theirs; with handled JavaScript placeholders every non-empty field read by any placeholder is reported -/
theorem interp_sound_partial : ∀ (parts : List Part), (∀ prog, Part.js prog ∈ parts → handled prog = true) →
    ∀ d, interpDeps "inputs" parts = .ok d → ∀ fuel rs, interpReads fuel parts = some rs →
    ∀ k, k ∈ rs → k ≠ "" → k ∈ d
  | [], _, d, hd, fuel, rs, hr, k, hk, _ => by simp [interpReads] at hr; subst hr; simp at hk
  | p :: r, h, d, hd, fuel, rs, hr, k, hk, hne => by
    simp only [interpDeps] at hd
    obtain ⟨a, ha, hd⟩ := bind_ok hd
    obtain ⟨b, hb, hd⟩ := bind_ok hd
    simp only [Except.ok.injEq] at hd
    subst hd
    simp only [interpReads] at hr
    cases h1 : partReads fuel p with
    | none => rw [h1] at hr; simp at hr
    | some ra =>
      cases h2 : interpReads fuel r with
      | none => rw [h1, h2] at hr; simp at hr
      | some rb =>
        rw [h1, h2] at hr
        simp only [Option.some.injEq] at hr
        subst hr
        rcases List.mem_append.mp hk with hk | hk
        · apply List.mem_append_left
          cases p with
          | ref f segs =>
            simp only [partReads, Option.some.injEq] at h1
            simp only [partDeps, Except.ok.injEq] at ha
            subst ha
            by_cases hf : f = "inputs"
            · subst hf
              simp only [if_true] at h1; subst h1
              exact paramref_sound "inputs" segs k hk hne
            · simp only [hf, if_false] at h1; subst h1; simp at hk
          | js prog =>
            simp only [partReads] at h1
            simp only [partDeps] at ha
            exact deps_sound_partial prog (h prog (by simp)) a ha fuel ra h1 k hk
        · apply List.mem_append_right
          exact interp_sound_partial r (fun prog hp => h prog (by simp [hp])) b hb fuel rb h2 k hk hne

/-- before `self.deps |= listener.deps` the set would be lost: order of placeholders does not matter for the union -/
example : interpDeps "inputs" [.ref "inputs" [.dot "a"], .js (seq (ret (dot (ident "inputs") "b")) skip)] = .ok ["a", "b"] ∧
    interpDeps "inputs" [.js (seq (ret (dot (ident "inputs") "b")) skip), .ref "inputs" [.dot "a"]] = .ok ["b", "a"] := by decide

example : paramDeps "inputs" "inputs" [.dot "a", .dot "b"] = ["a"] := by decide
example : paramDeps "inputs" "inputs" [.key "a b", .index 3] = ["a b"] := by decide
example : paramDeps "inputs" "self" [.dot "a"] = [] := by decide

end SFV.C31
