import SFV.Gen.StepGuards
/-! Pieces of `BaseStep` shared by the step models (C01 gather, C06 loop output):
    the statuses a termination token carries, `_reduce_statuses` on `[status, token.value]`, `_get_status`. -/
namespace SFV

/-- `streamflow.core.workflow.Status`, restricted to the members a `TerminationToken` can carry -/
inductive Status | skipped | completed | failed | cancelled | recovered
deriving DecidableEq, Repr

/-- the `Status` number of a status (the enum values are extracted from the source) -/
def Status.code : Status → Nat
  | .skipped => Gen.statusSkipped
  | .completed => Gen.statusCompleted
  | .failed => Gen.statusFailed
  | .cancelled => Gen.statusCancelled
  | .recovered => Gen.statusRecovered

def Status.ofCode (c : Nat) : Status :=
  if c = Gen.statusSkipped then .skipped
  else if c = Gen.statusFailed then .failed
  else if c = Gen.statusCancelled then .cancelled
  else if c = Gen.statusRecovered then .recovered
  else .completed

/-- the loop of `_reduce_statuses` over the extracted arms (`SFV/Gen/StepGuards.lean`, regenerated from the source on every
    run): early returns, skipped counter, recovered flag, final if-chain -/
def reduceLoop (len : Nat) : List Nat → Nat → Bool → Nat
  | [], ns, rec => Gen.reduceFinal rec ns len
  | c :: r, ns, rec =>
      match Gen.reduceRet c with
      | some x => x
      | none => reduceLoop len r (if Gen.reduceSkips c then ns + 1 else ns) (rec || Gen.reduceRecovers c)

/-- `_reduce_statuses(statuses)` -/
def reduceStatuses (l : List Status) : Status := Status.ofCode (reduceLoop l.length (l.map Status.code) 0 false)

/-- `_reduce_statuses([a, b])` -/
def reduce2 (a b : Status) : Status := reduceStatuses [a, b]

/-- `BaseStep._get_status(status)`; `outEmpty` = some output port has an empty `token_list` -/
def getStatus (status : Status) (outEmpty : Bool) : Status := Status.ofCode (Gen.getStatusGen status.code outEmpty)

def Status.render : Status → String
  | .skipped => "SKIPPED" | .completed => "COMPLETED" | .failed => "FAILED"
  | .cancelled => "CANCELLED" | .recovered => "RECOVERED"

def Status.parse : String → Option Status
  | "SKIPPED" => some .skipped | "COMPLETED" => some .completed | "FAILED" => some .failed
  | "CANCELLED" => some .cancelled | "RECOVERED" => some .recovered | _ => none

end SFV
