"""C18 — recovery re-runs only failed jobs and producers of lost data."""
from __future__ import annotations

import json
import random

from sfv.framework import Ctx, Property
from sfv.rt import provk, recov
from sfv.rt.par import pmap
from sfv.translate import availguards, provguards


def gen_graph(rng: random.Random, idx: int) -> dict:
    n = rng.choice([1, 2, 3, 5, 8, 12, 18, 25])
    toks = []
    for i in range(n):
        k = rng.choice([0, 1, 1, 1, 2, 2, 3]) if i else 0
        deps = sorted(rng.sample(range(i), min(i, k)))
        is_job = rng.random() < 0.15
        toks.append({"id": i, "avail": int(rng.random() < (0.45 if i else 0.9)), "deps": deps, "job": is_job,
                     "recovering": is_job and rng.random() < 0.5})
    for t in toks:                            # file tokens with 0..3 primary copies, each present or lost (available = some copy exists)
        if not t["job"] and rng.random() < 0.3:
            t["copies"] = [int(rng.random() < 0.5) for _ in range(rng.choice([0, 1, 2, 2, 3]))]
            t["avail"] = int(rng.random() < 0.9)
    for t in toks:                            # records / lists of files: available iff EVERY element is (partial loss = lost)
        if not t["job"] and "copies" not in t and rng.random() < 0.2:
            t["composite"] = rng.choice(["list", "object"])
            t["items"] = [({"avail": int(rng.random() < 0.9), "copies": [int(rng.random() < 0.6) for _ in range(rng.choice([1, 1, 2]))]}
                           if rng.random() < 0.8 else {"avail": int(rng.random() < 0.7)}) for _ in range(rng.choice([0, 1, 2, 3, 4]))]
    if rng.random() < 0.1 and n > 1:          # a lost token without previous tokens: build_graph must raise
        toks[0]["avail"] = 0
    k = rng.choice([1, 1, 2, 3])
    inputs = sorted(rng.sample(range(n), min(n, k)), reverse=True)
    return {"idx": idx, "tokens": toks, "inputs": inputs, "ports": rng.choice([1, 2, 4])}


def token_available(t: dict) -> bool:
    """plain token: its flag; file token: recoverable and SOME copy exists; list / record: EVERY element available"""
    if "items" in t:
        return all(token_available(x) for x in t["items"])
    return bool(t["avail"]) and ("copies" not in t or any(t["copies"]))


def avail_line(t: dict) -> str:
    """the token as input of the Lean availability model (driver op `avail`)"""
    def leaf(x: dict) -> str:
        if "copies" in x:
            return f"f{int(bool(x['avail']))}:{''.join(str(int(bool(c))) for c in x['copies']) or '-'}"
        return f"p{int(bool(x['avail']))}"
    if "items" in t:
        return ("avail " + ("record" if t.get("composite") == "object" else "list") + " " + " ".join(leaf(x) for x in t["items"])).strip()
    return "avail leaf " + leaf(t)


def spec(case: dict):
    """the property's own oracle: least set containing the inputs and closed under `not stop => dependees`"""
    byid = {t["id"]: t for t in case["tokens"]}
    stop = {i: token_available(t) or bool(t.get("job") and t.get("recovering")) for i, t in byid.items()}
    # the real code tests `is_recovering` first, then availability; both stop the search
    nodes, edges, todo = set(case["inputs"]), set(), list(case["inputs"])
    while todo:
        t = todo.pop()
        if stop[t]:
            continue
        if not byid[t]["deps"]:
            return None, None, stop
        for d in byid[t]["deps"]:
            edges.add((d, t))
            if d not in nodes:
                nodes.add(d)
                todo.append(d)
    return nodes, edges, stop


def _recov_cases(rng: random.Random, quick: bool) -> list[dict]:
    cases = []
    # soft failures: only the failing job runs again
    for n, stage, phase, cnt in ([(3, 1, "execute", 1), (4, 2, "transfer", 2), (2, 0, "schedule", 1)] if quick else
                                 [(3, 1, "execute", 1), (4, 2, "transfer", 2), (2, 0, "schedule", 1), (5, 4, "execute", 2)]):
        cases.append({"name": f"soft-pipeline{n}-s{stage}-{phase}x{cnt}", "shape": {"kind": "pipeline", "n": n},
                      "plan": [{"step": f"/s{stage}", "tag": "0", "phase": phase, "kind": "soft", "count": cnt}], "max_retries": 6})
    # fail-stop: the lost producers (and only they) run again
    for n, stage, lose in ([(3, 2, [2, 1]), (4, 3, [3, 2, 1, 0])] if quick else [(3, 2, [2]), (3, 2, [2, 1]), (4, 3, [3, 2, 1, 0]), (4, 2, [2, 0])]):
        cases.append({"name": f"failstop-pipeline{n}-s{stage}-lose{lose}", "shape": {"kind": "pipeline", "n": n},
                      "plan": [{"step": f"/s{stage}", "tag": "0", "phase": "execute", "kind": "failstop", "count": 1,
                                "lose": [[f"/s{j}", "0"] for j in lose]}], "max_retries": 6})
    # replicated output: the producer's output has a second primary copy on another deployment; ONE copy is lost with the failure, so the
    # data is still available and the producer must not run again (FileToken.is_available: some copy exists)
    cases.append({"name": "failstop-pipeline3-s2-lose-s1-replica-survives", "shape": {"kind": "pipeline", "n": 3, "deps": 2},
                  "plan": [{"step": "/s2", "tag": "0", "phase": "execute", "kind": "failstop", "count": 1,
                            "lose": [["/s1", "0"]], "replicate": [["/s1", "0"]]}], "max_retries": 6,
                  "expect_attempts": {"/s0/0": 1, "/s1/0": 1, "/s2/0": 2}})
    if not quick:
        cases.append({"name": "failstop-pipeline4-s3-lose-s2-s1-replica-of-s2-survives", "shape": {"kind": "pipeline", "n": 4, "deps": 2},
                      "plan": [{"step": "/s3", "tag": "0", "phase": "execute", "kind": "failstop", "count": 1,
                                "lose": [["/s2", "0"], ["/s1", "0"]], "replicate": [["/s2", "0"]]}], "max_retries": 6,
                      "expect_attempts": {"/s0/0": 1, "/s1/0": 1, "/s2/0": 1, "/s3/0": 2}})
    # forced interleaving (see props/c19.py gated_cases): the second consumer fails while the re-execution of the shared producer is RUNNING;
    # its recovery must use that re-execution: the producer's data was lost ONCE, it runs twice, not three times
    from sfv.props.c19 import gated_cases
    for g in gated_cases(quick):        # RUNNING and FIREABLE windows
        cases.append(dict(g, name="c18-" + g["name"], trace_fm=True,
                          expect_why=("reexecuted-although-its-re-execution-was-under-way",
                                      "its output was lost once and the second consumer failed while its re-execution was under way")))
    m = rng.choice([3, 4, 6])
    el = rng.randrange(m)
    cases.append({"name": f"soft-scatter{m}-b{el}", "shape": {"kind": "scatter", "m": m},
                  "plan": [{"step": "/b", "tag": f"0.{el}", "phase": "execute", "kind": "soft", "count": 1}], "max_retries": 6})
    cases.append({"name": f"failstop-scatter{m}-b{el}-own-dirs", "shape": {"kind": "scatter", "m": m},
                  "plan": [{"step": "/b", "tag": f"0.{el}", "phase": "execute", "kind": "failstop", "count": 1}], "max_retries": 6})
    cases.append({"name": "failstop-diamond-c-lose-b1", "shape": {"kind": "diamond"},
                  "plan": [{"step": "/c", "tag": "0", "phase": "execute", "kind": "failstop", "count": 1, "lose": [["/c", "0"], ["/b1", "0"]]}],
                  "max_retries": 6})
    if not quick:
        for n in (2, 3, 4, 5):
            for stage in range(n):
                for k in range(stage + 1):
                    cases.append({"name": f"failstop-pipeline{n}-s{stage}-lose-back{k}", "shape": {"kind": "pipeline", "n": n},
                                  "plan": [{"step": f"/s{stage}", "tag": "0", "phase": rng.choice(["execute", "transfer", "schedule"]),
                                            "kind": "failstop", "count": 1, "lose": [[f"/s{j}", "0"] for j in range(stage, stage - k - 1, -1)]}],
                                  "max_retries": 6})
    return cases


def judge_run(case: dict, r: dict) -> list[tuple[str, str]]:
    """a job ran more than once only if it failed itself or data it produced was deleted (C18); everything completes"""
    fails = []
    if r["outcome"] != "ok":
        fails.append((f"run:{r['outcome']}", f"{case['name']}: {r.get('msg', '')[:300]}"))
        return fails
    for job, n in (case.get("expect_attempts") or {}).items():
        if r["attempts"].get(job, 0) > n:
            key, why = case.get("expect_why") or ("reexecuted-although-a-copy-of-its-output-survived",
                                                  "one copy of its output was deleted, a second primary copy was still present")
            fails.append((key, f"{case['name']}: job {job} was executed {r['attempts'].get(job, 0)} times, expected {n}: {why} "
                               f"(timeline {[e for e in r.get('timeline', []) if e[0] in ('replica', 'lose', 'start', 'claim', 'signal', 'gate-timeout')]})"))
        elif r["attempts"].get(job, 0) < n:
            fails.append(("fewer-executions-than-expected", f"{case['name']}: job {job} executed {r['attempts'].get(job, 0)} times, expected {n}"))
    injected_exec = {}
    for name, phase, kind in r["injected"]:
        if phase == "execute":
            injected_exec[name] = injected_exec.get(name, 0) + 1
    failed_jobs = {name for name, _, _ in r["injected"]}
    lost = {name for name, _ in r["deleted"]}
    for job, n in r["attempts"].items():
        extra = n - 1 - injected_exec.get(job, 0)
        if extra > 0 and job not in lost:
            fails.append(("reexecuted-although-outputs-available",
                          f"{case['name']}: job {job} was executed {n} times; it failed {injected_exec.get(job, 0)} time(s) in execute and "
                          f"none of its directories was deleted (deleted: {sorted(lost)})"))
        if extra < 0:
            fails.append(("fewer-executions-than-failures", f"{case['name']}: job {job} executed {n} times with {injected_exec.get(job, 0)} injected execute failures"))
    if all(k == "soft" for _, _, k in r["injected"]):
        for job, n in r["attempts"].items():
            if n != 1 + injected_exec.get(job, 0):
                fails.append(("soft-failure-reexecuted-other-job", f"{case['name']}: {job} executed {n} times, expected {1 + injected_exec.get(job, 0)}"))
    return fails


class C18(Property):
    pid = "C18"
    title = "Recovery re-runs only failed jobs and producers of lost data"
    lean_targets = ["SFV.Props.C18", "SFV.Model.Proto"]
    props_files = ["SFV/Props/C18.lean"]
    drivers = ["Drivers/C18.lean"]
    translators = [availguards.generate, provguards.generate]
    rule = ("(1) the REAL ProvenanceGraph.build_graph on random provenance relations (1..25 tokens, 0..3 dependees each, random availability, "
            "file tokens with 0..3 primary data locations in the real DataManager of which a random subset was deleted, lists and records of "
            "0..4 such tokens (partial losses), "
            "job tokens of recovering jobs, 1..3 input tokens, occasionally a lost token without dependees) stored in a real in-memory "
            "StreamFlow database; node set, edge set and the raising case are compared with the Lean model and with the closure "
            "specification computed independently; (2) real recovery runs (pipelines, scatter, diamond; soft and fail-stop failures with OUR "
            "injector that deletes exactly the named jobs' directories; one shape holds a second primary copy of a job's output on another "
            "deployment and loses only the first): the execution count of every job is compared with the count predicted "
            "from the injected failures and the deleted directories. (3) T+K for availability: the quantifiers of FileToken / ListToken / "
            "ObjectToken.is_available are generated into the Lean availability model; the availability build_graph recorded for every visited token "
            "is compared with that model.")
    trusted_base = [
        "recovery harness harness/sfv/rt/recov.py (own failure injectors subclassing the repo's test injectors) and harness/sfv/rt/provk.py",
        "translator harness/sfv/translate/availguards.py (shape and quantifiers of the four is_available methods)",
        "translator harness/sfv/translate/provguards.py (statement shape of the build_graph loop: a digest of 12 facts, the model is not generated)",
        "token availability is a flag in the Lean model of build_graph and a tree of copies in Model/Avail.lean; FileToken.is_available runs for real in the build_graph comparison (copies on several local "
        "deployments, availability specified as `recoverable and some copy exists`) and in the end-to-end runs",
        "GraphMapper / get_step_ids (token graph -> steps to re-run) is not modelled: checked end to end through execution counts",
    ]
    assumptions = ["the provenance relation stored in the database is what the engine recorded (C07)"]
    technique = "Lean 4 model of the backward search with a proved loop invariant (exact closure characterisation) + differential runs of the real build_graph + end-to-end execution-count oracle on real recovery runs"
    level_text = ("grade B: build_graph characterised exactly (node set = backward closure through unavailable tokens, sources available, soft failure => "
                  "inputs only) for every provenance relation, availability map and inputs; the step from tokens to re-executed jobs is validated on real "
                  "recovery runs, not proved")
    level_note = "Lean kernel, axioms within {propext, Classical.choice, Quot.sound}; the job pipeline and GraphMapper are runtime layers (K)"
    quick_budget_s = 2400        # room for one confirmation re-run of a timed-out case (5x its bound), see recov.run_confirmed
    thorough_budget_s = 6000
    min_nontrivial = 10

    def explore(self, ctx: Ctx) -> None:
        rng = ctx.rng
        quick = ctx.tier == "quick"
        n = 80 if quick else 1200
        if ctx.mode == "search":
            n *= 3
        corpus = [
            {"idx": -1, "tokens": [{"id": 0, "avail": 1, "deps": []}, {"id": 1, "avail": 1, "deps": [0]}, {"id": 2, "avail": 0, "deps": [1]},
                                   {"id": 3, "avail": 1, "deps": [0]}, {"id": 4, "avail": 0, "deps": [2, 3]}], "inputs": [4], "ports": 2},
            {"idx": -2, "tokens": [{"id": 0, "avail": 0, "deps": []}, {"id": 1, "avail": 0, "deps": [0]}], "inputs": [1], "ports": 1},
            # a job's output replicated on a second location; ONE copy lost: the data is still available, the producer must not be selected
            {"idx": -4, "tokens": [{"id": 0, "avail": 1, "deps": []}, {"id": 1, "avail": 1, "deps": [0], "copies": [0, 1]},
                                   {"id": 2, "avail": 1, "deps": [0], "copies": [1, 0, 1]}, {"id": 3, "avail": 0, "deps": [1, 2]}], "inputs": [3], "ports": 2},
            {"idx": -5, "tokens": [{"id": 0, "avail": 1, "deps": []}, {"id": 1, "avail": 1, "deps": [0], "copies": [0, 0]},
                                   {"id": 2, "avail": 1, "deps": [1], "copies": [1, 1]}, {"id": 3, "avail": 0, "deps": [1, 2]}], "inputs": [3], "ports": 2},
            # a record of three files of which ONE is lost: the record is lost, its producer must be selected
            {"idx": -6, "tokens": [{"id": 0, "avail": 1, "deps": []},
                                   {"id": 1, "avail": 1, "deps": [0], "composite": "object",
                                    "items": [{"avail": 1, "copies": [1]}, {"avail": 1, "copies": [0]}, {"avail": 1, "copies": [1]}]},
                                   {"id": 2, "avail": 1, "deps": [0], "composite": "list",
                                    "items": [{"avail": 1, "copies": [0, 1]}, {"avail": 1, "copies": [1]}]},
                                   {"id": 3, "avail": 0, "deps": [1, 2]}], "inputs": [3], "ports": 2},
            {"idx": -3, "tokens": [{"id": i, "avail": 1, "deps": ([i - 1] if i else [])} for i in range(12)], "inputs": [11, 10], "ports": 3},
        ]
        graphs = corpus + [gen_graph(rng, k) for k in range(n)]
        lines, meta = [], []
        results_for_avail = []
        for status_case in recov.run_confirmed(ctx, provk.run_case, graphs, timeout=300, workers=8, inner_default=120):
            case, status, real = status_case
            if status == "ok" and real.get("outcome") == "ok":
                results_for_avail.append(status_case)
            if status != "ok":
                ctx.fail("build_graph:" + status, f"graph {case['idx']}: {str(real)[:300]}", {"graph": case})
                continue
            nodes, edges, stop = spec(case)
            nt = len(case["tokens"]) > 2
            ctx.case({"graph": {"n": len(case["tokens"]), "inputs": case["inputs"]}, "real": {k: real.get(k) for k in ("outcome", "nodes")}},
                     ("g", json.dumps(case, sort_keys=True)) if nt else None, f"graph:{real['outcome']}")
            replay = {"graph": case}
            if real["outcome"] == "hang":
                ctx.fail("build_graph:hang", f"graph {case['idx']}", replay)
                continue
            if nodes is None:
                if real["outcome"] != "noprev":
                    ctx.fail("build_graph:no-exception-for-lost-token-without-dependees", f"graph {case['idx']}: {real}", replay)
            elif real["outcome"] != "ok":
                ctx.fail("build_graph:raised", f"graph {case['idx']}: {real}", replay)
            else:
                rn, re_ = set(real["nodes"]), {tuple(e) for e in real["edges"]}
                extra = rn - nodes
                if extra:
                    ctx.fail("build_graph:selects-token-not-reachable-through-lost-data", f"graph {case['idx']}: extra tokens {sorted(extra)}", replay)
                if nodes - rn:
                    ctx.fail("build_graph:misses-producer-of-lost-data", f"graph {case['idx']}: missing tokens {sorted(nodes - rn)}", replay)
                if re_ != edges:
                    ctx.fail("build_graph:edges", f"graph {case['idx']}: edges {sorted(re_ ^ edges)} differ", replay)
                srcs = [t for t in rn if not any(e[1] == t for e in re_)]
                if any(not stop[t] for t in srcs):
                    ctx.fail("build_graph:source-not-available", f"graph {case['idx']}: sources {srcs}", replay)
            deps = " ".join(f"{t['id']}:{','.join(map(str, t['deps']))}" for t in case["tokens"] if t["deps"]) or "-"
            stops = ",".join(str(i) for i, v in stop.items() if v) or "-"
            # fuel = N = number of tokens: the bound of `build_graph_fuel_sufficient`; its hypotheses are measured here
            ntok = len(case["tokens"])
            if not (all(t["id"] not in t["deps"] and all(d < ntok for d in t["deps"]) for t in case["tokens"])
                    and len(set(case["inputs"])) == len(case["inputs"]) and all(i < ntok for i in case["inputs"])):
                ctx.disagree("hypotheses of build_graph_fuel_sufficient", f"graph {case['idx']}: self-dependency, token id out of range or "
                             f"duplicate input", {"graph": case})
            lines.append(f"bg {ntok} | {','.join(map(str, case['inputs']))} | {stops} | {deps}")
            if real["outcome"] == "ok":
                exp = "ok nodes=" + (",".join(map(str, real["nodes"])) or "-") + " edges=" + ",".join(f"{a}>{b}" for a, b in sorted(map(tuple, real["edges"])))
            else:
                exp = "noprev"
            meta.append((case, exp))
        # availability of every visited non-job token: real `is_available` (as recorded by build_graph) vs the Lean availability model
        alines, ameta = [], []
        for case, status, real in results_for_avail:
            byid = {t["id"]: t for t in case["tokens"]}
            for tid, val in (real.get("info") or {}).items():
                t = byid[int(tid)]
                if t.get("job"):
                    continue
                alines.append(avail_line(t))
                ameta.append((case, t, bool(val)))
        got = ctx.lean("Drivers/C18.lean", lines + alines)
        for g, (case, t, val) in zip(got[len(lines):], ameta):
            if g.strip() != f"avail={'true' if val else 'false'}":
                ctx.disagree("is_available vs availability model", f"graph {case['idx']} token {t['id']} {json.dumps(t)}: real {val}, model `{g.strip()}`",
                             {"graph": case})
        for g, (case, exp) in zip(got, meta):
            g = g.strip()
            if not (g == exp or (exp == "noprev" and g.startswith("noprev"))):
                ctx.disagree("build_graph vs model", f"graph {case['idx']}: real `{exp}`, model `{g}`", {"graph": case})
        # ---- end to end -------------------------------------------------------------------------
        rcases = _recov_cases(rng, quick)
        for case, status, r in recov.run_cases(rcases, timeout=300, workers=6, ctx=ctx):
            if status != "ok":
                ctx.fail("run:" + status, f"{case['name']}: {str(r)[:300]}", {"recovery": case})
                continue
            ctx.case({"recovery": case["name"], "outcome": r["outcome"], "attempts": r.get("attempts")}, ("r", case["name"]), "recovery-run")
            if r["outcome"] == "harness-error":
                ctx.notes.append(f"harness error in {case['name']}: {r.get('msg', '')[:200]}")
                ctx.fail("run:harness-error", f"{case['name']}: {r.get('msg', '')[:400]}", {"recovery": case})
                continue
            for key, detail in judge_run(case, r):
                ctx.fail(key, detail, {"recovery": case})

    def replay(self, ctx: Ctx, data) -> None:
        rr = data.get("replay") or (data.get("no_longer_checks") or [{}])[0].get("case") or {}
        if "graph" in rr:
            real = provk.run_case(rr["graph"])
            print("graph:", json.dumps(rr["graph"]))
            print("real build_graph:", json.dumps(real))
            nodes, edges, stop = spec(rr["graph"])
            print("closure spec: nodes", sorted(nodes) if nodes is not None else None, "edges", sorted(edges) if edges is not None else None)
            if real.get("outcome") == "ok" and nodes is not None and (set(real["nodes"]) != nodes):
                ctx.fail("build_graph:closure", "node set differs from the closure", rr)
        elif "recovery" in rr:
            r = recov.run_case(rr["recovery"])
            print(json.dumps({k: r.get(k) for k in ("outcome", "attempts", "injected", "deleted", "versions", "msg")}, indent=1, default=str))
            for key, detail in judge_run(rr["recovery"], r):
                ctx.fail(key, detail, rr)
        else:
            super().replay(ctx, data)


PROPERTY = C18()
