import SFV.Model.Graph
import SFV.Model.Proto
open SFV SFV.Proto SFV.Graph

def showList (l : List Nat) : String := if l.isEmpty then "-" else ",".intercalate (l.map toString)
def sortN (l : List Nat) : List Nat := l.mergeSort (· ≤ ·)

def showMap (keys : List Nat) (f : Nat → List Nat) : String :=
  if keys.isEmpty then "-" else
  ";".intercalate ((sortN keys).map (fun k => s!"{k}:{showList (sortN (f k))}"))

/-- canonical dump: both key lists and both maps, sorted -/
def dump (g : G) : String :=
  s!"{showList (sortN g.sk)}|{showList (sortN g.pk)}|{showMap g.sk g.succ}|{showMap g.pk g.pred}"

def nats (ws : List String) : Option (List Nat) := ws.mapM (·.toNat?)

def step (g : G) : List String → G × String
  | ["new"] => (G.empty, "ok")
  | ["add", u, "-"] =>
      match u.toNat? with
      | some u => let g' := g.add u none; (g', s!"-|{dump g'}")
      | none => (g, "bad-op")
  | ["add", u, v] =>
      match u.toNat?, v.toNat? with
      | some u, some v => let g' := g.add u (some v); (g', s!"-|{dump g'}")
      | _, _ => (g, "bad-op")
  | "rm" :: p :: ns =>
      match nats ns, p with
      | some ns, "0" => let r := g.removeNodes ns false; (r.1, s!"{showList (sortN r.2)}|{dump r.1}")
      | some ns, "1" => let r := g.removeNodes ns true; (r.1, s!"{showList (sortN r.2)}|{dump r.1}")
      | _, _ => (g, "bad-op")
  | ["rep", o, n] =>
      match o.toNat?, n.toNat? with
      | some o, some n =>
          match g.replace o n with
          | some g' => (g', s!"ok|{dump g'}")
          | none => (g, s!"ValueError|{dump g}")
      | _, _ => (g, "bad-op")
  | ["prom", n] =>
      match n.toNat? with
      | some n => let r := g.promote n; (r.1, s!"{showList (sortN r.2)}|{dump r.1}")
      | none => (g, "bad-op")
  | ["srcsnk"] => (g, s!"{showList (sortN g.sources)}|{showList (sortN g.sinks)}")
  | _ => (g, "bad-op")

def main : IO Unit := runStateful G.empty step
