import SFV.Lemmas.NetOp
/-! # C05 (operational) — grouping steps run as the engine runs them

`Consistent` (SFV/Props/C05.lean) describes the logs of a complete run denotationally: every output port holds,
up to order, the node's semantic function applied to the input logs. Here the node equation of the grouping
steps (`Transformer.run`, `ConditionalStep.run`, `ScheduleStep.run`: node kinds tf / cond / exec) is the
OPERATIONAL one (`OpConsistent`, SFV/Lemmas/NetOp.lean): the log of an output port IS the emission sequence of
the loop of SFV/Model/TfMachine.lean run on the logs of the input ports, read in the order in which the tokens
were delivered. The other node kinds (scatter / gather / combinators) keep their order-insensitive specification.

Hypotheses: the two executable checks `wfStruct` and `wfDyn` that the driver evaluates on every generated
workflow (topological order and one producer per port; same tag set on the inputs of every grouping step,
distinct tags on every port of `den`).

Property theorems only; definitions, the network induction and the example family are in SFV/Lemmas/NetOp.lean,
the machine theorem in SFV/Lemmas/TfMachine.lean, the per-node order independence in SFV/Lemmas/NetPerm.lean. -/
namespace SFV.C05
open SFV.Net

/-- **Every operational run computes `den`.** Every family of port logs in which the grouping steps emitted
operationally, in ANY arrival order of their inputs, and the other steps satisfy their order-insensitive
specification, holds exactly the tokens of `den` on every port, up to order. -/
theorem op_run_eq_den (sp : Spec) (hwf : wfStruct sp = true) (hdyn : wfDyn sp = true) (logs : Env)
    (h : OpConsistent sp logs) : ∀ p, (logs.get p).Perm ((den sp).get p) :=
  op_consistent_eq_den sp hwf hdyn logs h

/-- **Operational confluence.** Two such families agree on every port, up to order. -/
theorem op_confluence (sp : Spec) (hwf : wfStruct sp = true) (hdyn : wfDyn sp = true) (l1 l2 : Env)
    (h1 : OpConsistent sp l1) (h2 : OpConsistent sp l2) : ∀ p, (l1.get p).Perm (l2.get p) := fun p =>
  (op_run_eq_den sp hwf hdyn l1 h1 p).trans (op_run_eq_den sp hwf hdyn l2 h2 p).symm

/-- **The operational families are consistent families.** The loop of every grouping step, run on the input
logs in their delivery order, emits on every output what the step's semantic function yields on those logs, up
to order: so the denotational theorems of SFV/Props/C05.lean apply to operational runs. -/
theorem op_consistent_is_consistent (sp : Spec) (hwf : wfStruct sp = true) (hdyn : wfDyn sp = true) (logs : Env)
    (h : OpConsistent sp logs) : Consistent sp logs :=
  op_consistent_consistent sp hwf hdyn logs h

/-- **No partial group is left behind.** In an operational family the loop of every grouping step with at least
one output ends with an empty `inputs_map`: every token delivered to the step was consumed by a fired group. -/
theorem op_no_leftover (sp : Spec) (hwf : wfStruct sp = true) (hdyn : wfDyn sp = true) (logs : Env)
    (h : OpConsistent sp logs) (n : Node) (hn : n ∈ sp.nodes) (nouts : Nat) (f : List Val → List (Option Val))
    (hg : n.groupFn = some (nouts, f)) (hpos : 0 < nouts) : (runRounds (n.ins.map logs.get)).map = [] :=
  op_consistent_no_leftover sp hwf hdyn logs h n hn nouts f hg hpos

/-- every operational run leaves the same number of tokens on every port -/
theorem op_token_count (sp : Spec) (hwf : wfStruct sp = true) (hdyn : wfDyn sp = true) (logs : Env)
    (h : OpConsistent sp logs) (p : Nat) : (logs.get p).length = ((den sp).get p).length :=
  (op_run_eq_den sp hwf hdyn logs h p).length_eq

/-- for the grouping node kinds the semantic function is `groupStep` with the node's group function -/
theorem group_node_out (e : Env) (n : Node) (nouts : Nat) (f : List Val → List (Option Val))
    (hg : n.groupFn = some (nouts, f)) : nodeOut e n = groupStep e n.ins nouts f :=
  nodeOut_eq_groupStep e hg

/-- **Local step.** If the inputs of a grouping node in `logs` are, up to order, those of an environment that
passes the checks (distinct tags, same tag set on all inputs), the loop run on the input logs emits on every
output port `j` what `nodeOut logs` says, up to order, and ends with an empty `inputs_map`. -/
theorem group_node_machine_eq_nodeOut (E logs : Env) (n : Node) (nouts : Nat) (f : List Val → List (Option Val))
    (hg : n.groupFn = some (nouts, f)) (hperm : EnvPermOn n.ins E logs) (hok : NodeInputsOk E n)
    (hw : wfNode E n = true) (j o : Nat) (hj : n.outs[j]? = some o) :
    (emitted f j (runRounds (n.ins.map logs.get))).Perm ((nodeOut logs n)[j]?.getD []) ∧
    (runRounds (n.ins.map logs.get)).map = [] :=
  group_emitted_perm hg hperm hok hw (group_idx_lt hg hj)

/-! ## Examples (the hypotheses are satisfiable, the order of an operational log differs from `den`) -/

example : wfStruct exOp = true ∧ wfDyn exOp = true := by decide

/-- `exOpLogs` (two scatters delivering in opposite orders to a two-input transformer, then an exec step) is an
operational family of `exOp` -/
example : OpConsistent exOp exOpLogs := exOp_opConsistent

/-- hence it is `den` up to order on every port, and a consistent family -/
example : (∀ p, (exOpLogs.get p).Perm ((den exOp).get p)) ∧ Consistent exOp exOpLogs :=
  ⟨op_run_eq_den exOp (by decide) (by decide) exOpLogs exOp_opConsistent,
   op_consistent_is_consistent exOp (by decide) (by decide) exOpLogs exOp_opConsistent⟩

/-- the transformer fired tag `[0,1]` before `[0,0]`, while `den` lists the tags in the order of the first port:
the operational logs are not `den` itself, only a permutation of it -/
example : (exOpLogs.get 6).map (·.tag) = [[0, 1], [0, 0]] ∧ ((den exOp).get 6).map (·.tag) = [[0, 0], [0, 1]] ∧
    (exOpLogs.get 7).map (fun t => (t.tag, t.val.sum)) = [([0, 1], 73), ([0, 0], 41)] ∧
    ((den exOp).get 7).map (fun t => (t.tag, t.val.sum)) = [([0, 0], 41), ([0, 1], 73)] := by decide

/-- the loop of the transformer of `exOp` on those logs: nothing fires in the first iteration, both tags in the
second, nothing is left -/
example : (runRounds ([2, 4].map exOpLogs.get)).out.map (·.1) = [[0, 1], [0, 0]] ∧
    (runRounds ([2, 4].map exOpLogs.get)).map.map (·.1) = [] := by decide

/-- the trivial spec without nodes: the only operational family on the source ports is `srcEnv` -/
example (sp : Spec) (h : sp.nodes = []) : OpConsistent sp (srcEnv sp) :=
  ⟨fun _ _ => rfl, fun n hn => (by rw [h] at hn; cases hn), fun n hn => (by rw [h] at hn; cases hn)⟩

end SFV.C05
