import SFV.Model.Remap
import SFV.Lemmas.Tag
/-! Helper lemmas for C32: paths as component lists, the good-path case of `remap_path`. -/
namespace SFV.Remap
open SFV

/-- the absolute path `/c₁/…/cₙ` -/
def absStr (l : List Str) : Str := l.flatMap ('/' :: ·)

/-- a file or directory name the partial theorem covers -/
def Reg (w : Str) : Prop := w ≠ [] ∧ w ≠ ['.'] ∧ w ≠ ['.', '.'] ∧ '/' ∉ w ∧ '%' ∉ w ∧ ':' ∉ w

theorem absStr_append (a b : List Str) : absStr (a ++ b) = absStr a ++ absStr b := by
  simp [absStr]

theorem absStr_cons (w : Str) (l : List Str) : absStr (w :: l) = '/' :: w ++ absStr l := by
  simp [absStr]

theorem mem_absStr {c : Char} {l : List Str} (hc : c ≠ '/') (h : ∀ w ∈ l, c ∉ w) : c ∉ absStr l := by
  induction l with
  | nil => simp [absStr]
  | cons w l ih =>
    rw [absStr_cons]
    simp only [List.cons_append, List.mem_cons, List.mem_append, not_or]
    exact ⟨hc, h w (by simp), ih (fun x hx => h x (List.mem_cons_of_mem _ hx))⟩

theorem unquote_noPct {s : Str} (h : '%' ∉ s) : unquote s = s := by simp [unquote, h]

theorem containsColonSlash_false {s : Str} (h : ':' ∉ s) : containsColonSlash s = false := by
  induction s with
  | nil => rfl
  | cons c s ih =>
    have hc : c ≠ ':' := fun e => h (by simp [e])
    have hs : ':' ∉ s := fun hm => h (List.mem_cons_of_mem _ hm)
    cases s with
    | nil => simp [containsColonSlash]
    | cons d s' =>
      unfold containsColonSlash
      split
      · rename_i heq; injection heq with h1 _; exact absurd h1 hc
      · rename_i heq; injection heq with _ h2; rw [← h2]; exact ih hs
      · rename_i heq; cases heq

theorem splitSlash_absStr (w : Str) (hw : '/' ∉ w) (l : List Str) (h : ∀ x ∈ l, '/' ∉ x) :
    splitSlash (w ++ absStr l) = w :: l := by
  induction l generalizing w with
  | nil => simpa [absStr] using splitSlash_noslash w hw
  | cons x l ih =>
    rw [absStr_cons]
    have : w ++ ('/' :: x ++ absStr l) = w ++ '/' :: (x ++ absStr l) := by simp
    rw [this, splitSlash_append_slash w _ hw, ih x (h x (by simp)) (fun y hy => h y (List.mem_cons_of_mem _ hy))]

theorem normGo_reg (l st : List Str) (h : ∀ w ∈ l, w ≠ [] ∧ w ≠ ['.'] ∧ w ≠ ['.', '.']) :
    normGo l st = st.reverse ++ l := by
  induction l generalizing st with
  | nil => simp [normGo]
  | cons w l ih =>
    obtain ⟨h1, h2, h3⟩ := h w (by simp)
    simp only [normGo, h1, h2, h3, false_or, if_false]
    rw [ih _ (fun x hx => h x (List.mem_cons_of_mem _ hx))]
    simp

theorem absComps_absStr (cwd : List Str) (l : List Str) (hne : l ≠ []) (h : ∀ w ∈ l, Reg w) :
    absComps cwd (absStr l) = l := by
  have hhead : (absStr l).head? = some '/' := by
    cases l with
    | nil => exact absurd rfl hne
    | cons w l => simp [absStr_cons]
  have hsplit : splitSlash (absStr l) = [] :: l := by
    have := splitSlash_absStr [] (by simp) l (fun x hx => (h x hx).2.2.2.1)
    simpa using this
  simp only [absComps, hhead, if_true, hsplit, normGo, true_or]
  rw [normGo_reg l [] (fun w hw => ⟨(h w hw).1, (h w hw).2.1, (h w hw).2.2.1⟩)]
  simp

theorem commonLen_append (l r : List Str) : commonLen l (l ++ r) = l.length := by
  induction l with
  | nil => cases r <;> simp [commonLen]
  | cons a l ih => simp [commonLen, ih]

theorem getLast?_append_ne {α} {l l' : List α} (h : l' ≠ []) : (l ++ l').getLast? = l'.getLast? := by
  rw [List.getLast?_append]
  cases hl : l'.getLast? with
  | none => exact absurd (List.getLast?_eq_none_iff.mp hl) h
  | some x => simp

theorem getLast?_absStr (l : List Str) (hne : l ≠ []) (h : ∀ w ∈ l, w ≠ [] ∧ '/' ∉ w) :
    (absStr l).getLast? ≠ some '/' := by
  induction l with
  | nil => exact absurd rfl hne
  | cons w l ih =>
    rw [absStr_cons]
    by_cases hl : l = []
    · subst hl
      simp only [absStr, List.flatMap_nil, List.append_nil]
      obtain ⟨hw, hs⟩ := h w (by simp)
      rw [List.getLast?_cons_of_ne_nil hw]
      intro e
      exact hs (List.mem_of_getLast? e)
    · have hne' : absStr l ≠ [] := by
        cases l with
        | nil => exact absurd rfl hl
        | cons x l' => simp [absStr_cons]
      have : ('/' :: w ++ absStr l).getLast? = (absStr l).getLast? := by
        rw [getLast?_append_ne hne']
      rw [this]
      exact ih hl (fun x hx => h x (List.mem_cons_of_mem _ hx))

theorem pjoin_reg (new : Str) (comps : List Str) (hn : new ≠ []) (hl : new.getLast? ≠ some '/')
    (h : ∀ w ∈ comps, w ≠ [] ∧ '/' ∉ w) : pjoin new comps = new ++ absStr comps := by
  induction comps generalizing new with
  | nil => simp [pjoin, absStr]
  | cons b r ih =>
    obtain ⟨hb, hs⟩ := h b (by simp)
    have hhead : b.head? ≠ some '/' := by
      intro e; exact hs (List.mem_of_head? e)
    simp only [pjoin, hhead, if_false, hn, hl, false_or]
    rw [ih (new ++ '/' :: b) (by simp) ?_ (fun x hx => h x (List.mem_cons_of_mem _ hx))]
    · rw [absStr_cons]; simp
    · rw [getLast?_append_ne (by simp), List.getLast?_cons_of_ne_nil hb]
      intro e; exact hs (List.mem_of_getLast? e)

/-- the good case of the plain-path branch: a path below `old` with regular names moves below `new` -/
theorem remapPath_plain (cwd oc nc comps : List Str) (hoc : oc ≠ []) (hnc : nc ≠ []) (hc : comps ≠ [])
    (ho : ∀ w ∈ oc, Reg w) (hn : ∀ w ∈ nc, Reg w) (hcs : ∀ w ∈ comps, Reg w) :
    remapPath cwd (absStr (oc ++ comps)) (absStr oc) (absStr nc) = some (absStr (nc ++ comps)) := by
  have hall : ∀ w ∈ oc ++ comps, Reg w := by
    intro w hw; rcases List.mem_append.mp hw with h | h
    · exact ho w h
    · exact hcs w h
  have hcolon : ':' ∉ absStr (oc ++ comps) := mem_absStr (by decide) (fun w hw => (hall w hw).2.2.2.2.2)
  have hpct : '%' ∉ absStr (oc ++ comps) := mem_absStr (by decide) (fun w hw => (hall w hw).2.2.2.2.1)
  have hne : absStr (oc ++ comps) ≠ [] := by
    cases oc with
    | nil => exact absurd rfl hoc
    | cons w l => simp [absStr_cons]
  have hone : absStr oc ≠ [] := by
    cases oc with
    | nil => exact absurd rfl hoc
    | cons w l => simp [absStr_cons]
  have hnne : absStr nc ≠ [] := by
    cases nc with
    | nil => exact absurd rfl hnc
    | cons w l => simp [absStr_cons]
  simp only [remapPath, containsColonSlash_false hcolon, Bool.false_eq_true, if_false, unquote_noPct hpct, relpath, hne, hone,
    absComps_absStr cwd (oc ++ comps) (by simp [hoc]) hall, absComps_absStr cwd oc hoc ho, commonLen_append]
  simp only [Nat.sub_self, List.replicate_zero, List.nil_append, List.drop_left, hc, if_false, Option.map_some]
  rw [pjoin_reg _ _ hnne (getLast?_absStr nc hnc (fun w hw => ⟨(hn w hw).1, (hn w hw).2.2.2.1⟩))
    (fun w hw => ⟨(hcs w hw).1, (hcs w hw).2.2.2.1⟩), absStr_append]

end SFV.Remap
