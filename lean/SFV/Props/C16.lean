import SFV.Lemmas.JobNet
/-! # C16 — recovered runs produce the same outputs as failure-free runs (abstract job-step model; **partial**)

Proved on `SFV/Model/JobNet.lean`: for every sequence of stagings, executions, re-executions, data losses and failed
attempts — i.e. every failure sequence and every recovery strategy — each value that is available equals the
failure-free value, so a run that completes has the failure-free outputs; and completion is always possible.
**Partial** because the job pipeline is abstract (see the model's header): that the real recovery workflow *is* such a
sequence (boundary rules deliver regenerated tokens once, `restore` of scatter/loop steps, tags) is checked on real runs
by the correspondence check, not proved. -/
namespace SFV.C16
open SFV SFV.JobNet

/-- **re-execution reproduces / recovered outputs = failure-free outputs** (abstract model): in every reachable state,
    whatever failures and recoveries led to it, every available value — and every staged input — is the failure-free one -/
theorem recovered_outputs_eq_partial (net : Net) (den : Nat → Int) (hden : Sol net den) {s : St} (h : Reachable net s) :
    (∀ j v, s.store j = some v → v = den j) ∧ (∀ j vs, s.staged j = some vs → vs = (net.deps j).map den) := by
  induction h with
  | init => constructor <;> intro j v h <;> cases h
  | step _ hs ih =>
    rename_i s a s' _
    obtain ⟨i1, i2⟩ := ih
    cases a with
    | stage j =>
      simp only [step] at hs
      split at hs
      · rename_i vs hg
        cases hs
        refine ⟨i1, ?_⟩
        intro k vs' hk
        by_cases hkj : k = j
        · subst hkj; simp at hk; subst hk; exact gather_sound i1 _ _ hg
        · simp [hkj] at hk; exact i2 k vs' hk
      · cases hs
    | exec j =>
      simp only [step] at hs
      split at hs
      · rename_i vs hst
        cases hs
        refine ⟨?_, i2⟩
        intro k v hk
        by_cases hkj : k = j
        · subst hkj; simp at hk; subst hk; rw [i2 k vs hst, ← hden k]
        · simp [hkj] at hk; exact i1 k v hk
      · cases hs
    | lose j =>
      simp only [step] at hs
      cases hs
      constructor
      · intro k v hk; by_cases hkj : k = j <;> simp [hkj] at hk; exact i1 k v hk
      · intro k vs hk; by_cases hkj : k = j <;> simp [hkj] at hk; exact i2 k vs hk
    | failAttempt j =>
      simp only [step] at hs
      cases hs
      exact ⟨i1, i2⟩

/-- **recovery can always complete** (topologically ordered jobs: `deps j` below `j`): from *any* state — whatever was
    lost — one ordered sweep of re-executions is enabled and leaves the outputs of all `n` jobs available -/
theorem recovery_can_complete (net : Net) (n : Nat) (hdag : ∀ j, j < n → ∀ d, d ∈ net.deps j → d < j) (s : St) :
    ∃ s', runActs net s (sweep n) = some s' ∧ (∀ j, j < n → (s'.store j).isSome) ∧ (∀ j, n ≤ j → s'.store j = s.store j) := by
  induction n with
  | zero => exact ⟨s, rfl, by intro j hj; omega, by intro j _; rfl⟩
  | succ n ih =>
    obtain ⟨s1, h1, h2, h3⟩ := ih (fun j hj d hd => hdag j (by omega) d hd)
    have hg := gather_some_of_present (s := s1) (net.deps n) (fun d hd => h2 d (hdag n (by omega) d hd))
    obtain ⟨vs, hvs⟩ := Option.isSome_iff_exists.mp hg
    let s2 : St := { s1 with staged := fun k => if k = n then some vs else s1.staged k }
    let s3 : St := { s2 with store := fun k => if k = n then some (net.f n vs) else s2.store k }
    have hrun : runActs net s (sweep (n + 1)) = some s3 := by
      simp only [sweep, runActs_append, h1, Option.bind_some, runActs, step, hvs]
      simp [s2, s3]
    refine ⟨s3, hrun, ?_, ?_⟩
    · intro j hj
      by_cases hjn : j = n
      · subst hjn; simp [s3]
      · simp [s3, s2, hjn]; exact h2 j (by omega)
    · intro j hj
      have : j ≠ n := by omega
      simp [s3, s2, this]; exact h3 j (by omega)

/-- together: after the sweep every output is the failure-free one -/
theorem recovered_run_outputs (net : Net) (den : Nat → Int) (hden : Sol net den) (n : Nat)
    (hdag : ∀ j, j < n → ∀ d, d ∈ net.deps j → d < j) {s : St} (h : Reachable net s) :
    ∃ s', runActs net s (sweep n) = some s' ∧ ∀ j, j < n → s'.store j = some (den j) := by
  obtain ⟨s', hr, hp, _⟩ := recovery_can_complete net n hdag s
  refine ⟨s', hr, fun j hj => ?_⟩
  have hreach : Reachable net s' := by
    have : ∀ (as : List Act) (s s' : St), Reachable net s → runActs net s as = some s' → Reachable net s' := by
      intro as; induction as with
      | nil => intro s s' h e; simp [runActs] at e; exact e ▸ h
      | cons a as ih =>
        intro s s' h e; simp only [runActs] at e
        split at e
        · rename_i s1 hs1; exact ih s1 s' (Reachable.step h hs1) e
        · cases e
    exact this _ s s' h hr
  obtain ⟨v, hv⟩ := Option.isSome_iff_exists.mp (hp j hj)
  rw [hv, (recovered_outputs_eq_partial net den hden hreach).1 j v hv]

/-! ### non-vacuity: a three-step pipeline `x ↦ x+1` with a loss in the middle -/
def pipe3 : Net := ⟨fun j => if j = 0 then [] else [j - 1], fun j vs => (vs.headD 10) + 1⟩
example : Sol pipe3 (fun j => 11 + j) := by
  intro j; simp only [pipe3]; split
  · rename_i h; subst h; simp
  · rename_i h; simp; omega
example : (match runActs pipe3 init [.stage 0, .exec 0, .stage 1, .exec 1, .lose 0, .lose 1, .failAttempt 2, .stage 0, .exec 0,
      .stage 1, .exec 1, .stage 2, .exec 2] with
    | some s => s.store 2 == some 13 | none => false) = true := by decide

end SFV.C16
