import SFV.Model.DbCache
import SFV.Gen.DbCache
import SFV.Model.Proto
open SFV SFV.Proto SFV.DbCache

def spec : Spec := SFV.Gen.dbSpec

def parseItems (s : String) : Option (List Nat) :=
  if s = "-" then some [] else (s.splitOn ",").mapM (·.toNat?)

def showItems (l : List Nat) : String := if l.isEmpty then "-" else ",".intercalate (l.map toString)

/-- rows of the harness: one scalar column and one JSON container column -/
def showRow (r : Row) : String :=
  match r.erase with
  | [.atom a, .box items] => s!"{a}|{showItems items}"
  | [.atom a, .atom b] => s!"{a}|atom{b}"
  | _ => "?"

def stepLine (s : St) : List String → St × String
  | ["new"] => (St.init, "ok")
  | ["add", name, a, items] =>
      match spec.inserts.find? (·.name = name), a.toNat?, parseItems items with
      | some ins, some a, some items =>
          match step spec s (.add ins [.atom a, .box items]) with
          | some (s', _) => (s', toString (s.nextId ins.primary))
          | none => (s, "bad-op")
      | _, _, _ => (s, "bad-op")
  | ["upd", name, id, a, items] =>
      match spec.updates.find? (·.name = name), id.toNat?, a.toNat?, parseItems items with
      | some u, some id, some a, some items =>
          match step spec s (.update u id [.atom a, .box items]) with
          | some (s', _) => (s', "ok")
          | none => (s, "bad-op")
      | _, _, _, _ => (s, "bad-op")
  | ["get", name, id] =>
      match spec.getters.find? (·.name = name), id.toNat? with
      | some g, some id =>
          match step spec s (.get g id) with
          | some (s', some r) => (s', showRow r)
          | some (s', none) => (s', "TypeError")
          | none => (s, "bad-op")
      | _, _ => (s, "bad-op")
  | ["mt", j, i, v] =>
      match j.toNat?, i.toNat?, v.toNat? with
      | some j, some i, some v =>
          match step spec s (.mutTop j i v) with
          | some (s', _) => (s', "ok")
          | none => (s, "bad")
      | _, _, _ => (s, "bad-op")
  | ["mn", j, i, k, v] =>
      match j.toNat?, i.toNat?, k.toNat?, v.toNat? with
      | some j, some i, some k, some v =>
          match step spec s (.mutNested j i k v) with
          | some (s', _) => (s', "ok")
          | none => (s, "bad")
      | _, _, _, _ => (s, "bad-op")
  | _ => (s, "bad-op")

def main : IO Unit := runStateful St.init stepLine
