import SFV.Model.Wait
import SFV.Lemmas.Ledger
/-! Invariant of the waiting protocol (C12). -/
namespace SFV.Wait
open SFV.Gen.Sched

variable {σ W N : Type}

theorem notifiesAll : notifiesAllLast = true := by decide

theorem inv_init (S : Sys σ W N) (s0 : σ) (d : W) : Inv S (init s0 d) := by
  intro i h; simp [init] at h

theorem inv_step (S : Sys σ W N) (s : St σ W) (a : Act W N) (hI : Inv S s) : Inv S (step S s a) := by
  cases a with
  | submit i w =>
    simp only [step]
    split
    · rename_i hab
      intro k hk hg
      by_cases e : k = i
      · subst e; simp at hk
      · simp only [e, if_false] at hk hg ⊢
        exact hI k hk hg
    · exact hI
  | check i =>
    simp only [step]
    split
    · rename_i haw
      split
      · intro k hk hg
        by_cases e : k = i
        · subst e; simp at hk
        · simp only [e, if_false] at hk; exact hI k hk hg
      · split
        · rename_i hng hfit
          intro k hk hg
          by_cases e : k = i
          · subst e; simp at hk
          · simp only [e, if_false] at hk
            simp only at hg
            by_cases hr : S.rid (s.desc k) = S.rid (s.desc i)
            · simp [hr] at hg
            · simp only [hr, if_false] at hg
              have := hI k hk hg
              cases hf : S.fits (S.alloc s.sched (s.desc i)) (s.desc k) with
              | false => rfl
              | true => rw [S.antitone _ _ _ hf] at this; cases this
        · rename_i hng hfit
          intro k hk hg
          by_cases e : k = i
          · subst e; simpa using hfit
          · simp only [e, if_false] at hk; exact hI k hk hg
    · exact hI
  | notify n =>
    simp only [step, notifiesAll, if_true]
    intro k hk
    by_cases e : s.pc k = .sleeping
    · simp [e] at hk
    · simp only [e, if_false] at hk
  | timeout i =>
    simp only [step]
    split
    · intro k hk hg
      by_cases e : k = i
      · subst e; simp at hk
      · simp only [e, if_false] at hk; exact hI k hk hg
    · exact hI

theorem inv_run (S : Sys σ W N) (as : List (Act W N)) (s : St σ W) (hI : Inv S s) : Inv S (run S s as) := by
  induction as generalizing s with
  | nil => exact hI
  | cons a as ih => exact ih _ (inv_step S s a hI)

/-! ### the ledger instance -/

theorem ledger_antitone (cap : Ledger.Loc → Rat) (s : Ledger.St) (w w' : Req)
    (h : ledgerFits cap (ledgerAlloc cap s w) w' = true) : ledgerFits cap s w' = true := by
  unfold ledgerAlloc at h
  by_cases hf : ledgerFits cap s w = true
  · simp only [hf, if_true] at h
    have hpos : ∀ e ∈ w.entries, 0 ≤ e.2 := by
      intro e he
      simp only [ledgerFits, List.all_eq_true, Bool.and_eq_true, decide_eq_true_eq] at hf
      exact (hf e he).1
    have hguard : (w.entries.all fun e => decide (s.reserved e.1 + e.2 ≤ cap e.1)) = true := by
      simp only [ledgerFits, List.all_eq_true, Bool.and_eq_true, decide_eq_true_eq] at hf ⊢
      exact fun e he => (hf e he).2
    simp only [Ledger.step, hguard, if_true] at h
    simp only [ledgerFits, List.all_eq_true, Bool.and_eq_true, decide_eq_true_eq] at h ⊢
    intro e he
    obtain ⟨h1, h2⟩ := h e he
    refine ⟨h1, ?_⟩
    have := Ledger.amountAt_nonneg hpos e.1
    grind
  · simp only [hf] at h; exact h

end SFV.Wait
