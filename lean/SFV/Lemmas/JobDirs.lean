import SFV.Model.JobDirs
/-! Freshness invariant of the directory name supply (`SFV/Model/JobDirs.lean`). -/
namespace SFV.JobDirs

/-- generated names of all jobs scheduled so far are below the supply -/
def Below (s : St) : Prop := ∀ j ds, (j, ds) ∈ s.jobs → ∀ w n, Dir.gen w n ∈ ds → n < s.next

theorem pick_spec (fix : Option Nat) (w n : Nat) :
    n ≤ (pick fix w n).2 ∧ (∀ w' m, (pick fix w n).1 = .gen w' m → m = n ∧ (pick fix w n).2 = n + 1) := by
  cases fix <;> simp [pick]

theorem below_schedule (s : St) (r : Req) (h : Below s) : Below (schedule s r) ∧ s.next ≤ (schedule s r).next := by
  have p1 := pick_spec r.fixIn r.workdir s.next
  have p2 := pick_spec r.fixOut r.workdir (pick r.fixIn r.workdir s.next).2
  have p3 := pick_spec r.fixTmp r.workdir (pick r.fixOut r.workdir (pick r.fixIn r.workdir s.next).2).2
  constructor
  · intro j ds hj w n hn
    simp only [schedule, dirsOf, List.mem_append, List.mem_singleton] at hj ⊢
    rcases hj with hj | hj
    · have := h j ds hj w n hn
      omega
    · cases hj
      simp only [List.mem_cons, List.mem_nil_iff, or_false] at hn
      rcases hn with hn | hn | hn
      · have := (p1.2 w n hn.symm); omega
      · have := (p2.2 w n hn.symm); omega
      · have := (p3.2 w n hn.symm); omega
  · simp only [schedule, dirsOf]; omega

/-- every state reached by scheduling requests one after the other satisfies `Below` -/
theorem below_run (rs : List Req) : Below (run rs) := by
  have : ∀ (rs : List Req) (s : St), Below s → Below (rs.foldl schedule s) := by
    intro rs; induction rs with
    | nil => intro s h; exact h
    | cons r rs ih => intro s h; exact ih _ (below_schedule s r h).1
  exact this rs {} (by intro j ds h; cases h)

end SFV.JobDirs
