import SFV.Lemmas.JsDeps
namespace SFV.JsDeps
open Frag

theorem bind_ok {α β ε : Type} {x : Except ε α} {f : α → Except ε β} {b : β}
    (h : (x >>= f) = .ok b) : ∃ a, x = .ok a ∧ f a = .ok b := by
  cases x with
  | error e => simp [bind, Except.bind] at h
  | ok a => exact ⟨a, rfl, h⟩

example (n a b n' ks) (hl : listen n (.bin a b) = .ok (n', ks)) : False := by
  simp only [listen] at hl
  obtain ⟨⟨n1, k1⟩, h1, hl⟩ := bind_ok hl
  simp only at hl
  obtain ⟨⟨n2, k2⟩, h2, hl⟩ := bind_ok hl
  simp only [Except.ok.injEq, Prod.mk.injEq] at hl
  obtain ⟨rfl, rfl⟩ := hl
  trace_state
  sorry
end SFV.JsDeps
