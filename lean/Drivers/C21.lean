import SFV.Model.Registry
import SFV.Model.Proto
import SFV.Gen.SourceLoc
import SFV.Gen.InnerPath
open SFV SFV.Proto SFV.Registry

structure DSt where
  s : St := St.init
  regs : List Nat := []     -- object id of the k-th register_path result
  heap : SourceLoc.Heap := []            -- in-flight histories: the DataLocation objects seen so far
  tasks : List SourceLoc.Task := []      -- the get_source_location calls in progress / returned

def parseParts (s : String) : Option Path :=
  if s = "~" then some [] else (s.splitOn ",").mapM stringOfHex

def showPath (p : Path) : String := if p.isEmpty then "~" else ",".intercalate (p.map hexOfString)

def parseNats (s : String) : Option (List Nat) :=
  if s = "~" then some [] else (s.splitOn ",").mapM (·.toNat?)

def parseDType : String → Option SourceLoc.DType
  | "p" => some .primary
  | "s" => some .symlink
  | "i" => some .invalid
  | _ => none

def showTask : SourceLoc.Task → String
  | .waiting _ _ => "w"
  | .done none => "n"
  | .done (some i) => toString i

def step (d : DSt) : List String → DSt × String
  | ["new"] => ({}, "ok")
  | ["reg", l, parts] =>
      match l.toNat?, parseParts parts with
      | some l, some p => let r := register d.s l p; ({ s := r.1, regs := d.regs ++ [r.2] }, "ok")
      | _, _ => (d, "bad-op")
  | ["rel", a, b] =>
      match a.toNat?.bind (d.regs[·]?), b.toNat?.bind (d.regs[·]?) with
      | some a, some b => ({ d with s := relate d.s a b }, "ok")
      | _, _ => (d, "bad-op")
  | ["inv", l, parts] =>
      match l.toNat?, parseParts parts with
      | some l, some p =>
          match invalidate d.s l p with
          | .ok s' => ({ d with s := s' }, "ok")
          | .keyError => (d, "KeyError")
      | _, _ => (d, "bad-op")
  | ["get", l, parts] =>
      match l.toNat?, parseParts parts with
      | some l, some p =>
          let paths := ((getLocs d.s p l).map (fun o => showPath (objPath d.s o))).mergeSort (· ≤ ·)
          (d, if paths.isEmpty then "-" else ";".intercalate paths)
      | _, _ => (d, "bad-op")
  | ["inner", mounts, parts] =>
      -- get_inner_path: mounts `key>target;…` (parts), a path; prints whether the hypothesis of
      -- `inner_path_uses_longest_mount` holds for the table in the code's order, and the host path
      let ms := (mounts.splitOn ";").mapM (fun kt =>
        match kt.splitOn ">" with
        | [k, t] => do
            let k ← parseParts k
            let t ← parseParts t
            pure (⟨k, t⟩ : InnerPath.Mount)
        | _ => none)
      match ms, parseParts parts with
      | some ms, some p =>
          let ordered := SFV.Gen.innerPathOrder ms
          (d, s!"desc={if decide (InnerPath.Desc ordered) then 1 else 0}|" ++
              (match InnerPath.innerPath ordered p with
               | some q => showPath q
               | none => "~"))
      | _, _ => (d, "bad-op")
  | ["fnew"] => ({ d with heap := [], tasks := [] }, "ok")
  | ["floc", dep, isl, t, av] =>
      match dep.toNat?, parseDType t with
      | some dep, some t => ({ d with heap := d.heap ++ [⟨dep, isl = "1", t, av = "1"⟩] }, "ok")
      | _, _ => (d, "bad-op")
  | ["ftype", i, t] =>
      match i.toNat?, parseDType t with
      | some i, some t => ({ d with heap := d.heap.modify i (fun l => { l with dtype := t }) }, "ok")
      | _, _ => (d, "bad-op")
  | ["favail", i] =>
      match i.toNat? with
      | some i => ({ d with heap := d.heap.modify i (fun l => { l with avail := true }) }, "ok")
      | none => (d, "bad-op")
  | ["fask", same, loc, pl] =>
      match parseNats same, parseNats loc, parseNats pl with
      | some same, some loc, some pl =>
          ({ d with tasks := d.tasks ++ [.waiting false (SourceLoc.candidates same loc pl)] }, "ok")
      | _, _, _ => (d, "bad-op")
  | ["ftick"] =>
      let ts := d.tasks.map (SourceLoc.resume SFV.Gen.sourceLocShape d.heap)
      ({ d with tasks := ts }, if ts.isEmpty then "-" else ";".intercalate (ts.map showTask))
  | _ => (d, "bad-op")

def main : IO Unit := runStateful ({} : DSt) step
