"""Thread-safe variant of `sfv.rt.loop.ControlledLoop` (builder a1).

`ControlledLoop._run_once` shuffles the ready handles with

    items = list(self._ready); shuffle(items); self._ready.clear(); self._ready.extend(items)

`loop._ready` is also appended to by OTHER THREADS through `call_soon_threadsafe` (aiosqlite delivers every database result
that way). A handle appended between the snapshot and `clear()` is lost for ever: the coroutine awaiting that database call
never resumes and — the database having one worker thread — the whole workflow stalls. Seen as one-off "hangs" of whole
StreamFlow workflows (about 1 in 80 runs on a loaded machine) that are NOT defects of StreamFlow.

Here the handles present at the start of the iteration are removed one by one with `popleft()` (atomic), shuffled, and put back
at the FRONT with `extendleft`; handles appended concurrently by other threads stay at the right end and are never dropped."""
from __future__ import annotations

import asyncio
import random

from sfv.rt.loop import ControlledLoop


class SafeControlledLoop(ControlledLoop):
    def __init__(self, rng: random.Random | None = None, virtual_time: bool = False, shuffle: bool = True):
        super().__init__(rng, virtual_time=virtual_time, shuffle=False)     # the parent's (unsafe) shuffle stays off
        self._sfv_safe_shuffle = shuffle

    def _run_once(self) -> None:
        if self._sfv_safe_shuffle:
            n = len(self._ready)
            if n > 1:
                items = [self._ready.popleft() for _ in range(n)]
                self._sfv_rng.shuffle(items)
                self._ready.extendleft(reversed(items))
                self.sfv_reorders += 1
        super()._run_once()


def run_controlled(coro_fn, seed: int, timeout: float | None = 60.0, virtual_time: bool = False, shuffle: bool = True):
    """same contract as `sfv.rt.loop.run_controlled`, on a SafeControlledLoop"""
    loop = SafeControlledLoop(random.Random(seed), virtual_time=virtual_time, shuffle=shuffle)
    try:
        asyncio.set_event_loop(loop)

        async def main():
            if timeout is None:
                return await coro_fn()
            return await asyncio.wait_for(coro_fn(), timeout)

        return loop.run_until_complete(main())
    finally:
        try:
            pending = [t for t in asyncio.all_tasks(loop) if not t.done()]
            for t in pending:
                t.cancel()
            if pending:
                loop.run_until_complete(asyncio.gather(*pending, return_exceptions=True))
            loop.run_until_complete(loop.shutdown_asyncgens())
        except Exception:  # noqa: BLE001
            pass
        asyncio.set_event_loop(None)
        loop.close()
