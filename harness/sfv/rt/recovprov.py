"""C07 on recovery workflows: runs a case of a6's recovery harness (`sfv.rt.recov`) and additionally dumps the `token` and
`provenance` tables of the run's database just before the context is closed (the context is built inside `recov._run`, so
`streamflow.main.build_context` is wrapped for the duration of the case)."""
from __future__ import annotations


def run_case_with_db(case: dict) -> dict:
    import streamflow.main as sfmain

    from sfv.rt import recov

    orig = sfmain.build_context
    holder: dict = {}

    def build_context(cfg):
        context = orig(cfg)
        close = context.close

        async def close_and_dump():
            try:
                out = {"tokens": [], "provenance": [], "workflows": 0}
                async with context.database.connection as db:
                    async with db.execute("SELECT id, port, tag, type FROM token ORDER BY id") as cur:
                        for r in await cur.fetchall():
                            out["tokens"].append([r["id"], r["port"], r["tag"], r["type"].rsplit(".", 1)[-1]])
                    async with db.execute("SELECT dependee, depender FROM provenance ORDER BY depender, dependee") as cur:
                        for r in await cur.fetchall():
                            out["provenance"].append([r["dependee"], r["depender"]])
                    async with db.execute("SELECT count(*) AS n FROM workflow") as cur:
                        out["workflows"] = (await cur.fetchone())["n"]
                holder["db"] = out
            except Exception as e:  # noqa: BLE001
                holder["db_error"] = f"{type(e).__name__}: {e}"
            await close()

        context.close = close_and_dump
        return context

    sfmain.build_context = build_context
    try:
        res = recov.run_case(case)
    finally:
        sfmain.build_context = orig
    res["db"] = holder.get("db")
    if "db_error" in holder:
        res["db_error"] = holder["db_error"]
    return res


def table_problems(db: dict) -> list[tuple[str, str]]:
    """dependee id < depender id on every row, both ids exist, no cycle, job outputs linked to a job token"""
    tok = {t[0]: t for t in db["tokens"]}
    problems = []
    succ: dict[int, list[int]] = {}
    for a, b in db["provenance"]:
        if a not in tok or b not in tok:
            problems.append(("dangling", f"provenance row ({a},{b}) refers to a token id that is not in the token table"))
            continue
        if not a < b:
            problems.append(("order", f"provenance row ({a},{b}): dependee id is not smaller than depender id"))
        succ.setdefault(a, []).append(b)
    color: dict[int, int] = {}
    for root in list(succ):
        if color.get(root):
            continue
        stack = [(root, iter(succ.get(root, [])))]
        color[root] = 1
        while stack:
            node, it = stack[-1]
            nxt = next(it, None)
            if nxt is None:
                color[node] = 2
                stack.pop()
            elif color.get(nxt) == 1:
                problems.append(("cycle", f"provenance cycle through token {nxt}"))
                stack.clear()
            elif not color.get(nxt):
                color[nxt] = 1
                stack.append((nxt, iter(succ.get(nxt, []))))
    return problems
