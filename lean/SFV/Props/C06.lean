import SFV.Model.Loop
namespace SFV.C06
open SFV SFV.Loop

theorem number_first (t : Tag) : (number (fun _ => none) t).2 = t ++ [0] := by
  simp [number, Gen.loopFirstSuffix]

end SFV.C06
