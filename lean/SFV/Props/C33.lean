import SFV.Lemmas.Tag
/-! # C33 — tag ordering and tag selection follow numeric component order

Property theorems only (helpers live in `SFV/Lemmas/Tag.lean`). The guards of `compare_tags` and
`get_tag` come from `SFV/Gen/TagGuards.lean`, regenerated from `/repo` on every run. -/
namespace SFV.C33
open SFV

/-- antisymmetry: swapping the arguments negates the result -/
theorem cmp_antisymm (a b : Tag) : compareTags a b = - compareTags b a :=
  compareTags_antisymm a b

/-- the comparison is 0 exactly on equal tags -/
theorem cmp_eq_zero_iff (a b : Tag) : compareTags a b = 0 ↔ a = b := by
  constructor
  · intro h
    unfold compareTags at h
    simp only [Gen.cmpLenTest, Gen.cmpLen, bne_iff_ne, ne_eq, ite_not] at h
    split at h
    · rename_i hl
      exact cmpComps_eq_zero (by omega) h
    · rename_i hl; exact absurd h hl
  · rintro rfl
    simp [compareTags, Gen.cmpLenTest, Gen.cmpLen, cmpComps_self]

/-- depth first: a shallower tag always precedes a deeper one -/
theorem cmp_depth_first (a b : Tag) (h : a.length < b.length) : compareTags a b < 0 := by
  unfold compareTags
  simp only [Gen.cmpLenTest, Gen.cmpLen, bne_iff_ne, ne_eq, ite_not]
  rw [if_neg (by omega)]; omega

/-- at equal depth the first differing component decides, numerically -/
theorem cmp_numeric (p r1 r2 : List Nat) (x y : Nat) (hr : r1.length = r2.length) (hxy : x < y) :
    compareTags (p ++ x :: r1) (p ++ y :: r2) < 0 := by
  unfold compareTags
  simp only [Gen.cmpLenTest, Gen.cmpLen, bne_iff_ne, ne_eq, ite_not, List.length_append,
    List.length_cons, hr]
  rw [if_pos (by omega)]
  induction p with
  | nil =>
    simp only [List.nil_append, cmpComps, Gen.cmpElemTest, Gen.cmpElem, bne_iff_ne, ne_eq]
    rw [if_pos (by omega)]; omega
  | cons a p ih =>
    simp only [List.cons_append, cmpComps, Gen.cmpElemTest, Gen.cmpElem, bne_iff_ne, ne_eq]
    rw [if_neg (by omega)]; exact ih

/-- `0.10` follows `0.9` (numeric, not lexicographic) -/
example : compareTags [0, 9] [0, 10] < 0 := cmp_numeric [0] [] [] 9 10 rfl (by omega)
example : compareTags [0, 9] [0, 10] < 0 := by decide

/-- transitivity (strict and weak forms) -/
theorem cmp_trans (a b c : Tag) :
    (compareTags a b < 0 → compareTags b c < 0 → compareTags a c < 0) ∧
    (compareTags a b ≤ 0 → compareTags b c ≤ 0 → compareTags a c ≤ 0) := by
  unfold compareTags
  simp only [Gen.cmpLenTest, Gen.cmpLen, bne_iff_ne, ne_eq, ite_not]
  by_cases hab : (a.length : Int) - b.length = 0 <;> by_cases hbc : (b.length : Int) - c.length = 0 <;>
    by_cases hac : (a.length : Int) - c.length = 0 <;> simp only [hab, hbc, hac, if_true, if_false]
  · have h := cmpComps_trans (a := a) (b := b) (c := c) (by omega) (by omega)
    exact ⟨fun h1 h2 => h.1 h1 (Int.le_of_lt h2), h.2.2⟩
  all_goals first | omega | (constructor <;> intros <;> omega)

/-- totality: any two tags are equal or strictly ordered one way -/
theorem cmp_total (a b : Tag) : compareTags a b < 0 ∨ a = b ∨ compareTags b a < 0 := by
  have h1 := cmp_antisymm a b
  have h2 := cmp_eq_zero_iff a b
  by_cases h0 : compareTags a b = 0
  · exact Or.inr (Or.inl (h2.mp h0))
  · by_cases hlt : compareTags a b < 0
    · exact Or.inl hlt
    · exact Or.inr (Or.inr (by omega))

/-- the two facts `List.mergeSort` needs about `compare_tags ≤ 0` -/
private theorem le_trans' (a b c : Tag) : decide (compareTags a b ≤ 0) = true → decide (compareTags b c ≤ 0) = true →
    decide (compareTags a c ≤ 0) = true := by
  intro h1 h2
  simp only [decide_eq_true_eq] at *
  exact (cmp_trans a b c).2 h1 h2

private theorem le_total' (a b : Tag) : (decide (compareTags a b ≤ 0) || decide (compareTags b a ≤ 0)) = true := by
  have := cmp_antisymm a b
  simp only [Bool.or_eq_true, decide_eq_true_eq]; omega

/-- `sorted(tags, key=cmp_to_key(compare_tags))` is ordered and a permutation of its input -/
theorem sort_tags_sorted (l : List Tag) :
    (sortTags l).Pairwise (fun a b => compareTags a b ≤ 0) ∧ (sortTags l).Perm l := by
  refine ⟨?_, List.mergeSort_perm l _⟩
  have := List.pairwise_mergeSort le_trans' le_total' l
  exact this.imp (by intro a b h; simpa using h)

/-- **sorting by `compare_tags` does not depend on the arrival order, duplicates included**: any two permutations of
    the same multiset of tags (any length, any depth, any component size) sort to the same list — because
    `compare_tags` is a total order whose only ties are equal tags. -/
theorem sort_tags_perm_invariant (l l' : List Tag) (hp : l.Perm l') : sortTags l = sortTags l' := by
  have s1 := List.pairwise_mergeSort le_trans' le_total' l
  have s2 := List.pairwise_mergeSort le_trans' le_total' l'
  have p : (sortTags l).Perm (sortTags l') :=
    (List.mergeSort_perm l _).trans (hp.trans (List.mergeSort_perm l' _).symm)
  refine List.Perm.eq_of_pairwise ?_ s1 s2 p
  intro a b _ _ h1 h2
  simp only [decide_eq_true_eq] at h1 h2
  have := cmp_antisymm a b
  exact (cmp_eq_zero_iff a b).mp (by omega)

/-- a list that is already strictly increasing is what every permutation of it sorts to (`0.9` before `0.10`) -/
theorem sort_tags_of_sorted (l l' : List Tag) (hp : l'.Perm l)
    (hs : l.Pairwise (fun a b => compareTags a b < 0)) : sortTags l' = l := by
  rw [sort_tags_perm_invariant l' l hp]
  exact List.mergeSort_of_pairwise (hs.imp (by intro a b h; simp only [decide_eq_true_eq]; omega))

example : sortTags [[0, 10], [0, 9], [0]] = [[0], [0, 9], [0, 10]] :=
  sort_tags_of_sorted _ _ ((List.Perm.swap ..).trans ((List.Perm.swap ..).cons _ |>.trans (List.Perm.swap ..))) (by decide)

/-- `ts` is a prefix chain whose deepest element is `d` -/
def DeepestOfChain (ts : List Tag) (d : Tag) : Prop :=
  d ∈ ts ∧ (∀ t ∈ ts, t ≠ []) ∧ ∀ t ∈ ts, t <+: d

/-- **Exact characterisation of `get_tag` on prefix chains.** The chosen tag is the deepest tag of the
chain iff that tag's dotted string is longer than one character or it is `0` itself. -/
theorem get_tag_chain (ts : List Tag) (d : Tag) (h : DeepestOfChain ts d) :
    getTag ts = d ↔ (1 < strLen d ∨ d = [0]) := by
  obtain ⟨hd, hne, hpre⟩ := h
  have h0 : strLen [0] = 1 := by simp [strLen, nd]
  have hle : ∀ t ∈ ts, strLen t ≤ strLen d := fun t ht => strLen_le_of_prefix (hne t ht) (hpre t ht)
  unfold getTag
  simp only [Gen.getTagDefault]
  constructor
  · intro hr
    by_cases h1 : 1 < strLen d
    · exact Or.inl h1
    · right
      have : getTagLoop [0] ts = [0] := getTagLoop_stays _ _ (fun t ht => by have := hle t ht; omega)
      rw [← hr, this]
  · rintro (h1 | rfl)
    · obtain ⟨hm, hmax⟩ := getTagLoop_max [0] ts
      have hdmax := hmax d (List.mem_cons_of_mem _ hd)
      rcases List.mem_cons.mp hm with he | hm'
      · rw [he, h0] at hdmax; omega
      · by_cases e : getTagLoop [0] ts = d
        · exact e
        · have := strLen_lt_of_prefix (hne _ hm') (hpre _ hm') e; omega
    · exact getTagLoop_stays _ _ (fun t ht => by have := hle t ht; omega)

/-- engine tags are rooted at `0`: for them `get_tag` always returns the deepest tag of a chain -/
theorem get_tag_deepest_of_chain_partial (ts : List Tag) (d : Tag) (h : DeepestOfChain ts d)
    (hroot : d.head? = some 0) : getTag ts = d := by
  refine (get_tag_chain ts d h).mpr ?_
  match d, hroot with
  | [_], hr => right; simpa using hr
  | a :: b :: r, _ => left; simp only [strLen]; have := nd_pos a; have := strLen_pos (t := b :: r) (by simp); omega

/-- the full-strength statement (every prefix chain, rooted or not) is FALSE of the code:
    `get_tag` on the one-element chain `5` answers `0`. Recorded as a known finding. -/
theorem get_tag_deepest_full_false :
    ¬ (∀ (ts : List Tag) (d : Tag), DeepestOfChain ts d → getTag ts = d) := by
  intro h
  have := h [[5]] [5] ⟨by simp, by simp, by simp⟩
  simp [getTag, getTagLoop, Gen.getTagDefault, Gen.getTagTakes, strLen, nd] at this

/-- non-vacuity: a three-element rooted chain with a two-digit component -/
example : DeepestOfChain [[0], [0, 11, 3], [0, 11]] [0, 11, 3] := by
  refine ⟨by simp, by simp, ?_⟩
  intro t ht
  simp only [List.mem_cons, List.mem_nil_iff, or_false] at ht
  rcases ht with rfl | rfl | rfl <;> decide

/-- a path component `PurePosixPath` keeps verbatim -/
def Clean (w : List Char) : Prop := w ≠ [] ∧ w ≠ ['.'] ∧ '/' ∉ w

/-- **A job name splits back into its step name and tag.** For every normalised absolute step path
`/c₁/…/cₙ` (n ≥ 0) and every clean tag string, `get_job_step_name (join step tag) = step` and
`get_job_tag (join step tag) = tag`. -/
theorem job_name_splits (comps : List (List Char)) (tag : List Char)
    (hc : ∀ w ∈ comps, Clean w) (ht : Clean tag) :
    ppParent (posixJoin ('/' :: joinSlash comps) tag) = '/' :: joinSlash comps ∧
    ppName (posixJoin ('/' :: joinSlash comps) tag) = tag := by
  have hjob : posixJoin ('/' :: joinSlash comps) tag = '/' :: joinSlash (comps ++ [tag]) := by
    by_cases hcomps : comps = []
    · subst hcomps; simp [posixJoin, joinSlash]
    · rw [joinSlash_append_singleton _ _ hcomps]
      unfold posixJoin
      have hlast : ('/' :: joinSlash comps).getLast? ≠ some '/' := by
        have hjne : joinSlash comps ≠ [] := by
          intro e
          have := getLast?_joinSlash comps hcomps (fun w hw => (hc w hw).1)
          rw [e] at this; simp at this
          exact (hc _ (List.getLast_mem hcomps)).1 (by simpa using this.symm)
        rw [List.getLast?_cons_of_ne_nil hjne, getLast?_joinSlash comps hcomps (fun w hw => (hc w hw).1)]
        intro e
        have hmem := List.mem_of_getLast? e
        exact (hc _ (List.getLast_mem hcomps)).2.2 hmem
      simp [hlast]
  have hws : ∀ w ∈ comps ++ [tag], Clean w := by
    intro w hw
    rcases List.mem_append.mp hw with h | h
    · exact hc w h
    · simp at h; subst h; exact ht
  have hsplit : splitSlash ('/' :: joinSlash (comps ++ [tag])) = [] :: (comps ++ [tag]) := by
    have := splitSlash_joinSlash (comps ++ [tag]) (by simp) (fun w hw => (hws w hw).2.2)
    simp only [splitSlash, this]
    cases hcs : comps ++ [tag] with
    | nil => simp at hcs
    | cons w ws => simp
  have hparts : ppParts ('/' :: joinSlash (comps ++ [tag])) = comps ++ [tag] := by
    unfold ppParts
    rw [hsplit]
    simp only [ne_eq, not_true_eq_false, false_and, decide_false, Bool.false_eq_true,
      not_false_eq_true, List.filter_cons_of_neg]
    apply List.filter_eq_self.mpr
    intro w hw
    have := hws w hw
    simp [this.1, this.2.1]
  have hroot : ppRoot ('/' :: joinSlash (comps ++ [tag])) = ['/'] := by
    have hfirst : ∃ c r, joinSlash (comps ++ [tag]) = c :: r ∧ c ≠ '/' := by
      cases hcs : comps ++ [tag] with
      | nil => simp at hcs
      | cons w ws =>
        have hw := hws w (by rw [hcs]; simp)
        obtain ⟨hwne, _, hns⟩ := hw
        cases w with
        | nil => exact absurd rfl hwne
        | cons c r =>
          have hc' : c ≠ '/' := fun e => hns (by simp [e])
          cases ws with
          | nil => exact ⟨c, r, by simp [joinSlash], hc'⟩
          | cons w' ws' => exact ⟨c, r ++ '/' :: joinSlash (w' :: ws'), by simp [joinSlash], hc'⟩
    obtain ⟨c, r, hj, hc'⟩ := hfirst
    rw [hj]
    simp only [ppRoot]
    split <;> simp_all
  rw [hjob]
  refine ⟨?_, ?_⟩
  · unfold ppParent ppRender
    rw [hparts, hroot]
    simp
  · unfold ppName
    rw [hparts]
    simp

/-- non-vacuity: `/wf/step-a` with tag `0.10` -/
example : Clean "wf".toList ∧ Clean "step-a".toList ∧ Clean "0.10".toList := by
  refine ⟨⟨by decide, by decide, by decide⟩, ⟨by decide, by decide, by decide⟩, ⟨by decide, by decide, by decide⟩⟩

end SFV.C33
