import SFV.Model.RunCrate
import SFV.Model.Proto
open SFV SFV.Proto SFV.RunCrate

def parseRefs (s : String) : Option (List String) :=
  if s = "_" then some [] else (s.splitOn ",").mapM stringOfHex

/-- entities as triples `idhex f0|f1 refs`, then the literal token `names`, then the archive member names (hex) -/
partial def parseEntities : List String → Option (List Entity × List String)
  | "names" :: r => some ([], r)
  | i :: f :: rs :: rest => do
      let id ← stringOfHex i
      let refs ← parseRefs rs
      let (es, names) ← parseEntities rest
      pure ({ id := id, isFile := f == "f1", refs := refs } :: es, names)
  | _ => none

def b2s (b : Bool) : String := if b then "1" else "0"

def parseLeaf (s : String) : Option Leaf :=
  if s = "n" then some .null
  else if s.startsWith "s" then (stringOfHex (String.ofList (s.toList.drop 1))).map .scalar
  else if s.startsWith "f" then
    match (String.ofList (s.toList.drop 1)).splitOn ":" with
    | [a, b] => do
        let sha ← stringOfHex a
        let path ← stringOfHex b
        pure (.file sha path)
    | _ => none
  else none

def parseTok (s : String) : Option TokVal :=
  if s = "l" then some (.list [])
  else if s.startsWith "l" then ((String.ofList (s.toList.drop 1)).splitOn ";").mapM parseLeaf |>.map .list
  else (parseLeaf s).map .leaf

partial def parseToks : List String → Option (List (String × String × TokVal))
  | [] => some []
  | f :: n :: v :: r => do
      let fresh ← stringOfHex f
      let name ← stringOfHex n
      let tok ← parseTok v
      let rest ← parseToks r
      pure ((fresh, name, tok) :: rest)
  | _ => none

def hexOrUnderscore (l : List String) : String := if l.isEmpty then "_" else ",".intercalate (l.map hexOfString)

def handle : List String → String
  | "crate" :: rest =>
      match parseEntities rest with
      | some (es, nameHex) =>
          match nameHex.mapM stringOfHex with
          | some names =>
              -- replay the same entities through the manager model: put each entity, register each file
              let ops : List Op := es.map Op.put ++ (es.filter (·.isFile)).map (fun e => Op.mapFile ("src:" ++ e.id) e.id)
              let c := run ops
              "unique:" ++ b2s (idsUnique es) ++ " closed:" ++ b2s (refsClosed es) ++ " files:" ++ b2s (filesPresent es names) ++
              " model-unique:" ++ b2s (idsUnique (emitted c)) ++ " model-size:" ++ toString (emitted c).length ++
              " model-archive:" ++ toString (archiveNames (fun _ => true) c.files []).length
          | none => "bad-op"
      | none => "bad-op"
  | "io" :: rest =>
      match parseToks rest with
      | some toks =>
          let c0 := run [.put { id := "./" }, .put { id := "#run" }]
          let c := registerAll c0 "#run" toks
          let es := emitted c
          let linked := (es.filter (·.id == "#run")).flatMap (·.refs)
          let pvs := es.filter (fun e => e.name != "" && linked.contains e.id)
          let files := es.filter (fun e => e.isFile && linked.contains e.id)
          "pv:" ++ (if pvs.isEmpty then "_" else ";".intercalate (pvs.map (fun e => hexOfString e.name ++ "=" ++ hexOrUnderscore e.values ++
            (if jsonValueIsScalar e then "!" else "")))) ++
          " files:" ++ hexOrUnderscore (files.map (·.id)) ++ " unique:" ++ b2s (idsUnique es) ++ " closed:" ++ b2s (refsClosed es)
      | none => "bad-op"
  | _ => "bad-op"

def main : IO Unit := runPure handle
