/-! # Abstract job-step model for C16: deterministic jobs over a store of available data

A workflow is a set of jobs `j` with dependencies `deps j` and a deterministic function `f j` of the values of its
dependencies (schedule + transfer + execute collapsed into `stage` = the inputs are copied into the job's own input
directory, and `exec` = the command runs on the staged copies and its output becomes available). Failures and recovery
are just more actions: `lose j` (fail-stop: the job's directories — its staged inputs and its output — are gone),
`failAttempt j` (a soft failure: nothing changes), and re-executions are further `stage` / `exec` actions in any order
the recovery workflows choose. What is abstracted: file contents are values, the data manager and `is_available` are the
`store`, tags and scatter/loop structure are flattened into job identities, the retry limit (C17) and which jobs a
recovery selects (C18) are not constrained — the theorem holds for *every* action sequence. -/
namespace SFV.JobNet

structure Net where
  deps : Nat → List Nat
  f : Nat → List Int → Int

structure St where
  store : Nat → Option Int            -- output data of job j available
  staged : Nat → Option (List Int)    -- inputs of job j staged in its input directory

inductive Act
  | stage (j : Nat) | exec (j : Nat) | lose (j : Nat) | failAttempt (j : Nat)
deriving Repr, DecidableEq

def init : St := ⟨fun _ => none, fun _ => none⟩

/-- the values of the dependencies, if all are available -/
def gather (s : St) : List Nat → Option (List Int)
  | [] => some []
  | d :: ds => match s.store d, gather s ds with
    | some v, some vs => some (v :: vs)
    | _, _ => none

def step (net : Net) (s : St) : Act → Option St
  | .stage j => match gather s (net.deps j) with
    | some vs => some { s with staged := fun k => if k = j then some vs else s.staged k }
    | none => none
  | .exec j => match s.staged j with
    | some vs => some { s with store := fun k => if k = j then some (net.f j vs) else s.store k }
    | none => none
  | .lose j => some { store := fun k => if k = j then none else s.store k, staged := fun k => if k = j then none else s.staged k }
  | .failAttempt _ => some s

inductive Reachable (net : Net) : St → Prop
  | init : Reachable net init
  | step {s a s'} : Reachable net s → step net s a = some s' → Reachable net s'

def runActs (net : Net) (s : St) : List Act → Option St
  | [] => some s
  | a :: as => match step net s a with
    | some s' => runActs net s' as
    | none => none

/-- `den` solves the workflow's equations: the failure-free semantics -/
def Sol (net : Net) (den : Nat → Int) : Prop := ∀ j, den j = net.f j ((net.deps j).map den)

end SFV.JobNet
