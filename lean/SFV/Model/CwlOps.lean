import SFV.Gen.CwlOpsGen
/-! # CwlOps — the dataflow operators the CWL translator composes, next to the CWL standard's definitions

StreamFlow side (as the code is): tokens carry tags; `ScatterStep` appends the element index, the cartesian /
dot-product combinators build composite tags, `GatherStep` sorts what arrived by tag (numerically) and groups by tag
prefix; `CWLEmptyScatterConditionalStep` short-circuits empty scatters; `ListMergeCombinator` (+ `_flatten_token_list`)
implements `linkMerge` over a *dict keyed by source name*; `FirstNonNull/OnlyNonNull/AllNonNullTransformer` implement
`pickValue`; `CWLConditionalStep` implements `when`.

Spec side: the CWL v1.2 standard's definitions written independently (`spec…`). -/
namespace SFV.CwlOps

/-! ## The standard -/

def specDot (f : α → β → γ) (xs : List α) (ys : List β) : Option (List γ) :=
  if xs.length = ys.length then some (List.zipWith f xs ys) else none

/-- flat_crossproduct: "the first input varies slowest" — row-major -/
def specFlat (f : α → β → γ) (xs : List α) (ys : List β) : List γ :=
  xs.flatMap (fun x => ys.map (f x))

/-- nested_crossproduct: one inner array per element of the first input -/
def specNested (f : α → β → γ) (xs : List α) (ys : List β) : List (List γ) :=
  xs.map (fun x => ys.map (f x))

/-- a `linkMerge` source: a single value or an array -/
inductive Src (α : Type) where
  | one (v : α)
  | many (vs : List α)

def specMergeNested (srcs : List α) : List α := srcs

def specMergeFlattened (srcs : List (Src α)) : List α :=
  srcs.flatMap (fun s => match s with | .one v => [v] | .many vs => vs)

inductive PickErr | allNull | multipleNonNull | notAList
deriving DecidableEq, Repr

def specFirstNonNull : List (Option α) → Except PickErr α
  | [] => .error .allNull
  | some v :: _ => .ok v
  | none :: r => specFirstNonNull r

def specOnlyNonNull (vs : List (Option α)) : Except PickErr α :=
  match vs.filterMap id with
  | [] => .error .allNull
  | [v] => .ok v
  | _ => .error .multipleNonNull

def specAllNonNull (vs : List (Option α)) : List α := vs.filterMap id

/-- `when`: a skipped step yields `null` on every output -/
def specWhen (cond : Bool) (outs : List α) : List (Option α) :=
  if cond then outs.map some else outs.map (fun _ => none)

/-! ## StreamFlow: tags, scatter, combinators, gather -/

abbrev Tok (γ : Type) := List Nat × γ

/-- numeric lexicographic order on tag suffixes (what `compare_tags` does at equal depth) -/
def lexLe : List Nat → List Nat → Bool
  | [], _ => true
  | _ :: _, [] => false
  | a :: as, b :: bs => a < b || (a == b && lexLe as bs)

/-- `GatherStep`: emit the collected elements sorted by tag -/
def gatherSort (toks : List (Tok γ)) : List γ :=
  (toks.mergeSort (fun a b => lexLe a.1 b.1)).map (·.2)

/-- `ScatterStep`: element `i` gets the tag suffix `[i]` (indices from `start`) -/
def scatterFrom (start : Nat) : List α → List (Tok α)
  | [] => []
  | x :: xs => ([start], x) :: scatterFrom (start + 1) xs

def scatterToks (xs : List α) : List (Tok α) := scatterFrom 0 xs

/-- `CartesianProductCombinator` + execute: every pair once, tag = concatenation of the two suffixes
(listed here in row-major order; the engine emits them in any order) -/
def cartToks (f : α → β → γ) (xs : List α) (ys : List β) : List (Tok γ) :=
  (scatterToks xs).flatMap (fun a => (scatterToks ys).map (fun b => (a.1 ++ b.1, f a.2 b.2)))

/-- the row of the cross product belonging to element `i` of the first input -/
def rowToks (f : α → β → γ) (i : Nat) (x : α) (ys : List β) : List (Tok γ) :=
  (scatterToks ys).map (fun b => ([i] ++ b.1, f x b.2))

/-- `DotProductCombinator` + execute: tokens with equal tags are paired -/
def dotToks (f : α → β → γ) (xs : List α) (ys : List β) : List (Tok γ) :=
  List.zipWith (fun a b => (a.1, f a.2 b.2)) (scatterToks xs) (scatterToks ys)

inductive Method | dot | flat | nested
deriving DecidableEq, Repr

/-- `CWLEmptyScatterConditionalStep._on_false` for two scatter inputs of element type γ: the value put on the
output port when some scatter input is empty (`none`: no input is empty, the scatter runs) -/
def emptyTriggered (sizes : List Nat) : Bool :=
  match Gen.CwlOpsGen.emptyGuard with
  | .allNonEmpty => sizes.any (· == 0)      -- `_eval` = all inputs non-empty; the short cut fires otherwise
  | .anyNonEmpty => sizes.all (· == 0)

def emptyScatterFlat (sizes : List Nat) : Option (List γ) :=
  if emptyTriggered sizes then some [] else none

def emptyScatterNested (sizes : List Nat) : Option (List (List γ)) :=
  if emptyTriggered sizes then
    some (match Gen.CwlOpsGen.nestedEmpty with
      | .onePerInput => sizes.map (fun _ => [])
      | .none => [])
  else none

/-- scatter over one input, any arrival order of the results -/
def sfScatter1 (xs : List α) (arrival : List (Tok γ)) : List γ :=
  match emptyScatterFlat [xs.length] with
  | some r => r
  | none => gatherSort arrival

/-- flat_crossproduct: one `GatherStep` of depth 2 -/
def sfFlat (xs : List α) (ys : List β) (arrival : List (Tok γ)) : List γ :=
  match emptyScatterFlat [xs.length, ys.length] with
  | some r => r
  | none => gatherSort arrival

/-- dotproduct: `DotProductSizeTransformer` fails on different sizes, then one `GatherStep` of depth 1 -/
def sfDot (xs : List α) (ys : List β) (arrival : List (Tok γ)) : Option (List γ) :=
  match emptyScatterFlat [xs.length, ys.length] with
  | some r => some r
  | none => if xs.length = ys.length then some (gatherSort arrival) else none

/-- nested_crossproduct: a chain of two `GatherStep`s; `rows` = what the inner gather emitted for each prefix
(already sorted by the inner gather), arriving at the outer gather in any order -/
def sfNested (xs : List α) (ys : List β) (rowsArrival : List (Tok (List γ))) : List (List γ) :=
  match emptyScatterNested [xs.length, ys.length] with
  | some r => r
  | none => gatherSort rowsArrival

/-! ## StreamFlow: linkMerge, pickValue, when -/

/-- `_create_list_merger` hands `ListMergeCombinator` a *dict* of ports keyed by source name: a source listed
twice is one entry (first position kept) -/
def dedupKeys : List (String × α) → List (String × α)
  | [] => []
  | (k, v) :: r => (k, v) :: (dedupKeys r).filter (fun p => p.1 != k)

def sfMergeNested (srcs : List (String × α)) : List α := (dedupKeys srcs).map (·.2)

/-- `ListMergeCombinator.combine` at run time: the underlying `DotProductCombinator` stores the token of every input port as
it arrives (any order); when all ports are present the output lists them **by `input_names`**, not by arrival -/
def collectByName (arrivals : List (String × α)) (names : List String) : List (Option α) :=
  names.map (fun n => arrivals.lookup n)

/-- a source as `_flatten_token_list` sees it: a plain token or a `ListToken` whose elements carry tags -/
inductive TSrc (α : Type) where
  | one (v : α)
  | many (elems : List (Tok α))

/-- stable insertion sort by the last tag component (`sorted(..., key=int(tag.split(".")[-1]))`) -/
def insertByLast (t : Tok α) : List (Tok α) → List (Tok α)
  | [] => [t]
  | u :: r => if t.1.getLast?.getD 0 ≤ u.1.getLast?.getD 0 then t :: u :: r else u :: insertByLast t r

def sortByLast : List (Tok α) → List (Tok α)
  | [] => []
  | t :: r => insertByLast t (sortByLast r)

/-- the `sorted(..., key=…)` of `_flatten_token_list` (key regenerated from the source) -/
def flattenSort (l : List (Tok α)) : List (Tok α) :=
  match Gen.CwlOpsGen.flattenKey with
  | .lastTagComponent => sortByLast l
  | .none => l

/-- `merge_flattened` over sources whose own tags are all equal (the translator's case) -/
def sfMergeFlattened (srcs : List (String × TSrc α)) : List α :=
  (dedupKeys srcs).flatMap (fun p => match p.2 with
    | .one v => [v]
    | .many elems => (flattenSort elems).map (·.2))

def sfFirstNonNull : List (Option α) → Except PickErr α
  | [] => .error .allNull
  | t :: r => match t with
    | some v => .ok v
    | none => sfFirstNonNull r

/-- `OnlyNonNullTransformer._transform`: the loop with `ret` -/
def sfOnlyLoop : Option α → List (Option α) → Except PickErr (Option α)
  | ret, [] => .ok ret
  | ret, t :: r => match t with
    | some v => match ret with
      | some _ => .error .multipleNonNull
      | none => sfOnlyLoop (some v) r
    | none => sfOnlyLoop ret r

def sfOnlyNonNull (vs : List (Option α)) : Except PickErr α :=
  match sfOnlyLoop none vs with
  | .error e => .error e
  | .ok none => .error .allNull
  | .ok (some v) => .ok v

def sfAllNonNull (vs : List (Option α)) : List α :=
  (vs.filter (fun t => t.isSome)).filterMap id

/-- `CWLConditionalStep`: `_on_true` forwards the step's outputs, `_on_false` puts `None` on every skip port -/
def sfWhen (cond : Bool) (outs : List α) : List (Option α) :=
  match cond with
  | true => outs.map some
  | false => outs.map (fun _ => none)

end SFV.CwlOps
