import SFV.Model.Graph
/-! Helper lemmas for C20: the representation invariant of `DirectedGraph`, the closure specification of
    `remove_nodes`, one characterisation lemma per loop of the code, and the loop invariant of the stack
    algorithm. -/
namespace SFV.Graph

/-- representation invariant: both maps have the same keys, the two views mirror each other, every edge
    joins existing nodes, and the "sets" are duplicate free -/
structure Inv (g : G) : Prop where
  keys : g.sk = g.pk
  mirror : ∀ u v, v ∈ g.succ u ↔ u ∈ g.pred v
  closed : ∀ u v, v ∈ g.succ u → u ∈ g.sk ∧ v ∈ g.sk
  nodupK : g.sk.Nodup
  nodupS : ∀ u, (g.succ u).Nodup
  nodupP : ∀ u, (g.pred u).Nodup

/-- the specification of `remove_nodes`: the least set containing the existing targets and, when pruning,
    every node that has a successor and all of whose successors are in the set -/
inductive Closure (prune : Bool) (g : G) (T : List Nat) : Nat → Prop
  | base {n} : n ∈ T → n ∈ g.sk → Closure prune g T n
  | step {p c} : prune = true → p ∈ g.sk → c ∈ g.succ p → (∀ s ∈ g.succ p, Closure prune g T s) →
      Closure prune g T p

theorem closure_noprune {g : G} {T : List Nat} {n : Nat} : Closure false g T n ↔ n ∈ T ∧ n ∈ g.sk := by
  constructor
  · intro h
    cases h with
    | base h1 h2 => exact ⟨h1, h2⟩
    | step hp => cases hp
  · rintro ⟨h1, h2⟩; exact .base h1 h2

theorem closure_mem_sk {prune g T n} (h : Closure prune g T n) : n ∈ g.sk := by
  cases h with
  | base _ h2 => exact h2
  | step _ h2 => exact h2

@[simp] theorem mem_discard {l : List Nat} {c x : Nat} : x ∈ discard l c ↔ x ∈ l ∧ x ≠ c := by
  simp [discard]

@[simp] theorem mem_setAdd {l : List Nat} {a x : Nat} : x ∈ setAdd l a ↔ x ∈ l ∨ x = a := by
  unfold setAdd; split <;> simp <;> grind

theorem nodup_discard {l : List Nat} (c : Nat) (h : l.Nodup) : (discard l c).Nodup := h.filter _

theorem nodup_setAdd {l : List Nat} (a : Nat) (h : l.Nodup) : (setAdd l a).Nodup := by
  unfold setAdd; split
  · exact h
  · rename_i hn
    exact List.nodup_append.mpr ⟨h, by simp, by simp; grind⟩

@[simp] theorem upd_same (f k v) : upd f k v k = v := by simp [upd]
theorem upd_apply (f k v x) : upd f k v x = if x = k then v else f x := rfl

/-! ### `_add_node`, `add` -/

theorem inv_empty : Inv G.empty := by
  constructor <;> simp [G.empty]

theorem addNode_sk_mem (g : G) (n x : Nat) : x ∈ (g.addNode n).sk ↔ x ∈ g.sk ∨ x = n := by
  unfold G.addNode; split <;> simp <;> grind

theorem addNode_succ_mem (g : G) (hI : Inv g) (n u v : Nat) : v ∈ (g.addNode n).succ u ↔ v ∈ g.succ u := by
  unfold G.addNode; split
  · rfl
  · rename_i hn
    simp only [upd_apply]
    split
    · subst_vars
      constructor
      · simp
      · intro h; exact absurd (hI.closed _ _ h).1 hn
    · rfl

theorem addNode_pred_mem (g : G) (hI : Inv g) (n u v : Nat) : v ∈ (g.addNode n).pred u ↔ v ∈ g.pred u := by
  unfold G.addNode; split
  · rfl
  · rename_i hn
    simp only [upd_apply]
    split
    · subst_vars
      constructor
      · simp
      · intro h; exact absurd (hI.closed _ _ ((hI.mirror _ _).mpr h)).2 hn
    · rfl

theorem inv_addNode (g : G) (hI : Inv g) (n : Nat) : Inv (g.addNode n) := by
  unfold G.addNode; split
  · exact hI
  · rename_i hn
    have h1 := addNode_succ_mem g hI n
    have h2 := addNode_pred_mem g hI n
    simp only [G.addNode, hn, if_false] at h1 h2
    refine ⟨by simp [hI.keys], ?_, ?_, ?_, ?_, ?_⟩
    · intro u v; rw [h1, h2]; exact hI.mirror u v
    · intro u v h; rw [h1] at h; have := hI.closed u v h; simp; grind
    · exact List.nodup_append.mpr ⟨hI.nodupK, by simp, by simp; grind⟩
    · intro u; simp only [upd_apply]; split
      · simp
      · exact hI.nodupS u
    · intro u; simp only [upd_apply]; split
      · simp
      · exact hI.nodupP u

theorem add_sk_mem (g : G) (u : Nat) (v : Option Nat) (x : Nat) :
    x ∈ (g.add u v).sk ↔ x ∈ g.sk ∨ x = u ∨ some x = v := by
  cases v with
  | none => simp [G.add, addNode_sk_mem]
  | some w => simp [G.add, addNode_sk_mem] <;> grind

theorem add_succ_mem (g : G) (hI : Inv g) (u : Nat) (v : Option Nat) (a b : Nat) :
    b ∈ (g.add u v).succ a ↔ b ∈ g.succ a ∨ (a = u ∧ some b = v) := by
  cases v with
  | none => simp [G.add, addNode_succ_mem g hI]
  | some w =>
    have hI1 := inv_addNode g hI u
    simp only [G.add, upd_apply]
    split
    · subst_vars
      simp [addNode_succ_mem _ hI1, addNode_succ_mem g hI] <;> grind
    · simp [addNode_succ_mem _ hI1, addNode_succ_mem g hI] <;> grind

theorem add_pred_mem (g : G) (hI : Inv g) (u : Nat) (v : Option Nat) (a b : Nat) :
    b ∈ (g.add u v).pred a ↔ b ∈ g.pred a ∨ (b = u ∧ some a = v) := by
  cases v with
  | none => simp [G.add, addNode_pred_mem g hI]
  | some w =>
    have hI1 := inv_addNode g hI u
    simp only [G.add, upd_apply]
    split
    · subst_vars
      simp [addNode_pred_mem _ hI1, addNode_pred_mem g hI] <;> grind
    · simp [addNode_pred_mem _ hI1, addNode_pred_mem g hI] <;> grind

theorem inv_add (g : G) (hI : Inv g) (u : Nat) (v : Option Nat) : Inv (g.add u v) := by
  cases v with
  | none => exact inv_addNode g hI u
  | some w =>
    have hI1 := inv_addNode g hI u
    have hI2 := inv_addNode _ hI1 w
    have hs := add_succ_mem g hI u (some w)
    have hp := add_pred_mem g hI u (some w)
    have hk := add_sk_mem g u (some w)
    refine ⟨?_, ?_, ?_, ?_, ?_, ?_⟩
    · exact hI2.keys
    · intro a b; rw [hs, hp]; have := hI.mirror a b; grind
    · intro a b h; rw [hs] at h; rw [hk, hk]
      rcases h with h | ⟨rfl, h⟩
      · have := hI.closed a b h; grind
      · grind
    · exact hI2.nodupK
    · intro a; simp only [G.add, upd_apply]; split
      · exact nodup_setAdd _ (hI2.nodupS _)
      · exact hI2.nodupS _
    · intro a; simp only [G.add, upd_apply]; split
      · exact nodup_setAdd _ (hI2.nodupP _)
      · exact hI2.nodupP _

/-! ### the two inner loops of `remove_nodes` -/

theorem dropFromPreds_pk (cur : Nat) (l : List Nat) (g : G) : (dropFromPreds cur l g).pk = g.pk := by
  induction l generalizing g with
  | nil => rfl
  | cons a l ih => simp [dropFromPreds, ih]

theorem dropFromPreds_succ (cur : Nat) (l : List Nat) (g : G) : (dropFromPreds cur l g).succ = g.succ := by
  induction l generalizing g with
  | nil => rfl
  | cons a l ih => simp [dropFromPreds, ih]

theorem dropFromPreds_pred_mem (cur : Nat) (l : List Nat) (g : G) (s v : Nat) :
    v ∈ (dropFromPreds cur l g).pred s ↔ v ∈ g.pred s ∧ (s ∈ l → v ≠ cur) := by
  induction l generalizing g with
  | nil => simp [dropFromPreds]
  | cons a l ih =>
    simp only [dropFromPreds, ih, upd_apply]
    split <;> simp <;> grind

theorem dropFromPreds_nodup (cur : Nat) (l : List Nat) (g : G) (h : ∀ u, (g.pred u).Nodup) :
    ∀ u, ((dropFromPreds cur l g).pred u).Nodup := by
  induction l generalizing g with
  | nil => exact h
  | cons a l ih =>
    apply ih
    intro u; simp only [upd_apply]; split
    · exact nodup_discard _ (h _)
    · exact h u

theorem predLoop_pk (prune : Bool) (cur : Nat) (ps : List Nat) (g : G) (st : List Nat) :
    (predLoop prune cur ps g st).1.pk = g.pk := by
  induction ps generalizing g st with
  | nil => rfl
  | cons p ps ih => simp [predLoop, ih]

theorem predLoop_pred (prune : Bool) (cur : Nat) (ps : List Nat) (g : G) (st : List Nat) :
    (predLoop prune cur ps g st).1.pred = g.pred := by
  induction ps generalizing g st with
  | nil => rfl
  | cons p ps ih => simp [predLoop, ih]

theorem predLoop_succ_mem (prune : Bool) (cur : Nat) (ps : List Nat) (g : G) (st : List Nat) (p v : Nat) :
    v ∈ (predLoop prune cur ps g st).1.succ p ↔ v ∈ g.succ p ∧ (p ∈ ps → v ≠ cur) := by
  induction ps generalizing g st with
  | nil => simp [predLoop]
  | cons a l ih =>
    simp only [predLoop, ih, upd_apply]
    split <;> simp <;> grind

theorem predLoop_nodup (prune : Bool) (cur : Nat) (ps : List Nat) (g : G) (st : List Nat)
    (h : ∀ u, (g.succ u).Nodup) : ∀ u, ((predLoop prune cur ps g st).1.succ u).Nodup := by
  induction ps generalizing g st with
  | nil => exact h
  | cons a l ih =>
    apply ih
    intro u; simp only [upd_apply]; split
    · exact nodup_discard _ (h _)
    · exact h u

/-- the entries pushed by the pruning test, newest first: each satisfies `P` and, when it was pushed,
    all its successors other than `cur` were waiting below it on the stack -/
def PushedOk (P : Nat → Prop) (succ : Nat → List Nat) (cur : Nat) : List Nat → List Nat → Prop
  | [], _ => True
  | p :: post, st => P p ∧ (∀ s ∈ succ p, s ≠ cur → s ∈ post ++ st) ∧ PushedOk P succ cur post st

theorem pushedOk_congr {P P' : Nat → Prop} {f f' : Nat → List Nat} {cur : Nat} {l st : List Nat}
    (hP : ∀ p, P p → P' p) (hf : ∀ q s, s ≠ cur → (s ∈ f' q → s ∈ f q))
    (h : PushedOk P f cur l st) : PushedOk P' f' cur l st := by
  induction l with
  | nil => trivial
  | cons p post ih =>
    obtain ⟨h1, h2, h3⟩ := h
    exact ⟨hP p h1, fun s hs hne => h2 s (hf p s hne hs) hne, ih h3⟩

theorem pushedOk_snoc {P : Nat → Prop} {f : Nat → List Nat} {cur a : Nat} {l st : List Nat}
    (h : PushedOk P f cur l (a :: st)) (ha : P a) (hs : ∀ s ∈ f a, s ≠ cur → s ∈ st) :
    PushedOk P f cur (l ++ [a]) st := by
  induction l with
  | nil => exact ⟨ha, by simpa using hs, trivial⟩
  | cons p post ih =>
    obtain ⟨h1, h2, h3⟩ := h
    exact ⟨h1, fun s hs hne => by simpa using h2 s hs hne, ih h3⟩

/-- what the pruning test pushes: only predecessors all of whose other successors are waiting on the
    stack, and certainly every predecessor left without successors -/
def StackSpec (prune : Bool) (cur : Nat) (ps : List Nat) (g : G) (st res : List Nat) : Prop :=
  ∃ pushed, res = pushed ++ st ∧
    PushedOk (fun p => prune = true ∧ p ∈ ps) g.succ cur pushed st ∧
    (prune = true → ∀ p ∈ ps, (∀ s ∈ g.succ p, s = cur) → p ∈ res)

theorem stackSpec_cons {prune : Bool} {cur a : Nat} {l : List Nat} {g : G} {st res : List Nat}
    (h : StackSpec prune cur l { g with succ := upd g.succ a (discard (g.succ a) cur) }
          (if (prune && (discard (g.succ a) cur).all (· ∈ st)) = true then a :: st else st) res) :
    StackSpec prune cur (a :: l) g st res := by
  obtain ⟨pushed, heq, hsound, hcompl⟩ := h
  have hsucc : ∀ q s, s ≠ cur → (s ∈ upd g.succ a (discard (g.succ a) cur) q ↔ s ∈ g.succ q) := by
    intro q s hs; simp only [upd_apply]; split
    · subst_vars; simp [hs]
    · rfl
  simp only at hsound hcompl
  have hP : ∀ p, (prune = true ∧ p ∈ l) → (prune = true ∧ p ∈ a :: l) :=
    fun p h => ⟨h.1, List.mem_cons_of_mem _ h.2⟩
  by_cases hpush : (prune && (discard (g.succ a) cur).all (· ∈ st)) = true
  · rw [if_pos hpush] at heq hsound
    have hpush' := hpush
    simp only [Bool.and_eq_true, List.all_eq_true, decide_eq_true_eq] at hpush'
    refine ⟨pushed ++ [a], by rw [heq]; simp, ?_, ?_⟩
    · apply pushedOk_snoc (pushedOk_congr hP (fun q s hne hs => (hsucc q s hne).mpr hs) hsound)
      · exact ⟨hpush'.1, by simp⟩
      · intro s hs hne; exact hpush'.2 s (by simp [hs, hne])
    · intro hp p hpm hall
      rcases List.mem_cons.mp hpm with rfl | hpm
      · rw [heq]; simp
      · exact hcompl hp p hpm (fun s hs => by
          by_cases hsc : s = cur
          · exact hsc
          · exact hall s ((hsucc p s hsc).mp hs))
  · rw [if_neg hpush] at heq hsound
    refine ⟨pushed, heq, pushedOk_congr hP (fun q s hne hs => (hsucc q s hne).mpr hs) hsound, ?_⟩
    · intro hp p hpm hall
      rcases List.mem_cons.mp hpm with rfl | hpm
      · exfalso; apply hpush
        simp only [Bool.and_eq_true, List.all_eq_true, decide_eq_true_eq]
        refine ⟨hp, ?_⟩
        intro s hs; simp at hs
        exact absurd (hall s hs.1) hs.2
      · exact hcompl hp p hpm (fun s hs => by
          by_cases hsc : s = cur
          · exact hsc
          · exact hall s ((hsucc p s hsc).mp hs))

theorem predLoop_stack (prune : Bool) (cur : Nat) (ps : List Nat) (g : G) (st : List Nat) :
    StackSpec prune cur ps g st (predLoop prune cur ps g st).2 := by
  induction ps generalizing g st with
  | nil => exact ⟨[], by simp [predLoop], trivial, by simp⟩
  | cons a l ih =>
    simp only [predLoop]
    exact stackSpec_cons (ih _ _)

end SFV.Graph
