import SFV.Model.ShellRun
import SFV.Model.Proto
open SFV SFV.Proto SFV.Sh SFV.ShellRun

def hexL (s : List Char) : String := hexOfString (String.ofList s)
def unhexL (h : String) : Option (List Char) := (stringOfHex h).map (·.toList)

def showItem : Item → String
  | .word w => s!"w:{hexL w.cs}:{if w.exp then 1 else 0}"
  | .op s => s!"o:{hexL s}"

def showRes : Res → String
  | .ok items => " ".intercalate ("ok" :: items.map showItem)
  | .unterminated => "unterminated"
  | .subst => "subst"

def pairs : List (List Char) → Option (List (List Char × List Char))
  | [] => some []
  | [_] => none
  | k :: v :: r => (pairs r).map ((k, v) :: ·)

def optWd (h : String) : Option (Option (List Char)) :=
  if h = "~" then some none else (unhexL h).map some

def showExec (x : Exec) : String :=
  let cwd := match x.env.cwd with | some d => hexL d | none => "~"
  let vars := ",".intercalate (x.env.vars.map (fun kv => s!"{hexL kv.1}={hexL kv.2}"))
  let argv := ",".intercalate (x.argv.map hexL)
  s!"exec cwd:{cwd} vars:{vars} argv:{argv}"

def parseCuts (s : String) : List Nat :=
  if s = "-" then [] else (s.splitOn ",").filterMap (·.toNat?)

/-- `out:rc:marker:t` or `out:rc:marker:k<cuts>` -/
def parseCmd (s : String) : Option (Cmd × Outcome) :=
  match s.splitOn ":" with
  | [o, r, m, oc] => do
      let out ← unhexL o
      let rc ← unhexL r
      let mk ← unhexL m
      let outcome := if oc = "t" then Outcome.timeout else Outcome.ok (parseCuts (oc.drop 1).toString)
      pure ({ out := out, rc := rc, marker := mk }, outcome)
  | _ => none

def handle : List String → String
  | ["quote", h] =>
      match unhexL h with
      | some s => hexL (shlexQuote s)
      | none => "bad-op"
  | ["lex", h] =>
      match unhexL h with
      | some s => showRes (lexLine s)
      | none => "bad-op"
  | ["interp", h] =>
      match unhexL h with
      | some s =>
          match lexLine s with
          | .ok items =>
              match runItems {} items with
              | some (_, xs) => " ; ".intercalate ("ok" :: xs.map showExec)
              | none => "expanded"
          | .unterminated => "unterminated"
          | .subst => "subst"
      | none => "bad-op"
  | "bsc" :: m :: wd :: cmd :: kvs =>
      match unhexL m, optWd wd, unhexL cmd, kvs.mapM unhexL with
      | some m, some wd, some cmd, some kvs =>
          match pairs kvs with
          | some env => hexL (buildShellCommand m wd env cmd)
          | none => "bad-op"
      | _, _, _, _ => "bad-op"
  | "cc" :: wd :: cmd :: kvs =>
      match optWd wd, unhexL cmd, kvs.mapM unhexL with
      | some wd, some cmd, some kvs =>
          match pairs kvs with
          | some env => hexL (createCommandDefault wd env cmd)
          | none => "bad-op"
      | _, _, _ => "bad-op"
  | "qms" :: wd :: cmd :: kvs =>
      -- the default queue-manager job script: template prefix ++ create_command (default redirections)
      match optWd wd, unhexL cmd, kvs.mapM unhexL with
      | some wd, some cmd, some kvs =>
          match pairs kvs with
          | some env => hexL (Gen.Cmd.qm_default_prefix ++ createCommandDefault wd env cmd)
          | none => "bad-op"
      | _, _, _ => "bad-op"
  | "gc" :: kvs =>
      match kvs.mapM unhexL with
      | some kvs =>
          match pairs kvs with
          | some env => hexL (getCommandEnv env)
          | none => "bad-op"
      | none => "bad-op"
  | "render" :: name :: args =>
      match Gen.Cmd.table.lookup name, args.mapM unhexL with
      | some t, some args => hexL (render t args)
      | _, _ => "bad-op"
  | "verbatim" :: name :: args =>
      match Gen.Cmd.table.lookup name, args.mapM unhexL with
      | some t, some args => s!"{verbatimOn t args} {showRes (lexLine (render t args))}"
      | _, _ => "bad-op"
  | "strip" :: [h] =>
      match unhexL h with
      | some s => hexL (strip s)
      | none => "bad-op"
  | "read" :: m :: chunks =>
      match unhexL m, chunks.mapM unhexL with
      | some m, some chunks =>
          match readLoop m [] chunks with
          | some ((out, rc), rest) => s!"some {hexL out} {hexL rc} {rest.length}"
          | none => "none"
      | _, _ => "bad-op"
  | "runall" :: cmds =>
      match cmds.mapM parseCmd with
      | some l =>
          let s := runAll {} l
          let res := " ".intercalate (s.results.map (fun r => s!"{hexL r.1}/{hexL r.2}"))
          s!"execs {",".intercalate (s.execs.map toString)} pipe {hexL s.pipe} results {res}"
      | none => "bad-op"
  | _ => "bad-op"

def main : IO Unit := runPure handle
