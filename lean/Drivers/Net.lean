import SFV.Model.Net
import SFV.Model.Exec
import SFV.Model.TfMachine
import SFV.Model.LoopComb
import SFV.Model.LoopNet
import SFV.Gen.StepGuards
import SFV.Model.Proto
open SFV SFV.Proto SFV.Net

/-! Line protocol for the workflow-network model (C04 / C05 / C07). One line = one command on one workflow spec.

`den <spec>`    -> `wf=<struct><dyn> | <port>=<tag>=<val>;... | ...`   (every port, tokens sorted by tag)
`prov <spec>`   -> `<port>:<tag>><port>:<tag>,...` (sorted, duplicates removed) or `-`
`status <spec>` -> `<node index>=<STATUS>,...`  final status of every node's step without failures
`exec <spec> fail=<node index>` -> outcome of the executor protocol model (see SFV/Model/Exec.lean)
`loopcomb <0|1|g> <port>*` (g = as extracted from the source) -> `done=..;deadlocked=..;unread=..` of the LoopCombinatorStep reading protocol (LoopComb) on real streams
`loopnet <k> <counter> <limit>` -> `bodies=<body executions>;out=<loop output>` of the loop sub-network model (LoopNet)
`tfm <port>*`   -> `out=<tags in firing order>;left=<partial groups left>` of the operational grouping loop (TfMachine)

spec words: `n=<nports>` `s:<port>:<val>` `c:<port>` `tf:<fn>:<k>:<ins>/<outs>` `cond:<m>:<r>:<z|d>:<ins>/<outs>`
`exec:<k>:<ins>/<out>` `scatter:<inp>:<out>:<size>` `gather:<inp>:<size>:<out>:<depth>` `dot:<ins>/<outs>`
`cart:<a>:<b>:<oa>:<ob>`; values are ints or bracketed comma lists without spaces. -/

partial def parseVal : List Char → Option (Val × List Char)
  | '[' :: ']' :: r => some (.list [], r)
  | '[' :: r =>
      let rec items (cs : List Char) (acc : List Val) : Option (Val × List Char) :=
        match parseVal cs with
        | some (v, ',' :: r') => items r' (acc ++ [v])
        | some (v, ']' :: r') => some (.list (acc ++ [v]), r')
        | _ => none
      items r []
  | cs =>
      let (neg, ds) := match cs with
        | '-' :: r => (true, r)
        | _ => (false, cs)
      let digits := ds.takeWhile Char.isDigit
      if digits.isEmpty then none
      else
        let n : Nat := digits.foldl (fun (a : Nat) c => a * 10 + (c.toNat - 48)) 0
        some (.int (if neg then -(n : Int) else n), ds.drop digits.length)

def parseValStr (s : String) : Option Val :=
  match parseVal s.toList with
  | some (v, []) => some v
  | _ => none

partial def showVal : Val → String
  | .int i => toString i
  | .list l => "[" ++ ",".intercalate (l.map showVal) ++ "]"

def parseInt (s : String) : Option Int :=
  if s.startsWith "-" then (s.drop 1).toString.toNat?.map (fun n => -(n : Int)) else s.toNat?.map (fun n => (n : Int))

def parsePorts (s : String) : Option (List Nat) :=
  if s = "-" || s = "" then some [] else (s.splitOn ",").mapM (·.toNat?)

def parseIO (s : String) : Option (List Nat × List Nat) :=
  match s.splitOn "/" with
  | [a, b] => do pure (← parsePorts a, ← parsePorts b)
  | _ => none

def parseFn (f k : String) : Option Fn := do
  let ki ← parseInt k
  match f with
  | "add" => some (.add ki)
  | "sum" => some .sum
  | "range" => some (.range ki.toNat)
  | "lin" => some (.lin ki)
  | "pair" => some .pair
  | "split" => some .split
  | "loop" => some (.loop ki.toNat)
  | _ => none

def parseWord (sp : Spec) (w : String) : Option Spec :=
  if w.startsWith "n=" then (w.drop 2).toString.toNat?.map (fun n => { sp with nports := n })
  else match w.splitOn ":" with
  | ["s", p, v] => do
      let p ← p.toNat?
      let v ← parseValStr v
      pure { sp with sources := sp.sources ++ [(p, v)] }
  | ["c", p] => do pure { sp with closed := sp.closed ++ [← p.toNat?] }
  | ["tf", f, k, io] => do
      let fn ← parseFn f k
      let (i, o) ← parseIO io
      pure { sp with nodes := sp.nodes ++ [.tf fn i o] }
  | ["cond", m, r, z, io] => do
      let (i, o) ← parseIO io
      pure { sp with nodes := sp.nodes ++ [.cond (← m.toNat?) (← r.toNat?) (z == "z") i o] }
  | ["exec", k, io] => do
      let (i, o) ← parseIO io
      match o with
      | [o] => pure { sp with nodes := sp.nodes ++ [.exec (← parseInt k) i o] }
      | _ => none
  | ["scatter", a, b, c] => do pure { sp with nodes := sp.nodes ++ [.scatter (← a.toNat?) (← b.toNat?) (← c.toNat?)] }
  | ["gather", a, b, c, d] => do
      pure { sp with nodes := sp.nodes ++ [.gather (← a.toNat?) (← b.toNat?) (← c.toNat?) (← d.toNat?)] }
  | ["dot", io] => do
      let (i, o) ← parseIO io
      pure { sp with nodes := sp.nodes ++ [.dot i o] }
  | ["cart", a, b, c, d] => do
      pure { sp with nodes := sp.nodes ++ [.cart (← a.toNat?) (← b.toNat?) (← c.toNat?) (← d.toNat?)] }
  | _ => none

def parseSpec (ws : List String) : Option Spec :=
  ws.foldlM parseWord { nports := 0, sources := [], closed := [], nodes := [] }

def showToks (l : List Tok) : String :=
  if l.isEmpty then "-" else
  ";".intercalate ((l.mergeSort (fun a b => tagLe a.tag b.tag)).map (fun t => s!"{renderTag t.tag}={showVal t.val}"))

def showId (x : TokId) : String := s!"{x.1}:{renderTag x.2}"

def insertSorted (s : String) : List String → List String
  | [] => [s]
  | a :: r => if s < a then s :: a :: r else if s == a then a :: r else a :: insertSorted s r

def handle : List String → String
  | "den" :: ws =>
      match parseSpec ws with
      | some sp =>
          let d := den sp
          let ports := " | ".intercalate ((List.range sp.nports).map (fun p => s!"{p}={showToks (d.get p)}"))
          s!"wf={if wfStruct sp then 1 else 0}{if wfDyn sp then 1 else 0} | {ports}"
      | none => "bad-op"
  | "prov" :: ws =>
      match parseSpec ws with
      | some sp =>
          let es := (prov sp).map (fun (a, b) => s!"{showId a}>{showId b}")
          let sorted := es.foldl (fun acc s => insertSorted s acc) []
          if sorted.isEmpty then "-" else ",".intercalate sorted
      | none => "bad-op"
  | "status" :: ws =>
      match parseSpec ws with
      | some sp => ",".intercalate ((Exec.nodeStatuses sp).zipIdx.map (fun (s, i) => s!"{i}={Exec.showStatus s}"))
      | none => "bad-op"
  | "exec" :: ws =>
      match ws.partition (·.startsWith "fail=") with
      | ([f], rest) =>
          match parseSpec rest, (f.drop 5).toString.toNat? with
          | some sp, some k => Exec.showOutcome (Exec.runDefault sp (some k) Gen.cancelCallsClose)
          | _, _ => "bad-op"
      | ([], rest) =>
          match parseSpec rest with
          | some sp => Exec.showOutcome (Exec.runDefault sp none Gen.cancelCallsClose)
          | none => "bad-op"
      | _ => "bad-op"
  | "tfm" :: ports =>
      -- operational grouping loop on the real arrival orders: one word per port, comma separated tags (`-` = empty)
      let parsePort (w : String) : Option (List Tok) :=
        if w = "-" then some [] else (w.splitOn ",").mapM (fun t => (parseTag t).map (fun tg => ({ tag := tg, val := .int 0 } : Tok)))
      match ports.mapM parsePort with
      | some ls =>
          let s := runRounds ls
          let fired := s.out.map (fun g => renderTag g.1)
          s!"out={if fired.isEmpty then "-" else ",".intercalate fired};left={s.map.length}"
      | none => "bad-op"
  | "loopcomb" :: fx :: ports =>
      -- reading protocol of LoopCombinatorStep on the real port streams, round-robin schedule until nothing can move
      let parseTok (w : String) : Option LoopComb.Tok :=
        if w = "T1" then some (.term .completed) else if w = "T0" then some (.term .failed)
        else if w = "T2" then some (.term .skipped)
        else if w.startsWith "d" then (parseTag (w.drop 1).toString).map LoopComb.Tok.data
        else if w.startsWith "i" then (parseTag (w.drop 1).toString).map LoopComb.Tok.iterTerm
        else none
      let parsePort (w : String) : Option (List LoopComb.Tok) :=
        if w = "-" then some [] else (w.splitOn ",").mapM parseTok
      match ports.mapM parsePort with
      | some streams =>
          let fixed := if fx == "g" then Gen.loopStopsAfterFailure else fx == "1"
          let n := streams.length
          let fuel := (streams.map List.length).foldl (· + ·) 0 + 1
          let rec go (fuel : Nat) (s : LoopComb.St) : LoopComb.St :=
            match fuel with
            | 0 => s
            | f + 1 =>
                match (List.range n).findSome? (fun i => LoopComb.step fixed s i) with
                | some s' => go f s'
                | none => s
          let s := go fuel (LoopComb.initSt streams)
          s!"done={if LoopComb.done s then 1 else 0};deadlocked={if LoopComb.deadlocked s then 1 else 0};unread={(s.ports.map (fun p => p.stream.length)).foldl (· + ·) 0}"
      | none => "bad-op"
  | ["loopnet", k, c, l] =>
      -- one loop instance through the loop sub-network model, first enabled action first
      match k.toNat?, parseInt c, parseInt l with
      | some k, some c, some l =>
          let acts : List LoopNet.Act := [.combine 0, .eval 0, .body 0, .deliver 0 0, .emit 0]
          let rec goLoopNet (fuel : Nat) (s : LoopNet.St) : LoopNet.St :=
            match fuel with
            | 0 => s
            | f + 1 =>
                match acts.findSome? (fun a => LoopNet.step s a) with
                | some s' => goLoopNet f s'
                | none => s
          let s := goLoopNet (4 * (l - c).toNat + 8) (LoopNet.initSt k [(c, l)])
          match s.insts with
          | [x] =>
              let out := match x.emitted with
                | some (some v) => toString v
                | some none => "none"
                | none => "unfinished"
              s!"bodies={x.collected.length};out={out}"
          | _ => "bad-op"
      | _, _, _ => "bad-op"
  | _ => "bad-op"

def main : IO Unit := runPure handle
