import SFV.Model.Registry
namespace SFV.C21
open SFV.Registry
theorem placeholder : St.init.heap = [] := rfl
end SFV.C21
