"""C07 — recorded provenance is complete and acyclic."""
from __future__ import annotations

import json
import shutil
import tempfile

from sfv.framework import Ctx, Property
from sfv.rt import wfcheck, wfgen
from sfv.translate import provrowguards


KNOWN_POSITIONAL = "job-pipeline-pairs-jobs-with-inputs-by-position:input-ports-deliver-tags-in-different-orders"


def oracle(spec: dict, res: dict, failing: bool):
    """yield (key, detail): ways in which the token / provenance tables of one run contradict the statement"""
    rp = wfcheck.real_prov(spec, res)
    for kind, detail in rp["problems"][:5]:
        yield {"order": "dependee-id-not-smaller-than-depender-id", "dangling": "provenance-row-with-unknown-token-id",
               "cycle": "provenance-cycle", "unpersisted": "emitted-token-without-token-row"}[kind], detail
    if failing or res["outcome"]["kind"] != "return":
        return
    want = wfcheck.py_prov(spec)
    have = rp["edges"]
    if have != want:
        missing, extra = sorted(want - have), sorted(have - want)
        if missing and not extra:
            key = "missing-provenance-edges"
        elif extra and not missing:
            key = "extra-provenance-edges"
        else:
            key = "provenance-edges-differ-from-consumed-inputs"
        yield key, f"missing {missing[:6]} extra {extra[:6]} (edges are dependee>depender as port:tag)"
    # job pipelines: the output token of every job is linked to the job token and to one token per input
    tok = {t[0]: t for t in res["db"]["tokens"]}
    pid2idx = {pid: int(i) for i, pid in res["port_ids"].items() if pid is not None}
    deps: dict[int, list[int]] = {}
    for a, b in res["db"]["provenance"]:
        deps.setdefault(b, []).append(a)
    for n in spec["nodes"]:
        if n["kind"] != "exec":
            continue
        out = n["outs"][0]
        jports: set = set()
        for tag, tid in res["token_ids"].get(str(out), {}).items():
            d = deps.get(tid, [])
            types = sorted(tok[x][3] for x in d if x in tok)
            if types.count("JobToken") != 1 or len(d) != len(n["ins"]) + 1:
                yield "job-output-not-linked-to-job-token-and-inputs", f"exec node {n['id']} output {tag}: dependee types {types}, {len(n['ins'])} inputs"
            else:
                show = lambda ids: sorted((str(pid2idx.get(tok[x][1], "?")), tok[x][2], tok[x][3]) for x in ids if x in tok)
                jid = next(x for x in d if tok[x][3] == "JobToken")
                jtag = tok[jid][2]
                jports.add(tok[jid][1])
                # (2) the output of tag t is linked to the job token OF TAG t and to inputs of tag t; every transferred input to
                # the job token of its tag and to its source token
                wrong = sorted((tok[x][3], tok[x][2]) for x in d if x in tok and tok[x][2] != tag)
                want_in = {res["token_ids"].get(str(q), {}).get(tag) for q in n["ins"]}
                bad_tr = []
                for x in d:
                    if x != jid and x in tok:
                        dx = set(deps.get(x, []))
                        jx = [y for y in dx if y in tok and tok[y][3] == "JobToken"]
                        if not (len(jx) == 1 and tok[jx[0]][2] == tok[x][2] and len(dx & want_in) == 1 and len(dx) == 2):
                            bad_tr.append((x, tok[x][2], sorted((tok[y][3], tok[y][2]) for y in dx if y in tok)))
                if wrong or bad_tr:
                    detail = (f"exec node {n['id']} output {tag} depends on tokens with other tags: {wrong[:4]} (type, tag); transferred "
                              f"inputs linked to another job: {bad_tr[:3]}; arrival orders of the input ports: "
                              f"{ {q: res['order'].get(str(q)) for q in n['ins']} }")
                    orders = [res["order"].get(str(q)) for q in n["ins"]]
                    if len(n["ins"]) >= 2 and any(o != orders[0] for o in orders):
                        # narrow classification of one known defect: the transfer / execute steps pair the r-th job token with
                        # the r-th token of their input port (by position, not by tag)
                        yield KNOWN_POSITIONAL, detail
                    else:
                        yield "job-output-linked-to-another-job-or-other-inputs", detail
        # (1) token-exact, by the JOB TOKEN'S OWN tag: the ScheduleStep links the job token of tag t to exactly the token tagged t
        # on every input port of the pipeline (plus the connector token of the deployment, on an internal port, left out);
        # ALL job tokens on the pipeline's job port, also those no output refers to
        for jid, (_, jp, jtag, jtype) in sorted(tok.items()):
            if jtype == "JobToken" and jp in jports:
                want_j = {res["token_ids"].get(str(q), {}).get(jtag) for q in n["ins"]}
                have_j = {x for x in deps.get(jid, []) if x in tok and tok[x][1] in pid2idx}
                if None not in want_j and have_j != want_j:
                    show = lambda ids: sorted((str(pid2idx.get(tok[x][1], "?")), tok[x][2], tok[x][3]) for x in ids if x in tok)
                    yield "job-token-not-linked-to-the-inputs-of-its-tag", (
                        f"exec node {n['id']}: job token {jtag} depends on (port, tag) {show(have_j)}, the inputs of that tag are {show(want_j)}")


class C07(Property):
    pid = "C07"
    title = "Recorded provenance is complete and acyclic"
    lean_targets = ["SFV.Model.Exec", "SFV.Model.TfMachine", "SFV.Model.LoopComb", "SFV.Model.LoopNet", "SFV.Gen.StepGuards", "SFV.Props.C07", "SFV.Props.C07Net", "SFV.Props.C07Guards"]
    props_files = ["SFV/Props/C07.lean", "SFV/Props/C07Net.lean", "SFV/Props/C07Guards.lean"]
    drivers = ["Drivers/Net.lean"]
    translators = [provrowguards.generate]
    rule = ("the token and provenance tables of the SQLite database are dumped after every run of random well-formed DAG workflows "
            "(sfv.rt.wfgen, real step classes incl. job pipelines) under the default order and 1 (quick) / 3 (thorough) PRNG interleavings; "
            "one third of the workflows with an injected transformer failure (table-level checks only). Checked per run: dependee id < "
            "depender id on every row, no dangling id, no cycle (DFS), every data token of every port persisted, the edge set (tokens "
            "identified by port:tag) equal to what the property demands (oracle) and to the Lean model `prov` (driver); job pipelines by "
            "token id: every JobToken depends on exactly the tokens of its own tag on the pipeline's input ports, every job output / "
            "transferred input on the JobToken of its tag (corpus incl. 2-input pipelines whose ports deliver tags in different orders). Additionally 3 (quick) / 12 (thorough) RECOVERY cases of the recovery harness (sfv.rt.recov: "
            "failed jobs retried through recovery workflows): table-level clauses on the whole database. Non-trivial = workflow whose "
            "run records >= 4 provenance rows.")
    trusted_base = [
        "hand-written model lean/SFV/Model/Net.lean `nodeProv` (which inputs each step class passes to _persist_token) compared with the "
        "real provenance table on every run; persistence log model lean/SFV/Model/Prov.lean",
        "translator harness/sfv/translate/provrowguards.py (row orientation of add_provenance, save-before-provenance and the None check "
        "of _persist_token -> SFV/Gen/ProvRowGuards.lean)",
        "modelled, not verified: SQLite INTEGER PRIMARY KEY ids are larger than every id in use (rows are never deleted here); "
        "aiosqlite executes statements in order",
        "job pipelines: edges through the internal schedule/transfer ports are checked generically (ids, acyclicity, job token + inputs), "
        "not against the model",
    ]
    technique = "Lean 4: persistence log as a transition system (ids increase along every edge => acyclic), model of the edges each step class records, structural theorems on `prov`; dump of the real tables after every run"
    level_text = ("grade B (partial): for every persistence history ids strictly increase along provenance edges, hence the relation is acyclic and "
                  "every dependee is persisted before its depender; the model's edges link every emitted token to input tokens of the same "
                  "step; edge sets compared with the real database on every run; engine layers abstracted as in C04")
    level_note = "Lean kernel, axioms within {propext, Classical.choice, Quot.sound}; tables of the real runs checked directly and against the model"
    assumptions = [
        "well-formed workflows as generated; on recovery workflows only the table-level clauses (ids increase, no dangling id, acyclic) "
        "are checked, not the exact edge sets",
        "control tokens put directly (TerminationToken, IterationTerminationToken) are not persisted — excluded by the statement",
    ]
    quick_budget_s = 600
    thorough_budget_s = 2400
    min_nontrivial = 12


    CHUNK = 8

    def _runs_for(self, ctx, pre, items, i, job_of, **kw):
        """runs of item i; the items of a chunk run in parallel worker processes (wfcheck.run_many)"""
        if i not in pre:
            chunk = items[i:i + self.CHUNK]
            outs = wfcheck.run_many([job_of(it) for it in chunk], ctx.scratch, **kw)
            pre.update({i + j: o for j, o in enumerate(outs)})
        return pre.pop(i)

    def explore(self, ctx: Ctx) -> None:
        rng = ctx.rng
        n, k = (200, 3) if ctx.tier == "thorough" else (30, 1)
        if ctx.mode == "search":
            n, k = n * 2, k + 2
        lines, metas = [], []
        items, pre = [], {}
        for i in range(n):
            feats = {"exec": 4} if rng.random() < 0.35 else ({"cart": 4, "gather": 6} if rng.random() < 0.25 else ({"loop": 3} if rng.random() < 0.25 else None))
            spec = wfgen.gen_spec(rng, size=rng.randint(2, 12), features=feats)
            if i < len(wfgen.CORPUS):
                spec = json.loads(json.dumps(wfgen.CORPUS[i]))
            failing = rng.random() < 0.33 and i >= len(wfgen.CORPUS)      # the corpus always runs failure-free: exact edge sets
            fspec = wfgen.choose_failure(rng, spec, loop_upstream_prob=0.0) if failing else None   # loop hangs belong to C04
            if fspec is None:
                failing = False
            seeds = [rng.randrange(1 << 30) for _ in range(k)]
            if i < len(wfgen.CORPUS):
                seeds = [2 + j for j in range(k)]      # corpus: fixed schedules, the first one with reverse job completion order
            items.append((spec, failing, fspec or spec, seeds))
        for i, (spec, failing, run_spec, seeds) in enumerate(items):
            if ctx.out_of_time():
                ctx.extra["incomplete"] = True
                break
            if ctx.mode == "check" and ((i >= 20 and ctx.tier == "quick" and ctx.time_left() < 0.5 * self.quick_budget_s) or
                                        (i >= 60 and ctx.tier == "thorough" and ctx.time_left() < 0.4 * self.thorough_budget_s)):
                # heavily loaded machine: the plan is "up to n workflows", at least 20 (quick) / 60 (thorough), corpus included
                ctx.notes.append(f"soft time limit: stopped after {i} of {n} planned workflows")
                break
            if i < len(wfgen.CORPUS):
                ctx.corpus_replayed += 1
            runs = self._runs_for(ctx, pre, items, i, lambda it: {"spec": it[2], "seeds": it[3], "confirm_hangs": not it[1]},
                                  timeout=30.0, stop_on_hang=True)
            nrows = [len(r.get("db", {}).get("provenance", [])) for r in runs]
            key = ("wf", json.dumps(run_spec, sort_keys=True)) if max(nrows, default=0) >= 4 else None
            ctx.case({"spec": run_spec, "failing": failing, "provenance_rows": nrows}, key, ("fail+" if failing else "ok+") + wfcheck.spec_bucket(spec))
            ctx.count("runs", len(runs))
            ctx.count("provenance_rows", sum(nrows))
            for r in runs:
                if "db" not in r:
                    if r["outcome"]["kind"] == "harness-error":
                        ctx.notes.append(f"harness error: {r['outcome']['detail'][:1500]}")
                    continue
                for fkey, detail in oracle(run_spec, r, failing):
                    ctx.fail(fkey, detail, {"spec": run_spec, "failing": failing, "seed": r["seed"], "shuffle": r["shuffle"]})
            if not failing and len(set(nrows)) > 1:
                ctx.fail("provenance-row-count-differs-between-schedules", f"rows per schedule {nrows}",
                         {"spec": run_spec, "failing": False, "seed": seeds[0], "shuffle": True})
            if not failing:
                lines.append(f"prov {wfcheck.spec_words(spec)}")
                metas.append((spec, runs))
        self._recovery_runs(ctx)
        got = ctx.lean("Drivers/Net.lean", lines)
        for g, (spec, runs) in zip(got, metas):
            for r in runs:
                if r["outcome"]["kind"] != "return":
                    continue
                real = wfcheck.render_edges(wfcheck.real_prov(spec, r)["edges"])
                model = wfcheck.render_edges(wfcheck.drop_opaque(spec, set(g.split(",")) - {"-"}))
                if real != model:
                    a, b = set(real.split(",")) - {"-"}, set(model.split(",")) - {"-"}
                    ctx.disagree("provenance edges: model vs real", f"real-model {sorted(a - b)[:6]} model-real {sorted(b - a)[:6]}",
                                 {"spec": spec, "failing": False, "seed": r["seed"], "shuffle": r["shuffle"]})
                    break

    def _recovery_runs(self, ctx: Ctx) -> None:
        """the same table-level clauses on RECOVERY workflows: a6's recovery harness (sfv.rt.recov: pipelines, scatters, loops,
        diamonds built with the repo's RecoveryTranslator, rollback failure manager, soft and fail-stop failures in the
        schedule / transfer / execute phases), with the token and provenance tables dumped before the context is closed"""
        from sfv.props.c16 import plans, shapes
        from sfv.rt import recovprov
        from sfv.rt.par import pmap

        if ctx.time_left() < 150:
            ctx.notes.append("recovery runs skipped: not enough time left")
            return
        rng = ctx.rng
        ncases = 12 if ctx.tier == "thorough" else 3
        cases = []
        shs = shapes(rng, True)
        rng.shuffle(shs)
        for sh in shs:
            for pl in plans(rng, sh, True):
                cases.append({"name": json.dumps(sh, sort_keys=True), "shape": sh, "plan": pl, "max_retries": 6, "timeout": 60})
        rng.shuffle(cases)
        cases = cases[:ncases]
        for case, status, r in pmap(recovprov.run_case_with_db, cases, timeout=150, workers=min(4, len(cases))):
            db = r.get("db") if isinstance(r, dict) else None
            if status != "ok" or not db:
                ctx.notes.append(f"recovery case {case['name']}: no tables ({status}: {str(r)[:200]})")
                ctx.count("recovery-harness-error")
                continue
            retried = any(v > 1 for v in (r.get("attempts") or {}).values())
            key = ("recovery", case["name"], json.dumps(case["plan"], sort_keys=True)) if len(db["provenance"]) >= 4 else None
            ctx.case({"recovery_case": {"shape": case["shape"], "plan": case["plan"]}, "outcome": r.get("outcome"), "retried": retried,
                      "workflows": db["workflows"], "token_rows": len(db["tokens"]), "provenance_rows": len(db["provenance"])},
                     key, "recovery+" + case["shape"]["kind"])
            ctx.count("recovery-workflows-in-db", db["workflows"])
            for kind, detail in recovprov.table_problems(db)[:5]:
                ctx.fail("recovery:" + {"order": "dependee-id-not-smaller-than-depender-id", "dangling": "provenance-row-with-unknown-token-id",
                                        "cycle": "provenance-cycle"}[kind], detail,
                         {"recovery_case": {"shape": case["shape"], "plan": case["plan"], "max_retries": 6}})

    def replay(self, ctx: Ctx, data) -> None:
        r = data.get("replay") or data.get("case") or (data.get("no_longer_checks") or [{}])[0].get("case")
        if r and "recovery_case" in r:
            from sfv.rt import recovprov
            res = recovprov.run_case_with_db(dict(r["recovery_case"], timeout=60))
            print("recovery case:", json.dumps(r["recovery_case"]))
            print("outcome:", res.get("outcome"), "attempts:", res.get("attempts"))
            print("provenance:", (res.get("db") or {}).get("provenance"))
            for kind, detail in recovprov.table_problems(res["db"]) if res.get("db") else []:
                ctx.fail("recovery:" + kind, detail, r)
            return
        if not r or "spec" not in r:
            return super().replay(ctx, data)
        spec, failing = r["spec"], r.get("failing", False)
        wd = tempfile.mkdtemp(dir=ctx.scratch)
        res = wfgen.run_spec(spec, seed=r.get("seed", 0), workdir=wd, timeout=30.0, shuffle=r.get("shuffle", True))
        shutil.rmtree(wd, ignore_errors=True)
        print("spec       :", json.dumps(spec))
        print("outcome    :", res["outcome"])
        print("token rows :", res.get("db", {}).get("tokens"))
        print("provenance :", res.get("db", {}).get("provenance"))
        rp = wfcheck.real_prov(spec, res)
        print("real edges :", wfcheck.render_edges(rp["edges"]))
        if not failing:
            base = json.loads(json.dumps(spec))
            print("model edges:", ctx.lean("Drivers/Net.lean", [f"prov {wfcheck.spec_words(base)}"])[0])
        for k, d in oracle(spec, res, failing):
            ctx.fail(k, d, r)


PROPERTY = C07()
