import SFV.Model.Binding
import SFV.Model.Proto
open SFV SFV.Proto SFV.Binding

structure St where
  deps : List Deployment := []
  filters : List String := []
  bindings : List Binding := []
  trie : Option (Trie BConfig) := none

def optStr (s : String) : Option (Option String) :=
  if s = "~" then some none else (stringOfHex s).map some

def showOpt : Option String → String
  | none => "~"
  | some s => hexOfString s

def parseParts (s : String) : Option Path :=
  if s = "~" then some [] else (s.splitOn ",").mapM stringOfHex

def parseKind : String → Option Kind
  | "s" => some .step
  | "p" => some .port
  | _ => none

def parseTarget (s : String) : Option TargetSpec :=
  match s.splitOn ":" with
  | [d, w, t] => do
      let d ← stringOfHex d
      let w ← optStr w
      let t ← t.toNat?
      pure ⟨d, w, t⟩
  | _ => none

def parseTargets (s : String) : Option (List TargetSpec) :=
  if s = "~" then some [] else (s.splitOn ";").mapM parseTarget

def errName : Err → String
  | .portWithoutWorkdir => "portWithoutWorkdir"
  | .filterUndefined => "filterUndefined"
  | .notAbsolute => "notAbsolute"
  | .circular => "circular"
  | .keyError => "KeyError"
  | .outOfFuel => "outOfFuel"

def showResolved (r : Resolved) : String :=
  s!"{hexOfString r.deployment}:{hexOfString r.workdir}:{showOpt r.depWorkdir}:{r.tag}"

def showCfg : Option BConfig → String
  | none => "~"
  | some c => if c.targets.isEmpty then "[]" else ",".intercalate (c.targets.map (fun t => toString t.tag))

def step (s : St) : List String → St × String
  | ["new"] => ({}, "ok")
  | ["dep", n, ty, wd, wr] =>
      match stringOfHex n, stringOfHex ty, optStr wd, optStr wr with
      | some n, some ty, some wd, some wr => ({ s with deps := s.deps ++ [⟨n, ty, wd, wr⟩] }, "ok")
      | _, _, _, _ => (s, "bad-op")
  | ["filter", n] =>
      match stringOfHex n with
      | some n => ({ s with filters := s.filters ++ [n] }, "ok")
      | none => (s, "bad-op")
  | ["bind", k, l, parts, targets, filters] =>
      match parseKind k, parseParts parts, parseTargets targets, parseParts filters with
      | some k, some p, some ts, some fs =>
          ({ s with bindings := s.bindings ++ [⟨k, p, ts, l = "L", fs⟩] }, "ok")
      | _, _, _, _ => (s, "bad-op")
  | ["init"] =>
      match initConfig s.filters s.deps s.bindings with
      | .ok t => ({ s with trie := some t }, "ok")
      | .error e => ({ s with trie := none }, errName e)
  | ["q", k, parts] =>
      match parseKind k, parseParts parts, s.trie with
      | some k, some p, some t =>
          match getBindingConfig s.deps t p k with
          | .ok (rs, fs) =>
              (s, ";".intercalate (rs.map showResolved) ++ "|" ++
                  (if fs.isEmpty then "~" else ",".intercalate (fs.map hexOfString)))
          | .error e => (s, errName e)
      | _, _, _ => (s, "bad-op")
  | ["prop", k, parts] =>
      match parseKind k, parseParts parts, s.trie with
      | some k, some p, some t => (s, showCfg (t.propagate p k))
      | _, _, _ => (s, "bad-op")
  | ["propd", k, parts] =>        -- with an explicit default (a recognisable sentinel)
      match parseKind k, parseParts parts, s.trie with
      | some k, some p, some t => (s, showCfg (t.propagate p k (some ⟨[⟨"", none, 999999⟩], []⟩)))
      | _, _, _ => (s, "bad-op")
  | ["getd", k, parts] =>
      match parseKind k, parseParts parts, s.trie with
      | some k, some p, some t => (s, showCfg (t.get p k (some ⟨[⟨"", none, 999999⟩], []⟩)))
      | _, _, _ => (s, "bad-op")
  | ["get", k, parts] =>
      match parseKind k, parseParts parts, s.trie with
      | some k, some p, some t => (s, showCfg (t.get p k))
      | _, _, _ => (s, "bad-op")
  | _ => (s, "bad-op")

def main : IO Unit := runStateful ({} : St) step
