/-! The `_save_additional_params` / `_load` pairs of StreamFlow's persistable classes as data (filled in by
    `harness/sfv/translate/persist.py`) and the closedness check: everything a `_load` reads was saved. -/
namespace SFV.Persist

structure PClass where
  name : String
  /-- base classes that are in the table (nearest first) -/
  bases : List String
  definesSave : Bool
  /-- top-level keys of the dict returned by the class's own `_save_additional_params` -/
  saved : List String
  /-- the method extends `super()._save_additional_params(...)` -/
  savesSuper : Bool
  /-- the returned dict has a part the extractor could not read (computed keys) -/
  saveOpaque : Bool
  definesLoad : Bool
  /-- keys of the saved params the class's own `_load` reads with `[...]` -/
  read : List String
  loadsSuper : Bool
deriving Repr

def find (cs : List PClass) (n : String) : Option PClass := cs.find? (·.name = n)

/-- keys saved for an instance of the class: its own method, extended by / inherited from the nearest base -/
def effSaved (cs : List PClass) : Nat → PClass → List String
  | 0, c => c.saved
  | fuel + 1, c =>
      let inherited := match c.bases.filterMap (find cs) with
                       | b :: _ => effSaved cs fuel b
                       | [] => []
      if c.definesSave then (if c.savesSuper then c.saved ++ inherited else c.saved) else inherited

/-- keys read when an instance of the class is loaded -/
def effRead (cs : List PClass) : Nat → PClass → List String
  | 0, c => c.read
  | fuel + 1, c =>
      let inherited := match c.bases.filterMap (find cs) with
                       | b :: _ => effRead cs fuel b
                       | [] => []
      if c.definesLoad then (if c.loadsSuper then c.read ++ inherited else c.read) else inherited

/-- every class reads only keys that were saved, no save has an unreadable part, class names are unique -/
def closed (cs : List PClass) : Bool :=
  cs.all (fun c => (effRead cs cs.length c).all (fun k => (effSaved cs cs.length c).contains k) && !c.saveOpaque) &&
  (cs.map (·.name)).Nodup

/-! ### a record model driven by the table -/

/-- the params dict of an entity: key → value (values are opaque) -/
abbrev Rec := List (String × Nat)

def Rec.get? : Rec → String → Option Nat
  | [], _ => none
  | (a, v) :: r, k => if a = k then some v else Rec.get? r k

/-- `_save_additional_params` of class `c` applied to an entity whose attributes are `attrs`: exactly the keys of the table -/
def saveRec (cs : List PClass) (c : PClass) (attrs : String → Nat) : Rec :=
  (effSaved cs cs.length c).map (fun k => (k, attrs k))

/-- `_load` of class `c`: reads every key of the table with `[...]`; `none` is the `KeyError` -/
def loadRec (cs : List PClass) (c : PClass) (r : Rec) : Option Rec :=
  (effRead cs cs.length c).mapM (fun k => (r.get? k).map (fun v => (k, v)))

/-- looking up a key of a record built from a key list -/
theorem get_saveRec (ks : List String) (attrs : String → Nat) (k : String) (hk : k ∈ ks) :
    Rec.get? (ks.map (fun k => (k, attrs k))) k = some (attrs k) := by
  induction ks with
  | nil => cases hk
  | cons a ks ih =>
    simp only [List.map_cons, Rec.get?]
    by_cases e : a = k
    · subst e; simp
    · rw [if_neg e]
      rcases List.mem_cons.mp hk with h | h
      · exact absurd h.symm e
      · exact ih h

/-! ### the dependency rows of a step across several saves -/

/-- a connection of a step: port id, name, input (`true`) or output -/
abbrev Dep := Nat × String × Bool

/-- `INSERT OR IGNORE INTO dependency` (primary key (step, port)) -/
def addDep (deps : List Dep) (d : Dep) : List Dep := if deps.any (·.1 == d.1) then deps else deps ++ [d]

structure StepRec where
  persisted : Bool
  deps : List Dep

/-- `Step.save` as far as the `dependency` table goes; `always` = the rows are written outside the first-insert branch -/
def saveStep (always : Bool) (s : StepRec) (ports : List Dep) : StepRec :=
  if always || !s.persisted then { persisted := true, deps := ports.foldl addDep s.deps }
  else s

end SFV.Persist
