import SFV.Model.Loop
/-! Helper lemmas for the loop models (C06): guards, sorting by the last tag component, the per-instance machine. -/
namespace SFV.Loop
open SFV

/-! ### guards as generated from the source -/

theorem loopEmits_none (c : Nat) : Gen.loopEmits c Gen.loopSizeDefault = false := by
  simp [Gen.loopEmits, Gen.loopSizeDefault]

theorem loopEmits_none' (c : Nat) : Gen.loopEmits ((c : Int) + 1) Gen.loopSizeDefault = false := by
  have := loopEmits_none (c + 1); push_cast at this; exact this

theorem loopEmits_some (c n : Nat) : Gen.loopEmits c (Gen.loopSizeOf n) = true ↔ c = n := by
  simp [Gen.loopEmits, Gen.loopSizeOf]; omega

/-! ### a generic "the sorted permutation is unique" -/

theorem pairwise_trichotomy {α} {R : α → α → Prop} {l : List α} (h : l.Pairwise R) {a b : α}
    (ha : a ∈ l) (hb : b ∈ l) : a = b ∨ R a b ∨ R b a := by
  induction l with
  | nil => cases ha
  | cons x xs ih =>
    have hx := List.pairwise_cons.mp h
    rcases List.mem_cons.mp ha with rfl | ha' <;> rcases List.mem_cons.mp hb with rfl | hb'
    · exact Or.inl rfl
    · exact Or.inr (Or.inl (hx.1 b hb'))
    · exact Or.inr (Or.inr (hx.1 a ha'))
    · exact ih hx.2 ha' hb'

theorem mergeSort_perm_unique {α} (le : α → α → Bool)
    (htrans : ∀ a b c, le a b = true → le b c = true → le a c = true)
    (htotal : ∀ a b, (le a b || le b a) = true) {l l' : List α} (hp : l'.Perm l)
    (hs : l.Pairwise (fun a b => le a b = true ∧ le b a = false)) : l'.mergeSort le = l := by
  have h1 : (l'.mergeSort le).Pairwise (fun a b => le a b = true) := List.pairwise_mergeSort htrans htotal l'
  have h2 : l.Pairwise (fun a b => le a b = true) := hs.imp (fun h => h.1)
  have hperm : (l'.mergeSort le).Perm l := (List.mergeSort_perm l' le).trans hp
  refine List.Perm.eq_of_pairwise ?_ h1 h2 hperm
  intro a b ha hb hab hba
  rcases pairwise_trichotomy hs (hperm.subset ha) hb with h | h | h
  · exact h
  · rw [h.2] at hba; cases hba
  · rw [h.2] at hab; cases hab

/-! ### iteration tokens -/

theorem iterToks_length {V} (p : Tag) (i : Nat) (xs : List V) : (iterToks p i xs).length = xs.length := by
  induction xs generalizing i with
  | nil => rfl
  | cons x xs ih => simp [iterToks, ih]

theorem mem_iterToks {V} {p : Tag} {i : Nat} {xs : List V} {t : Tok V} (h : t ∈ iterToks p i xs) :
    ∃ j, i ≤ j ∧ t.tag = p ++ [j] := by
  induction xs generalizing i with
  | nil => cases h
  | cons x xs ih =>
    simp only [iterToks, List.mem_cons] at h
    rcases h with rfl | h
    · exact ⟨i, Nat.le_refl _, rfl⟩
    · obtain ⟨j, hj, ht⟩ := ih h
      exact ⟨j, by omega, ht⟩

theorem lastOf_append {V} (t : Tok V) (p : Tag) (j : Nat) (h : t.tag = p ++ [j]) : lastOf t = j := by
  simp [lastOf, h]

theorem iterToks_getLast? {V} (p : Tag) (i : Nat) (xs : List V) :
    (iterToks p i xs).getLast?.map (·.val) = xs.getLast? := by
  induction xs generalizing i with
  | nil => rfl
  | cons x xs ih =>
    cases xs with
    | nil => simp [iterToks]
    | cons y ys =>
      have := ih (i + 1)
      simp only [iterToks, List.getLast?_cons_cons] at this ⊢
      exact this

/-- iteration tokens are strictly increasing in their last component -/
theorem iterToks_sorted {V} (key : Int → Int) (hk : ∀ a b : Nat, a < b → key a < key b) (p : Tag) (i : Nat) (xs : List V) :
    (iterToks p i xs).Pairwise (fun a b =>
      decide (key (lastOf a) ≤ key (lastOf b)) = true ∧ decide (key (lastOf b) ≤ key (lastOf a)) = false) := by
  induction xs generalizing i with
  | nil => exact List.Pairwise.nil
  | cons x xs ih =>
    refine List.pairwise_cons.mpr ⟨?_, ih (i + 1)⟩
    intro t ht
    obtain ⟨j, hj, htag⟩ := mem_iterToks ht
    rw [lastOf_append t p j htag, lastOf_append ⟨p ++ [i], x⟩ p i rfl]
    have := hk i j (by omega)
    simp only [decide_eq_true_eq, decide_eq_false_iff_not]
    omega

theorem sortAll_perm {V} (p : Tag) (xs : List V) {l' : List (Tok V)} (hp : l'.Perm (iterToks p 0 xs)) :
    sortAll l' = iterToks p 0 xs := by
  unfold sortAll
  refine mergeSort_perm_unique _ ?_ ?_ hp (iterToks_sorted Gen.loopSortKeyAll (by intro a b h; simp [Gen.loopSortKeyAll]; omega) p 0 xs)
  · intro a b c; simp only [decide_eq_true_eq]; omega
  · intro a b; simp only [Bool.or_eq_true, decide_eq_true_eq]; omega

theorem sortLast_perm {V} (p : Tag) (xs : List V) {l' : List (Tok V)} (hp : l'.Perm (iterToks p 0 xs)) :
    sortLast l' = iterToks p 0 xs := by
  unfold sortLast
  refine mergeSort_perm_unique _ ?_ ?_ hp (iterToks_sorted Gen.loopSortKeyLast (by intro a b h; simp [Gen.loopSortKeyLast]; omega) p 0 xs)
  · intro a b c; simp only [decide_eq_true_eq]; omega
  · intro a b; simp only [Bool.or_eq_true, decide_eq_true_eq]; omega

/-- what the property promises for an instance `p` whose iterations produced `vals` -/
def expected {V} (m : Method) (i : Tag × List V) : Out V :=
  match m with
  | .all => .list i.1 (iterToks i.1 0 i.2)
  | .last => .single i.1 i.2.getLast?

theorem processOutput_perm {V} (m : Method) (p : Tag) (xs : List V) {l' : List (Tok V)} (hp : l'.Perm (iterToks p 0 xs)) :
    processOutput m p l' = expected m (p, xs) := by
  cases m with
  | all => simp [processOutput, expected, sortAll_perm p xs hp]
  | last => simp [processOutput, expected, sortLast_perm p xs hp, iterToks_getLast?]

/-! ### the machine of one instance -/

inductive KEv (V : Type) where
  | data (t : Tok V)
  | iterTerm (n : Nat)     -- last component of the iteration termination tag

structure KSt (V : Type) where
  toks : List (Tok V) := []
  size : Option Int := none
  outs : List (Out V) := []

def kcheck {V} (m : Method) (k : Tag) (s : KSt V) : KSt V :=
  if Gen.loopEmits s.toks.length (s.size.getD Gen.loopSizeDefault) then { s with outs := s.outs ++ [processOutput m k s.toks] } else s

def kstep {V} (m : Method) (k : Tag) (s : KSt V) : KEv V → KSt V
  | .data t => kcheck m k { s with toks := s.toks ++ [t] }
  | .iterTerm n => kcheck m k { s with size := some (Gen.loopSizeOf n) }

def nI {V} : List (KEv V) → Nat
  | [] => 0
  | .data _ :: r => nI r
  | .iterTerm _ :: r => nI r + 1

def dataOf {V} : List (KEv V) → List (Tok V)
  | [] => []
  | .data t :: r => t :: dataOf r
  | .iterTerm _ :: r => dataOf r

theorem nil_of_counts {V} (r : List (KEv V)) (h1 : nI r = 0) (h2 : (dataOf r).length = 0) : r = [] := by
  cases r with
  | nil => rfl
  | cons e r' => cases e <;> simp [nI, dataOf] at h1 h2

theorem nI_append {V} (a b : List (KEv V)) : nI (a ++ b) = nI a + nI b := by
  induction a with
  | nil => simp [nI]
  | cons e a ih => cases e <;> simp [nI, ih]; omega

theorem dataOf_append {V} (a b : List (KEv V)) : dataOf (a ++ b) = dataOf a ++ dataOf b := by
  induction a with
  | nil => simp [dataOf]
  | cons e a ih => cases e <;> simp [dataOf, ih]

theorem dataOf_map {V} (ts : List (Tok V)) : dataOf (ts.map KEv.data) = ts := by
  induction ts with
  | nil => rfl
  | cons t ts ih => simp [dataOf, ih]

theorem nI_map {V} (ts : List (Tok V)) : nI (ts.map KEv.data) = 0 := by
  induction ts with
  | nil => rfl
  | cons t ts ih => simp [nI, ih]

theorem nI_perm {V} {a b : List (KEv V)} (h : a.Perm b) : nI a = nI b := by
  induction h with
  | nil => rfl
  | cons x _ ih => cases x <;> simp [nI, ih]
  | swap x y l => cases x <;> cases y <;> simp [nI]
  | trans _ _ ih1 ih2 => exact ih1.trans ih2

theorem dataOf_perm {V} {a b : List (KEv V)} (h : a.Perm b) : (dataOf a).Perm (dataOf b) := by
  induction h with
  | nil => exact List.Perm.refl _
  | cons x _ ih => cases x <;> simp [dataOf, ih]
  | swap x y l => cases x <;> cases y <;> simp [dataOf, List.Perm.swap]
  | trans _ _ ih1 ih2 => exact ih1.trans ih2

def Pending {V} (n : Nat) (s : KSt V) (r : List (KEv V)) : Prop :=
  s.outs = [] ∧ (∀ m, KEv.iterTerm m ∈ r → m = n) ∧ s.toks.length + (dataOf r).length = n ∧
  ((s.size = none ∧ nI r = 1) ∨ (s.size = some (Gen.loopSizeOf n) ∧ nI r = 0 ∧ 0 < (dataOf r).length))

theorem krun_aux {V} (m : Method) (k : Tag) (n : Nat) (r : List (KEv V)) : ∀ (s : KSt V), Pending n s r →
    (r.foldl (kstep m k) s).outs = [processOutput m k (s.toks ++ dataOf r)] := by
  induction r with
  | nil =>
    intro s ⟨_, _, _, h⟩
    rcases h with ⟨_, h⟩ | ⟨_, _, h⟩ <;> simp [nI, dataOf] at h
  | cons e r' ih =>
    intro s ⟨hout, hsz, hlen, hcase⟩
    have hsz' : ∀ m, KEv.iterTerm m ∈ r' → m = n := fun m hm => hsz m (List.mem_cons_of_mem _ hm)
    cases e with
    | data t =>
      simp only [dataOf, List.length_cons] at hlen
      rcases hcase with ⟨hnone, hS⟩ | ⟨hsome, hS, _⟩
      · have : kstep m k s (.data t) = { s with toks := s.toks ++ [t] } := by
          simp [kstep, kcheck, hnone, loopEmits_none']
        simp only [List.foldl_cons, this]
        rw [ih]
        · simp [dataOf]
        · refine ⟨hout, hsz', ?_, Or.inl ⟨hnone, by simpa [nI] using hS⟩⟩
          simp; omega
      · by_cases hfull : s.toks.length + 1 = n
        · have hE : (dataOf r').length = 0 := by omega
          have hr' : r' = [] := nil_of_counts r' (by simpa [nI] using hS) hE
          subst hr'
          have hyes : Gen.loopEmits (s.toks.length + 1 : Nat) (Gen.loopSizeOf n) = true := (loopEmits_some _ _).mpr hfull
          push_cast at hyes
          simp [kstep, kcheck, hsome, hyes, hout, dataOf]
        · have hno : Gen.loopEmits (s.toks.length + 1 : Nat) (Gen.loopSizeOf n) = false := by
            cases h : Gen.loopEmits (s.toks.length + 1 : Nat) (Gen.loopSizeOf n)
            · rfl
            · exact absurd ((loopEmits_some _ _).mp h) hfull
          push_cast at hno
          have : kstep m k s (.data t) = { s with toks := s.toks ++ [t] } := by
            simp [kstep, kcheck, hsome, hno]
          simp only [List.foldl_cons, this]
          rw [ih]
          · simp [dataOf]
          · refine ⟨hout, hsz', ?_, Or.inr ⟨hsome, by simpa [nI] using hS, ?_⟩⟩
            · simp; omega
            · omega
    | iterTerm j =>
      have hm : j = n := hsz j (List.mem_cons_self ..)
      subst hm
      simp only [dataOf] at hlen
      rcases hcase with ⟨hnone, hS⟩ | ⟨_, hS, _⟩
      · simp only [nI] at hS
        by_cases hfull : s.toks.length = j
        · have hE : (dataOf r').length = 0 := by omega
          have hr' : r' = [] := nil_of_counts r' (by omega) hE
          subst hr'
          have hyes : Gen.loopEmits s.toks.length (Gen.loopSizeOf j) = true := (loopEmits_some _ _).mpr hfull
          simp [kstep, kcheck, hyes, hout, dataOf]
        · have hno : Gen.loopEmits s.toks.length (Gen.loopSizeOf j) = false := by
            cases h : Gen.loopEmits s.toks.length (Gen.loopSizeOf j)
            · rfl
            · exact absurd ((loopEmits_some _ _).mp h) hfull
          have : kstep m k s (.iterTerm j) = { s with size := some (Gen.loopSizeOf j) } := by
            simp [kstep, kcheck, hno]
          simp only [List.foldl_cons, this]
          rw [ih]
          · simp [dataOf]
          · refine ⟨hout, hsz', by simpa using hlen, Or.inr ⟨rfl, by omega, by omega⟩⟩
      · simp [nI] at hS

/-- any arrival order of the `n` body outputs of one instance and its iteration termination `p.n`:
    exactly one output, computed from all `n` tokens -/
theorem kloop_perm {V} (m : Method) (p : Tag) (xs : List V) (kes : List (KEv V))
    (hp : kes.Perm ((iterToks p 0 xs).map KEv.data ++ [KEv.iterTerm xs.length])) :
    (kes.foldl (kstep m p) {}).outs = [expected m (p, xs)] := by
  have h1 : nI kes = 1 := by rw [nI_perm hp, nI_append, nI_map]; rfl
  have h2 : (dataOf kes).Perm (iterToks p 0 xs) := by
    have := dataOf_perm hp
    rwa [dataOf_append, dataOf_map, show dataOf [KEv.iterTerm (V := V) xs.length] = [] from rfl, List.append_nil] at this
  have h3 : ∀ j, KEv.iterTerm j ∈ kes → j = xs.length := by
    intro j hj
    have := hp.subset hj
    simp at this
    exact this
  have hlen : (dataOf kes).length = xs.length := by rw [h2.length_eq, iterToks_length]
  have := krun_aux m p xs.length kes {} ⟨rfl, h3, by simpa using hlen, Or.inl ⟨rfl, h1⟩⟩
  rw [this]
  simp only [List.nil_append]
  rw [processOutput_perm m p xs h2]

end SFV.Loop
