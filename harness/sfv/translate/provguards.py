"""Extractor for C18: the shape of the `while token_frontier:` loop of `ProvenanceGraph.build_graph` (streamflow/recovery/utils.py) —
the facts the hand-written model `SFV/Model/ProvGraph.lean` (`visit`, `enqueue`, `bfs`) relies on -> SFV/Gen/ProvGuards.lean"""
from __future__ import annotations

import ast
import os

from sfv.translate.expr import TranslateError, parse_function

TARGET = "SFV/Gen/ProvGuards.lean"


def _u(n) -> str:
    return ast.unparse(n).replace(" ", "")


def _w(n) -> str:
    """unparsed walrus expression without the optional outer parentheses"""
    t = _u(n)
    return t[1:-1] if t.startswith("(") and t.endswith(")") else t


def _no_log(stmts):
    return [s for s in stmts if not (isinstance(s, ast.If) and "logger.isEnabledFor" in _u(s.test))
            and not (isinstance(s, ast.Expr) and isinstance(s.value, ast.Constant))]


def extract(repo: str) -> dict:
    fn = parse_function(os.path.join(repo, "streamflow/recovery/utils.py"), "build_graph", "ProvenanceGraph")
    body = _no_log(fn.body)
    d = {}
    init = [s for s in body if isinstance(s, ast.Assign) and _u(s.targets[0]) == "token_frontier"]
    d["frontierFromInputs"] = len(init) == 1 and _u(init[0].value) == "deque(inputs)"
    pre = [s for s in body if isinstance(s, ast.For)]
    d["inputsAreNodes"] = len(pre) == 1 and _u(pre[0].iter) == "token_frontier" and [_u(x) for x in pre[0].body] == [f"self.add({_u(pre[0].target)})"]
    loops = [s for s in body if isinstance(s, ast.While)]
    if len(loops) != 1 or _u(loops[0].test) != "token_frontier":
        raise TranslateError("build_graph: expected exactly one `while token_frontier:` loop")
    lb = _no_log(loops[0].body)
    pops = [s for s in lb if isinstance(s, ast.Assign) and _u(s.targets[0]) == "token"]
    d["fifo"] = len(pops) == 1 and _u(pops[0].value) == "token_frontier.popleft()" and lb.index(pops[0]) == 0
    ifs = [s for s in lb if isinstance(s, ast.If)]
    if len(ifs) != 1:
        raise TranslateError("build_graph: expected one if/elif/else per popped token")
    top = ifs[0]
    d["stopOnRecoveringJob"] = (_u(top.test) == "isinstance(token,JobToken)andawaitself.context.failure_manager.is_recovering(token.value.name)"
                                and sorted(_u(x) for x in _no_log(top.body)) == ["is_available=False", "self.add(token)"])
    if len(top.orelse) != 1 or not isinstance(top.orelse[0], ast.If):
        raise TranslateError("build_graph: `elif is_available := …` branch not found")
    mid = top.orelse[0]
    d["stopOnAvailable"] = (_w(mid.test) == "is_available:=(awaittoken.is_available(context=self.context))"
                            and [_u(x) for x in _no_log(mid.body)] == ["self.add(token)"])
    rest = _no_log(mid.orelse)
    if len(rest) != 1 or not isinstance(rest[0], ast.If):
        raise TranslateError("build_graph: the not-available branch is not `if prev_tokens := …: … else: raise`")
    dep = rest[0]
    d["dependeesFromProvenance"] = _w(dep.test) == "prev_tokens:=(awaitload_dependee_tokens(token.persistent_id,loading_context))"
    els = _no_log(dep.orelse)
    d["raisesWithoutDependees"] = len(els) == 1 and isinstance(els[0], ast.Raise) and "FailureHandlingException" in _u(els[0])
    fb = _no_log(dep.body)
    ok = len(fb) == 1 and isinstance(fb[0], ast.For) and _u(fb[0].iter) == "prev_tokens" and _u(fb[0].target) == "prev_token"
    d["edgeDependeeToToken"] = d["enqueueSkipsVisited"] = d["enqueueSkipsFrontier"] = d["enqueueAppends"] = False
    if ok:
        inner = _no_log(fb[0].body)
        d["edgeDependeeToToken"] = len(inner) >= 1 and _u(inner[0]) == "self.add(prev_token,token)"
        conds = [s for s in inner if isinstance(s, ast.If)]
        if len(inner) == 2 and len(conds) == 1 and isinstance(conds[0].test, ast.BoolOp) and isinstance(conds[0].test.op, ast.And):
            parts = [_u(v) for v in conds[0].test.values]
            d["enqueueSkipsVisited"] = "prev_token.persistent_idnotinself.info_tokens.keys()" in parts
            d["enqueueSkipsFrontier"] = "notcontains_persistent_id(prev_token.persistent_id,token_frontier)" in parts
            d["enqueueAppends"] = len(parts) == 2 and [_u(x) for x in _no_log(conds[0].body)] == ["token_frontier.append(prev_token)"] and not conds[0].orelse
    last = lb[-1]
    d["visitedRecordedAtEndOfIteration"] = (isinstance(last, ast.Expr) and _u(last).startswith("self.info_tokens.setdefault(token.persistent_id,ProvenanceToken(")
                                            and "is_available=is_available" in _u(last))
    return d


FIELDS = ["frontierFromInputs", "inputsAreNodes", "fifo", "stopOnRecoveringJob", "stopOnAvailable", "dependeesFromProvenance",
          "raisesWithoutDependees", "edgeDependeeToToken", "enqueueSkipsVisited", "enqueueSkipsFrontier", "enqueueAppends",
          "visitedRecordedAtEndOfIteration"]


def generate(repo: str) -> tuple[str, str]:
    d = extract(repo)
    fields = "\n".join(f"  {k} : Bool" for k in FIELDS)
    vals = ", ".join(f"{k} := {'true' if d[k] else 'false'}" for k in FIELDS)
    text = f"""/-! GENERATED by harness/sfv/translate/provguards.py from streamflow/recovery/utils.py (ProvenanceGraph.build_graph) — do not edit. -/
namespace SFV.Gen

/-- the statements of `build_graph` the model `SFV/Model/ProvGraph.lean` transcribes, each re-read from the source -/
structure ProvShape where
{fields}
deriving DecidableEq, Repr

def provShape : ProvShape := {{ {vals} }}

end SFV.Gen
"""
    return TARGET, text
