import SFV.Model.Ledger
/-! The waiting protocol of `DefaultScheduler` (C12): `schedule()` starts one `_process_target` task per target; a task
holds the condition lock while it checks (`check`), and either allocates or goes to sleep in `wait_queue.wait()`
(lock released atomically); `notify_status` changes the bookkeeping and — as extracted from the source,
`Gen.Sched.notifiesAllLast` — ends with `notify_all()`, which makes every sleeping task re-check; `retry_interval`
wakes a single task (`timeout`). Each action is one atomic section (the code between two acquisitions of the lock).

The bookkeeping is abstract (`Sys`): a state `σ`, `fits`, `alloc`, the effect of a notification, and the one fact the
protocol needs — an allocation never makes another request fit (`antitone`). `ledgerSys` instantiates it with the
bookkeeping model of C10/C11. -/
namespace SFV.Wait
open SFV.Gen.Sched

structure Sys (σ W N : Type) where
  fits : σ → W → Bool                 -- `len(valid_locations) >= target.locations` for this request and target
  alloc : σ → W → σ                   -- `_allocate_job`
  rid : W → Nat                       -- the request (`JobContext`) a waiter task belongs to
  effect : σ → N → σ                  -- what `notify_status` does to the bookkeeping
  antitone : ∀ s w w', fits (alloc s w) w' = true → fits s w' = true

inductive Pc | absent | awake | sleeping | done
deriving DecidableEq, Repr

structure St (σ W : Type) where
  sched : σ
  pc : Nat → Pc                        -- waiter tasks by index
  desc : Nat → W                       -- what each task asks for
  granted : Nat → Bool                 -- `JobContext.scheduled` per request

inductive Act (W N : Type)
  | submit (i : Nat) (w : W)           -- `schedule()` creates the task
  | check (i : Nat)                    -- one pass of the critical section of `_process_target`
  | notify (n : N)                     -- `notify_status` (critical section, ends with notify_all)
  | timeout (i : Nat)                  -- `asyncio.wait_for(self.wait_queue.wait(), timeout=self.retry_interval)` expires

variable {σ W N : Type}

def step (S : Sys σ W N) (s : St σ W) : Act W N → St σ W
  | .submit i w =>
      if s.pc i = .absent then
        { s with pc := fun k => if k = i then .awake else s.pc k, desc := fun k => if k = i then w else s.desc k }
      else s
  | .check i =>
      if s.pc i = .awake then
        if s.granted (S.rid (s.desc i)) then { s with pc := fun k => if k = i then .done else s.pc k }
        else if S.fits s.sched (s.desc i) then
          { s with sched := S.alloc s.sched (s.desc i),
                   granted := fun r => if r = S.rid (s.desc i) then true else s.granted r,
                   pc := fun k => if k = i then .done else s.pc k }
        else { s with pc := fun k => if k = i then .sleeping else s.pc k }
      else s
  | .notify n =>
      { s with sched := S.effect s.sched n,
               pc := if notifiesAllLast then (fun k => if s.pc k = .sleeping then .awake else s.pc k) else s.pc }
  | .timeout i =>
      if s.pc i = .sleeping then { s with pc := fun k => if k = i then .awake else s.pc k } else s

def run (S : Sys σ W N) (s : St σ W) : List (Act W N) → St σ W
  | [] => s
  | a :: as => run S (step S s a) as

def init (s0 : σ) (d : W) : St σ W := { sched := s0, pc := fun _ => .absent, desc := fun _ => d, granted := fun _ => false }

/-- no task is awake: nothing will run until the next notification / timeout / request -/
def Quiescent (s : St σ W) : Prop := ∀ i, s.pc i ≠ .awake

/-- the invariant: a task sleeps only if its request was granted meanwhile or does not fit -/
def Inv (S : Sys σ W N) (s : St σ W) : Prop :=
  ∀ i, s.pc i = .sleeping → s.granted (S.rid (s.desc i)) = false → S.fits s.sched (s.desc i) = false

/-! ### instance: the bookkeeping of C10/C11 -/

structure Req where
  job : Nat
  entries : List (Ledger.Loc × Rat)

/-- `_is_valid` for every level of every selected location (amounts are requirements, hence not negative) -/
def ledgerFits (cap : Ledger.Loc → Rat) (s : Ledger.St) (w : Req) : Bool :=
  w.entries.all (fun e => decide (0 ≤ e.2) && decide (s.reserved e.1 + e.2 ≤ cap e.1))

def ledgerAlloc (cap : Ledger.Loc → Rat) (s : Ledger.St) (w : Req) : Ledger.St :=
  if ledgerFits cap s w then Ledger.step cap s (.allocate w.job w.entries) else s

end SFV.Wait
