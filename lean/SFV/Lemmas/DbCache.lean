import SFV.Model.DbCache
/-! Helper lemmas for C09: fresh objects, mutations by address, the inductive invariant. -/
namespace SFV.DbCache

/-! ### fresh objects -/

theorem freshFields_erase (n : Nat) (p : PRow) : (freshFields n p).1.map Field.erase = p := by
  induction p generalizing n with
  | nil => rfl
  | cons f p ih => cases f <;> simp [freshFields, Field.erase, ih]

theorem freshFields_le (n : Nat) (p : PRow) : n ≤ (freshFields n p).2 := by
  induction p generalizing n with
  | nil => simp [freshFields]
  | cons f p ih =>
    cases f with
    | atom k => simpa [freshFields] using ih n
    | box it => have := ih (n + 1); simp [freshFields]; omega

theorem freshFields_addrs (n : Nat) (p : PRow) :
    ∀ a ∈ (freshFields n p).1.flatMap Field.addrs, n ≤ a ∧ a < (freshFields n p).2 := by
  induction p generalizing n with
  | nil => simp [freshFields]
  | cons f p ih =>
    cases f with
    | atom k => simpa [freshFields, Field.addrs] using ih n
    | box it =>
      intro a ha
      simp only [freshFields, List.flatMap_cons, Field.addrs, List.mem_append, List.mem_singleton] at ha
      have hle := freshFields_le (n + 1) p
      rcases ha with rfl | ha
      · simp [freshFields]; omega
      · have := ih (n + 1) a ha; simp [freshFields]; omega

theorem fresh_erase (n : Nat) (p : PRow) : (fresh n p).1.erase = p := by
  simp [fresh, Row.erase, freshFields_erase]

theorem fresh_lt (n : Nat) (p : PRow) : n < (fresh n p).2 := by
  have := freshFields_le (n + 1) p; simp [fresh]; omega

theorem fresh_addrs (n : Nat) (p : PRow) : ∀ a ∈ (fresh n p).1.addrs, n ≤ a ∧ a < (fresh n p).2 := by
  intro a ha
  simp only [fresh, Row.addrs, List.mem_cons] at ha
  have hle := freshFields_le (n + 1) p
  rcases ha with rfl | ha
  · simp [fresh]; omega
  · have := freshFields_addrs (n + 1) p a ha; simp [fresh]; omega

/-! ### mutation by address -/

theorem mutTop_of_not_mem {a i v : Nat} {r : Row} (h : a ∉ r.addrs) : r.mutTop a i v = r := by
  have : r.addr ≠ a := fun e => h (by simp [Row.addrs, e])
  simp [Row.mutTop, this]

theorem Field.mutNested_of_not_mem {a k v : Nat} {f : Field} (h : a ∉ f.addrs) : f.mutNested a k v = f := by
  cases f with
  | atom n => rfl
  | box b items =>
    have : b ≠ a := fun e => h (by simp [Field.addrs, e])
    simp [Field.mutNested, this]

theorem mutNested_of_not_mem {a k v : Nat} {r : Row} (h : a ∉ r.addrs) : r.mutNested a k v = r := by
  have hf : ∀ f ∈ r.fields, f.mutNested a k v = f := by
    intro f hf
    apply Field.mutNested_of_not_mem
    intro ha
    exact h (by simp only [Row.addrs, List.mem_cons, List.mem_flatMap]; exact Or.inr ⟨f, hf, ha⟩)
  cases r with
  | mk addr fields =>
    simp only [Row.mutNested, Row.mk.injEq, true_and]
    have : fields.map (Field.mutNested a k v) = fields.map id :=
      List.map_congr_left (by intro f hf'; simpa using hf f hf')
    simpa using this

theorem Field.mutNested_addrs (a k v : Nat) (f : Field) : (f.mutNested a k v).addrs = f.addrs := by
  cases f with
  | atom n => rfl
  | box b items => simp only [Field.mutNested]; split <;> rfl

theorem mutNested_addrs (a k v : Nat) (r : Row) : (r.mutNested a k v).addrs = r.addrs := by
  simp [Row.mutNested, Row.addrs, List.flatMap_map, Field.mutNested_addrs]

theorem set_atom_addrs (fs : List Field) (i v : Nat) :
    ∀ a ∈ (fs.set i (.atom v)).flatMap Field.addrs, a ∈ fs.flatMap Field.addrs := by
  induction fs generalizing i with
  | nil => simp
  | cons f fs ih =>
    cases i with
    | zero => intro a ha; simp [Field.addrs] at ha ⊢; exact Or.inr ha
    | succ i =>
      intro a ha
      simp only [List.set_cons_succ, List.flatMap_cons, List.mem_append] at ha ⊢
      rcases ha with h | h
      · exact Or.inl h
      · exact Or.inr (ih i a h)

theorem mutTop_addrs (a i v : Nat) (r : Row) : ∀ x ∈ (r.mutTop a i v).addrs, x ∈ r.addrs := by
  intro x hx
  simp only [Row.mutTop] at hx
  split at hx
  · simp only [Row.addrs, List.mem_cons] at hx ⊢
    rcases hx with h | h
    · exact Or.inl h
    · exact Or.inr (set_atom_addrs _ _ _ x h)
  · exact hx

/-! ### the discipline as propositions -/

structure SoundP (spec : Spec) : Prop where
  pops : ∀ g ∈ spec.getters, ∀ u ∈ spec.updates, u.table ∈ g.reads → g.cache ∈ u.pops ∧ u.popKeyIsId = true
  self : ∀ g ∈ spec.getters, g.table ∈ g.reads ∧ g.copy = .deep
  share : ∀ g ∈ spec.getters, ∀ g' ∈ spec.getters, g.cache = g'.cache → g.table = g'.table

theorem soundP_of_sound {spec : Spec} (h : spec.sound = true) : SoundP spec := by
  simp only [Spec.sound, Bool.and_eq_true, List.all_eq_true, Bool.or_eq_true, Bool.not_eq_true',
    List.contains_iff_mem, beq_iff_eq, bne_iff_ne, ne_eq, decide_eq_true_eq] at h
  obtain ⟨⟨⟨⟨⟨h1, h2⟩, h3⟩, _⟩, _⟩, _⟩ := h
  refine ⟨?_, ?_, ?_⟩
  · intro g hg u hu hm
    rcases h1 g hg u hu with h | h
    · simp at h; exact absurd hm h
    · exact h
  · intro g hg; exact ⟨(h2 g hg).1.1, (h2 g hg).2⟩
  · intro g hg g' hg' hc
    rcases h3 g hg g' hg' with h | h
    · exact absurd hc (by simpa using h)
    · exact h

/-! ### the invariant -/

structure Inv (spec : Spec) (s : St) : Prop where
  /-- a cached row is the stored row -/
  coh : ∀ c id r, s.cache c id = some r → ∀ g ∈ spec.getters, g.cache = c → s.db g.table id = some r.erase
  /-- ids not yet handed out are unused -/
  ids : ∀ t id, s.nextId t ≤ id → s.db t id = none
  cacheLt : ∀ c id r, s.cache c id = some r → ∀ a ∈ r.addrs, a < s.next
  outLt : ∀ r ∈ s.out, ∀ a ∈ r.addrs, a < s.next
  /-- no object is shared between a cached row and a row handed out -/
  disj : ∀ c id rc, s.cache c id = some rc → ∀ ro ∈ s.out, ∀ a ∈ rc.addrs, a ∉ ro.addrs

theorem inv_init (spec : Spec) : Inv spec St.init := by
  constructor <;> simp [St.init]

theorem inv_step {spec : Spec} (hS : SoundP spec) {s s' : St} {op : Op} {res : Option Row}
    (hI : Inv spec s) (hs : step spec s op = some (s', res)) : Inv spec s' := by
  obtain ⟨hcoh, hids, hcl, hol, hdj⟩ := hI
  cases op with
  | add ins row =>
    simp only [step] at hs
    split at hs
    · simp only [Option.some.injEq, Prod.mk.injEq] at hs
      obtain ⟨rfl, _⟩ := hs
      refine ⟨?_, ?_, hcl, hol, hdj⟩
      · intro c id r hc g hg hgc
        have := hcoh c id r hc g hg hgc
        simp only [upd2]
        split
        · rename_i h; rw [h.1, h.2] at this
          rw [hids _ _ (Nat.le_refl _)] at this; cases this
        · exact this
      · intro t id hle
        simp only [upd2]
        split
        · rename_i h; obtain ⟨rfl, rfl⟩ := h; exfalso; simp at hle; omega
        · apply hids
          simp only at hle
          split at hle <;> omega
    · cases hs
  | update u id row =>
    simp only [step] at hs
    split at hs
    · rename_i hu
      simp only [Option.some.injEq, Prod.mk.injEq] at hs
      obtain ⟨rfl, _⟩ := hs
      have hsub : ∀ c i r, (if c ∈ u.pops ∧ u.popKeyIsId = true ∧ i = id then none else s.cache c i) = some r →
          s.cache c i = some r ∧ ¬ (c ∈ u.pops ∧ u.popKeyIsId = true ∧ i = id) := by
        intro c i r h; split at h
        · cases h
        · exact ⟨h, ‹_›⟩
      refine ⟨?_, ?_, ?_, hol, ?_⟩
      · intro c i r hc g hg hgc
        obtain ⟨hc', hnp⟩ := hsub c i r hc
        have hold := hcoh c i r hc' g hg hgc
        simp only
        split
        · simp only [upd2]
          split
          · rename_i h
            exfalso
            have := hS.pops g hg u hu (h.1 ▸ (hS.self g hg).1)
            exact hnp ⟨hgc ▸ this.1, this.2, h.2⟩
          · exact hold
        · exact hold
      · intro t i hle
        simp only
        split
        · rename_i hex
          simp only [upd2]
          split
          · rename_i h; rw [← h.1, ← h.2, hids t i hle] at hex; simp at hex
          · exact hids t i hle
        · exact hids t i hle
      · intro c i r hc; exact hcl c i r (hsub c i r hc).1
      · intro c i r hc; exact hdj c i r (hsub c i r hc).1
    · cases hs
  | get g id =>
    simp only [step] at hs
    split at hs
    · rename_i hg
      have hdeep : g.copy = .deep := (hS.self g hg).2
      split at hs
      · -- hit
        rename_i rc hrc
        simp only [Option.some.injEq, Prod.mk.injEq] at hs
        obtain ⟨rfl, _⟩ := hs
        simp only [hdeep, copyRow]
        have hlt := fresh_lt s.next rc.erase
        have had := fresh_addrs s.next rc.erase
        refine ⟨hcoh, hids, ?_, ?_, ?_⟩ <;> (try dsimp only)
        · intro c i r hc a ha; have := hcl c i r hc a ha; omega
        · intro r hr a ha
          rcases List.mem_append.mp hr with h | h
          · have := hol r h a ha; omega
          · simp at h; subst h; exact (had a ha).2
        · intro c i r hc ro hro a ha
          rcases List.mem_append.mp hro with h | h
          · exact hdj c i r hc ro h a ha
          · simp at h; subst h
            intro hmem
            have := hcl c i r hc a ha
            have := (had a hmem).1
            omega
      · split at hs
        · -- missing row
          simp only [Option.some.injEq, Prod.mk.injEq] at hs
          obtain ⟨rfl, _⟩ := hs
          exact ⟨hcoh, hids, hcl, hol, hdj⟩
        · -- miss
          rename_i hmiss p hp
          simp only [Option.some.injEq, Prod.mk.injEq] at hs
          obtain ⟨rfl, _⟩ := hs
          simp only [hdeep, copyRow, fresh_erase]
          have hlt1 := fresh_lt s.next p
          have had1 := fresh_addrs s.next p
          have hlt2 := fresh_lt (fresh s.next p).2 p
          have had2 := fresh_addrs (fresh s.next p).2 p
          refine ⟨?_, hids, ?_, ?_, ?_⟩ <;> (try dsimp only)
          · intro c i r hc g' hg' hgc
            simp only [upd2] at hc
            split at hc
            · rename_i h
              simp only [Option.some.injEq] at hc
              subst hc
              have ht : g'.table = g.table := hS.share g' hg' g hg (hgc.trans h.1)
              rw [ht, h.2, fresh_erase]; exact hp
            · exact hcoh c i r hc g' hg' hgc
          · intro c i r hc a ha
            simp only [upd2] at hc
            split at hc
            · simp only [Option.some.injEq] at hc; subst hc
              have := (had1 a ha).2; omega
            · have := hcl c i r hc a ha; omega
          · intro r hr a ha
            rcases List.mem_append.mp hr with h | h
            · have := hol r h a ha; omega
            · simp at h; subst h; exact (had2 a ha).2
          · intro c i r hc ro hro a ha
            simp only [upd2] at hc
            rcases List.mem_append.mp hro with h | h
            · split at hc
              · simp only [Option.some.injEq] at hc; subst hc
                intro hmem
                have := hol ro h a hmem
                have := (had1 a ha).1
                omega
              · exact hdj c i r hc ro h a ha
            · simp at h; subst h
              intro hmem
              have h2 := (had2 a hmem).1
              split at hc
              · simp only [Option.some.injEq] at hc; subst hc
                have := (had1 a ha).2; omega
              · have := hcl c i r hc a ha; omega
    · cases hs
  | mutTop j i v =>
    simp only [step] at hs
    split at hs
    · rename_i r hr
      simp only [Option.some.injEq, Prod.mk.injEq] at hs
      obtain ⟨rfl, _⟩ := hs
      have hrm : r ∈ s.out := List.mem_of_getElem? hr
      have hsame : ∀ c x rc, s.cache c x = some rc → rc.mutTop r.addr i v = rc := by
        intro c x rc hc
        apply mutTop_of_not_mem
        intro ha
        exact hdj c x rc hc r hrm r.addr ha (by simp [Row.addrs])
      have hcache : ∀ c x, (s.cache c x).map (Row.mutTop r.addr i v) = s.cache c x := by
        intro c x
        cases hc : s.cache c x with
        | none => rfl
        | some rc => simp [hsame c x rc hc]
      simp only [hcache]
      refine ⟨hcoh, hids, hcl, ?_, ?_⟩
      · intro ro hro a ha
        obtain ⟨r0, hr0, rfl⟩ := List.mem_map.mp hro
        exact hol r0 hr0 a (mutTop_addrs _ _ _ r0 a ha)
      · intro c x rc hc ro hro a ha hmem
        obtain ⟨r0, hr0, rfl⟩ := List.mem_map.mp hro
        exact hdj c x rc hc r0 hr0 a ha (mutTop_addrs _ _ _ r0 a hmem)
    · cases hs
  | mutNested j i k v =>
    simp only [step] at hs
    split at hs
    · rename_i r hr
      split at hs
      · rename_i a items hf
        simp only [Option.some.injEq, Prod.mk.injEq] at hs
        obtain ⟨rfl, _⟩ := hs
        have hrm : r ∈ s.out := List.mem_of_getElem? hr
        have har : a ∈ r.addrs := by
          have hfm : Field.box a items ∈ r.fields := List.mem_of_getElem? hf
          simp only [Row.addrs, List.mem_cons, List.mem_flatMap]
          exact Or.inr ⟨_, hfm, by simp [Field.addrs]⟩
        have hsame : ∀ c x rc, s.cache c x = some rc → rc.mutNested a k v = rc := by
          intro c x rc hc
          apply mutNested_of_not_mem
          intro ha
          exact hdj c x rc hc r hrm a ha har
        have hcache : ∀ c x, (s.cache c x).map (Row.mutNested a k v) = s.cache c x := by
          intro c x
          cases hc : s.cache c x with
          | none => rfl
          | some rc => simp [hsame c x rc hc]
        simp only [hcache]
        refine ⟨hcoh, hids, hcl, ?_, ?_⟩
        · intro ro hro x hx
          obtain ⟨r0, hr0, rfl⟩ := List.mem_map.mp hro
          rw [mutNested_addrs] at hx
          exact hol r0 hr0 x hx
        · intro c x rc hc ro hro y hy hmem
          obtain ⟨r0, hr0, rfl⟩ := List.mem_map.mp hro
          rw [mutNested_addrs] at hmem
          exact hdj c x rc hc r0 hr0 y hy hmem
      · cases hs
    · cases hs

theorem inv_reachable {spec : Spec} (hS : SoundP spec) {s : St} (h : Reachable spec s) : Inv spec s := by
  induction h with
  | init => exact inv_init spec
  | step _ hs ih => exact inv_step hS ih hs

end SFV.DbCache
