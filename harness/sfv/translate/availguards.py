"""Extractor for C18 (and the availability side of C16): how `is_available` combines its parts —
`Token.is_available` (core/workflow.py), `FileToken` / `ListToken` / `ObjectToken.is_available` (workflow/token.py)
-> SFV/Gen/AvailGuards.lean"""
from __future__ import annotations

import ast
import os

from sfv.translate.expr import TranslateError, parse_function

TARGET = "SFV/Gen/AvailGuards.lean"


def _u(n) -> str:
    return ast.unparse(n).replace(" ", "")


def _quant_of_gather(call, what: str) -> str:
    """`any|all(await asyncio.gather(*(asyncio.create_task(<elem>) for … in <iter>)))` -> (quantifier, elem, iter)"""
    if not (isinstance(call, ast.Call) and isinstance(call.func, ast.Name) and call.func.id in ("any", "all") and len(call.args) == 1):
        raise TranslateError(f"{what}: `{ast.unparse(call)}` is not any(...) / all(...)")
    arg = call.args[0]
    if not (isinstance(arg, ast.Await) and isinstance(arg.value, ast.Call) and _u(arg.value.func) == "asyncio.gather"
            and len(arg.value.args) == 1 and isinstance(arg.value.args[0], ast.Starred)
            and isinstance(arg.value.args[0].value, ast.GeneratorExp)):
        raise TranslateError(f"{what}: argument of {call.func.id}() is not `await asyncio.gather(*(… for … in …))`")
    gen = arg.value.args[0].value
    if len(gen.generators) != 1 or gen.generators[0].ifs:
        raise TranslateError(f"{what}: filtered or nested generator")
    elt = gen.elt
    if isinstance(elt, ast.Call) and _u(elt.func) == "asyncio.create_task" and len(elt.args) == 1:
        elt = elt.args[0]
    return call.func.id, _u(elt), _u(gen.generators[0].iter), _u(gen.generators[0].target)


def extract(repo: str) -> dict:
    tok = os.path.join(repo, "streamflow/workflow/token.py")
    base = parse_function(os.path.join(repo, "streamflow/core/workflow.py"), "is_available", "Token")
    body = [s for s in base.body if not (isinstance(s, ast.Expr) and isinstance(s.value, ast.Constant))]
    if len(body) != 1 or _u(body[0]) != "returnself._recoverable":
        raise TranslateError("Token.is_available is not `return self._recoverable`")
    # ---- FileToken
    fn = parse_function(tok, "is_available", "FileToken")
    body = [s for s in fn.body if not (isinstance(s, ast.Expr) and isinstance(s.value, ast.Constant))]
    if not (len(body) == 1 and isinstance(body[0], ast.If) and _u(body[0].test) == "notself.recoverable"
            and len(body[0].body) == 1 and _u(body[0].body[0]) == "returnFalse"):
        raise TranslateError("FileToken.is_available does not start with `if not self.recoverable: return False`")
    rest = body[0].orelse
    if not (len(rest) == 2 and isinstance(rest[0], ast.For) and _u(rest[1]) == "returnTrue"
            and _u(rest[0].iter) == "awaitself.get_paths(context)" and _u(rest[0].target) == "path" and not rest[0].orelse):
        raise TranslateError("FileToken.is_available: expected `for path in await self.get_paths(context): …` followed by `return True`")
    loop = rest[0].body
    if not (len(loop) == 1 and isinstance(loop[0], ast.If)):
        raise TranslateError("FileToken.is_available: body of the path loop is not one if/else")
    first = loop[0]
    t = _u(first.test)
    if not (t == "len((data_locations:=context.data_manager.get_data_locations(path,data_type=DataType.PRIMARY)))==0"
            and len(first.body) == 1 and _u(first.body[0]) == "returnFalse"):
        raise TranslateError(f"FileToken.is_available: first test `{ast.unparse(first.test)}` is not `len(data_locations := "
                             f"…get_data_locations(path, data_type=DataType.PRIMARY)) == 0` -> return False")
    second = first.orelse
    if not (len(second) == 1 and isinstance(second[0], ast.If) and isinstance(second[0].test, ast.UnaryOp)
            and isinstance(second[0].test.op, ast.Not) and len(second[0].body) == 1 and _u(second[0].body[0]) == "returnFalse"
            and not second[0].orelse):
        raise TranslateError("FileToken.is_available: expected `if not any|all(...): return False` for the copies of a path")
    fq, felt, fiter, ftgt = _quant_of_gather(second[0].test.operand, "FileToken.is_available")
    if (felt, fiter) != (f"_is_path_available(context,{ftgt})", "data_locations"):
        raise TranslateError(f"FileToken.is_available: the copies test ranges over `{fiter}` with `{felt}`")
    # ---- ListToken / ObjectToken
    out = {"file": fq}
    for cls, it in (("ListToken", "self.value"), ("ObjectToken", "self.value.values()")):
        fn = parse_function(tok, "is_available", cls)
        body = [s for s in fn.body if not (isinstance(s, ast.Expr) and isinstance(s.value, ast.Constant))]
        if len(body) != 1 or not isinstance(body[0], ast.Return):
            raise TranslateError(f"{cls}.is_available is not a single return")
        q, elt, iter_, tgt = _quant_of_gather(body[0].value, f"{cls}.is_available")
        if (elt, iter_) != (f"{tgt}.is_available(context)", it):
            raise TranslateError(f"{cls}.is_available: ranges over `{iter_}` with `{elt}`")
        out[cls] = q
    return out


def generate(repo: str) -> tuple[str, str]:
    d = extract(repo)
    text = f"""import SFV.Model.Avail
/-! GENERATED by harness/sfv/translate/availguards.py from streamflow/workflow/token.py, core/workflow.py — do not edit. -/
namespace SFV.Gen

/-- how `is_available` combines its parts: the copies of one path (`FileToken`, after `if not self.recoverable: return False`
    and "no primary data location ⇒ False"), the elements of a `ListToken`, the fields of an `ObjectToken` -/
def availCfg : SFV.Avail.Cfg := {{ copies := .{d['file']}, list := .{d['ListToken']}, record := .{d['ObjectToken']} }}

end SFV.Gen
"""
    return TARGET, text
