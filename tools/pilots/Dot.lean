-- PILOT (round 0): Dot.lean (executable loop-faithful model used for #eval cross-checks against the real combinator)
/-! Pilot: DotProductCombinator (flat, propagate = true) — executable model. -/
namespace PilotD

abbrev Tag := List Nat
structure Tok where
  tag : Tag
  val : Nat
deriving DecidableEq, Repr

/-- `_is_parent_tag key parent`: parent is a (non-strict) prefix of key -/
def isPre (a b : Tag) : Bool := a.isPrefixOf b

abbrev Cell := Nat → List Tok        -- port ↦ deque (absent = [])
abbrev TV := List (Tag × Cell)       -- insertion-ordered dict

def cellAdd (c : Cell) (p : Nat) (t : Tok) : Cell := fun q => if q = p then c q ++ [t] else c q

def tvGet (tv : TV) (k : Tag) : Cell := ((tv.find? (·.1 = k)).map (·.2)).getD (fun _ => [])
def tvHas (tv : TV) (k : Tag) : Bool := tv.any (·.1 = k)
def tvSet (tv : TV) (k : Tag) (c : Cell) : TV :=
  if tvHas tv k then tv.map (fun e => if e.1 = k then (k, c) else e) else tv ++ [(k, c)]

/-- copy every token of `src` (all ports < P) into `dst` -/
def copyAll (P : Nat) (src dst : Cell) : Cell :=
  fun q => if q < P then dst q ++ src q else dst q

/-- `_add_to_list(token, port, propagate=True)` -/
def addToList (P : Nat) (tv : TV) (p : Nat) (t : Tok) : TV :=
  let tag := t.tag
  -- loop over a snapshot of the keys
  let tv1 := (tv.map (·.1)).foldl (fun acc key =>
      if key = tag then acc
      else if isPre tag key then tvSet acc key (cellAdd (tvGet acc key) p t)          -- key is a child of tag
      else if isPre key tag then                                                     -- tag is a child of key
        if (List.range P).any (fun q => !(tvGet acc key q).isEmpty) then
          tvSet acc tag (copyAll P (tvGet acc key) (tvGet acc tag))
        else acc
      else acc) tv
  tvSet tv1 tag (cellAdd (tvGet tv1 tag) p t)

def minLen (P : Nat) (c : Cell) : Nat := ((List.range P).map (fun q => (c q).length)).foldl min (c 0).length

/-- pop the last element of every port; returns (combo, cell') -/
def popAll (P : Nat) (c : Cell) : List Tok × Cell :=
  ((List.range P).filterMap (fun q => (c q).getLast?), fun q => if q < P then (c q).dropLast else c q)

def popN (P : Nat) : Nat → Cell → List (List Tok) × Cell
  | 0, c => ([], c)
  | n+1, c => let (combo, c') := popAll P c
              let (rest, c'') := popN P n c'
              (combo :: rest, c'')

/-- `_product`: for every key, emit min-length combinations, retagged with the key
    (get_tag of a prefix chain = the key itself) -/
def product (P : Nat) (tv : TV) : TV × List (Tag × List Nat) :=
  (tv.map (·.1)).foldl (fun (acc : TV × List (Tag × List Nat)) key =>
      let c := tvGet acc.1 key
      let (combos, c') := popN P (minLen P c) c
      (tvSet acc.1 key c', acc.2 ++ combos.map (fun combo => (key, combo.map (·.val))))) (tv, [])

structure St where
  tv : TV := []
  out : List (Tag × List Nat) := []

def step (P : Nat) (s : St) (e : Nat × Tok) : St :=
  let tv1 := addToList P s.tv e.1 e.2
  let (tv2, o) := product P tv1
  { tv := tv2, out := s.out ++ o }

def run (P : Nat) (es : List (Nat × Tok)) : St := es.foldl (step P) {}

-- cases checked on the real DotProductCombinator:
def P0 : Tok := ⟨[0], 100⟩
def M1 : Tok := ⟨[0,1], 200⟩
def G  : Tok := ⟨[0,1,0], 300⟩
#eval (run 3 [(0,P0),(1,M1),(2,G)]).out      -- one combination at 0.1.0
#eval (run 3 [(2,G),(1,M1),(0,P0)]).out
#eval (run 3 [(1,M1),(0,P0),(2,G)]).out
#eval (run 2 [(0,P0),(1,⟨[0,0],1⟩),(1,⟨[0,1],2⟩)]).out   -- broadcast to two children
#eval (run 2 [(1,⟨[0,0],1⟩),(0,P0),(1,⟨[0,1],2⟩)]).out
-- non-antichain port (0 and 0.0 on port 0): order dependent
#eval (run 2 [(0,P0),(1,⟨[0],7⟩),(0,⟨[0,0],5⟩)]).out
#eval (run 2 [(0,⟨[0,0],5⟩),(0,P0),(1,⟨[0],7⟩)]).out
end PilotD
