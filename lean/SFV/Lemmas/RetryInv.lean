import SFV.Lemmas.Retry
/-! Inductive invariant of the retry accounting (`SFV/Model/Retry.lean`). -/
namespace SFV.Retry

theorem guard_is_strict (m v : Nat) : Gen.retryAllowed (some m) v = true ↔ v < m := by
  simp [Gen.retryAllowed]
theorem initial_version : Gen.initialVersion = 1 := rfl

def Inv (max : Option Nat) (s : St) : Prop :=
  (∀ j, s.execs j ≤ s.version j) ∧
  (∀ m, max = some m → 1 ≤ m → ∀ j, s.version j ≤ m) ∧
  (s.failed = false → ∀ j, 0 < s.execs j → s.execs j = s.version j) ∧
  (∀ j, 1 ≤ s.version j) ∧ (∀ j, s.execs j = 0 → s.version j = 1)

theorem inv_init (max) : Inv max init := by
  refine ⟨?_, ?_, ?_, ?_, ?_⟩ <;> simp [init, initial_version]

theorem inv_step {mgr max s a s'} (h : Inv max s) (hs : step mgr max s a = some s') : Inv max s' := by
  obtain ⟨h1, h2, h3, h4, h5⟩ := h
  cases a with
  | start j =>
    simp only [step] at hs
    split at hs
    · rename_i hg
      cases hs
      refine ⟨?_, ?_, ?_, ?_, ?_⟩ <;> dsimp only
      · intro k; simp only [bump]; split
        · rename_i e; subst e; have := h5 k hg.2; omega
        · exact h1 k
      · exact h2
      · intro hf k hk
        simp only [bump] at hk ⊢
        split
        · rename_i e; subst e; have := h5 k hg.2; omega
        · rename_i e; simp only [e, if_false] at hk; exact h3 hg.1 k hk
      · exact h4
      · intro k hk
        simp only [bump] at hk
        split at hk
        · omega
        · exact h5 k hk
    · cases hs
  | fail j needs =>
    simp only [step] at hs
    split at hs
    · rename_i hg
      obtain ⟨hnf, hj, hjn, hnd, hneeds⟩ := hg
      have hnodup : (needs ++ [j]).Nodup := by
        rw [List.nodup_append]; refine ⟨hnd, by simp, ?_⟩
        intro a ha b hb; simp at hb; subst hb; intro e; subst e; exact hjn ha
      cases mgr with
      | dummy =>
        cases hs
        exact ⟨h1, h2, by intro hf; simp at hf, h4, h5⟩
      | rollback =>
        simp only at hs
        split at hs
        · rename_i v hu
          cases hs
          obtain ⟨u1, u2⟩ := updateAll_ok hnodup hu
          have hstarted : ∀ k, k ∈ needs ++ [j] → 0 < s.execs k := by
            intro k hk; simp at hk; rcases hk with hk | rfl
            · exact hneeds k hk
            · exact hj
          refine ⟨?_, ?_, ?_, ?_, ?_⟩ <;> dsimp only
          · intro k
            by_cases hk : k ∈ needs ++ [j]
            · rw [foldl_bump_mem hnodup hk, (u1 k hk).2]; have := h1 k; omega
            · rw [foldl_bump_not_mem hk, u2 k hk]; exact h1 k
          · intro m hm h1m k
            by_cases hk : k ∈ needs ++ [j]
            · have := (u1 k hk).1
              rw [hm, guard_is_strict] at this
              rw [(u1 k hk).2]; omega
            · rw [u2 k hk]; exact h2 m hm h1m k
          · intro _ k hk
            by_cases hkm : k ∈ needs ++ [j]
            · rw [foldl_bump_mem hnodup hkm, (u1 k hkm).2, h3 hnf k (hstarted k hkm)]
            · rw [foldl_bump_not_mem hkm] at hk ⊢
              rw [u2 k hkm]; exact h3 hnf k hk
          · intro k
            by_cases hk : k ∈ needs ++ [j]
            · rw [(u1 k hk).2]; omega
            · rw [u2 k hk]; exact h4 k
          · intro k hk
            by_cases hkm : k ∈ needs ++ [j]
            · rw [foldl_bump_mem hnodup hkm] at hk; omega
            · rw [foldl_bump_not_mem hkm] at hk; rw [u2 k hkm]; exact h5 k hk
        · rename_i v hu
          cases hs
          have hle := updateAll_le hnodup hu
          refine ⟨?_, ?_, by intro hf; simp at hf, ?_, ?_⟩ <;> dsimp only
          · intro k; have := (hle k).1; have := h1 k; omega
          · intro m hm h1m k
            obtain ⟨a, b, c⟩ := hle k
            by_cases hb : v k = s.version k + 1
            · have := c hb; rw [hm, guard_is_strict] at this; omega
            · have := h2 m hm h1m k; omega
          · intro k; have := (hle k).1; have := h4 k; omega
          · intro k hk
            have hs0 := h5 k hk
            -- a job that never started is in no request list (`needs` and `j` have started)
            have hnot : k ∉ needs ++ [j] := by
              intro hm; simp at hm
              rcases hm with hm | rfl
              · have := hneeds k hm; omega
              · omega
            have : ∀ {l : List Nat} {w w' : Nat → Nat} {b : Bool}, k ∉ l → updateAll max l w = (w', b) → w' k = w k := by
              intro l
              induction l with
              | nil => intro w w' b _ h; simp [updateAll] at h; obtain ⟨rfl, _⟩ := h; rfl
              | cons c l ih2 =>
                intro w w' b hk h
                simp only [updateAll] at h
                split at h
                · rw [ih2 (by intro hh; exact hk (List.mem_cons_of_mem _ hh)) h]
                  have : k ≠ c := by intro e; exact hk (e ▸ List.mem_cons_self ..)
                  simp [bump, this]
                · obtain ⟨rfl, _⟩ := Prod.mk.inj h; rfl
            rw [this hnot hu]; exact hs0
    · cases hs

theorem inv_reachable {mgr max s} (h : Reachable mgr max s) : Inv max s := by
  induction h with
  | init => exact inv_init max
  | step _ hs ih => exact inv_step ih hs


end SFV.Retry
