"""C13 — jobs go to the first admissible declared target."""
from __future__ import annotations

import asyncio
import random

from streamflow.core.config import Config
from streamflow.core.deployment import DeploymentConfig, Target
from streamflow.core.exception import WorkflowDefinitionException, WorkflowExecutionException
from streamflow.core.workflow import Job, Status
from streamflow.deployment.filter.matching import MatchingBindingFilter

from sfv.framework import Ctx, Property
from sfv.rt import schedharness as H
from sfv.rt.hwenc import Names
from sfv.rt.loop import run_controlled
from sfv.translate import matchguards, schedguards

DEPS = ["d0", "d1", "d2", "d3"]
SERVICES = [None, None, "s0", "s1"]
PORTS = ["p0", "p1", "p2"]
VALUES = ["a", "b", 1, 1.5, True, {"kind": "file"}, {"kind": "list"}, {"kind": "object"}]
MATCHES = ["a", "b", "1", "1.5", "True"]


def _dep(name: str) -> DeploymentConfig:
    return DeploymentConfig(name=name, type="fake", config={}, workdir="/w",
                            scheduling_policy=Config(name="__DEFAULT__", type="data_locality", config={}))


def gen_filter(rng, deps=DEPS) -> list[dict]:
    rules = []
    for _ in range(rng.randint(1, 3)):
        dep = rng.choice(deps)
        svc = rng.choice(SERVICES)
        ports = rng.sample(PORTS, rng.randint(0, 2))
        rules.append({"target": dep if svc is None and rng.random() < 0.5 else ({"deployment": dep, "service": svc} if svc else {"deployment": dep}),
                      "job": [{"port": p, "match": rng.choice(MATCHES)} for p in ports]})
    return rules


def gen_inputs(rng) -> dict:
    r = rng.random()
    ports = PORTS if r < 0.7 else rng.sample(PORTS, rng.randint(0, 2))
    vals = VALUES[:5] if rng.random() < 0.85 else VALUES
    return {p: rng.choice(vals) for p in ports}


def rule_parts(rule: dict):
    t = rule["target"]
    dep = t if isinstance(t, str) else t["deployment"]
    svc = t.get("service") if isinstance(t, dict) else None
    preds = {}
    for j in rule["job"]:
        preds[j["port"]] = j["match"]
    return dep, svc, preds


def spec_keep(rules: list[dict], inputs: dict, dep: str, svc) -> bool:
    """the property's statement: some rule for that deployment (and service, when the rule names one) has every port
    predicate equal to str(input value)"""
    for rule in rules:
        rdep, rsvc, preds = rule_parts(rule)
        if rdep != dep or (rsvc is not None and rsvc != svc):
            continue
        if all(p in inputs and not isinstance(inputs[p], dict) and str(inputs[p]) == m for p, m in preds.items()):
            return True
    return False


def exc_name(e: BaseException) -> str:
    if isinstance(e, ValueError):
        return "missingInput"
    if isinstance(e, WorkflowDefinitionException):
        return "unsupportedType"
    if isinstance(e, WorkflowExecutionException) and "did not find any matching targets" in str(e):
        return "noMatch"
    return type(e).__name__


def enc_case(names: Names, targets_desc, filters, inputs) -> str:
    ts = ",".join(f"{i}:{names.id(d)}:{'-' if s is None else names.id(s)}" for i, d, s in targets_desc) or "-"
    fs = []
    for rules in filters:
        rs = []
        for rule in rules:
            dep, svc, preds = rule_parts(rule)
            ps = "+".join(f"{names.id(p)}={names.id(m)}" for p, m in preds.items()) or "-"
            rs.append(f"{names.id(dep)}:{'-' if svc is None else names.id(svc)}:{ps}")
        fs.append(",".join(rs))
    ins = ",".join(f"{names.id(p)}={'U' if isinstance(v, dict) else names.id(str(v))}" for p, v in inputs.items()) or "-"
    return f"gt {ts} {';'.join(fs)} {ins}"


class C13(Property):
    pid = "C13"
    title = "Jobs go to the first admissible declared target"
    lean_targets = ["SFV.Props.C13", "SFV.Model.SchedProto"]
    props_files = ["SFV/Props/C13.lean"]
    drivers = ["Drivers/C13.lean", "Drivers/C10.lean"]
    translators = [matchguards.generate, schedguards.generate]
    rule = ("(A) filter: binding configurations with 1..4 targets over deployments d0..d3 and services none/s0/s1 (sometimes the same "
            "Target object twice), chains of 1..2 matching filters with 1..3 rules (deployment, optional service, 0..2 port predicates), "
            "job inputs over ports p0..p2 with values a, b, 1, 1.5, True, file/list/object tokens, missing ports; the real "
            "MatchingBindingFilter.get_targets chain vs the Lean model vs the property's own statement (survivors and their order). "
            "(B) placement: the real DefaultScheduler (fake connectors that suspend inside the critical section, FIFO event loop as in "
            "asyncio) on 2..4 targets with filler jobs occupying some of them; the job must be allocated on the first surviving target "
            "that could host it when the request was issued; every scheduler step replayed on the Lean model. (C) one scheduler, many "
            "filters: 3..7 successive jobs of different steps on ONE real scheduler, each with a chain of 1..3 filters drawn from a pool "
            "of 2..5 differently named matching filters (capacity never limiting): the job must land on the first target its OWN filter "
            "chain keeps; compared with the model's filter environment keyed by the extracted cache key. Non-trivial = distinct "
            "case with >= 2 targets and >= 1 rule.")
    trusted_base = [
        "translator harness/sfv/translate/matchguards.py (ast: comparisons of MatchingRule.eval, any/all, container of get_targets, "
        "filter fold and task-per-target loop of schedule()) -> SFV/Gen/MatchGuards.lean; schedguards.py for the scheduler model",
        "modelled, not verified: asyncio runs tasks first-come first-served and a task holds the scheduler Condition lock during its "
        "whole pass (first_admissible_wins models the first passes as a left-to-right scan); str(value) of a token value; "
        "dict insertion order; the default policy and the fakes of sfv.rt.schedfake",
    ]
    technique = ("Lean 4 theorems about the filter (semantics, order, chains) and the first-pass scan; ast translator of the comparisons and "
                 "of the container discipline; differential correspondence of the real filter chain and of the real scheduler placement")
    level_text = ("grade A: filter_semantics, filter_no_match, filter_keeps_order (sublist of the declared targets, uses the extracted fact "
                  "that the survivors are collected in an insertion-ordered container), filter_chain_keeps_order, first_admissible_wins / "
                  "first_pass_some for every list of targets, rules and inputs; comparisons and container regenerated from the source each "
                  "run (reverting commit 34f81c4 breaks filter_keeps_order and is found as a concrete mis-ordered result); the real filter "
                  "and the real scheduler placement are compared with the model and with the property's statement on generated cases")
    level_note = ("Lean kernel, axioms within {propext, Classical.choice, Quot.sound}; first_admissible_wins abstracts asyncio's FIFO task "
                  "start and lock hand-over into an ordered scan (trusted; exercised on the real scheduler with suspending connectors)")
    assumptions = ["filters are matching filters (no shuffle filter)", "asyncio starts tasks in creation order and hands locks over FIFO",
                   "the targets of a binding are distinct objects (a repeated object is de-duplicated by the filter)"]
    quick_budget_s = 600

    # ---------------------------------------------------------------------------------------- A
    def _filter_cases(self, ctx: Ctx):
        rng = ctx.rng
        n = 1500 if ctx.tier == "quick" else 15000
        if ctx.mode == "search":
            n *= 2
        cases = []
        # corpus: the order witness (six surviving targets), service handling, dedup, errors
        six = [("d%d" % (i % 4), None) for i in range(6)]
        cases.append((six, [[{"target": d, "job": []} for d in DEPS]], {"p0": "a"}, []))
        cases.append(([("d0", None), ("d1", "s0"), ("d1", "s1"), ("d0", "s0")],
                      [[{"target": {"deployment": "d1", "service": "s1"}, "job": [{"port": "p0", "match": "1"}]}, {"target": "d0", "job": []}]],
                      {"p0": 1}, []))
        cases.append(([("d0", None), ("d1", None)], [[{"target": "d0", "job": [{"port": "p9", "match": "a"}]}]], {"p0": "a"}, []))
        cases.append(([("d0", None), ("d1", None)], [[{"target": "d1", "job": [{"port": "p0", "match": "a"}]}]], {"p0": {"kind": "file"}}, []))
        cases.append(([("d0", None), ("d1", None)], [[{"target": "d2", "job": []}]], {}, []))
        cases.append(([("d0", None), ("d1", None), ("d0", None)], [[{"target": "d0", "job": []}]], {}, [(2, 0)]))
        ctx.corpus_replayed += len(cases)
        for _ in range(n):
            nt = rng.randint(1, 4)
            deps = rng.sample(DEPS, rng.randint(1, 3))
            tdesc = [(rng.choice(deps), rng.choice(SERVICES)) for _ in range(nt)]
            dup = []
            if nt >= 2 and rng.random() < 0.08:
                i, j = sorted(rng.sample(range(nt), 2))
                dup = [(j, i)]           # position j holds the same object as position i
            filters = [gen_filter(rng, deps + [rng.choice(DEPS)]) for _ in range(rng.choice([1, 1, 2]))]
            cases.append((tdesc, filters, gen_inputs(rng), dup))
        return cases

    def _run_filters(self, ctx: Ctx, cases):
        names = Names()
        for s in DEPS + ["s0", "s1"] + PORTS + MATCHES:
            names.id(s)
        results = []

        async def main():
            for tdesc, filters, inputs, dup in cases:
                targets = [Target(_dep(d), service=s) for d, s in tdesc]
                ident = list(range(len(targets)))
                for j, i in dup:
                    targets[j] = targets[i]
                    ident[j] = i
                job = Job(name="/s1/0", workflow_id=0, inputs={k: H.make_token(v) for k, v in inputs.items()},
                          input_directory=None, output_directory=None, tmp_directory=None)
                fobjs = [MatchingBindingFilter(f"f{k}", filters=rules) for k, rules in enumerate(filters)]
                cur = list(targets)
                try:
                    for f in fobjs:
                        cur = await f.get_targets(job, cur)
                    out = ("ok", [ident[next(i for i, t in enumerate(targets) if t is x)] for x in cur])
                except Exception as e:  # noqa: BLE001
                    out = ("err", exc_name(e))
                results.append((ident, out))

        run_controlled(main, ctx.seed, timeout=120, shuffle=False)
        lines, expect = [], []
        for (tdesc, filters, inputs, dup), (ident, out) in zip(cases, results):
            desc = [(ident[i], tdesc[ident[i]][0], tdesc[ident[i]][1]) for i in range(len(tdesc))]
            line = enc_case(names, desc, filters, inputs)
            lines.append(line)
            expect.append("ok " + ("+".join(map(str, out[1])) or "-") if out[0] == "ok" else f"err {out[1]}")
            sample = {"targets": tdesc, "filters": filters, "inputs": inputs, "same_object": dup, "real": out}
            nontriv = (repr(tdesc), repr(filters), repr(inputs)) if len(tdesc) >= 2 else None
            ctx.case(sample, nontriv, "filter:" + (out[0] if out[0] == "ok" else out[1]))
            if out[0] == "ok":
                ctx.count(f"survivors={len(out[1])}")
                # the property's statement, filter by filter
                cur = []
                for i in range(len(tdesc)):
                    if ident[i] not in cur:
                        cur.append(ident[i])
                ok_spec = True
                for rules in filters:
                    cur = [i for i in cur if spec_keep(rules, inputs, tdesc[i][0], tdesc[i][1])]
                if sorted(out[1]) != sorted(cur):
                    ctx.fail("get_targets:wrong-survivors", f"targets {tdesc} filters {filters} inputs {inputs}: code keeps {out[1]}, the property's "
                             f"statement keeps {cur}", {"part": "filter", **sample})
                elif out[1] != cur:
                    ctx.fail("get_targets:order-lost", f"targets {tdesc} filters {filters} inputs {inputs}: code returns {out[1]}, declared order is {cur}",
                             {"part": "filter", **sample})
        got = ctx.lean("Drivers/C13.lean", lines)
        for g, e, ln, c in zip(got, expect, lines, cases):
            if g != e:
                ctx.disagree("filter model vs MatchingBindingFilter.get_targets", f"{ln}: code {e!r}, Lean model {g!r}",
                             {"part": "filter", "targets": c[0], "filters": c[1], "inputs": c[2], "same_object": c[3]})

    # ---------------------------------------------------------------------------------------- B
    def _placement(self, ctx: Ctx):
        rng = ctx.rng
        n = 120 if ctx.tier == "quick" else 1200
        if ctx.mode == "search":
            n *= 2
        lines, metas = [], []
        for k in range(n):
            if ctx.out_of_time():
                ctx.extra["incomplete"] = True
                break
            seed = rng.randrange(1 << 30)
            sub = random.Random(seed)
            cfg, ops = self._gen_placement(sub)
            names = Names()
            world, checks, timed_out, executed = H.run_scenario(cfg, ops, seed, timeout=20.0, names=names, shuffle=False, suspend_seed=seed)
            op = next(o for o in executed if o.get("probe_fits"))
            self._check_placement(ctx, world, cfg, executed, op, seed, timed_out)
            cl = H.config_lines(world)
            ml, evs = H.model_lines(world)
            metas.append((world, len(lines) + len(cl), evs, cfg, executed, seed))
            lines += cl + ml
        outs = ctx.lean("Drivers/C10.lean", lines)
        for world, off, evs, cfg, executed, seed in metas:
            for what, detail in H.compare(world, outs[off:off + len(evs)], evs)[:1]:
                ctx.disagree(f"scheduler model vs DefaultScheduler: {what}", detail[:1200], {"part": "placement", "cfg": cfg, "ops": executed, "seed": seed})

    def _gen_placement(self, rng):
        nd = rng.randint(2, 3)
        deps = []
        for di in range(nd):
            locs = []
            for li in range(rng.randint(1, 2)):
                if rng.random() < 0.25:
                    locs.append({"name": f"d{di}l{li}", "hw": None, "slots": rng.choice([1, 2]), "wraps": None})
                else:
                    locs.append({"name": f"d{di}l{li}", "hw": {"cores": rng.choice([1.0, 2.0]), "memory": 4.0,
                                                               "storage": [["/", "/", 8.0, ["/w/out", "/w/tmp"], None]]}, "slots": None, "wraps": None})
            deps.append({"name": f"d{di}", "wraps": None, "locs": locs})
        targets = []
        for d in deps:
            targets.append({"dep": d["name"], "locations": 1, "service": None})
            if rng.random() < 0.5:
                targets.append({"dep": d["name"], "locations": 1, "service": rng.choice(["s0", "s1"])})
        rng.shuffle(targets)
        targets = targets[:4]
        cfg = {"deployments": deps, "sizes": {d["name"]: {} for d in deps}, "targets": targets}
        ops = []
        rid = 0
        # filler jobs occupying some targets
        for j in range(rng.randint(0, 4)):
            rid += 1
            ops.append({"op": "schedule", "rid": rid, "job": j, "step": j + 1, "tag": "0",
                        "req": {"cores": rng.choice([1.0, 2.0]), "memory": 1.0, "storage": []},
                        "targets": [rng.randrange(len(targets))], "yields": 2})
        ops.append({"op": "settle"})
        rules = gen_filter(rng, [d["name"] for d in deps])
        if rng.random() < 0.6:  # make sure several targets survive often
            rules.append({"target": rng.choice(deps)["name"], "job": []})
            rules.append({"target": rng.choice(deps)["name"], "job": []})
        order = list(range(len(targets)))
        rng.shuffle(order)
        rid += 1
        ops.append({"op": "schedule", "rid": rid, "job": 10, "step": 9, "tag": "0",
                    "req": {"cores": rng.choice([0.5, 1.0, 2.0]), "memory": 1.0, "storage": []}, "targets": order,
                    "inputs": {p: rng.choice(VALUES[:5]) for p in PORTS},
                    "filters": [{"name": "flt", "type": "matching", "config": {"filters": rules}}], "probe_fits": True, "yields": 3})
        ops.append({"op": "settle"})
        return cfg, ops

    def _check_placement(self, ctx: Ctx, world, cfg, executed, op, seed, timed_out):
        rules = op["filters"][0]["config"]["filters"]
        tg = cfg["targets"]
        try:
            survivors = [ti for ti in op["targets"] if spec_keep(rules, op["inputs"], tg[ti]["dep"], tg[ti].get("service"))]
        except Exception:  # noqa: BLE001
            survivors = []
        fits = dict(zip(op["targets"], op["fits_before"]))
        admissible = [ti for ti in survivors if fits[ti]]
        a = world.scheduler.job_allocations.get("/s9/0")
        got = world.target_index(a.target) if a is not None else None
        sample = {"part": "placement", "cfg": cfg, "ops": executed, "seed": seed, "declared": op["targets"], "survivors": survivors,
                  "admissible_at_request": admissible, "allocated_on": got}
        nontriv = (repr(cfg), repr(executed)) if len(survivors) >= 2 else None
        ctx.case({k: v for k, v in sample.items() if k not in ("cfg", "ops")}, nontriv, f"placement:admissible={min(len(admissible), 3)}")
        if timed_out:
            ctx.fail("placement:hang", "scenario did not finish", sample)
            return
        if got is not None and got not in survivors:
            ctx.fail("placement:filtered-target-used", f"job placed on target {got} which does not survive the filter (survivors {survivors})", sample)
        elif admissible and got != admissible[0]:
            ctx.fail("placement:not-first-admissible", f"declared {op['targets']}, survivors {survivors}, admissible when requested {admissible}: "
                     f"job placed on {got}, expected {admissible[0]}", sample)

    # ---------------------------------------------------------------------------------------- C
    def _gen_shared_scheduler(self, rng):
        """ONE scheduler, several differently named matching filters: successive jobs of different steps, each with a
        chain of 1..3 filters taken from a pool (capacity is never the limit: 50-slot locations)"""
        nd = rng.randint(2, 4)
        deps = [{"name": f"d{di}", "wraps": None, "locs": [{"name": f"d{di}l0", "hw": None, "slots": 50, "wraps": None}]} for di in range(nd)]
        targets = []
        for d in deps:
            targets.append({"dep": d["name"], "locations": 1, "service": None})
            if rng.random() < 0.4:
                targets.append({"dep": d["name"], "locations": 1, "service": rng.choice(["s0", "s1"])})
        rng.shuffle(targets)
        targets = targets[:4]
        cfg = {"deployments": deps, "sizes": {d["name"]: {} for d in deps}, "targets": targets}
        dep_names = [d["name"] for d in deps]
        pool = {}
        for k in range(rng.randint(2, 5)):
            rules = gen_filter(rng, dep_names)
            if rng.random() < 0.5:
                rules.append({"target": rng.choice(dep_names), "job": []})
            pool[f"flt{k}"] = rules
        ops = []
        for j in range(rng.randint(3, 7)):
            chain = [rng.choice(sorted(pool)) for _ in range(rng.choice([1, 1, 2, 2, 3]))]
            order = list(range(len(targets)))
            rng.shuffle(order)
            ops.append({"op": "schedule", "rid": j + 1, "job": j, "step": 20 + j, "tag": "0",
                        "req": {"cores": 1.0, "memory": 1.0, "storage": []}, "targets": order,
                        "inputs": {p: rng.choice(VALUES[:5] if rng.random() < 0.9 else VALUES) for p in (PORTS if rng.random() < 0.85 else PORTS[:1])},
                        "filters": [{"name": n, "type": "matching", "config": {"filters": pool[n]}} for n in chain], "yields": 2})
            ops.append({"op": "settle"})
        return cfg, ops

    @staticmethod
    def _real_error(req: dict) -> str | None:
        txt = req.get("error_text") or ""
        if req.get("error") is None:
            return None
        if "did not find any matching targets" in txt:
            return "noMatch"
        if txt.startswith("ValueError"):
            return "missingInput"
        if txt.startswith("WorkflowDefinitionException"):
            return "unsupportedType"
        return req["error"]

    def _shared_scheduler(self, ctx: Ctx):
        rng = ctx.rng
        n = 150 if ctx.tier == "quick" else 1500
        if ctx.mode == "search":
            n *= 2
        flines, fexpect, fmeta = [], [], []
        slines, smetas = [], []
        for _ in range(n):
            if ctx.out_of_time():
                ctx.extra["incomplete"] = True
                break
            seed = rng.randrange(1 << 30)
            cfg, ops = self._gen_shared_scheduler(random.Random(seed))
            names = Names()
            world, checks, timed_out, executed = H.run_scenario(cfg, ops, seed, timeout=20.0, names=names, shuffle=False, suspend_seed=seed)
            self._check_shared(ctx, world, cfg, executed, seed, timed_out, names, flines, fexpect, fmeta)
            cl = H.config_lines(world)
            ml, evs = H.model_lines(world)
            smetas.append((world, len(slines) + len(cl), evs, cfg, executed, seed))
            slines += cl + ml
        got = ctx.lean("Drivers/C13.lean", flines)
        for g, e, ln, m in zip(got, fexpect, flines, fmeta):
            if e is not None and g.split("+")[0] != e:
                ctx.disagree("filter environment model vs DefaultScheduler.schedule (filters of one scheduler)",
                             f"{ln}: code {e!r}, Lean model {g!r}", {"part": "shared", **m})
        outs = ctx.lean("Drivers/C10.lean", slines)
        for world, off, evs, cfg, executed, seed in smetas:
            for what, detail in H.compare(world, outs[off:off + len(evs)], evs)[:1]:
                ctx.disagree(f"scheduler model vs DefaultScheduler: {what}", detail[:1200], {"part": "shared", "cfg": cfg, "ops": executed, "seed": seed})

    def _check_shared(self, ctx: Ctx, world, cfg, executed, seed, timed_out, names, flines, fexpect, fmeta):
        tg = cfg["targets"]
        meta = {"cfg": cfg, "ops": executed, "seed": seed}
        flines.append("sreset")
        fexpect.append(None)
        fmeta.append(meta)
        n_filters = set()
        for op in executed:
            if op["op"] != "schedule":
                continue
            name = f"/s{op['step']}/{op['tag']}"
            chain = op["filters"]
            n_filters.update(f["name"] for f in chain)
            # the property's statement with the job's OWN filters
            cur = list(op["targets"])
            for f in chain:
                cur = [ti for ti in cur if spec_keep(f["config"]["filters"], op["inputs"], tg[ti]["dep"], tg[ti].get("service"))]
            a = world.scheduler.job_allocations.get(name)
            got = world.target_index(a.target) if a is not None else None
            err = self._real_error(world.requests.get(op["rid"], {}))
            sample = {"part": "shared", **meta, "job": name, "declared": op["targets"], "filters": [f["name"] for f in chain],
                      "own_survivors": cur, "allocated_on": got, "raised": err}
            ctx.case({k: v for k, v in sample.items() if k not in ("cfg", "ops")}, (repr(cfg), name, repr(chain), repr(op["inputs"])) if len(chain) >= 1 else None,
                     f"shared:chain={len(chain)}")
            if timed_out:
                ctx.fail("placement:hang", "scenario did not finish", sample)
                return
            if got is not None and got not in cur:
                ctx.fail("placement:filtered-target-used", f"job {name} (filters {[f['name'] for f in chain]}) placed on target {got}, which its own filters "
                         f"discard (survivors {cur})", sample)
            elif got is not None and cur and got != cur[0]:
                ctx.fail("placement:not-first-admissible", f"job {name}: survivors {cur} (all can host it), placed on {got}", sample)
            elif got is None and err == "noMatch" and cur:
                ctx.fail("schedule:no-match-although-targets-survive", f"job {name} (filters {[f['name'] for f in chain]}): schedule() raised 'no matching "
                         f"targets' although its own filters keep {cur}", sample)
            # model line: targets in the declared order, identified by their index
            ts = ",".join(f"{ti}:{names.id(tg[ti]['dep'])}:{'-' if tg[ti].get('service') is None else names.id(tg[ti]['service'])}" for ti in op["targets"])
            cs = []
            for f in chain:
                rs = []
                for rule in f["config"]["filters"]:
                    dep, svc, preds = rule_parts(rule)
                    ps = "+".join(f"{names.id(p)}={names.id(m)}" for p, m in preds.items()) or "-"
                    rs.append(f"{names.id(dep)}:{'-' if svc is None else names.id(svc)}:{ps}")
                cs.append(f"{names.id(f['name'])}@{names.id(f['type'])}@{','.join(rs)}")
            ins = ",".join(f"{names.id(p)}={'U' if isinstance(v, dict) else names.id(str(v))}" for p, v in op["inputs"].items()) or "-"
            flines.append(f"sf {ts} {';'.join(cs)} {ins}")
            fexpect.append(f"ok {got}" if got is not None else (f"err {err}" if err else None))
            fmeta.append(sample)
        ctx.count(f"shared:distinct-filters-on-one-scheduler={min(len(n_filters), 4)}")

    def explore(self, ctx: Ctx) -> None:
        import logging
        from streamflow.log_handler import logger
        old = logger.level
        logger.setLevel(logging.ERROR)      # the filter warns about every non-string value / unmatched deployment
        try:
            self._run_filters(ctx, self._filter_cases(ctx))
            self._placement(ctx)
            self._shared_scheduler(ctx)
        finally:
            logger.setLevel(old)

    def replay(self, ctx: Ctx, data) -> None:
        r = data.get("replay") or (data.get("no_longer_checks") or [{}])[0].get("case") or {}
        if r.get("part") == "filter":
            case = (r["targets"], r["filters"], r["inputs"], [tuple(x) for x in r.get("same_object", [])])
            print("case:", case)
            self._run_filters(ctx, [tuple(case)])
        elif r.get("part") == "shared":
            names = Names()
            world, checks, timed_out, executed = H.run_scenario(r["cfg"], r["ops"], r["seed"], timeout=20.0, names=names, shuffle=False,
                                                                suspend_seed=r["seed"])
            fl, fe, fm = [], [], []
            self._check_shared(ctx, world, r["cfg"], executed, r["seed"], timed_out, names, fl, fe, fm)
            got = ctx.lean("Drivers/C13.lean", fl)
            for ln, e, g in zip(fl, fe, got):
                print("  ", ln, "| code:", e, "| model:", g)
        elif r.get("part") == "placement":
            names = Names()
            world, checks, timed_out, executed = H.run_scenario(r["cfg"], r["ops"], r["seed"], timeout=20.0, names=names, shuffle=False,
                                                                suspend_seed=r["seed"])
            for e in world.log:
                print("  ", {k: v for k, v in e.items() if k not in ("real", "snap")})
            op = next(o for o in executed if o.get("probe_fits"))
            self._check_placement(ctx, world, r["cfg"], executed, op, r["seed"], timed_out)
        else:
            super().replay(ctx, data)


PROPERTY = C13()
