import SFV.Model.Net
/-! # Operational model of the tag-grouping steps (`Transformer.run`, `ConditionalStep.run`, `ScheduleStep.run`)

The loop, as written in streamflow/workflow/step.py:

    inputs_map = {}
    while True:
        inputs = await self._get_inputs(input_ports)      # ONE token from EVERY input port (ports are FIFO)
        if check_termination(inputs.values()): break
        _group_by_tag(inputs, inputs_map)                 # inputs_map[token.tag][port_name] = token
        for tag in list(inputs_map.keys()):
            if len(inputs_map[tag]) == len(input_ports):
                inputs = inputs_map.pop(tag)              # fire: transform / _eval + _on_true/_on_false / schedule

So the behaviour is a function of the per-port arrival orders: round `r` consumes the `r`-th token of every port.
`runRounds ls` runs the loop on the port logs `ls` (ports identified by their position). -/
namespace SFV.Net

/-- `inputs_map`: tag ↦ (port ↦ value), insertion ordered -/
abbrev IMap := List (Tag × List (Nat × Val))

/-- `inputs_map[token.tag][port] = token` -/
def imapAdd (m : IMap) (q : Nat) (t : Tok) : IMap :=
  if m.any (fun e => e.1 == t.tag) then
    m.map (fun e => if e.1 == t.tag then (e.1, e.2.filter (fun x => x.1 != q) ++ [(q, t.val)]) else e)
  else m ++ [(t.tag, [(q, t.val)])]

structure GState where
  map : IMap
  out : List (Tag × List Val)      -- fired groups, in firing order: tag and the values in port order

/-- values of a complete group in port order -/
def groupVals (P : Nat) (g : List (Nat × Val)) : List Val :=
  (List.range P).filterMap (fun q => (g.find? (fun x => x.1 == q)).map (·.2))

/-- the `for tag in list(inputs_map.keys())` loop: complete groups are popped and fired, in key order -/
def fireAll (P : Nat) (m : IMap) : IMap × List (Tag × List Val) :=
  (m.filter (fun e => e.2.length != P),
   (m.filter (fun e => e.2.length == P)).map (fun e => (e.1, groupVals P e.2)))

/-- `_group_by_tag` over the tokens of one round (`toks[q]` comes from port `q`), in port order -/
def groupRound (m : IMap) (toks : List Tok) : IMap :=
  toks.zipIdx.foldl (fun m (tq : Tok × Nat) => imapAdd m tq.2 tq.1) m

def round (P : Nat) (s : GState) (toks : List Tok) : GState :=
  let fm := fireAll P (groupRound s.map toks)
  { map := fm.1, out := s.out ++ fm.2 }

/-- the tokens of round `r`: the `r`-th token of every port (`none` once some port is exhausted) -/
def roundInputs (ls : List (List Tok)) (r : Nat) : Option (List Tok) := ls.mapM (fun l => l[r]?)

/-- number of rounds before some port delivers its termination token -/
def numRounds (ls : List (List Tok)) : Nat :=
  match ls with
  | [] => 0
  | l :: r => r.foldl (fun acc x => min acc x.length) l.length

def runRounds (ls : List (List Tok)) : GState :=
  (List.range (numRounds ls)).foldl
    (fun s r => match roundInputs ls r with
      | some toks => round ls.length s toks
      | none => s) { map := [], out := [] }

/-- tokens put on output port `j` when the fired groups are processed by `f` (`transform`, or `_eval` with
    `_on_true` / `_on_false`): same tag, value `(f vals)[j]` if any -/
def emitted (f : List Val → List (Option Val)) (j : Nat) (s : GState) : List Tok :=
  s.out.filterMap (fun g => ((f g.2)[j]?.join).map (fun v => { tag := g.1, val := v }))

end SFV.Net
