/-! # Sh — Python `shlex.quote` and a POSIX-`sh` word-level lexer

Shared layer of C22 / C24 / C25 / C30. Strings are `List Char`.

* `shlexQuote` is CPython's `shlex.quote`.
* `step` / `feed` / `lexLine` is a character-at-a-time state machine for the token-recognition rules of
  POSIX sh (XCU 2.3) as far as needed to decide whether a rendered command line denotes the intended
  argv *verbatim*: unquoted / single-quote / double-quote modes, backslash in both contexts, `$`
  (parameter expansion marks the word as *expanded*; `$(`, `${` and backticks abort with `subst`),
  control and redirection operators (an IO number such as the `2` of `2>&1` is lexed as a word), comments, blanks as field separators, pathname-pattern and
  tilde characters (mark the word as expanded).
* A lexed word carries `exp = true` when the shell would interpret something inside it (so that the
  resulting field is not necessarily the literal text). `lexLine` fails with `unterminated` when the line ends
  inside quotes or after a backslash (a persistent `sh` reading from a pipe then waits for more input: a hang).
* Command templates: a flat list of pieces (`lit`, `raw i`, `shq i`, `dq i`); `render` is what the Python code
  sends, `specFeed` is the intended reading (argument values inserted verbatim into the current word).
-/
namespace SFV.Sh

/-! ## shlex.quote -/

/-- the characters `shlex._find_unsafe` (ASCII word characters and `@ % + = : , . / -`) does not flag -/
def isSafe (c : Char) : Bool :=
  c.isAlphanum || c ∈ ['_', '@', '%', '+', '=', ':', ',', '.', '/', '-']

/-- `s.replace("'", "'\"'\"'")` -/
def escSq : List Char → List Char
  | [] => []
  | c :: cs => if c = '\'' then '\'' :: '"' :: '\'' :: '"' :: '\'' :: escSq cs else c :: escSq cs

/-- `shlex.quote(s)` -/
def shlexQuote (s : List Char) : List Char :=
  if s.isEmpty then ['\'', '\''] else
  if s.all isSafe then s else '\'' :: (escSq s ++ ['\''])

/-! ## the lexer -/

inductive Mode
  | unq            -- unquoted
  | sq             -- inside '…'
  | dq             -- inside "…"
  | bsU            -- after a backslash, unquoted
  | bsD            -- after a backslash inside "…"
  | dolU           -- after `$`, unquoted
  | dolD           -- after `$` inside "…"
  | opc (c : Char) -- after the first character of a possibly two-character operator
  | cmt            -- inside a comment (until newline)
deriving DecidableEq, Repr

/-- a word under construction / a finished word -/
structure Word where
  cs  : List Char      -- the literal text after quote removal
  exp : Bool := false  -- the shell interprets something in it (expansion, pattern, tilde, reserved char)
deriving DecidableEq, Repr

inductive Item
  | word (w : Word)
  | op (s : List Char)      -- control or redirection operator, newline included
deriving DecidableEq, Repr

/-- result of lexing a whole line -/
inductive Res
  | ok (items : List Item)
  | unterminated     -- the line ends inside quotes / after a backslash
  | subst            -- command substitution or a braced expansion occurs (not analysed)
deriving DecidableEq, Repr

structure LexSt where
  mode : Mode := .unq
  cur  : Option Word := none
  out  : List Item := []      -- finished items, in order
  bad  : Bool := false        -- a command substitution / `${` was met: result is `subst`
deriving DecidableEq, Repr

def init : LexSt := {}

def isOpChar (c : Char) : Bool := c ∈ ['|', '&', ';', '<', '>', '(', ')']
def isBlank (c : Char) : Bool := c = ' ' || c = '\t'
/-- characters that make an unquoted word subject to pathname expansion / tilde expansion, or that are reserved -/
def isPattern (c : Char) : Bool := c ∈ ['*', '?', '[', '~', '{', '}', '!']
/-- after `$`: the characters that start a parameter expansion -/
def isParamStart (c : Char) : Bool :=
  c.isAlphanum || c ∈ ['_', '@', '*', '#', '?', '-', '$', '!']
/-- two-character operators -/
def isOp2 (a b : Char) : Bool :=
  (a, b) ∈ [('&', '&'), ('|', '|'), (';', ';'), ('>', '>'), ('<', '<'), ('>', '&'), ('<', '&'), ('>', '|'), ('<', '>')]

/-- append a literal character to the current word (starting one if needed) -/
def LexSt.push (st : LexSt) (c : Char) : LexSt :=
  { st with cur := some (match st.cur with
      | none => { cs := [c] }
      | some w => { w with cs := w.cs ++ [c] }) }

/-- append verbatim text to the current word (starting one if needed; `''` starts an empty word) -/
def LexSt.pushLit (st : LexSt) (s : List Char) : LexSt :=
  { st with cur := some (match st.cur with
      | none => { cs := s }
      | some w => { w with cs := w.cs ++ s }) }

/-- an opening quote starts a word if none is open -/
def LexSt.quoteMark (st : LexSt) : LexSt := st.pushLit []

def LexSt.markExp (st : LexSt) : LexSt :=
  { st with cur := some (match st.cur with
      | none => { cs := [], exp := true }
      | some w => { w with exp := true }) }

/-- the current word (if any) is finished -/
def LexSt.flush (st : LexSt) : LexSt :=
  match st.cur with
  | none => st
  | some w => { st with cur := none, out := st.out ++ [.word w] }

def LexSt.emit (st : LexSt) (i : Item) : LexSt := { st with out := st.out ++ [i] }

/-- one character in unquoted mode -/
def stepUnq (st : LexSt) (c : Char) : LexSt :=
  if c = '\'' then { st.quoteMark with mode := .sq }
  else if c = '"' then { st.quoteMark with mode := .dq }
  else if c = '\\' then { st with mode := .bsU }
  else if c = '$' then { st with mode := .dolU }
  else if c = '`' then { st with bad := true }
  else if isBlank c then st.flush
  else if c = '\n' then st.flush.emit (.op ['\n'])
  else if c = '(' || c = ')' then st.flush.emit (.op [c])
  else if isOpChar c then { st.flush with mode := .opc c }
  else if c = '#' && st.cur.isNone then { st with mode := .cmt }
  else if isPattern c then (st.push c).markExp
  else st.push c

/-- one character inside double quotes -/
def stepDq (st : LexSt) (c : Char) : LexSt :=
  if c = '"' then { st with mode := .unq }
  else if c = '\\' then { st with mode := .bsD }
  else if c = '$' then { st with mode := .dolD }
  else if c = '`' then { st with bad := true }
  else st.push c

def step (st : LexSt) (c : Char) : LexSt :=
  match st.mode with
  | .unq => stepUnq st c
  | .sq => if c = '\'' then { st with mode := .unq } else st.push c
  | .dq => stepDq st c
  | .bsU => if c = '\n' then { st with mode := .unq } else { (st.pushLit [c]) with mode := .unq }
  | .bsD =>
      if c = '\n' then { st with mode := .dq }
      else if c = '$' || c = '`' || c = '"' || c = '\\' then { (st.push c) with mode := .dq }
      else { ((st.push '\\').push c) with mode := .dq }
  | .dolU =>
      if c = '(' || c = '{' then { st with bad := true, mode := .unq }
      else if isParamStart c then { (((st.push '$').push c).markExp) with mode := .unq }
      else stepUnq { (st.push '$') with mode := .unq } c
  | .dolD =>
      if c = '(' || c = '{' then { st with bad := true, mode := .dq }
      else if isParamStart c then { (((st.push '$').push c).markExp) with mode := .dq }
      else stepDq { (st.push '$') with mode := .dq } c
  | .opc a =>
      if isOp2 a c then { (st.emit (.op [a, c])) with mode := .unq }
      else stepUnq { (st.emit (.op [a])) with mode := .unq } c
  | .cmt => if c = '\n' then { (st.emit (.op ['\n'])) with mode := .unq } else st

def feed (st : LexSt) (s : List Char) : LexSt := s.foldl step st

/-- end of input -/
def finish (st : LexSt) : Res :=
  if st.bad then .subst else
  match st.mode with
  | .unq => .ok st.flush.out
  | .cmt => .ok st.out
  | .opc a => .ok (st.out ++ [.op [a]])
  | .dolU => .ok (st.push '$').flush.out
  | .sq | .dq | .bsU | .bsD | .dolD => .unterminated

def lexLine (s : List Char) : Res := finish (feed init s)

theorem feed_append (st : LexSt) (a b : List Char) : feed st (a ++ b) = feed (feed st a) b := by
  simp [feed, List.foldl_append]

theorem feed_cons (st : LexSt) (c : Char) (s : List Char) : feed st (c :: s) = feed (step st c) s := rfl
theorem feed_nil (st : LexSt) : feed st [] = st := rfl

/-! ## command templates -/

inductive Piece
  | lit (s : List Char)   -- literal text of the Python source (tokens are joined by a literal blank)
  | raw (i : Nat)         -- `{x}` / `str(x)`: the argument's characters are sent as they are
  | shq (i : Nat)         -- `shlex.quote(x)`
  | dq (i : Nat)          -- `"{x}"`
  | safe (i : Nat)        -- an int (`{mode:o}`, `str(n)`) or a variable *name*: by assumption non-empty, safe characters
deriving DecidableEq, Repr

abbrev Template := List Piece

def arg (args : List (List Char)) (i : Nat) : List Char := args.getD i []

def renderPiece (args : List (List Char)) : Piece → List Char
  | .lit s => s
  | .raw i => arg args i
  | .shq i => shlexQuote (arg args i)
  | .dq i => '"' :: (arg args i ++ ['"'])
  | .safe i => arg args i

/-- the command line the Python code sends to the shell -/
def render (t : Template) (args : List (List Char)) : List Char := (t.map (renderPiece args)).flatten

def Piece.isShQuoted : Piece → Bool
  | .lit _ => true
  | .shq _ => true
  | .safe _ => true
  | _ => false

/-- every argument occurrence of the template goes through `shlex.quote` -/
def allShQuoted (t : Template) : Bool := t.all Piece.isShQuoted

/-- a pending one-character operator (`>` in ` 2>`) is complete when a word starts -/
def LexSt.closeOp (st : LexSt) : LexSt :=
  match st.mode with
  | .opc a => { (st.emit (.op [a])) with mode := .unq }
  | _ => st

/-- insert an argument value verbatim into the current word (starting one if needed) -/
def LexSt.insert (st : LexSt) (s : List Char) : LexSt := st.closeOp.pushLit s

/-- the intended reading of a template: literal text is read by the shell, argument values are inserted
    verbatim into the current word -/
def specFeed (st : LexSt) (args : List (List Char)) : Template → LexSt
  | [] => st
  | .lit s :: t => specFeed (feed st s) args t
  | .raw i :: t => specFeed (st.insert (arg args i)) args t
  | .shq i :: t => specFeed (st.insert (arg args i)) args t
  | .dq i :: t => specFeed (st.insert (arg args i)) args t
  | .safe i :: t => specFeed (st.insert (arg args i)) args t

/-- the arguments at `safe` positions are what they are assumed to be: non-empty strings of safe characters -/
def safeArgsOk (t : Template) (args : List (List Char)) : Bool :=
  t.all (fun p => match p with
    | .safe i => !(arg args i).isEmpty && (arg args i).all isSafe
    | _ => true)

def specLine (t : Template) (args : List (List Char)) : Res := finish (specFeed init args t)

/-- the rendered line denotes exactly the intended words -/
def verbatimOn (t : Template) (args : List (List Char)) : Bool := lexLine (render t args) == specLine t args

/-! ## a small command interpreter over lexed items (`cd`, `export`, sequences) -/

def isRedir (s : List Char) : Bool :=
  s ∈ [['<'], ['>'], ['>', '>'], ['<', '<'], ['>', '&'], ['<', '&'], ['>', '|'], ['<', '>']]

/-- words of a simple command; a redirection operator and its target word are dropped (an IO number in front of
    it is kept as a word: over-approximation, irrelevant for the theorems); `none` when a word is marked as
    expanded (no claim about its value) -/
def wordsOf : List Item → Option (List (List Char))
  | [] => some []
  | .word w :: r => if w.exp then none else (wordsOf r).map (w.cs :: ·)
  | .op o :: .word w :: r => if isRedir o then wordsOf r else wordsOf (.word w :: r)
  | .op _ :: r => wordsOf r

structure Env where
  cwd : Option (List Char) := none
  vars : List (List Char × List Char) := []
deriving DecidableEq, Repr

def setVar (vars : List (List Char × List Char)) (k v : List Char) : List (List Char × List Char) :=
  (vars.filter (fun p => p.1 ≠ k)) ++ [(k, v)]

/-- split `K=v` at the first `=` -/
def splitEq : List Char → Option (List Char × List Char)
  | [] => none
  | c :: cs => if c = '=' then some ([], cs) else (splitEq cs).map (fun p => (c :: p.1, p.2))

/-- one executed external command: argv, working directory, environment -/
structure Exec where
  argv : List (List Char)
  env : Env
deriving DecidableEq, Repr

/-- effect of one simple command (already split into words) -/
def runSimple (e : Env) (argv : List (List Char)) : Env × List Exec :=
  match argv with
  | [] => (e, [])
  | [c, d] => if c = ['c', 'd'] then ({ e with cwd := some d }, []) else
      if c = ['e', 'x', 'p', 'o', 'r', 't'] then
        match splitEq d with
        | some (k, v) => ({ e with vars := setVar e.vars k v }, [])
        | none => (e, [])
      else (e, [{ argv := argv, env := e }])
  | _ => (e, [{ argv := argv, env := e }])

/-- `;`, `&&`, newline separate the commands of a list (every command is assumed to succeed) -/
def isSep (i : Item) : Bool := i == .op [';'] || i == .op ['&', '&'] || i == .op ['\n']

def consHead (i : Item) : List (List Item) → List (List Item)
  | seg :: segs => (i :: seg) :: segs
  | [] => [[i]]

/-- split the item list at the separators; other operators are kept inside the segment (pipes and redirections
    are not interpreted) -/
def splitSeq : List Item → List (List Item)
  | [] => [[]]
  | i :: r => if isSep i then [] :: splitSeq r else consHead i (splitSeq r)

def runSegs (e : Env) : List (List Item) → Option (Env × List Exec)
  | [] => some (e, [])
  | seg :: segs =>
      match wordsOf seg with
      | none => none
      | some argv =>
          let (e', x) := runSimple e argv
          (runSegs e' segs).map (fun p => (p.1, x ++ p.2))

/-- run a lexed command line in environment `e`: the external commands executed, each with the working
    directory and variables it sees -/
def runItems (e : Env) (items : List Item) : Option (Env × List Exec) := runSegs e (splitSeq items)

end SFV.Sh
