import SFV.Lemmas.NetConfl
/-! Provenance edges of workflow networks (C07): lemmas about `zipPorts`, `nodeProv`, `prov` of
`SFV/Model/Net.lean`. The property theorems are in `SFV/Props/C07Net.lean`. -/
namespace SFV.Net

/-! ## a. `zipPorts` and `mapM` on `Option` -/

theorem mem_zip_iff_idx {α β : Type} {ps : List α} {ls : List β} {p : α} {l : β} :
    (p, l) ∈ ps.zip ls ↔ ∃ j : Nat, ps[j]? = some p ∧ ls[j]? = some l := by
  rw [List.mem_iff_getElem?]
  constructor
  · rintro ⟨j, hj⟩
    exact ⟨j, List.getElem?_zip_eq_some.mp hj⟩
  · rintro ⟨j, hj⟩
    exact ⟨j, List.getElem?_zip_eq_some.mpr hj⟩

theorem mem_zipPorts {ps : List Nat} {ls : List (List Tok)} {p : Nat} {t : Tok} :
    (p, t) ∈ zipPorts ps ls ↔ ∃ j : Nat, ps[j]? = some p ∧ t ∈ ls[j]?.getD [] := by
  simp only [zipPorts, List.mem_flatMap, List.mem_map, Prod.exists, Prod.mk.injEq]
  constructor
  · rintro ⟨p', l, hz, t', ht', rfl, rfl⟩
    obtain ⟨j, h1, h2⟩ := mem_zip_iff_idx.mp hz
    exact ⟨j, h1, by rw [h2]; exact ht'⟩
  · rintro ⟨j, h1, h2⟩
    cases hl : ls[j]? with
    | none => rw [hl] at h2; cases h2
    | some l =>
      rw [hl] at h2
      exact ⟨p, l, mem_zip_iff_idx.mpr ⟨j, h1, hl⟩, t, h2, rfl, rfl⟩

theorem mem_zipPorts_port {ps : List Nat} {ls : List (List Tok)} {p : Nat} {t : Tok}
    (h : (p, t) ∈ zipPorts ps ls) : p ∈ ps := by
  obtain ⟨j, h1, _⟩ := mem_zipPorts.mp h
  exact List.mem_iff_getElem?.mpr ⟨j, h1⟩

theorem mapM_option_cons_some {α β : Type} {f : α → Option β} {a : α} {l : List α} {r : List β} :
    (a :: l).mapM f = some r ↔ ∃ b r', f a = some b ∧ l.mapM f = some r' ∧ r = b :: r' := by
  rw [List.mapM_cons]
  constructor
  · intro h
    cases ha : f a with
    | none => rw [ha] at h; cases h
    | some b =>
      rw [ha] at h
      cases hl : l.mapM f with
      | none => rw [hl] at h; cases h
      | some r' =>
        rw [hl] at h
        cases h
        exact ⟨b, r', rfl, rfl, rfl⟩
  · rintro ⟨b, r', ha, hl, rfl⟩
    rw [ha, hl]
    rfl

/-- every result of a successful `mapM` comes from an element of the list -/
theorem mapM_some_mem_right {α β : Type} {f : α → Option β} {l : List α} {r : List β} (h : l.mapM f = some r) :
    ∀ b ∈ r, ∃ a ∈ l, f a = some b := by
  induction l generalizing r with
  | nil =>
    rw [List.mapM_nil] at h
    cases h
    intro b hb; cases hb
  | cons a l ih =>
    obtain ⟨b', r', ha, hl, rfl⟩ := mapM_option_cons_some.mp h
    intro b hb
    rcases List.mem_cons.mp hb with rfl | hb
    · exact ⟨a, List.mem_cons_self, ha⟩
    · obtain ⟨a', ha', hr⟩ := ih hl b hb
      exact ⟨a', List.mem_cons_of_mem _ ha', hr⟩

/-- a successful `mapM` succeeded on every element -/
theorem mapM_some_mem_left {α β : Type} {f : α → Option β} {l : List α} {r : List β} (h : l.mapM f = some r) :
    ∀ a ∈ l, ∃ b ∈ r, f a = some b := by
  induction l generalizing r with
  | nil => intro a ha; cases ha
  | cons a l ih =>
    obtain ⟨b', r', ha, hl, rfl⟩ := mapM_option_cons_some.mp h
    intro a' ha'
    rcases List.mem_cons.mp ha' with rfl | ha'
    · exact ⟨b', List.mem_cons_self, ha⟩
    · obtain ⟨b, hb, hr⟩ := ih hl a' ha'
      exact ⟨b, List.mem_cons_of_mem _ hb, hr⟩

/-! ## b. every edge of a node goes from one of its input ports to one of its output ports -/

/-- the edges of a tag-grouping step (transformer, conditional) -/
def groupProv (ins outs : List Nat) (ls : List (List Tok)) : List (TokId × TokId) :=
  (zipPorts outs ls).flatMap (fun (o, t) => ins.map (fun q => ((q, t.tag), (o, t.tag))))

theorem nodeProv_tf (e : Env) (fn : Fn) (ins outs : List Nat) :
    nodeProv e (.tf fn ins outs) = groupProv ins outs (nodeOut e (.tf fn ins outs)) := rfl

theorem nodeProv_cond (e : Env) (m r : Nat) (z : Bool) (ins outs : List Nat) :
    nodeProv e (.cond m r z ins outs) = groupProv ins outs (nodeOut e (.cond m r z ins outs)) := rfl

theorem mem_groupProv {ins outs : List Nat} {ls : List (List Tok)} {x : TokId × TokId} :
    x ∈ groupProv ins outs ls ↔
      ∃ (j : Nat) (o : Nat) (t : Tok) (q : Nat), outs[j]? = some o ∧ t ∈ ls[j]?.getD [] ∧ q ∈ ins ∧
        x = ((q, t.tag), (o, t.tag)) := by
  simp only [groupProv, List.mem_flatMap, List.mem_map, Prod.exists]
  constructor
  · rintro ⟨o, t, hz, q, hq, rfl⟩
    obtain ⟨j, h1, h2⟩ := mem_zipPorts.mp hz
    exact ⟨j, o, t, q, h1, h2, hq, rfl⟩
  · rintro ⟨j, o, t, q, h1, h2, hq, rfl⟩
    exact ⟨o, t, mem_zipPorts.mpr ⟨j, h1, h2⟩, q, hq, rfl⟩

theorem groupProv_local {ins outs : List Nat} {ls : List (List Tok)} {x : TokId × TokId}
    (h : x ∈ groupProv ins outs ls) : x.1.1 ∈ ins ∧ x.2.1 ∈ outs := by
  obtain ⟨j, o, t, q, h1, _, hq, rfl⟩ := mem_groupProv.mp h
  exact ⟨hq, List.mem_iff_getElem?.mpr ⟨j, h1⟩⟩

theorem mem_nodeProv_scatter {e : Env} {inp out size : Nat} {x : TokId × TokId} :
    x ∈ nodeProv e (.scatter inp out size) ↔
      (∃ t ∈ scatterOut (e.get inp), x = ((inp, t.tag.dropLast), (out, t.tag))) ∨
      (∃ t ∈ scatterSize (e.get inp), x = ((inp, t.tag), (size, t.tag))) := by
  simp only [nodeProv, List.mem_append, List.mem_map, eq_comm]

theorem mem_nodeProv_gather {e : Env} {inp size out d : Nat} {x : TokId × TokId} :
    x ∈ nodeProv e (.gather inp size out d) ↔
      ∃ g ∈ gatherOut (e.get inp) (e.get size) d,
        x = ((size, g.tag), (out, g.tag)) ∨
        ∃ t ∈ e.get inp, (d < t.tag.length ∧ gatherKey d t.tag = g.tag) ∧ x = ((inp, t.tag), (out, g.tag)) := by
  simp only [nodeProv, List.mem_flatMap, List.mem_cons, List.mem_map, List.mem_filter, Bool.and_eq_true,
    decide_eq_true_eq, beq_iff_eq]
  constructor
  · rintro ⟨g, hg, rfl | ⟨t, ⟨ht, hk⟩, rfl⟩⟩
    · exact ⟨g, hg, Or.inl rfl⟩
    · exact ⟨g, hg, Or.inr ⟨t, ht, hk, rfl⟩⟩
  · rintro ⟨g, hg, rfl | ⟨t, ht, hk, rfl⟩⟩
    · exact ⟨g, hg, Or.inl rfl⟩
    · exact ⟨g, hg, Or.inr ⟨t, ⟨ht, hk⟩, rfl⟩⟩

theorem mem_nodeProv_cart {e : Env} {a b oa ob : Nat} {x : TokId × TokId} :
    x ∈ nodeProv e (.cart a b oa ob) ↔
      ∃ ta ∈ e.get a, ∃ tb ∈ e.get b,
        (2 ≤ ta.tag.length ∧ 2 ≤ tb.tag.length ∧ ta.tag.dropLast = tb.tag.dropLast) ∧
        (x = ((a, ta.tag), (oa, ta.tag ++ [tb.tag.getLast?.getD 0])) ∨
         x = ((b, tb.tag), (oa, ta.tag ++ [tb.tag.getLast?.getD 0])) ∨
         x = ((a, ta.tag), (ob, ta.tag ++ [tb.tag.getLast?.getD 0])) ∨
         x = ((b, tb.tag), (ob, ta.tag ++ [tb.tag.getLast?.getD 0]))) := by
  simp only [nodeProv, List.mem_flatMap, List.mem_cons, List.mem_filter, Bool.and_eq_true,
    decide_eq_true_eq, beq_iff_eq, and_assoc, List.not_mem_nil, or_false]

/-- the source tokens a dot-product combination of tag `k` is linked to -/
def dotSrcs (e : Env) (ins : List Nat) (k : Tag) : Option (List TokId) :=
  ins.mapM (fun q => ((e.get q).find? (fun t => isPre t.tag k)).map (fun t => (q, t.tag)))

def dotTags (e : Env) (ins : List Nat) : List Tag := dedup (ins.flatMap (fun q => (e.get q).map (·.tag)))

theorem mem_nodeProv_dot {e : Env} {ins outs : List Nat} {x : TokId × TokId} :
    x ∈ nodeProv e (.dot ins outs) ↔
      ∃ k ∈ dotTags e ins, ∃ srcs, dotSrcs e ins k = some srcs ∧ ∃ o ∈ outs, ∃ s ∈ srcs, x = (s, (o, k)) := by
  simp only [nodeProv, List.mem_flatMap]
  constructor
  · rintro ⟨k, hk, hx⟩
    refine ⟨k, hk, ?_⟩
    split at hx
    · rename_i srcs hs
      simp only [List.mem_flatMap, List.mem_map] at hx
      obtain ⟨o, ho, s, hs', rfl⟩ := hx
      exact ⟨srcs, hs, o, ho, s, hs', rfl⟩
    · cases hx
  · rintro ⟨k, hk, srcs, hs, o, ho, s, hs', rfl⟩
    refine ⟨k, hk, ?_⟩
    have hs2 : ins.mapM (fun q => ((e.get q).find? (fun t => isPre t.tag k)).map (fun t => (q, t.tag))) = some srcs := hs
    rw [hs2]
    simp only [List.mem_flatMap, List.mem_map]
    exact ⟨o, ho, s, hs', rfl⟩

theorem dotSrcs_port {e : Env} {ins : List Nat} {k : Tag} {srcs : List TokId} (h : dotSrcs e ins k = some srcs) :
    ∀ s ∈ srcs, s.1 ∈ ins ∧ ∃ t, (e.get s.1).find? (fun t => isPre t.tag k) = some t ∧ t.tag = s.2 := by
  intro s hs
  obtain ⟨q, hq, hf⟩ := mapM_some_mem_right h s hs
  cases hfind : (e.get q).find? (fun t => isPre t.tag k) with
  | none => rw [hfind] at hf; cases hf
  | some t =>
    rw [hfind] at hf
    simp only [Option.map_some, Option.some.injEq] at hf
    subst hf
    exact ⟨hq, t, hfind, rfl⟩

/-- **edges are local to the node** -/
theorem nodeProv_local (e : Env) (n : Node) (x : TokId × TokId) (h : x ∈ nodeProv e n) :
    x.1.1 ∈ n.ins ∧ x.2.1 ∈ n.outs := by
  cases n with
  | tf fn ins outs => exact groupProv_local h
  | cond m r zero ins outs => exact groupProv_local h
  | exec k ins out => cases h
  | scatter inp out size =>
    rcases mem_nodeProv_scatter.mp h with ⟨t, _, rfl⟩ | ⟨t, _, rfl⟩ <;> simp [Node.ins, Node.outs]
  | gather inp size out d =>
    obtain ⟨g, _, rfl | ⟨t, _, _, rfl⟩⟩ := mem_nodeProv_gather.mp h <;> simp [Node.ins, Node.outs]
  | dot ins outs =>
    obtain ⟨k, _, srcs, hs, o, ho, s, hs', rfl⟩ := mem_nodeProv_dot.mp h
    exact ⟨(dotSrcs_port hs s hs').1, ho⟩
  | cart a b oa ob =>
    obtain ⟨ta, _, tb, _, _, rfl | rfl | rfl | rfl⟩ := mem_nodeProv_cart.mp h <;> simp [Node.ins, Node.outs]

/-- the edges of a network, from environment `e` on (the inner loop of `prov`) -/
theorem prov_go_cons (e : Env) (n : Node) (ns : List Node) :
    prov.go e (n :: ns) = nodeProv e n ++ prov.go (nodeDen e n) ns := rfl

theorem prov_go_local (e : Env) (ns : List Node) (x : TokId × TokId) (h : x ∈ prov.go e ns) :
    ∃ n ∈ ns, x.1.1 ∈ n.ins ∧ x.2.1 ∈ n.outs := by
  induction ns generalizing e with
  | nil => cases h
  | cons n ns ih =>
    rcases List.mem_append.mp h with h | h
    · exact ⟨n, List.mem_cons_self, nodeProv_local e n x h⟩
    · obtain ⟨m, hm, hx⟩ := ih _ h
      exact ⟨m, List.mem_cons_of_mem _ hm, hx⟩

/-! ## c. ranks of ports: edges go from earlier to later ports -/

/-- `k + i + 1` if the first node of the list that writes port `p` has index `i`, and 0 if no node does -/
def rankGo (k : Nat) : List Node → Nat → Nat
  | [], _ => 0
  | n :: ns, p => if p ∈ n.outs then k + 1 else rankGo (k + 1) ns p

/-- rank of a port: 0 for the ports no node writes (sources, closed ports), `i + 1` for the outputs of node
number `i` in the topological order -/
def rank (sp : Spec) (p : Nat) : Nat := rankGo 0 sp.nodes p

theorem rankGo_eq_zero (k : Nat) (ns : List Node) (p : Nat) (h : ∀ n ∈ ns, p ∉ n.outs) : rankGo k ns p = 0 := by
  induction ns generalizing k with
  | nil => rfl
  | cons n ns ih =>
    simp only [rankGo, if_neg (h n List.mem_cons_self)]
    exact ih _ (fun m hm => h m (List.mem_cons_of_mem _ hm))

theorem rankGo_zero_or_gt (k : Nat) (ns : List Node) (p : Nat) : rankGo k ns p = 0 ∨ k < rankGo k ns p := by
  induction ns generalizing k with
  | nil => exact Or.inl rfl
  | cons n ns ih =>
    simp only [rankGo]
    split
    · exact Or.inr (Nat.lt_succ_self k)
    · rcases ih (k + 1) with h | h
      · exact Or.inl h
      · exact Or.inr (by omega)

/-- a positive rank points to the node that writes the port -/
theorem rankGo_pos_idx (k : Nat) (ns : List Node) (p : Nat) (h : rankGo k ns p ≠ 0) :
    ∃ (i : Nat) (n : Node), rankGo k ns p = k + i + 1 ∧ ns[i]? = some n ∧ p ∈ n.outs := by
  induction ns generalizing k with
  | nil => exact absurd rfl h
  | cons n ns ih =>
    simp only [rankGo] at h ⊢
    split
    · rename_i hp
      exact ⟨0, n, rfl, rfl, hp⟩
    · rename_i hp
      rw [if_neg hp] at h
      obtain ⟨i, m, h1, h2, h3⟩ := ih (k + 1) h
      exact ⟨i + 1, m, by omega, by simpa using h2, h3⟩

theorem prov_go_rank {np : Nat} {avail : List Nat} {ns : List Node} (hs : StructOk np avail ns) (e : Env) (k : Nat) :
    ∀ x ∈ prov.go e ns, rankGo k ns x.1.1 < rankGo k ns x.2.1 := by
  induction ns generalizing avail e k with
  | nil => intro x hx; cases hx
  | cons n ns ih =>
    obtain ⟨h1, h2, _, h4⟩ := structOk_cons.mp hs
    intro x hx
    rcases List.mem_append.mp hx with hx | hx
    · obtain ⟨hi, ho⟩ := nodeProv_local e n x hx
      have hav := h1 _ hi
      have hz : rankGo k (n :: ns) x.1.1 = 0 :=
        rankGo_eq_zero _ _ _ (fun m hm hmo => hs.outs_notin m hm _ hmo hav)
      rw [hz]
      simp only [rankGo, if_pos ho]
      omega
    · have hlt := ih h4 (nodeDen e n) (k + 1) x hx
      have h2o : x.2.1 ∉ n.outs := by
        intro hmem
        have : rankGo (k + 1) ns x.2.1 = 0 :=
          rankGo_eq_zero _ _ _ (fun m hm hmo => h4.outs_notin m hm _ hmo (List.mem_append_right _ hmem))
        omega
      simp only [rankGo, if_neg h2o]
      split
      · rcases rankGo_zero_or_gt (k + 1) ns x.2.1 with h | h <;> omega
      · exact hlt

/-- paths in a list of edges between tokens -/
inductive TokPath (E : List (TokId × TokId)) : TokId → TokId → Prop
  | edge {a b : TokId} : (a, b) ∈ E → TokPath E a b
  | trans {a b c : TokId} : TokPath E a b → TokPath E b c → TokPath E a c

theorem tokPath_rank_lt {E : List (TokId × TokId)} (r : Nat → Nat) (h : ∀ x ∈ E, r x.1.1 < r x.2.1)
    {a b : TokId} (p : TokPath E a b) : r a.1 < r b.1 := by
  induction p with
  | edge hab => exact h _ hab
  | trans _ _ ih1 ih2 => exact Nat.lt_trans ih1 ih2

/-! ## d. what the nodes emit -/

theorem getD_pair {α : Type} {a b : List α} {j : Nat} {t : α} (h : t ∈ [a, b][j]?.getD []) :
    (j = 0 ∧ t ∈ a) ∨ (j = 1 ∧ t ∈ b) := by
  match j, h with
  | 0, h => exact Or.inl ⟨rfl, h⟩
  | 1, h => exact Or.inr ⟨rfl, h⟩
  | _ + 2, h => cases h

theorem getD_single {α : Type} {a : List α} {j : Nat} {t : α} (h : t ∈ [a][j]?.getD []) : j = 0 ∧ t ∈ a := by
  match j, h with
  | 0, h => exact ⟨rfl, h⟩
  | _ + 1, h => cases h

/-- a token emitted by a tag-grouping step carries a tag that fired: the tag is on every input port -/
theorem mem_groupStep {e : Env} {ins : List Nat} {nouts : Nat} {f : List Val → List (Option Val)} {j : Nat}
    {t : Tok} (h : t ∈ (groupStep e ins nouts f)[j]?.getD []) :
    j < nouts ∧ t.tag ∈ commonTags e ins ∧ ∃ vals, groupAt e ins t.tag = some vals ∧ (f vals)[j]?.join = some t.val := by
  by_cases hj : j < nouts
  · simp only [groupStep, List.getElem?_map, List.getElem?_range hj, Option.map_some, Option.getD_some,
      List.mem_filterMap] at h
    obtain ⟨k, hk, hf⟩ := h
    split at hf
    · rename_i vals hv
      cases hjn : (f vals)[j]?.join with
      | none => rw [hjn] at hf; cases hf
      | some v =>
        rw [hjn] at hf
        simp only [Option.map_some, Option.some.injEq] at hf
        subst hf
        exact ⟨hj, hk, vals, hv, hjn⟩
    · cases hf
  · have : (groupStep e ins nouts f)[j]? = none := by
      simp only [groupStep, List.getElem?_map]
      rw [List.getElem?_eq_none (by simpa using Nat.le_of_not_lt hj)]
      rfl
    rw [this] at h
    cases h

theorem lookupTag_some {l : List Tok} {k : Tag} {v : Val} (h : lookupTag l k = some v) :
    ∃ u ∈ l, u.tag = k ∧ u.val = v := by
  unfold lookupTag at h
  cases hf : l.find? (fun x => x.tag == k) with
  | none => rw [hf] at h; cases h
  | some u =>
    rw [hf] at h
    simp only [Option.map_some, Option.some.injEq] at h
    exact ⟨u, List.mem_of_find?_eq_some hf, by simpa using List.find?_some hf, h⟩

/-- a fired tag is present on every input port -/
theorem groupAt_some_present {e : Env} {ins : List Nat} {k : Tag} {vals : List Val} (h : groupAt e ins k = some vals) :
    ∀ q ∈ ins, ∃ u ∈ e.get q, u.tag = k := by
  intro q hq
  obtain ⟨v, _, hv⟩ := mapM_some_mem_left h q hq
  obtain ⟨u, hu, ht, _⟩ := lookupTag_some hv
  exact ⟨u, hu, ht⟩

theorem mem_scatterOut {l : List Tok} {t : Tok} (h : t ∈ scatterOut l) :
    ∃ u ∈ l, ∃ i : Nat, t.tag = u.tag ++ [i] := by
  simp only [scatterOut, List.mem_flatMap] at h
  obtain ⟨u, hu, ht⟩ := h
  split at ht
  · simp only [List.mem_map, Prod.exists] at ht
    obtain ⟨v, i, _, rfl⟩ := ht
    exact ⟨u, hu, i, rfl⟩
  · cases ht

theorem mem_scatterSize {l : List Tok} {t : Tok} (h : t ∈ scatterSize l) : ∃ u ∈ l, t.tag = u.tag := by
  simp only [scatterSize, List.mem_filterMap] at h
  obtain ⟨u, hu, ht⟩ := h
  split at ht
  · simp only [Option.some.injEq] at ht
    subst ht
    exact ⟨u, hu, rfl⟩
  · cases ht

/-- the pairs of tokens a cartesian product combines -/
def cartPairs (a b : List Tok) : List (Tok × Tok) :=
  a.flatMap (fun ta => (b.filter (fun tb =>
    2 ≤ ta.tag.length && 2 ≤ tb.tag.length && ta.tag.dropLast == tb.tag.dropLast)).map (fun tb => (ta, tb)))

theorem mem_cartPairs {a b : List Tok} {ta tb : Tok} :
    (ta, tb) ∈ cartPairs a b ↔ ta ∈ a ∧ tb ∈ b ∧
      (2 ≤ ta.tag.length ∧ 2 ≤ tb.tag.length ∧ ta.tag.dropLast = tb.tag.dropLast) := by
  simp only [cartPairs, List.mem_flatMap, List.mem_map, List.mem_filter, Bool.and_eq_true, decide_eq_true_eq,
    beq_iff_eq, Prod.mk.injEq]
  constructor
  · rintro ⟨ta', ha, tb', ⟨hb, hc1, hc2⟩, rfl, rfl⟩
    exact ⟨ha, hb, hc1.1, hc1.2, hc2⟩
  · rintro ⟨ha, hb, hc1, hc2, hc3⟩
    exact ⟨ta, ha, tb, ⟨hb, ⟨hc1, hc2⟩, hc3⟩, rfl, rfl⟩

theorem mem_cartOut_fst {a b : List Tok} {t : Tok} :
    t ∈ (cartOut a b).1 ↔ ∃ ta tb, (ta, tb) ∈ cartPairs a b ∧
      t = { tag := ta.tag ++ [tb.tag.getLast?.getD 0], val := ta.val } := by
  show t ∈ (cartPairs a b).map _ ↔ _
  simp only [List.mem_map, Prod.exists]
  constructor
  · rintro ⟨ta, tb, h, rfl⟩; exact ⟨ta, tb, h, rfl⟩
  · rintro ⟨ta, tb, h, rfl⟩; exact ⟨ta, tb, h, rfl⟩

theorem mem_cartOut_snd {a b : List Tok} {t : Tok} :
    t ∈ (cartOut a b).2 ↔ ∃ ta tb, (ta, tb) ∈ cartPairs a b ∧
      t = { tag := ta.tag ++ [tb.tag.getLast?.getD 0], val := tb.val } := by
  show t ∈ (cartPairs a b).map _ ↔ _
  simp only [List.mem_map, Prod.exists]
  constructor
  · rintro ⟨ta, tb, h, rfl⟩; exact ⟨ta, tb, h, rfl⟩
  · rintro ⟨ta, tb, h, rfl⟩; exact ⟨ta, tb, h, rfl⟩

/-! ## e. completeness: every emitted token has an incoming edge -/

theorem groupProv_complete {ins outs : List Nat} {ls : List (List Tok)} {j o : Nat} {t : Tok}
    (ho : outs[j]? = some o) (ht : t ∈ ls[j]?.getD []) :
    ∀ q ∈ ins, ((q, t.tag), (o, t.tag)) ∈ groupProv ins outs ls :=
  fun q hq => mem_groupProv.mpr ⟨j, o, t, q, ho, ht, hq, rfl⟩

theorem scatter_complete (e : Env) (inp out size : Nat) (j o : Nat)
    (ho : (Node.scatter inp out size).outs[j]? = some o) (t : Tok)
    (ht : t ∈ (nodeOut e (.scatter inp out size))[j]?.getD []) :
    ∃ x ∈ nodeProv e (.scatter inp out size), x.2 = (o, t.tag) := by
  rcases getD_pair ht with ⟨rfl, ht⟩ | ⟨rfl, ht⟩
  · have : out = o := by simpa [Node.outs] using ho
    subst this
    exact ⟨_, mem_nodeProv_scatter.mpr (Or.inl ⟨t, ht, rfl⟩), rfl⟩
  · have : size = o := by simpa [Node.outs] using ho
    subst this
    exact ⟨_, mem_nodeProv_scatter.mpr (Or.inr ⟨t, ht, rfl⟩), rfl⟩

theorem gather_complete (e : Env) (inp size out d : Nat) (j o : Nat)
    (ho : (Node.gather inp size out d).outs[j]? = some o) (t : Tok)
    (ht : t ∈ (nodeOut e (.gather inp size out d))[j]?.getD []) :
    ∃ x ∈ nodeProv e (.gather inp size out d), x.2 = (o, t.tag) := by
  obtain ⟨rfl, ht⟩ := getD_single ht
  have : out = o := by simpa [Node.outs] using ho
  subst this
  exact ⟨_, mem_nodeProv_gather.mpr ⟨t, ht, Or.inl rfl⟩, rfl⟩

theorem cart_complete (e : Env) (a b oa ob : Nat) (j o : Nat)
    (ho : (Node.cart a b oa ob).outs[j]? = some o) (t : Tok)
    (ht : t ∈ (nodeOut e (.cart a b oa ob))[j]?.getD []) :
    ∃ x ∈ nodeProv e (.cart a b oa ob), x.2 = (o, t.tag) := by
  rcases getD_pair ht with ⟨rfl, ht⟩ | ⟨rfl, ht⟩
  · have : oa = o := by simpa [Node.outs] using ho
    subst this
    obtain ⟨ta, tb, hp, rfl⟩ := mem_cartOut_fst.mp ht
    obtain ⟨ha, hb, hc⟩ := mem_cartPairs.mp hp
    exact ⟨_, mem_nodeProv_cart.mpr ⟨ta, ha, tb, hb, hc, Or.inl rfl⟩, rfl⟩
  · have : ob = o := by simpa [Node.outs] using ho
    subst this
    obtain ⟨ta, tb, hp, rfl⟩ := mem_cartOut_snd.mp ht
    obtain ⟨ha, hb, hc⟩ := mem_cartPairs.mp hp
    exact ⟨_, mem_nodeProv_cart.mpr ⟨ta, ha, tb, hb, hc, Or.inr (Or.inr (Or.inl rfl))⟩, rfl⟩

/-! ## f. the dot-product combinator -/

theorem mapM_option_exists {α β : Type} {f : α → Option β} {l : List α} (h : ∀ a ∈ l, ∃ b, f a = some b) :
    ∃ r, l.mapM f = some r := by
  induction l with
  | nil => exact ⟨[], rfl⟩
  | cons a l ih =>
    obtain ⟨b, hb⟩ := h a List.mem_cons_self
    obtain ⟨r, hr⟩ := ih (fun a' ha' => h a' (List.mem_cons_of_mem _ ha'))
    exact ⟨b :: r, mapM_option_cons_some.mpr ⟨b, r, hb, hr, rfl⟩⟩

theorem mapM_some_idx {α β : Type} {f : α → Option β} {l : List α} {r : List β} (h : l.mapM f = some r)
    (j : Nat) (a : α) (ha : l[j]? = some a) : ∃ b, r[j]? = some b ∧ f a = some b := by
  induction l generalizing r j with
  | nil => cases ha
  | cons a' l ih =>
    obtain ⟨b', r', hb, hl, rfl⟩ := mapM_option_cons_some.mp h
    cases j with
    | zero =>
      simp only [List.getElem?_cons_zero, Option.some.injEq] at ha
      subst ha
      exact ⟨b', rfl, hb⟩
    | succ j =>
      simp only [List.getElem?_cons_succ] at ha ⊢
      exact ih hl j ha

/-- the combinations a dot product fires: received tags for which every port holds a prefix-tagged token -/
def dotFired (e : Env) (ins : List Nat) : List (Tag × List Val) :=
  (dotTags e ins).filterMap (fun k => (ins.mapM (fun q => pickPre (e.get q) k)).map (fun vals => (k, vals)))

theorem mem_dotFired {e : Env} {ins : List Nat} {k : Tag} {vals : List Val} :
    (k, vals) ∈ dotFired e ins ↔ k ∈ dotTags e ins ∧ ins.mapM (fun q => pickPre (e.get q) k) = some vals := by
  simp only [dotFired, List.mem_filterMap]
  constructor
  · rintro ⟨k', hk', hm⟩
    cases hv : ins.mapM (fun q => pickPre (e.get q) k') with
    | none => rw [hv] at hm; cases hm
    | some vals' =>
      rw [hv] at hm
      simp only [Option.map_some, Option.some.injEq, Prod.mk.injEq] at hm
      obtain ⟨rfl, rfl⟩ := hm
      exact ⟨hk', hv⟩
  · rintro ⟨hk, hv⟩
    exact ⟨k, hk, by rw [hv]; rfl⟩

theorem mem_dotOut {e : Env} {ins : List Nat} {j : Nat} {t : Tok} :
    t ∈ (dotOut e ins)[j]?.getD [] ↔
      j < ins.length ∧ ∃ vals, (t.tag, vals) ∈ dotFired e ins ∧ vals[j]? = some t.val := by
  have hdef : dotOut e ins = (List.range ins.length).map (fun j =>
      (dotFired e ins).filterMap (fun (k, vals) => vals[j]?.map (fun v => ({ tag := k, val := v } : Tok)))) := rfl
  rw [hdef]
  by_cases hj : j < ins.length
  · simp only [List.getElem?_map, List.getElem?_range hj, Option.map_some, Option.getD_some, List.mem_filterMap,
      Prod.exists]
    constructor
    · rintro ⟨k, vals, hf, hv⟩
      cases hvj : vals[j]? with
      | none => rw [hvj] at hv; cases hv
      | some v =>
        rw [hvj] at hv
        simp only [Option.map_some, Option.some.injEq] at hv
        subst hv
        exact ⟨hj, vals, hf, hvj⟩
    · rintro ⟨_, vals, hf, hv⟩
      exact ⟨t.tag, vals, hf, by rw [hv]; rfl⟩
  · have : ((List.range ins.length).map (fun j =>
        (dotFired e ins).filterMap (fun (k, vals) => vals[j]?.map (fun v => ({ tag := k, val := v } : Tok)))))[j]?
        = none := by
      rw [List.getElem?_map, List.getElem?_eq_none (by simpa using Nat.le_of_not_lt hj)]
      rfl
    rw [this]
    constructor
    · intro h; cases h
    · rintro ⟨h, _⟩; exact absurd h hj

theorem pickPre_some_iff {l : List Tok} {k : Tag} :
    (∃ v, pickPre l k = some v) ↔ ∃ u, l.find? (fun t => isPre t.tag k) = some u := by
  unfold pickPre
  cases l.find? (fun t => isPre t.tag k) with
  | none => simp
  | some u => simp

/-- the values picked and the source tokens linked exist together -/
theorem dotSrcs_some_iff {e : Env} {ins : List Nat} {k : Tag} :
    (∃ srcs, dotSrcs e ins k = some srcs) ↔ ∃ vals, ins.mapM (fun q => pickPre (e.get q) k) = some vals := by
  constructor
  · rintro ⟨srcs, h⟩
    refine mapM_option_exists (fun q hq => ?_)
    obtain ⟨s, _, hs⟩ := mapM_some_mem_left h q hq
    refine pickPre_some_iff.mpr ?_
    cases hf : (e.get q).find? (fun t => isPre t.tag k) with
    | none => rw [hf] at hs; cases hs
    | some u => exact ⟨u, rfl⟩
  · rintro ⟨vals, h⟩
    refine mapM_option_exists (fun q hq => ?_)
    obtain ⟨v, _, hv⟩ := mapM_some_mem_left h q hq
    obtain ⟨u, hu⟩ := pickPre_some_iff.mp ⟨v, hv⟩
    exact ⟨(q, u.tag), by rw [hu]; rfl⟩

theorem dot_complete (e : Env) (ins outs : List Nat) (j o : Nat) (ho : outs[j]? = some o) (t : Tok)
    (ht : t ∈ (nodeOut e (.dot ins outs))[j]?.getD []) :
    ∃ x ∈ nodeProv e (.dot ins outs), x.2 = (o, t.tag) := by
  obtain ⟨hj, vals, hf, _⟩ := mem_dotOut.mp ht
  obtain ⟨hk, hv⟩ := mem_dotFired.mp hf
  obtain ⟨srcs, hs⟩ := dotSrcs_some_iff.mpr ⟨vals, hv⟩
  obtain ⟨s, hs', _⟩ := mapM_some_mem_left hs ins[j] (List.getElem_mem hj)
  exact ⟨(s, (o, t.tag)),
    mem_nodeProv_dot.mpr ⟨t.tag, hk, srcs, hs, o, List.mem_iff_getElem?.mpr ⟨j, ho⟩, s, hs', rfl⟩, rfl⟩

/-! ## g. the depender of an edge is emitted, the dependee is present -/

/-- "token with tag `k` is emitted on output port `o` of node `n`" -/
def Emits (e : Env) (n : Node) (o : Nat) (k : Tag) : Prop :=
  ∃ j : Nat, n.outs[j]? = some o ∧ ∃ t ∈ (nodeOut e n)[j]?.getD [], t.tag = k

theorem groupProv_target {e : Env} {n : Node} {ins : List Nat} {x : TokId × TokId}
    (h : x ∈ groupProv ins n.outs (nodeOut e n)) : Emits e n x.2.1 x.2.2 := by
  obtain ⟨j, o, t, q, h1, h2, _, rfl⟩ := mem_groupProv.mp h
  exact ⟨j, h1, t, h2, rfl⟩

theorem dot_target {e : Env} {ins outs : List Nat} (hlen : outs.length ≤ ins.length) {x : TokId × TokId}
    (h : x ∈ nodeProv e (.dot ins outs)) : Emits e (.dot ins outs) x.2.1 x.2.2 := by
  obtain ⟨k, hk, srcs, hs, o, ho, s, _, rfl⟩ := mem_nodeProv_dot.mp h
  obtain ⟨j, hj⟩ := List.mem_iff_getElem?.mp ho
  have hjl : j < outs.length := by
    rcases Nat.lt_or_ge j outs.length with h | h
    · exact h
    · rw [List.getElem?_eq_none h] at hj; cases hj
  have hji : j < ins.length := Nat.lt_of_lt_of_le hjl hlen
  obtain ⟨vals, hv⟩ := dotSrcs_some_iff.mp ⟨srcs, hs⟩
  obtain ⟨v, hvj, _⟩ := mapM_some_idx hv j ins[j] (List.getElem?_eq_getElem hji)
  exact ⟨j, hj, { tag := k, val := v }, mem_dotOut.mpr ⟨hji, vals, mem_dotFired.mpr ⟨hk, hv⟩, hvj⟩, rfl⟩

/-- every edge ends at a token the node emits (for dot products: if there are at most as many outputs as inputs) -/
theorem nodeProv_target (e : Env) (n : Node) (hd : n.isDot = true → n.outs.length ≤ n.ins.length)
    (x : TokId × TokId) (h : x ∈ nodeProv e n) : Emits e n x.2.1 x.2.2 := by
  cases n with
  | tf fn ins outs => exact groupProv_target (n := .tf fn ins outs) h
  | cond m r zero ins outs => exact groupProv_target (n := .cond m r zero ins outs) h
  | exec k ins out => cases h
  | scatter inp out size =>
    rcases mem_nodeProv_scatter.mp h with ⟨t, ht, rfl⟩ | ⟨t, ht, rfl⟩
    · exact ⟨0, rfl, t, ht, rfl⟩
    · exact ⟨1, rfl, t, ht, rfl⟩
  | gather inp size out d =>
    obtain ⟨g, hg, rfl | ⟨t, _, _, rfl⟩⟩ := mem_nodeProv_gather.mp h
    · exact ⟨0, rfl, g, hg, rfl⟩
    · exact ⟨0, rfl, g, hg, rfl⟩
  | dot ins outs => exact dot_target (hd rfl) h
  | cart a b oa ob =>
    obtain ⟨ta, ha, tb, hb, hc, rfl | rfl | rfl | rfl⟩ := mem_nodeProv_cart.mp h
    · exact ⟨0, rfl, _, mem_cartOut_fst.mpr ⟨ta, tb, mem_cartPairs.mpr ⟨ha, hb, hc⟩, rfl⟩, rfl⟩
    · exact ⟨0, rfl, _, mem_cartOut_fst.mpr ⟨ta, tb, mem_cartPairs.mpr ⟨ha, hb, hc⟩, rfl⟩, rfl⟩
    · exact ⟨1, rfl, _, mem_cartOut_snd.mpr ⟨ta, tb, mem_cartPairs.mpr ⟨ha, hb, hc⟩, rfl⟩, rfl⟩
    · exact ⟨1, rfl, _, mem_cartOut_snd.mpr ⟨ta, tb, mem_cartPairs.mpr ⟨ha, hb, hc⟩, rfl⟩, rfl⟩

/-- "port `p` holds a token with tag `k`" -/
def Present (e : Env) (p : Nat) (k : Tag) : Prop := ∃ t ∈ e.get p, t.tag = k

/-- the edge from the size port that a gather records for each list it emits; for a forced gather (no size
token arrived for the key) the engine creates and saves the size token itself -/
def IsGatherSizeEdge (n : Node) (x : TokId × TokId) : Prop :=
  ∃ inp size out d, n = .gather inp size out d ∧ x = ((size, x.2.2), (out, x.2.2))

theorem groupProv_source {e : Env} {ins outs : List Nat} {nouts : Nat} {f : List Val → List (Option Val)}
    {x : TokId × TokId} (h : x ∈ groupProv ins outs (groupStep e ins nouts f)) : Present e x.1.1 x.1.2 := by
  obtain ⟨j, o, t, q, _, h2, hq, rfl⟩ := mem_groupProv.mp h
  obtain ⟨_, _, vals, hv, _⟩ := mem_groupStep h2
  exact groupAt_some_present hv q hq

/-- every edge starts at a token present on the input port, except the size edge of a gather -/
theorem nodeProv_source (e : Env) (n : Node) (x : TokId × TokId) (h : x ∈ nodeProv e n) :
    Present e x.1.1 x.1.2 ∨ IsGatherSizeEdge n x := by
  cases n with
  | tf fn ins outs => exact Or.inl (groupProv_source h)
  | cond m r zero ins outs => exact Or.inl (groupProv_source h)
  | exec k ins out => cases h
  | scatter inp out size =>
    rcases mem_nodeProv_scatter.mp h with ⟨t, ht, rfl⟩ | ⟨t, ht, rfl⟩
    · obtain ⟨u, hu, i, hi⟩ := mem_scatterOut ht
      exact Or.inl ⟨u, hu, by show u.tag = t.tag.dropLast; rw [hi, List.dropLast_concat]⟩
    · obtain ⟨u, hu, hi⟩ := mem_scatterSize ht
      exact Or.inl ⟨u, hu, hi.symm⟩
  | gather inp size out d =>
    obtain ⟨g, _, rfl | ⟨t, ht, _, rfl⟩⟩ := mem_nodeProv_gather.mp h
    · exact Or.inr ⟨inp, size, out, d, rfl, rfl⟩
    · exact Or.inl ⟨t, ht, rfl⟩
  | dot ins outs =>
    obtain ⟨k, _, srcs, hs, o, _, s, hs', rfl⟩ := mem_nodeProv_dot.mp h
    obtain ⟨_, t, hf, ht⟩ := dotSrcs_port hs s hs'
    exact Or.inl ⟨t, List.mem_of_find?_eq_some hf, ht⟩
  | cart a b oa ob =>
    obtain ⟨ta, ha, tb, hb, _, rfl | rfl | rfl | rfl⟩ := mem_nodeProv_cart.mp h
    · exact Or.inl ⟨ta, ha, rfl⟩
    · exact Or.inl ⟨tb, hb, rfl⟩
    · exact Or.inl ⟨ta, ha, rfl⟩
    · exact Or.inl ⟨tb, hb, rfl⟩

/-! ## h. completeness for every node kind, and the edges of a whole network -/

def Node.isExec : Node → Bool
  | .exec _ _ _ => true
  | _ => false

theorem group_complete {e : Env} {ins outs : List Nat} {nouts : Nat} {f : List Val → List (Option Val)}
    {j o : Nat} (ho : outs[j]? = some o) {t : Tok} (ht : t ∈ (groupStep e ins nouts f)[j]?.getD []) :
    ∃ x ∈ groupProv ins outs (groupStep e ins nouts f), x.2 = (o, t.tag) := by
  obtain ⟨_, hc, _⟩ := mem_groupStep ht
  cases ins with
  | nil => cases hc
  | cons q r => exact ⟨_, groupProv_complete ho ht q List.mem_cons_self, rfl⟩

/-- every token emitted by a node other than the exec pipeline has an incoming edge -/
theorem nodeProv_complete (e : Env) (n : Node) (hn : n.isExec = false) (j o : Nat) (ho : n.outs[j]? = some o)
    (t : Tok) (ht : t ∈ (nodeOut e n)[j]?.getD []) : ∃ x ∈ nodeProv e n, x.2 = (o, t.tag) := by
  cases n with
  | tf fn ins outs => exact group_complete ho ht
  | cond m r zero ins outs => exact group_complete ho ht
  | exec k ins out => cases hn
  | scatter inp out size => exact scatter_complete e inp out size j o ho t ht
  | gather inp size out d => exact gather_complete e inp size out d j o ho t ht
  | dot ins outs => exact dot_complete e ins outs j o ho t ht
  | cart a b oa ob => exact cart_complete e a b oa ob j o ho t ht

theorem dotSrcs_congr (e1 e2 : Env) (ins : List Nat) (h : ∀ q ∈ ins, e1.get q = e2.get q) (k : Tag) :
    dotSrcs e1 ins k = dotSrcs e2 ins k :=
  mapM_option_congr ins (fun q hq => by rw [h q hq])

theorem dotTags_congr (e1 e2 : Env) (ins : List Nat) (h : ∀ q ∈ ins, e1.get q = e2.get q) :
    dotTags e1 ins = dotTags e2 ins := by
  unfold dotTags
  rw [List.flatMap_def, List.flatMap_def, List.map_congr_left (fun q hq => by rw [h q hq])]

/-- the edges a node records only depend on the contents of its input ports -/
theorem nodeProv_congr (e1 e2 : Env) (n : Node) (h : ∀ q ∈ n.ins, e1.get q = e2.get q) :
    nodeProv e1 n = nodeProv e2 n := by
  cases n with
  | tf fn ins outs => rw [nodeProv_tf, nodeProv_tf, nodeOut_congr e1 e2 _ h]
  | cond m r zero ins outs => rw [nodeProv_cond, nodeProv_cond, nodeOut_congr e1 e2 _ h]
  | exec k ins out => rfl
  | scatter inp out size =>
    have := h inp (by simp [Node.ins])
    simp only [nodeProv, this]
  | gather inp size out d =>
    have h1 := h inp (by simp [Node.ins])
    have h2 := h size (by simp [Node.ins])
    simp only [nodeProv, h1, h2]
  | dot ins outs =>
    have h1 := dotTags_congr e1 e2 ins h
    have h2 : dotSrcs e1 ins = dotSrcs e2 ins := funext (dotSrcs_congr e1 e2 ins h)
    show (dotTags e1 ins).flatMap (fun k => match dotSrcs e1 ins k with
        | some srcs => outs.flatMap (fun o => srcs.map (fun s => (s, (o, k))))
        | none => []) = (dotTags e2 ins).flatMap (fun k => match dotSrcs e2 ins k with
        | some srcs => outs.flatMap (fun o => srcs.map (fun s => (s, (o, k))))
        | none => [])
    rw [h1, h2]
  | cart a b oa ob =>
    have h1 := h a (by simp [Node.ins])
    have h2 := h b (by simp [Node.ins])
    simp only [nodeProv, h1, h2]

/-- the edges of a network are the edges its nodes record on the final contents of the ports -/
theorem prov_go_mem_iff {np : Nat} {avail : List Nat} {post : List Node} (hs : StructOk np avail post) (E : Env)
    (x : TokId × TokId) : x ∈ prov.go E post ↔ ∃ n ∈ post, x ∈ nodeProv (post.foldl nodeDen E) n := by
  induction post generalizing avail E with
  | nil =>
    constructor
    · intro h; cases h
    · rintro ⟨n, hn, _⟩; cases hn
  | cons m post ih =>
    have h4 := (structOk_cons.mp hs).2.2.2
    have hc : nodeProv ((m :: post).foldl nodeDen E) m = nodeProv E m :=
      nodeProv_congr _ _ m (fun q hq => hs.foldl_get_ins E q hq)
    rw [prov_go_cons, List.mem_append, ih h4 (nodeDen E m)]
    constructor
    · rintro (h | ⟨n, hn, h⟩)
      · exact ⟨m, List.mem_cons_self, hc ▸ h⟩
      · exact ⟨n, List.mem_cons_of_mem _ hn, h⟩
    · rintro ⟨n, hn, h⟩
      rcases List.mem_cons.mp hn with rfl | hn
      · exact Or.inl (hc ▸ h)
      · exact Or.inr ⟨n, hn, h⟩

theorem prov_mem_iff (sp : Spec) (hwf : wfStruct sp = true) (x : TokId × TokId) :
    x ∈ prov sp ↔ ∃ n ∈ sp.nodes, x ∈ nodeProv (den sp) n :=
  prov_go_mem_iff (structOk_of_wfStruct sp hwf) (srcEnv sp) x

/-! ## i. the edges of a network against the final contents of the ports -/

theorem prov_target_den (sp : Spec) (hwf : wfStruct sp = true)
    (hd : ∀ n ∈ sp.nodes, n.isDot = true → n.outs.length ≤ n.ins.length) (x : TokId × TokId) (hx : x ∈ prov sp) :
    Present (den sp) x.2.1 x.2.2 := by
  obtain ⟨n, hn, h⟩ := (prov_mem_iff sp hwf x).mp hx
  obtain ⟨j, hj, t, ht, hk⟩ := nodeProv_target (den sp) n (hd n hn) x h
  exact ⟨t, by rw [den_node_eq sp hwf n hn j _ hj]; exact ht, hk⟩

theorem prov_source_den (sp : Spec) (hwf : wfStruct sp = true) (x : TokId × TokId) (hx : x ∈ prov sp) :
    Present (den sp) x.1.1 x.1.2 ∨ ∃ n ∈ sp.nodes, IsGatherSizeEdge n x := by
  obtain ⟨n, hn, h⟩ := (prov_mem_iff sp hwf x).mp hx
  rcases nodeProv_source (den sp) n x h with h | h
  · exact Or.inl h
  · exact Or.inr ⟨n, hn, h⟩

theorem prov_complete_den (sp : Spec) (hwf : wfStruct sp = true) (n : Node) (hn : n ∈ sp.nodes)
    (hne : n.isExec = false) (o : Nat) (ho : o ∈ n.outs) (t : Tok) (ht : t ∈ (den sp).get o) :
    ∃ x ∈ prov sp, x.2 = (o, t.tag) := by
  obtain ⟨j, hj⟩ := List.mem_iff_getElem?.mp ho
  rw [den_node_eq sp hwf n hn j o hj] at ht
  obtain ⟨x, hx, hx2⟩ := nodeProv_complete (den sp) n hne j o hj t ht
  exact ⟨x, (prov_mem_iff sp hwf x).mpr ⟨n, hn, hx⟩, hx2⟩

/-- every token of the final state sits on a source/closed port, or on an output of an exec pipeline, or has an
incoming provenance edge -/
theorem den_token_has_edge (sp : Spec) (hwf : wfStruct sp = true) (p : Nat) (t : Tok) (ht : t ∈ (den sp).get p) :
    p ∈ sp.srcPorts ∨ (∃ n ∈ sp.nodes, n.isExec = true ∧ p ∈ n.outs) ∨ ∃ x ∈ prov sp, x.2 = (p, t.tag) := by
  by_cases hs : p ∈ sp.srcPorts
  · exact Or.inl hs
  · by_cases hp : ∃ n ∈ sp.nodes, p ∈ n.outs
    · obtain ⟨n, hn, ho⟩ := hp
      cases hne : n.isExec with
      | true => exact Or.inr (Or.inl ⟨n, hn, hne, ho⟩)
      | false => exact Or.inr (Or.inr (prov_complete_den sp hwf n hn hne p ho t ht))
    · have : (den sp).get p = [] := den_get_unused sp p hs (fun n hn ho => hp ⟨n, hn, ho⟩)
      rw [this] at ht
      cases ht

/-- the dependees of an emitted token of a transformer / conditional are exactly the tokens with the same tag on
the input ports -/
theorem groupProv_dependees {ins outs : List Nat} {ls : List (List Tok)} {d : TokId} {o : Nat} {k : Tag} :
    (d, (o, k)) ∈ groupProv ins outs ls ↔
      (∃ q ∈ ins, d = (q, k)) ∧ ∃ j : Nat, outs[j]? = some o ∧ ∃ t ∈ ls[j]?.getD [], t.tag = k := by
  rw [mem_groupProv]
  constructor
  · rintro ⟨j, o', t, q, h1, h2, hq, heq⟩
    simp only [Prod.mk.injEq] at heq
    obtain ⟨rfl, rfl, rfl⟩ := heq
    exact ⟨⟨q, hq, rfl⟩, j, h1, t, h2, rfl⟩
  · rintro ⟨⟨q, hq, rfl⟩, j, h1, t, h2, rfl⟩
    exact ⟨j, o, t, q, h1, h2, hq, rfl⟩

/-- the dependees of a list emitted by a gather: the size token of the key and the elements with that key -/
theorem gather_dependees {e : Env} {inp size out d : Nat} {x : TokId} {k : Tag} :
    (x, (out, k)) ∈ nodeProv e (.gather inp size out d) ↔
      (∃ g ∈ gatherOut (e.get inp) (e.get size) d, g.tag = k) ∧
      (x = (size, k) ∨ ∃ t ∈ e.get inp, (d < t.tag.length ∧ gatherKey d t.tag = k) ∧ x = (inp, t.tag)) := by
  rw [mem_nodeProv_gather]
  constructor
  · rintro ⟨g, hg, heq | ⟨t, ht, hk, heq⟩⟩
    · simp only [Prod.mk.injEq] at heq
      obtain ⟨rfl, _, rfl⟩ := heq
      exact ⟨⟨g, hg, rfl⟩, Or.inl rfl⟩
    · simp only [Prod.mk.injEq] at heq
      obtain ⟨rfl, _, rfl⟩ := heq
      exact ⟨⟨g, hg, rfl⟩, Or.inr ⟨t, ht, hk, rfl⟩⟩
  · rintro ⟨⟨g, hg, rfl⟩, rfl | ⟨t, ht, hk, rfl⟩⟩
    · exact ⟨g, hg, Or.inl rfl⟩
    · exact ⟨g, hg, Or.inr ⟨t, ht, hk, rfl⟩⟩

/-! ## j. example workflows used in `SFV/Props/C07Net.lean` -/

/-- source list → scatter → transformer → gather -/
def exChain : Spec :=
  { nports := 5, sources := [(0, .list [.int 1, .int 2, .int 3])], closed := [],
    nodes := [.scatter 0 1 2, .tf (.add 10) [1] [3], .gather 3 2 4 1] }

/-- a forced gather: the size port 5 is closed and stays empty, the edge from it is recorded all the same -/
def exForced : Spec :=
  { nports := 7, sources := [(0, .list [.int 1, .int 2])], closed := [5],
    nodes := [.scatter 0 1 2, .gather 1 5 6 1] }

/-- dot product of two branches: every combination is linked to one token per input port, on both outputs -/
def exDotProv : Spec :=
  { nports := 7, sources := [(0, .list [.int 1, .int 2])], closed := [],
    nodes := [.scatter 0 1 2, .tf (.add 10) [1] [3], .tf .sum [1] [4], .dot [3, 4] [5, 6]] }

end SFV.Net
