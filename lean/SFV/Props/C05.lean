import SFV.Lemmas.NetConfl
import SFV.Lemmas.NetPerm
/-! # C05 — the result of a workflow does not depend on the schedule

A complete run of a workflow leaves on every port a log of tokens. Whatever the scheduler did, the family of
logs is `Consistent`: source ports hold their pre-loaded token and the output ports of every node hold, up to
order, what the node's semantic function yields on the logs of its input ports. The theorems below say that
there is, up to the order of the tokens on each port, exactly one consistent family, namely the executable
denotation `den` that the driver compares with the real run.

Property theorems only; definitions in `SFV/Model/Net.lean` and `SFV/Lemmas/NetDefs.lean`, lemmas in
`SFV/Lemmas/NetConfl.lean` (network induction) and `SFV/Lemmas/NetPerm.lean` (per-node order independence). -/
namespace SFV.C05
open SFV.Net

/-- **Soundness of `den`, non-vacuity of `Consistent`.** On a structurally well-formed workflow (topological
order, one producer per port) the denotation is a consistent family of logs. -/
theorem den_consistent (sp : Spec) (hwf : wfStruct sp = true) : Consistent sp (den sp) :=
  SFV.Net.den_consistent sp hwf

/-- `den` solves the node equations exactly: output port number `j` of a node holds component `j` of the
node's semantic function applied to `den` itself (the empty log if the function yields fewer components) -/
theorem den_node_eq (sp : Spec) (hwf : wfStruct sp = true) (n : Node) (hn : n ∈ sp.nodes) (j o : Nat)
    (hj : n.outs[j]? = some o) : (den sp).get o = (nodeOut (den sp) n)[j]?.getD [] :=
  SFV.Net.den_node_eq sp hwf n hn j o hj

/-- **Every complete run computes `den`.** If the input ports of every node hold pairwise distinct tags (and
prefix antichains for dot-product combinators) in `den`, every consistent family of logs, i.e. the logs of
every complete run under every scheduler, holds on every port exactly the tokens of `den`, up to order. -/
theorem run_eq_den (sp : Spec) (hwf : wfStruct sp = true) (hok : ∀ n ∈ sp.nodes, NodeInputsOk (den sp) n)
    (logs : Env) (h : Consistent sp logs) : ∀ p, (logs.get p).Perm ((den sp).get p) :=
  SFV.Net.run_eq_den nodeOut_perm sp hwf hok logs h

/-- **Confluence.** Two complete runs of the same workflow agree on every port up to order. -/
theorem confluence (sp : Spec) (hwf : wfStruct sp = true) (hok : ∀ n ∈ sp.nodes, NodeInputsOk (den sp) n)
    (l1 l2 : Env) (h1 : Consistent sp l1) (h2 : Consistent sp l2) : ∀ p, (l1.get p).Perm (l2.get p) :=
  SFV.Net.confluence nodeOut_perm sp hwf hok l1 l2 h1 h2

/-- the hypotheses on the node inputs follow from the two executable checks that the driver evaluates on
every generated workflow -/
theorem inputs_ok_of_checks (sp : Spec) (hwf : wfStruct sp = true) (hdyn : wfDyn sp = true) :
    ∀ n ∈ sp.nodes, NodeInputsOk (den sp) n :=
  nodeInputsOk_of_wf sp hwf hdyn

/-- **Checked version.** The hypotheses are the executable checks `wfStruct` and `wfDyn`: on every workflow
that passes them, the logs of every complete run are `den` up to order on every port. -/
theorem run_eq_den_checked (sp : Spec) (hwf : wfStruct sp = true) (hdyn : wfDyn sp = true) (logs : Env)
    (h : Consistent sp logs) : ∀ p, (logs.get p).Perm ((den sp).get p) :=
  SFV.Net.run_eq_den_checked nodeOut_perm sp hwf hdyn logs h

/-- confluence under the executable checks -/
theorem confluence_checked (sp : Spec) (hwf : wfStruct sp = true) (hdyn : wfDyn sp = true) (l1 l2 : Env)
    (h1 : Consistent sp l1) (h2 : Consistent sp l2) : ∀ p, (l1.get p).Perm (l2.get p) :=
  SFV.Net.confluence_checked nodeOut_perm sp hwf hdyn l1 l2 h1 h2

/-- in particular every complete run leaves the same number of tokens on every port -/
theorem run_token_count (sp : Spec) (hwf : wfStruct sp = true) (hdyn : wfDyn sp = true) (logs : Env)
    (h : Consistent sp logs) (p : Nat) : (logs.get p).length = ((den sp).get p).length :=
  (run_eq_den_checked sp hwf hdyn logs h p).length_eq

/-- ports that are neither source/closed ports nor outputs of a node stay empty -/
theorem den_unused_port_empty (sp : Spec) (p : Nat) (hs : p ∉ sp.srcPorts) (hp : ∀ n ∈ sp.nodes, p ∉ n.outs) :
    (den sp).get p = [] :=
  den_get_unused sp p hs hp

/-- source and closed ports keep their pre-loaded content: no node writes them -/
theorem den_source_port (sp : Spec) (hwf : wfStruct sp = true) (p : Nat) (hs : p ∈ sp.srcPorts) :
    (den sp).get p = (srcEnv sp).get p ∧ ∀ n ∈ sp.nodes, p ∉ n.outs :=
  ⟨den_get_src sp hwf p hs, fun n hn ho => srcPorts_not_outs sp hwf n hn p ho hs⟩

/-- **One producer per port.** In a structurally well-formed workflow `pre ++ n :: post` no other node writes
an output port of `n`, and neither `n` nor a later node writes an input port of `n`. -/
theorem single_producer (sp : Spec) (hwf : wfStruct sp = true) (pre post : List Node) (n : Node)
    (hn : sp.nodes = pre ++ n :: post) :
    (∀ m ∈ pre, ∀ o ∈ n.outs, o ∉ m.outs) ∧ (∀ m ∈ post, ∀ o ∈ n.outs, o ∉ m.outs) ∧
      (∀ m ∈ n :: post, ∀ q ∈ n.ins, q ∉ m.outs) :=
  (hn ▸ structOk_of_wfStruct sp hwf).single_producer

/-- a node's outputs only depend on the contents of its input ports -/
theorem node_reads_inputs_only (e1 e2 : Env) (n : Node) (h : ∀ q ∈ n.ins, e1.get q = e2.get q) :
    nodeOut e1 n = nodeOut e2 n :=
  nodeOut_congr e1 e2 n h

/-! ## Examples -/

/-- source list → scatter → transformer → gather -/
def exGather : Spec :=
  { nports := 5, sources := [(0, .list [.int 1, .int 2, .int 3])], closed := [],
    nodes := [.scatter 0 1 2, .tf (.add 10) [1] [3], .gather 3 2 4 1] }

example : wfStruct exGather = true := by decide

example : Consistent exGather (den exGather) := den_consistent exGather (by decide)

/-- source list → scatter → two transformers → dot product with two outputs; port 7 is closed -/
def exDot : Spec :=
  { nports := 8, sources := [(0, .list [.int 1, .int 2, .int 3])], closed := [7],
    nodes := [.scatter 0 1 2, .tf (.add 10) [1] [3], .tf .sum [1] [4], .dot [3, 4] [5, 6]] }

example : wfStruct exDot = true := by decide

example : wfDyn exDot = true := by decide

/-- the hypotheses of `run_eq_den` / `confluence` hold on a concrete workflow, and a consistent family exists -/
example : (∀ n ∈ exDot.nodes, NodeInputsOk (den exDot) n) ∧ Consistent exDot (den exDot) :=
  ⟨inputs_ok_of_checks exDot (by decide) (by decide), den_consistent exDot (by decide)⟩

/-- what every complete run of `exDot` leaves on the two outputs of the dot product, up to order -/
example :
    ((den exDot).get 5).map (fun t => (t.tag, t.val.sum)) = [([0, 0], 11), ([0, 1], 12), ([0, 2], 13)] ∧
    ((den exDot).get 6).map (fun t => (t.tag, t.val.sum)) = [([0, 0], 1), ([0, 1], 2), ([0, 2], 3)] ∧
    ((den exDot).get 7).length = 0 := by
  decide

/-- port 9 is neither a source nor an output -/
example : (den exDot).get 9 = [] := den_unused_port_empty exDot 9 (by decide) (by decide)

example (logs : Env) (h : Consistent exDot logs) : (logs.get 5).length = 3 := by
  rw [run_token_count exDot (by decide) (by decide) logs h 5]
  decide

end SFV.C05
