import SFV.Lemmas.DeployF
/-! No connector is undeployed twice; (repaired `FutureConnector.undeploy`) no lazily deployed connector is leaked. -/
namespace SFV.Deploy

attribute [local grind] Obj.active Obj.live Obj.absent Fut.absent

macro "sg" : tactic => `(tactic| first | (simp; done) | (simp; grind) | grind)

def InvB (s : St) : Prop := ∀ o, Bad.doubleUndeploy o ∉ s.bad

theorem invB_callUndeploy {s : St} {p o e} (h : InvB s) (hu : (s.objs o).und = .none) : InvB (callUndeploy s p o e) := by
  unfold callUndeploy InvB at *
  intro o'
  have := h o'
  simp [hu]
  (try split) <;> simp_all

theorem invB_of_bad_eq {s t : St} (h : InvB s) (hb : t.bad = s.bad) : InvB t := by
  unfold InvB at *; rw [hb]; exact h

theorem bad_finishDeploy (s : St) (p) : (finishDeploy s p).bad = s.bad := by
  unfold finishDeploy; split <;> rfl

theorem bad_register (s : St) (p) : (register s p).bad = s.bad := by
  unfold register; split <;> simp [bad_finishDeploy]

theorem bad_afterWait (s : St) (p) : (afterWait s p).bad = s.bad := by
  unfold afterWait; split <;> (try split) <;> simp [bad_finishDeploy, bad_register]

theorem bad_loopHead (s : St) (p) : (loopHead s p).bad = s.bad := by
  unfold loopHead; (repeat' split) <;> simp [bad_afterWait, bad_register]

theorem bad_useStart (s : St) (p) : (useStart s p).bad = s.bad := by
  unfold useStart; simp only []; (repeat' split) <;> simp

theorem invB_uBody {cfg : Cfg} {s : St} {p} (hE : InvE s) (hF : InvF s) (h : InvB s) : InvB (uBody cfg s p) := by
  obtain ⟨f0, f1, f2, g1, g2, g3, g4, g5⟩ := hF
  obtain ⟨h1, h2, h3, h3', ⟨h4, h4b⟩, h5, h6, h7, h8, h9, h10, h11, h12, h13, h14⟩ := hE
  unfold uBody
  split
  · rename_i x dm e hdg hdm hev
    split
    · rename_i o
      have := h6 o hdm
      exact invB_callUndeploy (invB_of_bad_eq h rfl) (by simp; grind)
    · rename_i f
      split
      · rename_i o hconn
        have ho := h14 f o hconn
        have := g1 f o hdm ho.1
        exact invB_callUndeploy (invB_of_bad_eq h rfl) (by simpa using this)
      · split <;> exact invB_of_bad_eq h rfl
  · exact invB_of_bad_eq h rfl
  · exact invB_of_bad_eq h rfl

theorem invB_step {cfg : Cfg} {s a s'} (hE : InvE s) (hF : InvF s) (h : InvB s) (hs : step cfg s a = some s') : InvB s' := by
  have hF' := hF
  have hE' := hE
  obtain ⟨f0, f1, f2, g1, g2, g3, g4, g5⟩ := hF
  obtain ⟨h1, h2, h3, h3', ⟨h4, h4b⟩, h5, h6, h7, h8, h9, h10, h11, h12, h13, h14⟩ := hE
  cases a with
  | start p =>
    simp only [step] at hs
    (repeat' split at hs) <;> first
      | (cases hs; done)
      | (cases hs; first
          | exact invB_of_bad_eq h (bad_loopHead _ _)
          | exact invB_uBody hE' hF' h
          | exact invB_of_bad_eq h (bad_useStart _ _)
          | exact invB_of_bad_eq h rfl)
  | wake p =>
    simp only [step] at hs
    split at hs
    · cases hs; exact invB_of_bad_eq h (bad_afterWait _ _)
    · cases hs; exact invB_uBody hE' hF' h
    · split at hs <;> (cases hs; exact invB_of_bad_eq h rfl)
    · rename_i f e hpc
      split at hs
      · rename_i o hconn
        have ho := h14 f o hconn
        cases hs
        exact invB_callUndeploy h (g2 p f e o (Or.inr hpc) ho.1)
      · split at hs
        · cases hs; exact invB_of_bad_eq h rfl
        · cases hs
    · cases hs
  | connOk p =>
    simp only [step] at hs
    (repeat' split at hs) <;> first
      | (cases hs; done)
      | (cases hs; first | exact invB_of_bad_eq h (by simp [bad_finishDeploy]) | exact invB_of_bad_eq h rfl)
  | connFail p =>
    simp only [step] at hs
    (repeat' split at hs) <;> first
      | (cases hs; done)
      | (cases hs; exact invB_of_bad_eq h rfl)

theorem invB_reachable {cfg lazy kinds s} (h : Reachable cfg lazy kinds s) : InvB s := by
  induction h with
  | init => simp [InvB, init]
  | step hr hs ih => exact invB_step (invE_reachable hr) (invF_reachable hr) ih hs

/-! `lazy` is a constant of the system -/
@[simp] theorem lazy_finishDeploy (s : St) (p) : (finishDeploy s p).lazy = s.lazy := by
  unfold finishDeploy; split <;> rfl
@[simp] theorem lazy_register (s : St) (p) : (register s p).lazy = s.lazy := by
  unfold register; split <;> simp
@[simp] theorem lazy_afterWait (s : St) (p) : (afterWait s p).lazy = s.lazy := by
  unfold afterWait; split <;> (try split) <;> simp
@[simp] theorem lazy_loopHead (s : St) (p) : (loopHead s p).lazy = s.lazy := by
  unfold loopHead; (repeat' split) <;> simp
@[simp] theorem lazy_useStart (s : St) (p) : (useStart s p).lazy = s.lazy := by
  unfold useStart; simp only []; (repeat' split) <;> simp
@[simp] theorem lazy_callUndeploy (s : St) (p o e) : (callUndeploy s p o e).lazy = s.lazy := by
  unfold callUndeploy; simp
@[simp] theorem lazy_uBody (cfg : Cfg) (s : St) (p) : (uBody cfg s p).lazy = s.lazy := by
  unfold uBody; (repeat' split) <;> simp

theorem lazy_step {cfg : Cfg} {s a s'} (hs : step cfg s a = some s') : s'.lazy = s.lazy := by
  cases a <;> simp only [step] at hs <;> (repeat' split at hs) <;> (cases hs <;> simp)

theorem lazy_reachable {cfg lazy kinds s} (h : Reachable cfg lazy kinds s) : s.lazy = lazy := by
  induction h with
  | init => rfl
  | step _ hs ih => rw [lazy_step hs, ih]

end SFV.Deploy
